package tests

// Demonstration for F-C19-3: ExistsStateUpdate.String() reads targetStateID without the
// lock that Apply() takes to write it.  The same update object is queued to every state of
// the mailbox; each session goroutine logs it (logrus field "Update", formatted with %v =
// String()) and then applies it, so with debug logging one session formats the update while
// another one writes the field.  Copy into /repo/tests/ and run:
//   go test -race -run TestFindingExistsUpdateStringRace ./tests/
// Before the fix the race detector reports "DATA RACE ... ExistsStateUpdate).String ...
// previous write ... ExistsStateUpdate).Apply" and the test fails.

import (
	"fmt"
	"io"
	"testing"
	"time"

	"github.com/sirupsen/logrus"
)

func TestFindingExistsUpdateStringRace(t *testing.T) {
	oldLevel, oldOut := logrus.GetLevel(), logrus.StandardLogger().Out
	logrus.SetLevel(logrus.DebugLevel)
	logrus.SetOutput(io.Discard)
	defer func() { logrus.SetLevel(oldLevel); logrus.SetOutput(oldOut) }()

	ids := []int{1, 2, 3, 4, 5, 6, 7}
	runManyToOneTestWithAuth(t, defaultServerOptions(t), ids, func(c map[int]*testConnection, s *testSession) {
		c[1].C("A001 CREATE shared").OK("A001")
		for _, i := range ids[1:] {
			c[i].C(fmt.Sprintf("S%v SELECT shared", i)).OK(fmt.Sprintf("S%v", i))
		}
		for n := 0; n < 30; n++ {
			c[1].doAppend("shared", buildRFC5322TestLiteral("To: 1@pm.me\r\n\r\nbody")).expect("OK")
			// every observer applies (and logs) the same queued ExistsStateUpdate
			for _, i := range ids[1:] {
				c[i].C(fmt.Sprintf("N%v NOOP", i))
			}
			for _, i := range ids[1:] {
				findingReadUntilTag(c[i], fmt.Sprintf("N%v", i))
			}
		}
		time.Sleep(100 * time.Millisecond)
	})
}

func findingReadUntilTag(c *testConnection, tag string) {
	for {
		line := string(c.read())
		if len(line) > len(tag) && line[:len(tag)+1] == tag+" " {
			return
		}
	}
}
