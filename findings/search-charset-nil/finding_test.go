package tests

import "testing"

// C11: a SEARCH naming an IANA charset that golang.org/x/text does not implement (UTF-7, UTF-32, ...) made
// ianaindex.IANA.Encoding return (nil, nil); handleSearch called NewDecoder on the nil encoding: nil pointer
// dereference in the command handler.  Expected: NO [BADCHARSET].
func TestFindingSearchUnsupportedCharsetIsRefused(t *testing.T) {
	runOneToOneTestWithAuth(t, defaultServerOptions(t), func(c *testConnection, _ *testSession) {
		c.C("A001 SELECT INBOX").OK("A001")
		c.C("A002 SEARCH CHARSET UTF-7 ALL")
		c.Sx(`A002 NO \[BADCHARSET`)
		// the session is still usable
		c.C("A003 NOOP").OK("A003")
	})
}
