package tests

// Demonstrations for the C19 known findings F-C19-1 and F-C19-2 (run with the race detector):
//
//	go test -race -run 'TestFindingRemoveStateReadsOtherSnapshot|TestFindingMessageIDChangedWritesSnapshot' ./tests/
//
// F-C19-1  user.removeState (run by the session that logs out) calls other.HasMessage for every
//          other state of the user: it reads that state's snapshot (pointer and message map) while
//          the owning session goroutine mutates it.
// F-C19-2  user.applyMessageIDChanged (connector-update goroutine) calls State.UpdateMessageRemoteID
//          on every state: it writes snapshot messages while the owning session reads them.
//
// Both tests FAIL under -race on the current tree (race detected during execution of test); they
// pass without -race because the interleaving only corrupts memory silently.

import (
	"fmt"
	"strings"
	"sync"
	"testing"
	"time"

	"github.com/ProtonMail/gluon/connector"
	"github.com/ProtonMail/gluon/imap"
)

func findingUntilTag(c *testConnection, tag string) []string {
	var lines []string
	for {
		line := string(c.read())
		lines = append(lines, line)
		if strings.HasPrefix(line, tag+" ") {
			return lines
		}
	}
}

func TestFindingRemoveStateReadsOtherSnapshot(t *testing.T) {
	ids := []int{1, 2, 3, 4}
	for i := 10; i < 40; i++ {
		ids = append(ids, i)
	}
	runManyToOneTestWithAuth(t, defaultServerOptions(t), ids, func(c map[int]*testConnection, s *testSession) {
		m1 := s.mailboxCreated("user", []string{"m1"})
		s.mailboxCreated("user", []string{"m2"})
		var remote []imap.MessageID
		for i := 0; i < 3; i++ {
			remote = append(remote, s.messageCreated("user", m1, []byte("To: 1@pm.me\r\n\r\nbody"), time.Now()))
		}
		// holder: keeps a snapshot of m1 that still contains the messages the connector is about
		// to delete, so that they stay "marked as deleted" and every removeState has ids to filter.
		c[3].C("H001 SELECT m1").OK("H001")
		// busy session: lives in m2 and keeps applying EXISTS updates to its snapshot
		c[2].C("B001 SELECT m2").OK("B001")
		for _, id := range remote {
			s.messageDeleted("user", id)
		}
		_ = c[4]

		var wg sync.WaitGroup
		stop := make(chan struct{})
		wg.Add(1)
		go func() {
			defer wg.Done()
			for n := 0; ; n++ {
				select {
				case <-stop:
					return
				default:
				}
				c[1].doAppend("m2", buildRFC5322TestLiteral("To: 2@pm.me\r\n\r\nbody")).expect("OK")
				c[2].C(fmt.Sprintf("N%v NOOP", n))
				findingUntilTag(c[2], fmt.Sprintf("N%v", n))
			}
		}()
		// meanwhile 30 sessions log out one after the other: each runs removeState
		for i := 10; i < 40; i++ {
			c[i].C(fmt.Sprintf("L%v LOGOUT", i))
			findingUntilTag(c[i], fmt.Sprintf("L%v", i))
			time.Sleep(5 * time.Millisecond)
		}
		close(stop)
		wg.Wait()
	})
}

// findingConnector lets the test put updates of its own on the connector's update stream.
type findingConnector struct {
	*connector.Dummy
	out    chan imap.Update
	stopCh chan struct{}
}

func (c *findingConnector) GetUpdates() <-chan imap.Update { return c.out }

func (c *findingConnector) forward() {
	in := c.Dummy.GetUpdates()
	for {
		select {
		case u, ok := <-in:
			if !ok {
				return
			}
			select {
			case c.out <- u:
			case <-c.stopCh:
				return
			}
		case <-c.stopCh:
			return
		}
	}
}

type findingConnectorBuilder struct{ created []*findingConnector }

func (b *findingConnectorBuilder) New(usernames []string, password []byte, period time.Duration, flags, permFlags, attrs imap.FlagSet) Connector {
	conn := &findingConnector{
		Dummy:  connector.NewDummy(usernames, password, period, flags, permFlags, attrs),
		out:    make(chan imap.Update),
		stopCh: make(chan struct{}),
	}
	go conn.forward()
	b.created = append(b.created, conn)
	return conn
}

func TestFindingMessageIDChangedWritesSnapshot(t *testing.T) {
	builder := &findingConnectorBuilder{}
	t.Cleanup(func() {
		for _, conn := range builder.created {
			close(conn.stopCh)
		}
	})
	runOneToOneTestWithAuth(t, defaultServerOptions(t, withConnectorBuilder(builder)), func(c *testConnection, s *testSession) {
		mboxID := s.mailboxCreated("user", []string{"mbox"})
		remoteID := s.messageCreated("user", mboxID, []byte("To: 1@pm.me\r\n\r\nbody"), time.Now())
		c.C("A001 SELECT mbox").OK("A001")
		// learn the internal id from the header gluon adds
		c.C("A002 FETCH 1 (BODY.PEEK[HEADER.FIELDS (X-Pm-Gluon-Id)])")
		var internalID imap.InternalMessageID
		for _, l := range findingUntilTag(c, "A002") {
			if i := strings.Index(l, "X-Pm-Gluon-Id: "); i >= 0 {
				id, err := imap.InternalMessageIDFromString(strings.TrimSpace(strings.SplitN(l[i+len("X-Pm-Gluon-Id: "):], "\r", 2)[0]))
				if err != nil {
					t.Fatal(err)
				}
				internalID = id
			}
		}
		conn := builder.created[0]
		var wg sync.WaitGroup
		stop := make(chan struct{})
		wg.Add(1)
		go func() {
			defer wg.Done()
			for {
				select {
				case <-stop:
					return
				case conn.out <- imap.NewMessageIDChanged(internalID, remoteID): // same remote id: only the write matters
				}
			}
		}()
		for n := 0; n < 400; n++ {
			// FETCH BODY[] copies the snapshot message's id pair (to find the literal) without
			// going through the database lock; STORE reads it to talk to the connector
			c.C(fmt.Sprintf(`F%v FETCH 1 (BODY.PEEK[])`, n))
			findingUntilTag(c, fmt.Sprintf("F%v", n))
			c.C(fmt.Sprintf(`S%v STORE 1 +FLAGS (\Flagged)`, n))
			findingUntilTag(c, fmt.Sprintf("S%v", n))
		}
		close(stop)
		wg.Wait()
	})
}
