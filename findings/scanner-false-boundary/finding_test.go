package rfc822

import (
	"testing"
)

func TestFindingUnclosedMultipartFalseBoundary(t *testing.T) {
	const msg = "Content-Type: multipart/mixed; boundary=b\r\n\r\n--b\r\nA: 1\r\n\r\nline1\r\n--bx not a boundary\r\nline2\r\n"
	p := Parse([]byte(msg))
	cs, _ := p.Children()
	for i, c := range cs {
		t.Logf("child %d: %q", i, string(c.Literal()))
	}
	const msg2 = msg + "--b--\r\n"
	p2 := Parse([]byte(msg2))
	cs2, _ := p2.Children()
	for i, c := range cs2 {
		t.Logf("closed child %d: %q", i, string(c.Literal()))
	}
}
