package sqlite3

// Demonstrations for the T-SQL findings (F-C08-1..3, F-C06-1).  Copy into
// /repo/internal/db_impl/sqlite3/ and run:  go test -run TestFinding ./internal/db_impl/sqlite3/
// Each test fails on the tree before the corresponding "fix:" commit and passes after it.

import (
	"context"
	"fmt"
	"testing"
	"time"

	"github.com/ProtonMail/gluon/db"
	"github.com/ProtonMail/gluon/imap"
)

func findingClient(t *testing.T) *Client {
	t.Helper()
	c, _, err := NewClient(t.TempDir(), "user", false, false)
	if err != nil {
		t.Fatal(err)
	}
	if err := c.Init(context.Background(), imap.DefaultEpochUIDValidityGenerator()); err != nil {
		t.Fatal(err)
	}
	t.Cleanup(func() { _ = c.Close() })
	return c
}

func findingSetup(t *testing.T, c *Client, n int) (imap.InternalMailboxID, []imap.InternalMessageID) {
	t.Helper()
	ctx := context.Background()
	var mboxID imap.InternalMailboxID
	var ids []imap.InternalMessageID
	if err := c.Write(ctx, func(ctx context.Context, tx db.Transaction) error {
		mbox, err := tx.CreateMailbox(ctx, "remote-mbox", "Folder", imap.NewFlagSet(), imap.NewFlagSet(), imap.NewFlagSet(), 1)
		if err != nil {
			return err
		}
		mboxID = mbox.ID
		var reqs []*db.CreateMessageReq
		var pairs []db.MessageIDPair
		for i := 0; i < n; i++ {
			id := imap.NewInternalMessageID()
			ids = append(ids, id)
			rid := imap.MessageID(fmt.Sprintf("remote-%d", i))
			reqs = append(reqs, &db.CreateMessageReq{Message: imap.Message{ID: rid, Flags: imap.NewFlagSet(), Date: time.Now()}, InternalID: id})
			pairs = append(pairs, db.MessageIDPair{InternalID: id, RemoteID: rid})
		}
		if err := tx.CreateMessages(ctx, reqs...); err != nil {
			return err
		}
		_, err = tx.AddMessagesToMailbox(ctx, mboxID, pairs)
		return err
	}); err != nil {
		t.Fatal(err)
	}
	return mboxID, ids
}

// F-C08-1: removing more messages than one chunk leaves rows behind.
func TestFindingRemoveMessagesBeyondChunkLimit(t *testing.T) {
	c := findingClient(t)
	mboxID, ids := findingSetup(t, c, db.ChunkLimit+500)
	ctx := context.Background()
	if err := c.Write(ctx, func(ctx context.Context, tx db.Transaction) error {
		return tx.RemoveMessagesFromMailbox(ctx, mboxID, ids)
	}); err != nil {
		t.Fatal(err)
	}
	if err := c.Read(ctx, func(ctx context.Context, r db.ReadOnly) error {
		n, err := r.GetMailboxMessageCount(ctx, mboxID)
		if err != nil {
			return err
		}
		if n != 0 {
			t.Errorf("mailbox still holds %d messages after removing all %d", n, len(ids))
		}
		for _, id := range []imap.InternalMessageID{ids[0], ids[len(ids)-1]} {
			mb, err := r.GetMessageMailboxIDs(ctx, id)
			if err != nil {
				return err
			}
			if len(mb) != 0 {
				t.Errorf("message %v still mapped to mailboxes %v", id, mb)
			}
		}
		return nil
	}); err != nil {
		t.Fatal(err)
	}
}

// F-C08-2: SetFlagsOnMessages sets the flags on every message of the batch.
func TestFindingSetFlagsOnSeveralMessages(t *testing.T) {
	c := findingClient(t)
	_, ids := findingSetup(t, c, 3)
	ctx := context.Background()
	if err := c.Write(ctx, func(ctx context.Context, tx db.Transaction) error {
		return tx.SetFlagsOnMessages(ctx, ids, imap.NewFlagSet(imap.FlagSeen, imap.FlagFlagged))
	}); err != nil {
		t.Fatal(err)
	}
	if err := c.Read(ctx, func(ctx context.Context, r db.ReadOnly) error {
		fl, err := r.GetMessagesFlags(ctx, ids)
		if err != nil {
			return err
		}
		for _, f := range fl {
			if !f.FlagSet.ContainsAll(imap.FlagSeen, imap.FlagFlagged) {
				t.Errorf("message %v has flags %v, want \\Seen \\Flagged", f.ID, f.FlagSet.ToSlice())
			}
		}
		return nil
	}); err != nil {
		t.Fatal(err)
	}
}

// F-C08-3: MailboxExistsWithID is a valid statement.
func TestFindingMailboxExistsWithID(t *testing.T) {
	c := findingClient(t)
	mboxID, _ := findingSetup(t, c, 1)
	if err := c.Read(context.Background(), func(ctx context.Context, r db.ReadOnly) error {
		ok, err := r.MailboxExistsWithID(ctx, mboxID)
		if err != nil {
			return err
		}
		if !ok {
			t.Errorf("existing mailbox reported as missing")
		}
		return nil
	}); err != nil {
		t.Fatal(err)
	}
}

// F-C06-1: UpdateRemoteMessageID can be applied.
func TestFindingUpdateRemoteMessageID(t *testing.T) {
	c := findingClient(t)
	_, ids := findingSetup(t, c, 1)
	ctx := context.Background()
	if err := c.Write(ctx, func(ctx context.Context, tx db.Transaction) error {
		return tx.UpdateRemoteMessageID(ctx, ids[0], "new-remote-id")
	}); err != nil {
		t.Fatal(err)
	}
	if err := c.Read(ctx, func(ctx context.Context, r db.ReadOnly) error {
		rid, err := r.GetMessageRemoteID(ctx, ids[0])
		if err != nil {
			return err
		}
		if rid != "new-remote-id" {
			t.Errorf("remote id is %q", rid)
		}
		return nil
	}); err != nil {
		t.Fatal(err)
	}
}
