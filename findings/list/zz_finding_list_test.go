package tests

// Demonstrations for F-C14-1 (hierarchy delimiter spliced raw into a regular expression:
// with the delimiter `\` any LIST with % panics the server) and F-C14-2 (the LIST/LSUB
// reference argument is not modified-UTF-7 decoded).  Copy into /repo/tests/ and run
//   go test -run TestFindingList ./tests/

import (
	"strings"
	"testing"
)

func findingTagged4(c *testConnection, tag, cmd string) ([]string, string) {
	c.C(tag + " " + cmd)
	var untagged []string
	for {
		line := string(c.read())
		if strings.HasPrefix(line, tag+" ") {
			return untagged, strings.TrimSpace(line)
		}
		untagged = append(untagged, strings.TrimSpace(line))
	}
}

func TestFindingListBackslashDelimiter(t *testing.T) {
	runOneToOneTestWithAuth(t, defaultServerOptions(t, withDelimiter(`\`)), func(c *testConnection, _ *testSession) {
		c.C(`A001 CREATE "a\\b"`).OK("A001")
		un, res := findingTagged4(c, "A002", `LIST "" "%"`)
		if !strings.HasPrefix(res, "A002 OK") {
			t.Fatalf("LIST with %% and delimiter \\ answered %q (%q)", res, un)
		}
		found := false
		for _, l := range un {
			if strings.Contains(l, `"a"`) {
				found = true
			}
		}
		if !found {
			t.Fatalf("LIST \"\" %% did not return the top-level name a: %q", un)
		}
	})
}

func TestFindingListReferenceIsDecoded(t *testing.T) {
	runOneToOneTestWithAuth(t, defaultServerOptions(t), func(c *testConnection, _ *testSession) {
		// "Entwürfe/x" in modified UTF-7
		c.C(`A001 CREATE "Entw&APw-rfe/x"`).OK("A001")
		un1, _ := findingTagged4(c, "A002", `LIST "" "Entw&APw-rfe/%"`)
		un2, _ := findingTagged4(c, "A003", `LIST "Entw&APw-rfe/" "%"`)
		has := func(ls []string) bool {
			for _, l := range ls {
				if strings.Contains(l, "Entw&APw-rfe/x") {
					return true
				}
			}
			return false
		}
		if !has(un1) {
			t.Fatalf("control failed: pattern form does not list the mailbox: %q", un1)
		}
		if !has(un2) {
			t.Fatalf("reference form does not list the mailbox (reference not decoded): %q", un2)
		}
	})
}
