package rfcparser

// Demonstration for F-C11-1: a stream that ends inside a quoted string makes ParseQuoted
// loop forever (IsQuotedChar accepted the EOF token) and grow its buffer on every turn.
// Copy into /repo/rfcparser/ and run: go test -run TestFindingQuotedEOF ./rfcparser/

import (
	"bytes"
	"io"
	"testing"
)

type eofCountingReader struct {
	r       *bytes.Reader
	pastEOF int
}

func (e *eofCountingReader) Read(p []byte) (int, error) {
	n, err := e.r.Read(p)
	if err == io.EOF {
		e.pastEOF++
		if e.pastEOF > 10000 {
			panic("parser keeps reading past end of input")
		}
	}
	return n, err
}

func TestFindingQuotedEOF(t *testing.T) {
	defer func() {
		if v := recover(); v != nil {
			t.Fatalf("ParseQuoted does not terminate on a truncated quoted string: %v", v)
		}
	}()
	p := NewParser(NewScanner(&eofCountingReader{r: bytes.NewReader([]byte(`"abc`))}))
	if err := p.Advance(); err != nil {
		t.Fatal(err)
	}
	if _, err := p.ParseQuoted(); err == nil {
		t.Fatalf("truncated quoted string accepted")
	}
}
