package store

import (
	"bytes"
	"io"
	"runtime"
	"sync"
	"sync/atomic"
	"testing"
	"time"

	"github.com/ProtonMail/gluon/imap"
)

// tornStore writes a value in two halves (like truncate + rewrite of a file): whoever reads between the halves
// sees an incomplete value.  WriteControlledStore must make that impossible for one id.
type tornStore struct {
	a, b atomic.Value
}

func (s *tornStore) Get(imap.InternalMessageID) ([]byte, error) {
	x, _ := s.a.Load().([]byte)
	runtime.Gosched()
	y, _ := s.b.Load().([]byte)

	return append(append([]byte{}, x...), y...), nil
}

func (s *tornStore) Set(_ imap.InternalMessageID, rd io.Reader) error {
	r, err := io.ReadAll(rd)
	if err != nil {
		return err
	}

	s.a.Store(r[:len(r)/2])
	runtime.Gosched()
	s.b.Store(r[len(r)/2:])

	return nil
}

func (s *tornStore) Delete(...imap.InternalMessageID) error { return nil }
func (s *tornStore) Close() error                            { return nil }
func (s *tornStore) List() ([]imap.InternalMessageID, error) { return nil, nil }

// TestFindingStaleReleaseDropsNewerLockEntry: one writer alternates two values of one id, readers of the same id
// must only ever see one of the two complete values.
func TestFindingStaleReleaseDropsNewerLockEntry(t *testing.T) {
	impl := &tornStore{}
	w := NewWriteControlledStore(impl)
	id := imap.NewInternalMessageID()
	v1, v2 := bytes.Repeat([]byte("A"), 8), bytes.Repeat([]byte("B"), 8)

	if err := w.Set(id, bytes.NewReader(v1)); err != nil {
		t.Fatal(err)
	}

	var torn atomic.Value
	stop := make(chan struct{})
	wg := sync.WaitGroup{}

	for i := 0; i < 24; i++ {
		wg.Add(1)

		go func(i int) {
			defer wg.Done()

			for n := 0; ; n++ {
				select {
				case <-stop:
					return
				default:
				}

				if i%3 == 0 {
					v := v1
					if n%2 == 1 {
						v = v2
					}

					_ = w.Set(id, bytes.NewReader(v))
				} else if b, _ := w.Get(id); !bytes.Equal(b, v1) && !bytes.Equal(b, v2) {
					torn.Store(string(b))
				}
			}
		}(i)
	}

	deadline := time.After(8 * time.Second)
loop:
	for {
		select {
		case <-deadline:
			break loop
		case <-time.After(20 * time.Millisecond):
			if torn.Load() != nil {
				break loop
			}
		}
	}

	close(stop)
	wg.Wait()

	if v := torn.Load(); v != nil {
		t.Fatalf("a reader of the id saw the incomplete value %q while a Set of the same id was in progress", v)
	}
}
