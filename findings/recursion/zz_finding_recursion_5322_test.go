package rfc5322

// Demonstration for F-C12-1: unbounded recursion in RFC 5322 comment parsing. Before the fix
// the test binary dies with "fatal error: stack overflow".
// Copy into /repo/rfc5322/ and run: go test -run TestFindingCommentNesting ./rfc5322/

import (
	"strings"
	"testing"
)

func TestFindingCommentNesting(t *testing.T) {
	input := "a@b.c " + strings.Repeat("(", 12_000_000)
	if _, err := ParseAddressList(input); err == nil {
		t.Fatalf("12M nested comments accepted")
	}
}
