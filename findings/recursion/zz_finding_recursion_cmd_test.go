package command

// Demonstration for F-C11-2: unbounded recursion in search-key parsing. Before the fix the
// test binary dies with "fatal error: stack overflow" (goroutine stack exceeds 1 GB).
// Copy into /repo/imap/command/ and run: go test -run TestFindingSearchNesting ./imap/command/

import (
	"bytes"
	"testing"

	"github.com/ProtonMail/gluon/rfcparser"
)

func TestFindingSearchNesting(t *testing.T) {
	input := append([]byte("tag SEARCH "), bytes.Repeat([]byte("("), 6_000_000)...)
	input = append(input, []byte("ALL\r\n")...)
	p := NewParser(rfcparser.NewScanner(bytes.NewReader(input)))
	if _, err := p.Parse(); err == nil {
		t.Fatalf("6M nested parentheses accepted")
	}
}
