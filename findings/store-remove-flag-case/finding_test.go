package tests

// Demonstration of the genuine defect behind rule R03.12 (property C03).
// Copy into /repo/tests and run:  go test ./tests/ -run TestFindingStoreRemoveFlagOtherCase
// Before the fix ("fix: remove flags from the index case-insensitively") the fresh session still sees `Foo`.

import "testing"

func TestFindingStoreRemoveFlagOtherCase(t *testing.T) {
	runManyToOneTestWithAuth(t, defaultServerOptions(t), []int{1, 2}, func(c map[int]*testConnection, _ *testSession) {
		c[1].C(`A001 CREATE mbox`).OK(`A001`)
		c[1].doAppend(`mbox`, buildRFC5322TestLiteral(`To: a@pm.me`), `Foo`).expect(`OK`)
		c[1].C(`A002 SELECT mbox`).OK(`A002`)
		// the session that issues the command is told the flag is gone ...
		c[1].C(`A003 STORE 1 -FLAGS (FOO)`)
		c[1].Sx(`\* 1 FETCH`)
		c[1].OK(`A003`)
		// ... and so must be every session that opens the mailbox afterwards (flags are case-insensitive)
		c[2].C(`B001 SELECT mbox`).OK(`B001`)
		c[2].C(`B002 FETCH 1 (FLAGS)`)
		c[2].Sx(`^\* 1 FETCH \(FLAGS \((\\Recent)?\)\)`)
		c[2].OK(`B002`)
	})
}
