package tests

// Demonstration for F-C03-1: STORE n FLAGS () (replace with the empty set) is answered OK and
// the issuing session sees no flags, but the flags stay in the database: a newly opened
// session still sees them.  Copy into /repo/tests/ and run
//   go test -run TestFindingStoreEmptyFlagList ./tests/

import (
	"strings"
	"testing"
)

func TestFindingStoreEmptyFlagList(t *testing.T) {
	runManyToOneTestWithAuth(t, defaultServerOptions(t), []int{1, 2}, func(c map[int]*testConnection, s *testSession) {
		c[1].C("A001 CREATE box").OK("A001")
		c[1].doAppend("box", buildRFC5322TestLiteral("To: 1@pm.me\r\n\r\nbody"), `\Seen`, `\Flagged`).expect("OK")
		c[1].C("A002 SELECT box").OK("A002")
		c[1].C("A003 STORE 1 FLAGS ()").OK("A003")
		// a fresh session must see the message without \Seen / \Flagged
		c[2].C("B001 SELECT box").OK("B001")
		un, _ := findingTagged3(c[2], "B002", "FETCH 1 (FLAGS)")
		joined := strings.Join(un, " ")
		if strings.Contains(joined, `\Seen`) || strings.Contains(joined, `\Flagged`) {
			t.Fatalf("after STORE 1 FLAGS () a new session still sees: %q", un)
		}
	})
}

func findingTagged3(c *testConnection, tag, cmd string) ([]string, string) {
	c.C(tag + " " + cmd)
	var untagged []string
	for {
		line := string(c.read())
		if strings.HasPrefix(line, tag+" ") {
			return untagged, strings.TrimSpace(line)
		}
		untagged = append(untagged, strings.TrimSpace(line))
	}
}
