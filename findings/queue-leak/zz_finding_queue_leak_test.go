package tests

// Demonstration for F-C19-4: State.Close closes its update queue with the non-discarding
// QueuedChannel.Close().  The queue's pump goroutine then keeps trying to hand the remaining
// updates to a channel nobody reads any more: with more than the channel buffer (32) still queued
// when the session ends, the goroutine blocks for ever - one leaked goroutine per such session
// ("once closed it leaves no goroutine behind" is violated; goleak in TestMain reports it too).
// Copy into /repo/tests/ and run: go test -run TestFindingStateQueueLeakAfterClose ./tests/

import (
	"runtime"
	"strings"
	"testing"
	"time"

	"github.com/ProtonMail/gluon/connector"
	"github.com/ProtonMail/gluon/imap"
)

type leakConnector struct {
	*connector.Dummy
	out    chan imap.Update
	stopCh chan struct{}
}

func (c *leakConnector) GetUpdates() <-chan imap.Update { return c.out }

func (c *leakConnector) forward() {
	in := c.Dummy.GetUpdates()
	for {
		select {
		case u, ok := <-in:
			if !ok {
				return
			}
			select {
			case c.out <- u:
			case <-c.stopCh:
				return
			}
		case <-c.stopCh:
			return
		}
	}
}

type leakConnectorBuilder struct{ created []*leakConnector }

func (b *leakConnectorBuilder) New(usernames []string, password []byte, period time.Duration, flags, permFlags, attrs imap.FlagSet) Connector {
	conn := &leakConnector{
		Dummy:  connector.NewDummy(usernames, password, period, flags, permFlags, attrs),
		out:    make(chan imap.Update),
		stopCh: make(chan struct{}),
	}
	go conn.forward()
	b.created = append(b.created, conn)
	return conn
}

func pumpGoroutines() int {
	buf := make([]byte, 8<<20)
	n := runtime.Stack(buf, true)
	return strings.Count(string(buf[:n]), "async.NewQueuedChannel[...].func1")
}

func TestFindingStateQueueLeakAfterClose(t *testing.T) {
	before := pumpGoroutines()
	builder := &leakConnectorBuilder{}
	t.Cleanup(func() {
		for _, conn := range builder.created {
			close(conn.stopCh)
		}
	})
	runOneToOneTestWithAuth(t, defaultServerOptions(t, withConnectorBuilder(builder)), func(c *testConnection, s *testSession) {
		mboxID := s.mailboxCreated("user", []string{"mbox"})
		big := "To: 1@pm.me\r\n\r\n" + strings.Repeat("0123456789abcdef0123456789abcdef0123456789abcdef0123456789abcde\r\n", 4096)
		remoteID := s.messageCreated("user", mboxID, []byte(big), time.Now())
		_ = c
		slow := s.newConnection()
		slow.Login("user", "pass")
		slow.C("A001 SELECT mbox").OK("A001")
		// a slow client: it asks for a lot of data and does not read it, so the session blocks writing
		for i := 0; i < 200; i++ {
			slow.C("F FETCH 1 (BODY.PEEK[])")
		}
		time.Sleep(300 * time.Millisecond)
		// meanwhile the connector reports flag changes of the selected message: they queue up for the session
		conn := builder.created[0]
		for i := 0; i < 200; i++ {
			flags := imap.NewFlagSet()
			if i%2 == 0 {
				flags = imap.NewFlagSet(imap.FlagSeen)
			}
			select {
			case conn.out <- imap.NewMessageFlagsUpdated(remoteID, flags):
			case <-time.After(5 * time.Second):
				t.Fatal("connector update not accepted")
			}
		}
		time.Sleep(200 * time.Millisecond)
		// the client gives up
		_ = slow.disconnect()
		// the broken connection is reported on the server's error channel; take it off so that
		// the harness sees a clean shutdown
		select {
		case <-s.server.GetErrorCh():
		case <-time.After(2 * time.Second):
		}
		time.Sleep(300 * time.Millisecond)
	})
	// the server is closed now: no state exists any more, so no update queue pump may be left
	deadline := time.Now().Add(3 * time.Second)
	for time.Now().Before(deadline) && pumpGoroutines() > before {
		time.Sleep(50 * time.Millisecond)
	}
	if left := pumpGoroutines() - before; left > 0 {
		t.Fatalf("%d update-queue pump goroutine(s) of closed states are still blocked after Server.Close", left)
	}
}
