package utils

// Demonstration for F-C08-4: a query whose iteration fails part-way (here: context
// cancelled after the first row) is reported as a complete, shorter result.
// Copy into /repo/internal/db_impl/sqlite3/utils/ and run: go test -run TestFindingRowsErr .

import (
	"context"
	"database/sql"
	"testing"
	"time"

	_ "github.com/mattn/go-sqlite3"
)

func TestFindingRowsErr(t *testing.T) {
	dbc, err := sql.Open("sqlite3", "file::memory:?cache=shared")
	if err != nil {
		t.Fatal(err)
	}
	defer dbc.Close()
	dbc.SetMaxOpenConns(1)
	if _, err := dbc.Exec("CREATE TABLE t (v integer)"); err != nil {
		t.Fatal(err)
	}
	const total = 2000
	tx, _ := dbc.Begin()
	for i := 0; i < total; i++ {
		if _, err := tx.Exec("INSERT INTO t (v) VALUES (?)", i); err != nil {
			t.Fatal(err)
		}
	}
	if err := tx.Commit(); err != nil {
		t.Fatal(err)
	}

	ctx, cancel := context.WithCancel(context.Background())
	defer cancel()
	n := 0
	res, err := MapQueryRowsFn(ctx, DBWrapper{DB: dbc}, "SELECT v FROM t", func(s RowScanner) (int, error) {
		var v int
		if err := s.Scan(&v); err != nil {
			return 0, err
		}
		n++
		if n == 1 {
			cancel()
			time.Sleep(200 * time.Millisecond) // let database/sql notice the cancellation
		}
		return v, nil
	})
	if err == nil && len(res) != total {
		t.Fatalf("iteration was interrupted after %d of %d rows but MapQueryRowsFn reported success", len(res), total)
	}
	t.Logf("rows=%d err=%v", len(res), err)
}
