package tests

// Demonstration for F-C02-1: an EXPUNGE for a message whose EXISTS is still queued in the
// observing session is filtered out (the filter looks only at the snapshot), so the
// observer learns about a message that no longer exists and keeps it for ever.
// Copy into /repo/tests/ and run: go test -run TestFindingQueuedExistsThenExpunge ./tests/

import (
	"strings"
	"testing"
	"time"
)

func findingTagged2(c *testConnection, tag, cmd string) ([]string, string) {
	c.C(tag + " " + cmd)
	var untagged []string
	for {
		line := string(c.read())
		if strings.HasPrefix(line, tag+" ") {
			return untagged, strings.TrimSpace(line)
		}
		untagged = append(untagged, strings.TrimSpace(line))
	}
}

func TestFindingQueuedExistsThenExpunge(t *testing.T) {
	runManyToOneTestWithAuth(t, defaultServerOptions(t), []int{1, 2}, func(c map[int]*testConnection, s *testSession) {
		c[1].C("A001 CREATE shared").OK("A001")
		// observer selects the (empty) mailbox and then stays idle (no flush)
		c[1].C("A002 SELECT shared").OK("A002")
		// actor appends, deletes and expunges the message in the same mailbox
		c[2].C("B001 SELECT shared").OK("B001")
		c[2].doAppend("shared", buildRFC5322TestLiteral("To: 1@pm.me\r\n\r\nbody")).expect("OK")
		c[2].C(`B002 STORE 1 +FLAGS (\Deleted)`).OK("B002")
		c[2].C("B003 EXPUNGE").OK("B003")
		time.Sleep(300 * time.Millisecond)
		// let the observer process its queued updates: first NOOP may only queue, so do two
		un1, _ := findingTagged2(c[1], "A003", "NOOP")
		un2, _ := findingTagged2(c[1], "A004", "NOOP")
		// reconstruct the observer's count from EXISTS/EXPUNGE
		count := 0
		for _, l := range append(un1, un2...) {
			f := strings.Fields(l)
			if len(f) == 3 && f[0] == "*" && f[2] == "EXISTS" {
				if f[1] == "1" {
					count = 1
				}
			}
			if len(f) == 3 && f[0] == "*" && f[2] == "EXPUNGE" {
				count--
			}
		}
		// the authoritative mailbox is empty; a fresh session sees 0 messages
		un3, _ := findingTagged2(c[2], "B004", "STATUS shared (MESSAGES)")
		if !strings.Contains(strings.Join(un3, " "), "MESSAGES 0") {
			t.Fatalf("authoritative mailbox not empty: %q", un3)
		}
		if count != 0 {
			t.Fatalf("observer was told EXISTS but never EXPUNGE: announced view holds %d message(s) while the mailbox is empty (untagged: %q %q)", count, un1, un2)
		}
		// and the observer's own view agrees
		un4, _ := findingTagged2(c[1], "A005", "FETCH 1:* (UID)")
		for _, l := range un4 {
			if strings.Contains(l, "FETCH") {
				t.Fatalf("observer still sees the expunged message: %q", l)
			}
		}
	})
}
