package tests

// Demonstrations for F-C17-1..3 (limits).  Copy into /repo/tests/ and run
//   go test -run TestFindingLimit ./tests/

import (
	"context"
	"fmt"
	"strings"
	"sync"
	"sync/atomic"
	"testing"
	"time"

	"github.com/ProtonMail/gluon/connector"

	"github.com/ProtonMail/gluon/imap"
	"github.com/ProtonMail/gluon/limits"
)

func findingTagged5(c *testConnection, tag, cmd string) ([]string, string) {
	c.C(tag + " " + cmd)
	var untagged []string
	for {
		line := string(c.read())
		if strings.HasPrefix(line, tag+" ") {
			return untagged, strings.TrimSpace(line)
		}
		untagged = append(untagged, strings.TrimSpace(line))
	}
}

func findingCountMailboxes(c *testConnection, tag string) int {
	un, _ := findingTagged5(c, tag, `LIST "" "*"`)
	n := 0
	for _, l := range un {
		if strings.HasPrefix(l, "* LIST") {
			n++
		}
	}
	return n
}

// F-C17-1: CREATE with implicit parents is checked once but creates k mailboxes.
func TestFindingLimitCreateWithParents(t *testing.T) {
	const maxMailboxes = 4 // INBOX and the hidden recovery mailbox already count
	lim := limits.NewIMAPLimits(maxMailboxes, 1000, 1000, 1<<30)
	runOneToOneTestWithAuth(t, defaultServerOptions(t, withIMAPLimits(lim), withUIDValidityGenerator(imap.NewIncrementalUIDValidityGenerator())), func(c *testConnection, _ *testSession) {
		_, res := findingTagged5(c, "A001", "CREATE a/b/c/d/e")
		// either refused as a whole, or accepted within the limit
		n := findingCountMailboxes(c, "A002") + 1 // + recovery mailbox (not listed while empty)
		if n > maxMailboxes {
			t.Fatalf("CREATE a/b/c/d/e answered %q and left %d mailboxes, limit is %d", res, n, maxMailboxes)
		}
	})
}

// F-C17-2: RENAME creates missing superiors without any limit check.
func TestFindingLimitRenameWithParents(t *testing.T) {
	const maxMailboxes = 4
	lim := limits.NewIMAPLimits(maxMailboxes, 1000, 1000, 1<<30)
	runOneToOneTestWithAuth(t, defaultServerOptions(t, withIMAPLimits(lim), withUIDValidityGenerator(imap.NewIncrementalUIDValidityGenerator())), func(c *testConnection, _ *testSession) {
		c.C("A001 CREATE x").OK("A001")
		_, res := findingTagged5(c, "A002", "RENAME x p/q/r/s/x")
		n := findingCountMailboxes(c, "A003") + 1
		if n > maxMailboxes {
			t.Fatalf("RENAME answered %q and left %d mailboxes, limit is %d", res, n, maxMailboxes)
		}
	})
}

// F-C17-3: the APPEND limit check runs in a read transaction before the inserting one:
// concurrent sessions all pass it.
func TestFindingLimitConcurrentAppend(t *testing.T) {
	const maxMessages = 3
	lim := limits.NewIMAPLimits(100, maxMessages, 1000, 1<<30)
	ids := []int{1, 2, 3, 4, 5, 6, 7, 8}
	for round := 0; round < 15; round++ {
		over := 0
		runManyToOneTestWithAuth(t, defaultServerOptions(t, withIMAPLimits(lim), withUIDValidityGenerator(imap.NewIncrementalUIDValidityGenerator())), ids, func(c map[int]*testConnection, _ *testSession) {
			var wg sync.WaitGroup
			for _, id := range ids {
				id := id
				wg.Add(1)
				go func() {
					defer wg.Done()
					for k := 0; k < 2; k++ {
						lit := buildRFC5322TestLiteral(fmt.Sprintf("To: %d-%d@pm.me\r\n\r\nbody", id, k))
						tag := fmt.Sprintf("T%d%d", id, k)
						c[id].Cf(`%v APPEND INBOX {%v}`, tag, len(lit))
						c[id].Sx(`\+.*`)
						c[id].C(lit)
						for {
							line := string(c[id].read())
							if strings.HasPrefix(line, tag+" ") {
								break
							}
						}
					}
				}()
			}
			wg.Wait()
			un, _ := findingTagged5(c[1], "S001", "STATUS INBOX (MESSAGES)")
			var n int
			for _, l := range un {
				if i := strings.Index(l, "MESSAGES "); i >= 0 {
					fmt.Sscanf(l[i:], "MESSAGES %d", &n)
				}
			}
			if n > maxMessages {
				over = n
			}
		})
		if over > 0 {
			t.Fatalf("round %d: INBOX holds %d messages, limit is %d", round, over, maxMessages)
		}
	}
}

func findingStatusMessages(c *testConnection, tag, mbox string) string {
	un, _ := findingTagged5(c, tag, "STATUS "+mbox+" (MESSAGES)")
	for _, l := range un {
		if i := strings.Index(l, "MESSAGES "); i >= 0 {
			return strings.TrimRight(l[i+len("MESSAGES "):], ")")
		}
	}
	return "?"
}

// F-C17-4: a COPY that does not fit is refused, but the connector has already been told to add the
// messages; when it echoes them back they are added one by one up to the limit: a partial effect of a
// refused multi-message operation.
func TestFindingLimitRefusedCopyHasNoPartialEffect(t *testing.T) {
	const maxMessages = 3
	lim := limits.NewIMAPLimits(100, maxMessages, 1<<30, 1<<30)
	runOneToOneTestWithAuth(t, defaultServerOptions(t, withIMAPLimits(lim), withUIDValidityGenerator(imap.NewIncrementalUIDValidityGenerator())), func(c *testConnection, s *testSession) {
		c.C("A001 CREATE src").OK("A001")
		c.C("A002 CREATE dst").OK("A002")
		for i := 0; i < 3; i++ {
			c.doAppend("src", buildRFC5322TestLiteral(fmt.Sprintf("To: %d@pm.me\r\n\r\nbody", i))).expect("OK")
		}
		c.doAppend("dst", buildRFC5322TestLiteral("To: d@pm.me\r\n\r\nbody")).expect("OK")
		s.flush("user")
		c.C("A003 SELECT src").OK("A003")
		// the limit also applies to connector updates; the test connector would panic on a refused one
		s.setUpdatesAllowedToFail("user", true)
		_, res := findingTagged5(c, "A004", "COPY 1:3 dst") // 1 + 3 > 3: must be refused
		if !strings.HasPrefix(res, "A004 NO") {
			t.Fatalf("COPY beyond the limit answered %q", res)
		}
		// let the connector deliver whatever it has queued
		s.flush("user")
		s.flush("user")
		if got := findingStatusMessages(c, "A005", "dst"); got != "1" {
			t.Fatalf("the refused COPY 1:3 left %s messages in dst (1 before the command, limit %d): partial effect", got, maxMessages)
		}
	})
}

// findingFailingCreates fails CreateMessage while `fail` is set (so that APPENDs end in the recovery mailbox).
type findingFailingCreates struct {
	*connector.Dummy
	fail atomic.Bool
}

func (r *findingFailingCreates) CreateMessage(ctx context.Context, cache connector.IMAPStateWrite, mboxID imap.MailboxID, literal []byte, flags imap.FlagSet, date time.Time) (imap.Message, []byte, error) {
	if r.fail.Load() {
		return imap.Message{}, nil, fmt.Errorf("failed")
	}
	return r.Dummy.CreateMessage(ctx, cache, mboxID, literal, flags, date)
}

type findingFailingCreatesBuilder struct{ conns []*findingFailingCreates }

func (b *findingFailingCreatesBuilder) New(usernames []string, password []byte, period time.Duration, flags, permFlags, attrs imap.FlagSet) Connector {
	c := &findingFailingCreates{Dummy: connector.NewDummy(usernames, password, period, flags, permFlags, attrs)}
	b.conns = append(b.conns, c)
	return c
}

// F-C17-5: COPY out of the recovery mailbox imports the messages into the connector before the
// destination's limits are checked.
func TestFindingLimitRefusedCopyOutOfRecoveryHasNoPartialEffect(t *testing.T) {
	const maxMessages = 3
	lim := limits.NewIMAPLimits(100, maxMessages, 1<<30, 1<<30)
	b := &findingFailingCreatesBuilder{}
	runOneToOneTestWithAuth(t, defaultServerOptions(t, withIMAPLimits(lim), withConnectorBuilder(b), withUIDValidityGenerator(imap.NewIncrementalUIDValidityGenerator())), func(c *testConnection, s *testSession) {
		c.C("A001 CREATE dst").OK("A001")
		for i := 0; i < 2; i++ {
			c.doAppend("dst", buildRFC5322TestLiteral(fmt.Sprintf("To: d%d@pm.me\r\n\r\nbody", i))).expect("OK")
		}
		// two APPENDs that the connector rejects end in the recovery mailbox
		b.conns[0].fail.Store(true)
		for i := 0; i < 2; i++ {
			c.doAppend("dst", buildRFC5322TestLiteral(fmt.Sprintf("To: r%d@pm.me\r\n\r\nbody", i))).expect("NO")
		}
		b.conns[0].fail.Store(false)
		s.flush("user")
		c.C(`A002 SELECT "Recovered Messages"`).OK("A002")
		s.setUpdatesAllowedToFail("user", true)
		_, res := findingTagged5(c, "A003", "COPY 1:2 dst") // 2 + 2 > 3: must be refused
		if !strings.HasPrefix(res, "A003 NO") {
			t.Fatalf("COPY beyond the limit answered %q", res)
		}
		s.flush("user")
		s.flush("user")
		if got := findingStatusMessages(c, "A004", "dst"); got != "2" {
			t.Fatalf("the refused COPY 1:2 out of the recovery mailbox left %s messages in dst (2 before the command, limit %d): partial effect", got, maxMessages)
		}
	})
}
