package tests

// Demonstrations for F-C17-1..3 (limits).  Copy into /repo/tests/ and run
//   go test -run TestFindingLimit ./tests/

import (
	"fmt"
	"strings"
	"sync"
	"testing"

	"github.com/ProtonMail/gluon/imap"
	"github.com/ProtonMail/gluon/limits"
)

func findingTagged5(c *testConnection, tag, cmd string) ([]string, string) {
	c.C(tag + " " + cmd)
	var untagged []string
	for {
		line := string(c.read())
		if strings.HasPrefix(line, tag+" ") {
			return untagged, strings.TrimSpace(line)
		}
		untagged = append(untagged, strings.TrimSpace(line))
	}
}

func findingCountMailboxes(c *testConnection, tag string) int {
	un, _ := findingTagged5(c, tag, `LIST "" "*"`)
	n := 0
	for _, l := range un {
		if strings.HasPrefix(l, "* LIST") {
			n++
		}
	}
	return n
}

// F-C17-1: CREATE with implicit parents is checked once but creates k mailboxes.
func TestFindingLimitCreateWithParents(t *testing.T) {
	const maxMailboxes = 4 // INBOX and the hidden recovery mailbox already count
	lim := limits.NewIMAPLimits(maxMailboxes, 1000, 1000, 1<<30)
	runOneToOneTestWithAuth(t, defaultServerOptions(t, withIMAPLimits(lim), withUIDValidityGenerator(imap.NewIncrementalUIDValidityGenerator())), func(c *testConnection, _ *testSession) {
		_, res := findingTagged5(c, "A001", "CREATE a/b/c/d/e")
		// either refused as a whole, or accepted within the limit
		n := findingCountMailboxes(c, "A002") + 1 // + recovery mailbox (not listed while empty)
		if n > maxMailboxes {
			t.Fatalf("CREATE a/b/c/d/e answered %q and left %d mailboxes, limit is %d", res, n, maxMailboxes)
		}
	})
}

// F-C17-2: RENAME creates missing superiors without any limit check.
func TestFindingLimitRenameWithParents(t *testing.T) {
	const maxMailboxes = 4
	lim := limits.NewIMAPLimits(maxMailboxes, 1000, 1000, 1<<30)
	runOneToOneTestWithAuth(t, defaultServerOptions(t, withIMAPLimits(lim), withUIDValidityGenerator(imap.NewIncrementalUIDValidityGenerator())), func(c *testConnection, _ *testSession) {
		c.C("A001 CREATE x").OK("A001")
		_, res := findingTagged5(c, "A002", "RENAME x p/q/r/s/x")
		n := findingCountMailboxes(c, "A003") + 1
		if n > maxMailboxes {
			t.Fatalf("RENAME answered %q and left %d mailboxes, limit is %d", res, n, maxMailboxes)
		}
	})
}

// F-C17-3: the APPEND limit check runs in a read transaction before the inserting one:
// concurrent sessions all pass it.
func TestFindingLimitConcurrentAppend(t *testing.T) {
	const maxMessages = 3
	lim := limits.NewIMAPLimits(100, maxMessages, 1000, 1<<30)
	ids := []int{1, 2, 3, 4, 5, 6, 7, 8}
	for round := 0; round < 15; round++ {
		over := 0
		runManyToOneTestWithAuth(t, defaultServerOptions(t, withIMAPLimits(lim), withUIDValidityGenerator(imap.NewIncrementalUIDValidityGenerator())), ids, func(c map[int]*testConnection, _ *testSession) {
			var wg sync.WaitGroup
			for _, id := range ids {
				id := id
				wg.Add(1)
				go func() {
					defer wg.Done()
					for k := 0; k < 2; k++ {
						lit := buildRFC5322TestLiteral(fmt.Sprintf("To: %d-%d@pm.me\r\n\r\nbody", id, k))
						tag := fmt.Sprintf("T%d%d", id, k)
						c[id].Cf(`%v APPEND INBOX {%v}`, tag, len(lit))
						c[id].Sx(`\+.*`)
						c[id].C(lit)
						for {
							line := string(c[id].read())
							if strings.HasPrefix(line, tag+" ") {
								break
							}
						}
					}
				}()
			}
			wg.Wait()
			un, _ := findingTagged5(c[1], "S001", "STATUS INBOX (MESSAGES)")
			var n int
			for _, l := range un {
				if i := strings.Index(l, "MESSAGES "); i >= 0 {
					fmt.Sscanf(l[i:], "MESSAGES %d", &n)
				}
			}
			if n > maxMessages {
				over = n
			}
		})
		if over > 0 {
			t.Fatalf("round %d: INBOX holds %d messages, limit is %d", round, over, maxMessages)
		}
	}
}
