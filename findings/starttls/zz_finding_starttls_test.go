package tests

// Demonstration for F-C11-3: STARTTLS on a server without TLS configuration gets no
// completion result at all; the session is closed.  Copy into /repo/tests/ and run
//   go test -run TestFindingStartTLSWithoutTLS ./tests/

import (
	"bufio"
	"context"
	"net"
	"strings"
	"testing"
	"time"

	"github.com/ProtonMail/gluon"
	"github.com/stretchr/testify/require"
)

func TestFindingStartTLSWithoutTLS(t *testing.T) {
	server, err := gluon.New(gluon.WithDataDir(t.TempDir()), gluon.WithDatabaseDir(t.TempDir()))
	require.NoError(t, err)
	ctx, cancel := context.WithCancel(context.Background())
	defer cancel()
	listener, err := net.Listen("tcp", net.JoinHostPort("localhost", "0"))
	require.NoError(t, err)
	require.NoError(t, server.Serve(ctx, listener))
	defer func() {
		_ = server.Close(ctx)
		<-server.GetErrorCh()
		_ = listener.Close()
	}()

	conn, err := net.Dial("tcp", listener.Addr().String())
	require.NoError(t, err)
	defer conn.Close()
	_ = conn.SetDeadline(time.Now().Add(10 * time.Second))
	br := bufio.NewReader(conn)
	greeting, err := br.ReadString('\n')
	require.NoError(t, err)
	require.True(t, strings.HasPrefix(greeting, "* OK"), greeting)

	_, err = conn.Write([]byte("A001 STARTTLS\r\n"))
	require.NoError(t, err)
	line, err := br.ReadString('\n')
	if err != nil || !strings.HasPrefix(line, "A001 NO") {
		t.Fatalf("STARTTLS without TLS: got %q, err=%v; want a tagged NO", line, err)
	}
	// the session stays usable
	_, err = conn.Write([]byte("A002 NOOP\r\n"))
	require.NoError(t, err)
	line, err = br.ReadString('\n')
	if err != nil || !strings.HasPrefix(line, "A002 OK") {
		t.Fatalf("NOOP after refused STARTTLS: got %q, err=%v", line, err)
	}
}
