package tests

// Demonstration for F-C01-1: a held-back EXISTS is later inserted in the middle of the snapshot.
//
// Session 1 has the mailbox selected.  Session 2 copies message A onto its own mailbox (gluon removes and
// re-adds it: EXPUNGE + EXISTS with a new UID for session 1) and then appends B.  Session 1 issues a FETCH
// (EXPUNGE must be held back, and with it the EXISTS of the re-added A), so it only learns about B.  On the
// next NOOP the held-back pair is released: A is expunged and re-inserted by UID order *before* B.  The
// client - which can only append new messages at the end - now has a different sequence-number-to-UID
// mapping than the server answers from.
// Copy into /repo/tests/ and run: go test -run TestFindingMidListInsert ./tests/

import (
	"fmt"
	"regexp"
	"strings"
	"testing"
	"time"
)

func findingTagged7(c *testConnection, tag, cmd string) []string {
	c.C(tag + " " + cmd)
	var lines []string
	for {
		line := strings.TrimSpace(string(c.read()))
		lines = append(lines, line)
		if strings.HasPrefix(line, tag+" ") {
			return lines
		}
	}
}

func TestFindingMidListInsert(t *testing.T) {
	runManyToOneTestWithAuth(t, defaultServerOptions(t), []int{1, 2}, func(c map[int]*testConnection, s *testSession) {
		c[1].C("A001 CREATE mbox").OK("A001")
		c[1].doAppend("mbox", buildRFC5322TestLiteral("To: a@pm.me\r\n\r\nA")).expect("OK")
		c[1].C("A002 SELECT mbox").OK("A002")
		// the client's model of the mailbox: UIDs by sequence number (0 = not yet known)
		model := []string{"1"}

		c[2].C("B001 SELECT mbox").OK("B001")
		c[2].C("B002 COPY 1 mbox").OK("B002") // A is removed and re-added with a new UID
		c[2].doAppend("mbox", buildRFC5322TestLiteral("To: b@pm.me\r\n\r\nB")).expect("OK")
		time.Sleep(300 * time.Millisecond)

		apply := func(lines []string) {
			reEx := regexp.MustCompile(`^\* (\d+) EXPUNGE`)
			reExists := regexp.MustCompile(`^\* (\d+) EXISTS`)
			reUID := regexp.MustCompile(`^\* (\d+) FETCH .*UID (\d+)`)
			for _, l := range lines {
				if m := reEx.FindStringSubmatch(l); m != nil {
					var n int
					fmt.Sscan(m[1], &n)
					model = append(model[:n-1], model[n:]...)
				}
				if m := reExists.FindStringSubmatch(l); m != nil {
					var n int
					fmt.Sscan(m[1], &n)
					for len(model) < n {
						model = append(model, "?") // new messages can only appear at the end
					}
				}
				if m := reUID.FindStringSubmatch(l); m != nil {
					var n int
					fmt.Sscan(m[1], &n)
					if n <= len(model) {
						if model[n-1] != "?" && model[n-1] != m[2] {
							t.Fatalf("sequence number %d was UID %s in the view announced to this session, the server now answers UID %s (%q)", n, model[n-1], m[2], l)
						}
						model[n-1] = m[2]
					}
				}
			}
		}
		// FETCH: no EXPUNGE may be sent, the new message B is announced
		apply(findingTagged7(c[1], "A003", "FETCH 1:* (UID)"))
		apply(findingTagged7(c[1], "A004", "FETCH 1:* (UID)"))
		// NOOP releases the held-back EXPUNGE/EXISTS pair
		apply(findingTagged7(c[1], "A005", "NOOP"))
		apply(findingTagged7(c[1], "A006", "NOOP"))
		// what does the server answer from now?
		apply(findingTagged7(c[1], "A007", "FETCH 1:* (UID)"))
	})
}
