package tests

import "testing"

func TestFindingTrailingGarbageIsAnsweredWithItsTag(t *testing.T) {
	runOneToOneTestWithAuth(t, defaultServerOptions(t), func(c *testConnection, _ *testSession) {
		c.C("A003 NOOP x")
		c.Sx(`^A003 BAD`)
		c.C("A004 NOOP").OK("A004")
	})
}

func TestFindingBareLFLineIsAnsweredWithItsTag(t *testing.T) {
	runOneToOneTestWithAuth(t, defaultServerOptions(t), func(c *testConnection, _ *testSession) {
		c.Cf("A005 NOOP\nA006 NOOP")
		c.Sx(`^A005 BAD`)
		c.C("A007 NOOP").OK("A007")
	})
}
