package tests

// Demonstrations for F-C16-1 / F-C16-2 (message sets).  Copy into /repo/tests/ and run
//   go test -run TestFindingSeq ./tests/
// Both fail before the corresponding "fix:" commits and pass after.

import (
	"strings"
	"testing"
)

// findingTagged sends a command and returns the untagged lines and the tagged completion.
func findingTagged(c *testConnection, tag, cmd string) ([]string, string) {
	c.C(tag + " " + cmd)
	var untagged []string
	for {
		line := string(c.read())
		if strings.HasPrefix(line, tag+" ") {
			return untagged, strings.TrimSpace(line)
		}
		untagged = append(untagged, strings.TrimSpace(line))
	}
}

func findingWantBAD(t *testing.T, c *testConnection, tag, cmd string) {
	t.Helper()
	un, res := findingTagged(c, tag, cmd)
	if !strings.HasPrefix(res, tag+" BAD") {
		t.Errorf("%q answered %q (untagged %q), want BAD", cmd, res, un)
	}
}

// F-C16-1: numbers beyond 32 bits are truncated/wrapped onto existing messages.
func TestFindingSeqNumberTruncation(t *testing.T) {
	runOneToOneTestWithAuth(t, defaultServerOptions(t), func(c *testConnection, s *testSession) {
		c.C(`tag select inbox`).OK("tag")
		c.doAppend("inbox", buildRFC5322TestLiteral("To: 1@pm.me\r\n\r\none")).expect("OK")
		c.doAppend("inbox", buildRFC5322TestLiteral("To: 2@pm.me\r\n\r\ntwo")).expect("OK")
		// 2^32+1 must not select message 1
		findingWantBAD(t, c, "A001", `FETCH 4294967297 (UID)`)
		// 2^64+2 must not select message 2
		findingWantBAD(t, c, "A002", `FETCH 18446744073709551618 (UID)`)
		// a UID that does not exist is skipped silently (or rejected as not a 32-bit number),
		// but never mapped onto UID 1
		if un, _ := findingTagged(c, "A003", `UID FETCH 4294967297 (UID)`); len(un) != 0 {
			t.Errorf("UID FETCH 4294967297 returned %q", un)
		}
		findingWantBAD(t, c, "A004", `STORE 4294967298 +FLAGS (\Seen)`)
	})
}

// F-C16-2: SEARCH with a sequence number beyond the view must fail with BAD.
func TestFindingSeqSearchBeyondView(t *testing.T) {
	runOneToOneTestWithAuth(t, defaultServerOptions(t), func(c *testConnection, s *testSession) {
		c.C(`tag select inbox`).OK("tag")
		c.doAppend("inbox", buildRFC5322TestLiteral("To: 1@pm.me\r\n\r\none")).expect("OK")
		c.doAppend("inbox", buildRFC5322TestLiteral("To: 2@pm.me\r\n\r\ntwo")).expect("OK")
		c.C(`A001 SEARCH 1:2`).S("* SEARCH 1 2").OK("A001")
		findingWantBAD(t, c, "A002", `SEARCH 77`)
		findingWantBAD(t, c, "A003", `SEARCH 1:77`)
		c.C(`A004 SEARCH 2:*`).S("* SEARCH 2").OK("A004")
	})
}
