package tests

// Demonstration of the genuine defect behind rule R14.13 (property C14).
// Copy into /repo/tests and run:  go test ./tests/ -run TestFindingLsubAfterDeleteAndRecreate
// Before the fix ("fix: do not list a deleted subscription whose name exists again") LSUB answers
// `* LSUB (\Noselect) "/" "Work"` for a mailbox that exists and can be selected.

import "testing"

func TestFindingLsubAfterDeleteAndRecreate(t *testing.T) {
	runOneToOneTestWithAuth(t, defaultServerOptions(t), func(c *testConnection, _ *testSession) {
		c.C(`A001 CREATE Work`).OK(`A001`)
		c.C(`A003 DELETE Work`).OK(`A003`)
		c.C(`A004 CREATE Work`).OK(`A004`)
		c.C(`A006 LSUB "" "Work"`)
		c.Sx(`^\* LSUB \(\\Unmarked\) "." "Work"`)
		c.OK(`A006`)
	})
}
