// verifcheck decides the structural clauses of the gluon properties from /repo's source.
//
//	verifcheck -property C05 [-tier quick|thorough] [-repo /repo] [-verif /verif]
//	verifcheck -replay /verif/evidence/violations/C05-1.json
//
// Exit 0: every obligation discharged (or listed in known_findings.json);
// exit 1: at least one VIOLATION line; exit 2: infrastructure error (no verdict).
package main

import (
	"encoding/json"
	"flag"
	"fmt"
	"os"
	"os/exec"
	"path/filepath"
	"runtime/debug"
	"sort"
	"strings"
	"sync"
	"time"

	"verifchecker/internal/engine"
	"verifchecker/internal/report"
	"verifchecker/internal/rules"
)

var trusted = []string{
	"Go type checker and go/ssa construction (golang.org/x/tools v0.29.0)",
	"call graph: VTA seeded with CHA; gluon's own packages use no unsafe and reflect only for reflect.TypeOf (re-checked at load)",
	"rule tables printed under coverage.tables (filled from the code, one reason per entry)",
	"SQLite parser of go-sqlite3 v1.14.22 (T-SQL rules only)",
}

func main() {
	prop := flag.String("property", "", "property id (C01..C20)")
	tier := flag.String("tier", os.Getenv("VERIF_TIER"), "quick|thorough")
	repo := flag.String("repo", "/repo", "repository root")
	verif := flag.String("verif", "", "verif dir (default: parent of the binary's dir)")
	replay := flag.String("replay", "", "violation file to re-evaluate")
	noEvidence := flag.Bool("no-evidence", false, "do not write evidence (used for scratch copies)")
	list := flag.Bool("list", false, "list implemented properties")
	tags := flag.String("tags", "", "extra build tags")
	all := flag.Bool("all", false, "tooling: load the tree once and run every property's quick rules on it (no evidence written); exit 1 if any reports")
	flag.Parse()
	if *all {
		if *verif == "" {
			exe, _ := os.Executable()
			*verif = filepath.Dir(filepath.Dir(exe))
		}
		os.Exit(runAll(*repo, *verif, *tags))
	}

	if *list {
		fmt.Println(strings.Join(rules.IDs(), " "))
		return
	}
	if *tier == "" {
		*tier = "quick"
	}
	if *verif == "" {
		exe, _ := os.Executable()
		*verif = filepath.Dir(filepath.Dir(exe))
	}
	var replayKey string
	if *replay != "" {
		b, err := os.ReadFile(*replay)
		if err != nil {
			fmt.Println("ERROR", err)
			os.Exit(2)
		}
		var v struct {
			Property   string            `json:"property"`
			Obligation report.Obligation `json:"obligation"`
		}
		if err := json.Unmarshal(b, &v); err != nil {
			fmt.Println("ERROR", err)
			os.Exit(2)
		}
		*prop = v.Property
		replayKey = v.Obligation.Key
		*noEvidence = true
	}
	f := rules.Lookup(*prop)
	if f == nil {
		fmt.Printf("ERROR unknown property %q (have: %s)\n", *prop, strings.Join(rules.IDs(), " "))
		os.Exit(2)
	}
	code := run(*prop, *tier, *repo, *verif, *tags, replayKey, !*noEvidence, f)
	os.Exit(code)
}

// runAll is used by the cross-run tooling (tools/tryequiv_all.sh): one load, all properties, nothing written.
func runAll(repo, verif, tags string) (code int) {
	defer func() {
		if r := recover(); r != nil {
			fmt.Printf("ERROR checker panic: %v\n%s\n", r, debug.Stack())
			code = 2
		}
	}()
	cfg := engine.Config{Dir: repo}
	if tags != "" {
		cfg.Tags = strings.Split(tags, ",")
	}
	p, err := engine.Load(cfg)
	if err != nil {
		fmt.Println("ERROR", err)
		return 2
	}
	if err := p.CheckTrustedBase(); err != nil {
		fmt.Println("ERROR trusted base:", err)
		return 2
	}
	p.ApplyReference(filepath.Join(verif, "reference_funcs.json"))
	known, err := report.LoadKnown(filepath.Join(verif, "known_findings.json"))
	if err != nil {
		fmt.Println("ERROR", err)
		return 2
	}
	for _, id := range rules.IDs() {
		t0 := time.Now()
		r := report.NewRun(id, "quick")
		r.SetStart(t0)
		ctx := &rules.Ctx{P: p, R: r, Tier: "quick", VerifDir: verif}
		rules.Lookup(id)(ctx)
		if rc := r.Finish(verif, known, "verifcheck -all", trusted, false); rc != 0 {
			code = 1
		}
	}
	return code
}

func run(prop, tier, repo, verif, tags, replayKey string, evidence bool, f rules.PropFunc) (code int) {
	defer func() {
		if r := recover(); r != nil {
			fmt.Printf("ERROR checker panic: %v\n%s\n", r, debug.Stack())
			code = 2
		}
	}()
	t0 := time.Now()
	cfg := engine.Config{Dir: repo}
	if tags != "" {
		cfg.Tags = strings.Split(tags, ",")
	}
	p, err := engine.Load(cfg)
	if err != nil {
		fmt.Println("ERROR", err)
		return 2
	}
	if err := p.CheckTrustedBase(); err != nil {
		fmt.Println("ERROR trusted base:", err)
		return 2
	}
	if d := os.Getenv("VERIF_DUMP_REFFUNCS"); d != "" {
		if err := p.DumpRefFuncs(d); err != nil {
			fmt.Println("ERROR", err)
			return 2
		}
		fmt.Println("reference function table written to", d)
		return 0
	}
	renames := p.ApplyReference(filepath.Join(verif, "reference_funcs.json"))
	r := report.NewRun(prop, tier)
	r.SetStart(t0)
	for _, rn := range renames {
		r.Note("renamed function recognised by package, receiver and signature: %s", rn)
	}
	r.Stats["packages"] = len(p.Pkgs)
	r.Stats["functions"] = len(p.Funcs)
	ctx := &rules.Ctx{P: p, R: r, Tier: tier, VerifDir: verif}
	f(ctx)
	if d := os.Getenv("VERIF_DUMP_ANCHORS"); d != "" {
		ctx.DumpAnchors(filepath.Join(d, prop+".json"))
	}
	if tier == "thorough" && replayKey == "" {
		thorough(prop, repo, verif, r, f)
	}
	known, err := report.LoadKnown(filepath.Join(verif, "known_findings.json"))
	if err != nil {
		fmt.Println("ERROR", err)
		return 2
	}
	if replayKey != "" {
		found := false
		for _, o := range r.Obs {
			if o.Key == replayKey {
				found = true
				st := "DISCHARGED"
				if !o.OK {
					st = "VIOLATED"
				}
				fmt.Printf("replay %s: %s\n  at %s\n  %s\n", o.Key, st, o.Pos, o.Msg)
				if o.Path != "" {
					fmt.Printf("  path: %s\n", o.Path)
				}
				if !o.OK {
					fmt.Printf("VIOLATION property=%s replay=%s\n", prop, "(replayed)")
					return 1
				}
			}
		}
		if !found {
			fmt.Printf("replay %s: obligation no longer exists on this tree\n", replayKey)
		}
		return 0
	}
	cmd := "/verif/bin/verifcheck -property " + prop + " -tier " + tier
	return r.Finish(verif, known, cmd, trusted, evidence)
}

// thorough extends the default-configuration run of a property in two directions:
//
//  1. the same rules are evaluated on the other build configurations of the repository (the
//     build tags that select alternative files, and a 32-bit target, where int is 32 bits wide);
//     an obligation that fails only there is reported with the configuration in its key;
//  2. the checker's own sensitivity on this very tree: every committed mutant of the property
//     (/verif/mutants/<id>/*.diff, one broken rule instance each) is applied to a scratch copy
//     and must be reported, every committed behaviour-preserving variant
//     (/verif/equivalents/<id>/*.diff) must stay silent.  The result is recorded in the evidence
//     (it does not change the verdict about /repo).
func thorough(prop, repo, verif string, base *report.Run, f rules.PropFunc) {
	baseFail := map[string]bool{}
	for _, o := range base.Obs {
		if !o.OK {
			baseFail[o.Key] = true
		}
	}
	type bc struct {
		name string
		cfg  engine.Config
	}
	configs := []bc{
		{"tags=debug", engine.Config{Dir: repo, Tags: []string{"debug"}}},
		{"tags=gluon_pprof_disabled", engine.Config{Dir: repo, Tags: []string{"gluon_pprof_disabled"}}},
		{"GOARCH=386", engine.Config{Dir: repo, Env: []string{"GOARCH=386", "CGO_ENABLED=0"}}},
	}
	var rows []string
	rows = append(rows, fmt.Sprintf("default: %d obligations", len(base.Obs)))
	for _, c := range configs {
		p, err := engine.Load(c.cfg)
		if err != nil {
			rows = append(rows, c.name+": could not be loaded ("+firstLine(err.Error())+") - not analysed")
			continue
		}
		p.ApplyReference(filepath.Join(verif, "reference_funcs.json"))
		sub := report.NewRun(prop, "thorough")
		func() {
			defer func() {
				if rec := recover(); rec != nil {
					sub.Fail("infra", "panic in "+c.name, "", fmt.Sprint(rec))
				}
			}()
			f(&rules.Ctx{P: p, R: sub, Tier: "thorough", VerifDir: verif})
		}()
		extra := 0
		for _, o := range sub.Obs {
			if !o.OK && !baseFail[o.Key] {
				extra++
				o2 := o
				base.FailPath(o2.Rule, strings.TrimPrefix(o2.Key, o2.Rule+"|")+" @"+c.name, o2.Pos, o2.Msg+" (only in build configuration "+c.name+")", o2.Path)
			}
		}
		rows = append(rows, fmt.Sprintf("%s: %d obligations, %d additional failures", c.name, len(sub.Obs), extra))
		base.Stats["obligations@"+c.name] = len(sub.Obs)
	}
	base.Table("thorough: build configurations analysed", rows...)

	// self-test on a scratch copy of this tree
	exe, err := os.Executable()
	if err != nil {
		base.Note("self-test skipped: %v", err)
		return
	}
	muts, _ := filepath.Glob(filepath.Join(verif, "mutants", prop, "*.diff"))
	eqs, _ := filepath.Glob(filepath.Join(verif, "equivalents", prop, "*.diff"))
	sort.Strings(muts)
	sort.Strings(eqs)
	type job struct {
		patch string
		equiv bool
	}
	var jobs []job
	for _, m := range muts {
		jobs = append(jobs, job{m, false})
	}
	for _, m := range eqs {
		jobs = append(jobs, job{m, true})
	}
	results := make([]string, len(jobs))
	var wg sync.WaitGroup
	sem := make(chan struct{}, 5)
	for i, j := range jobs {
		wg.Add(1)
		go func(i int, j job) {
			defer wg.Done()
			sem <- struct{}{}
			defer func() { <-sem }()
			results[i] = runVariant(exe, prop, repo, verif, j.patch, j.equiv)
		}(i, j)
	}
	wg.Wait()
	applied, detected, silent := 0, 0, 0
	var srows []string
	for i, j := range jobs {
		srows = append(srows, filepath.Base(filepath.Dir(filepath.Dir(j.patch)))+"/"+filepath.Base(j.patch)+": "+results[i])
		switch {
		case strings.HasPrefix(results[i], "DETECTED"):
			applied++
			detected++
		case strings.HasPrefix(results[i], "MISSED"):
			applied++
			fmt.Printf("SELFTEST-MISSED property=%s %s\n", prop, filepath.Base(j.patch))
		case strings.HasPrefix(results[i], "SILENT"):
			silent++
		case strings.HasPrefix(results[i], "FALSE-ALARM"):
			fmt.Printf("SELFTEST-FALSE-ALARM property=%s %s\n", prop, filepath.Base(j.patch))
		}
	}
	base.Table("thorough: self-test on a scratch copy of this tree (mutants must be reported, equivalents must not)", srows...)
	base.Stats["mutants_applied"] = applied
	base.Stats["mutants_detected"] = detected
	base.Stats["equivalents_silent"] = silent
	base.Stats["equivalents_total"] = len(eqs)
}

func firstLine(s string) string {
	if i := strings.IndexByte(s, '\n'); i >= 0 {
		return s[:i]
	}
	return s
}

// runVariant applies one patch to a scratch copy of the working tree and runs the quick check on it.
func runVariant(exe, prop, repo, verif, patch string, equiv bool) string {
	dir, err := os.MkdirTemp("", "verif-variant-")
	if err != nil {
		return "SKIPPED (" + err.Error() + ")"
	}
	defer os.RemoveAll(dir)
	sh := func(cmd string) error {
		c := exec.Command("bash", "-c", cmd)
		c.Env = append(os.Environ(), "GOFLAGS=-mod=mod", "GOPROXY=off", "GOSUMDB=off", "GOTOOLCHAIN=local", "GOWORK=off")
		return c.Run()
	}
	if err := sh(fmt.Sprintf("cd %q && (git ls-files -z | xargs -0 tar -cf - 2>/dev/null) | tar -xf - -C %q", repo, dir)); err != nil {
		return "SKIPPED (copy failed)"
	}
	if err := sh(fmt.Sprintf("cd %q && git init -q . && git apply %q", dir, patch)); err != nil {
		return "SKIPPED (patch does not apply to this tree)"
	}
	c := exec.Command(exe, "-property", prop, "-repo", dir, "-verif", verif, "-no-evidence", "-tier", "quick")
	c.Env = append(os.Environ(), "GOFLAGS=-mod=mod", "GOPROXY=off", "GOSUMDB=off", "GOTOOLCHAIN=local", "GOWORK=off")
	out, _ := c.CombinedOutput()
	code := c.ProcessState.ExitCode()
	first := ""
	lines := strings.Split(string(out), "\n")
	for i, l := range lines {
		if strings.HasPrefix(l, "VIOLATION") && i > 0 {
			first = strings.TrimSpace(lines[i-1])
			if len(first) > 140 {
				first = first[:140]
			}
			break
		}
	}
	switch {
	case equiv && code == 0:
		return "SILENT"
	case equiv && code == 1:
		return "FALSE-ALARM " + first
	case !equiv && code == 1:
		return "DETECTED " + first
	case !equiv && code == 0:
		return "MISSED"
	}
	return fmt.Sprintf("SKIPPED (checker exit %d: the variant does not build or load)", code)
}
