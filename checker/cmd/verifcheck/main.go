// verifcheck decides the structural clauses of the gluon properties from /repo's source.
//
//	verifcheck -property C05 [-tier quick|thorough] [-repo /repo] [-verif /verif]
//	verifcheck -replay /verif/evidence/violations/C05-1.json
//
// Exit 0: every obligation discharged (or listed in known_findings.json);
// exit 1: at least one VIOLATION line; exit 2: infrastructure error (no verdict).
package main

import (
	"encoding/json"
	"flag"
	"fmt"
	"os"
	"path/filepath"
	"runtime/debug"
	"strings"
	"time"

	"verifchecker/internal/engine"
	"verifchecker/internal/report"
	"verifchecker/internal/rules"
)

var trusted = []string{
	"Go type checker and go/ssa construction (golang.org/x/tools v0.29.0)",
	"call graph: VTA seeded with CHA; gluon's own packages use no unsafe and reflect only for reflect.TypeOf (re-checked at load)",
	"rule tables printed under coverage.tables (filled from the code, one reason per entry)",
	"SQLite parser of go-sqlite3 v1.14.22 (T-SQL rules only)",
}

func main() {
	prop := flag.String("property", "", "property id (C01..C20)")
	tier := flag.String("tier", os.Getenv("VERIF_TIER"), "quick|thorough")
	repo := flag.String("repo", "/repo", "repository root")
	verif := flag.String("verif", "", "verif dir (default: parent of the binary's dir)")
	replay := flag.String("replay", "", "violation file to re-evaluate")
	noEvidence := flag.Bool("no-evidence", false, "do not write evidence (used for scratch copies)")
	list := flag.Bool("list", false, "list implemented properties")
	tags := flag.String("tags", "", "extra build tags")
	flag.Parse()

	if *list {
		fmt.Println(strings.Join(rules.IDs(), " "))
		return
	}
	if *tier == "" {
		*tier = "quick"
	}
	if *verif == "" {
		exe, _ := os.Executable()
		*verif = filepath.Dir(filepath.Dir(exe))
	}
	var replayKey string
	if *replay != "" {
		b, err := os.ReadFile(*replay)
		if err != nil {
			fmt.Println("ERROR", err)
			os.Exit(2)
		}
		var v struct {
			Property   string            `json:"property"`
			Obligation report.Obligation `json:"obligation"`
		}
		if err := json.Unmarshal(b, &v); err != nil {
			fmt.Println("ERROR", err)
			os.Exit(2)
		}
		*prop = v.Property
		replayKey = v.Obligation.Key
		*noEvidence = true
	}
	f := rules.Lookup(*prop)
	if f == nil {
		fmt.Printf("ERROR unknown property %q (have: %s)\n", *prop, strings.Join(rules.IDs(), " "))
		os.Exit(2)
	}
	code := run(*prop, *tier, *repo, *verif, *tags, replayKey, !*noEvidence, f)
	os.Exit(code)
}

func run(prop, tier, repo, verif, tags, replayKey string, evidence bool, f rules.PropFunc) (code int) {
	defer func() {
		if r := recover(); r != nil {
			fmt.Printf("ERROR checker panic: %v\n%s\n", r, debug.Stack())
			code = 2
		}
	}()
	t0 := time.Now()
	cfg := engine.Config{Dir: repo}
	if tags != "" {
		cfg.Tags = strings.Split(tags, ",")
	}
	p, err := engine.Load(cfg)
	if err != nil {
		fmt.Println("ERROR", err)
		return 2
	}
	if err := p.CheckTrustedBase(); err != nil {
		fmt.Println("ERROR trusted base:", err)
		return 2
	}
	r := report.NewRun(prop, tier)
	r.SetStart(t0)
	r.Stats["packages"] = len(p.Pkgs)
	r.Stats["functions"] = len(p.Funcs)
	f(&rules.Ctx{P: p, R: r, Tier: tier, VerifDir: verif})
	known, err := report.LoadKnown(filepath.Join(verif, "known_findings.json"))
	if err != nil {
		fmt.Println("ERROR", err)
		return 2
	}
	if replayKey != "" {
		found := false
		for _, o := range r.Obs {
			if o.Key == replayKey {
				found = true
				st := "DISCHARGED"
				if !o.OK {
					st = "VIOLATED"
				}
				fmt.Printf("replay %s: %s\n  at %s\n  %s\n", o.Key, st, o.Pos, o.Msg)
				if o.Path != "" {
					fmt.Printf("  path: %s\n", o.Path)
				}
				if !o.OK {
					fmt.Printf("VIOLATION property=%s replay=%s\n", prop, "(replayed)")
					return 1
				}
			}
		}
		if !found {
			fmt.Printf("replay %s: obligation no longer exists on this tree\n", replayKey)
		}
		return 0
	}
	cmd := "/verif/bin/verifcheck -property " + prop + " -tier " + tier
	return r.Finish(verif, known, cmd, trusted, evidence)
}
