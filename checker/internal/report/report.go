// Package report collects obligations, matches violations against the committed
// known-findings file and writes evidence.
package report

import (
	"encoding/json"
	"fmt"
	"os"
	"path/filepath"
	"sort"
	"strings"
	"time"
)

// Obligation is one instance of a rule applied to one construct.
type Obligation struct {
	Rule string `json:"rule"`
	// Key identifies the construct without line numbers: rule|function|construct.
	Key  string `json:"key"`
	Pos  string `json:"pos,omitempty"`
	OK   bool   `json:"ok"`
	Msg  string `json:"msg,omitempty"`
	Path string `json:"path,omitempty"` // for path rules: entry -> … -> offending site
}

// Run accumulates the result of evaluating one property.
type Run struct {
	Property    string
	Tier        string
	Obs         []Obligation
	Explanation []string            // one line per rule: what it decides
	Tables      map[string][]string // rule tables printed in evidence (idioms, exceptions, anchors)
	Stats       map[string]int      // packages, functions, call sites …
	MinCounts   []MinCount
	Notes       []string
	start       time.Time
	seen        map[string]int
}

// MinCount is the vacuity guard of a rule.
type MinCount struct {
	Rule string `json:"rule"`
	What string `json:"what"`
	Got  int    `json:"got"`
	Min  int    `json:"min"`
}

func NewRun(property, tier string) *Run {
	return &Run{Property: property, Tier: tier, Tables: map[string][]string{}, Stats: map[string]int{}, start: time.Now(), seen: map[string]int{}}
}

// SetStart lets the driver include load time in wall_s.
func (r *Run) SetStart(t time.Time) { r.start = t }

func (r *Run) Explain(rule, text string) {
	r.Explanation = append(r.Explanation, rule+": "+text)
}

func (r *Run) Table(name string, rows ...string) {
	r.Tables[name] = append(r.Tables[name], rows...)
}

func (r *Run) Note(format string, a ...any) {
	r.Notes = append(r.Notes, fmt.Sprintf(format, a...))
}

func (r *Run) add(o Obligation) {
	o.Key = o.Rule + "|" + o.Key
	// keys must be unique: a second obligation on the same construct gets a #n suffix
	// (ordinal within the function, stable under edits elsewhere).
	r.seen[o.Key]++
	if n := r.seen[o.Key]; n > 1 {
		o.Key = fmt.Sprintf("%s#%d", o.Key, n)
	}
	r.Obs = append(r.Obs, o)
}

// Pass records a discharged obligation.
func (r *Run) Pass(rule, key, pos, msg string) {
	r.add(Obligation{Rule: rule, Key: key, Pos: pos, OK: true, Msg: msg})
}

// Fail records a violated (or undecided) obligation.
func (r *Run) Fail(rule, key, pos, msg string) {
	r.add(Obligation{Rule: rule, Key: key, Pos: pos, OK: false, Msg: msg})
}

// FailPath records a violated obligation with a call-graph / CFG path.
func (r *Run) FailPath(rule, key, pos, msg, path string) {
	r.add(Obligation{Rule: rule, Key: key, Pos: pos, OK: false, Msg: msg, Path: path})
}

// Check records pass or fail.
func (r *Run) Check(ok bool, rule, key, pos, msgOK, msgFail string) {
	if ok {
		r.Pass(rule, key, pos, msgOK)
	} else {
		r.Fail(rule, key, pos, msgFail)
	}
}

// Min registers a vacuity guard: the rule must have found at least min instances.
func (r *Run) Min(rule, what string, got, min int) {
	r.MinCounts = append(r.MinCounts, MinCount{rule, what, got, min})
	if got < min {
		r.Fail(rule, "instances:"+what, "", fmt.Sprintf("vacuity guard: found %d %s, expected at least %d — the rule no longer sees the constructs it was confirmed on", got, what, min))
	}
}

// ---------------------------------------------------------------------------------

// Known is the committed known-findings file.
type Known struct {
	Findings []KnownFinding `json:"findings"`
	Fixed    []string       `json:"fixed"`
}

type KnownFinding struct {
	ID       string `json:"id"`
	Property string `json:"property"`
	Key      string `json:"key"` // obligation key (exact match)
	What     string `json:"what"`
	Replay   string `json:"replay,omitempty"`
}

func LoadKnown(path string) (*Known, error) {
	b, err := os.ReadFile(path)
	if err != nil {
		if os.IsNotExist(err) {
			return &Known{}, nil
		}
		return nil, err
	}
	var k Known
	if err := json.Unmarshal(b, &k); err != nil {
		return nil, fmt.Errorf("%s: %w", path, err)
	}
	return &k, nil
}

// Finish prints KNOWN-FINDING / VIOLATION lines, writes evidence and returns the exit code.
func (r *Run) Finish(verifDir string, known *Known, checkerCmd string, trusted []string, writeEvidence bool) int {
	var viol, knownHits []Obligation
	knownWhat := map[string]KnownFinding{}
	for _, k := range known.Findings {
		if k.Property == r.Property {
			knownWhat[k.Key] = k
		}
	}
	discharged := 0
	for _, o := range r.Obs {
		if o.OK {
			discharged++
			continue
		}
		if _, ok := knownWhat[o.Key]; ok {
			knownHits = append(knownHits, o)
		} else {
			viol = append(viol, o)
		}
	}
	for _, o := range knownHits {
		k := knownWhat[o.Key]
		fmt.Printf("KNOWN-FINDING: property=%s %s [%s] %s (%s)\n", r.Property, k.ID, o.Key, k.What, o.Pos)
	}
	vdir := filepath.Join(verifDir, "evidence", "violations")
	if writeEvidence {
		// stale violation files of this property
		old, _ := filepath.Glob(filepath.Join(vdir, r.Property+"-*.json"))
		for _, f := range old {
			os.Remove(f)
		}
	}
	for i, o := range viol {
		path := filepath.Join(vdir, fmt.Sprintf("%s-%d.json", r.Property, i+1))
		if writeEvidence {
			os.MkdirAll(vdir, 0o755)
			b, _ := json.MarshalIndent(map[string]any{"property": r.Property, "obligation": o}, "", " ")
			os.WriteFile(path, b, 0o644)
		}
		fmt.Printf("  %s %s: %s\n", o.Key, o.Pos, o.Msg)
		if o.Path != "" {
			fmt.Printf("    path: %s\n", o.Path)
		}
		fmt.Printf("VIOLATION property=%s replay=%s\n", r.Property, path)
	}

	if writeEvidence {
		distinct := map[string]bool{}
		for _, o := range r.Obs {
			if !strings.Contains(o.Key, "|instances:") {
				distinct[o.Key] = true
			}
		}
		var samples []Obligation
		perRule := map[string]int{}
		for _, o := range r.Obs {
			if perRule[o.Rule] < 4 || !o.OK {
				samples = append(samples, o)
				perRule[o.Rule]++
			}
		}
		ruleCounts := map[string]map[string]int{}
		for _, o := range r.Obs {
			m := ruleCounts[o.Rule]
			if m == nil {
				m = map[string]int{}
				ruleCounts[o.Rule] = m
			}
			m["obligations"]++
			if o.OK {
				m["discharged"]++
			}
		}
		var knownList []string
		for _, o := range knownHits {
			knownList = append(knownList, knownWhat[o.Key].ID+" "+o.Key)
		}
		sort.Strings(knownList)
		ev := map[string]any{
			"property_id": r.Property,
			"tier":        r.Tier,
			"seed":        0,
			"level":       "other",
			"coverage": map[string]any{
				"explanation":         strings.Join(r.Explanation, "\n"),
				"obligations":         len(r.Obs),
				"discharged":          discharged,
				"evaluations":         len(r.Obs),
				"distinct_nontrivial": len(distinct),
				"rule":                "one obligation per (rule, construct found by type/call-graph query in /repo's current source); distinct = distinct obligation keys backed by a real construct (vacuity guards excluded)",
				"samples":             samples,
				"per_rule":            ruleCounts,
				"min_instance_counts": r.MinCounts,
				"tables":              r.Tables,
				"stats":               r.Stats,
				"notes":               r.Notes,
				"known_findings":      knownList,
				"checker_cmd":         checkerCmd,
				"trusted_base":        trusted,
				"exhaustive":          true,
			},
			"assumptions": trusted,
			"wall_s":      time.Since(r.start).Seconds(),
			"violations":  len(viol),
		}
		os.MkdirAll(filepath.Join(verifDir, "evidence"), 0o755)
		b, _ := json.MarshalIndent(ev, "", " ")
		if err := os.WriteFile(filepath.Join(verifDir, "evidence", r.Property+".json"), b, 0o644); err != nil {
			fmt.Fprintln(os.Stderr, "ERROR writing evidence:", err)
			return 2
		}
	}
	fmt.Printf("property=%s tier=%s obligations=%d discharged=%d known=%d violations=%d wall=%.1fs\n",
		r.Property, r.Tier, len(r.Obs), discharged, len(knownHits), len(viol), time.Since(r.start).Seconds())
	if len(viol) > 0 {
		return 1
	}
	return 0
}
