// Package sqlx extracts the SQL statements gluon hands to its query wrappers as symbolic
// strings, computes placeholder counts and argument-slice lengths as polynomials over
// len(·) atoms, and validates the statements with SQLite's own parser.
package sqlx

import (
	"fmt"
	"math/big"
	"sort"
	"strings"
)

// Poly is a polynomial with rational coefficients over named atoms.
// key: atoms sorted and joined by "*"; "" is the constant term.
type Poly map[string]*big.Rat

func Const(n int64) Poly {
	if n == 0 {
		return Poly{}
	}
	return Poly{"": big.NewRat(n, 1)}
}

func AtomP(name string) Poly { return Poly{name: big.NewRat(1, 1)} }

func (p Poly) clone() Poly {
	q := Poly{}
	for k, v := range p {
		q[k] = new(big.Rat).Set(v)
	}
	return q
}

func (p Poly) norm() Poly {
	for k, v := range p {
		if v.Sign() == 0 {
			delete(p, k)
		}
	}
	return p
}

func (p Poly) Add(q Poly) Poly {
	r := p.clone()
	for k, v := range q {
		if x, ok := r[k]; ok {
			x.Add(x, v)
		} else {
			r[k] = new(big.Rat).Set(v)
		}
	}
	return r.norm()
}

func (p Poly) Neg() Poly {
	r := p.clone()
	for _, v := range r {
		v.Neg(v)
	}
	return r
}

func (p Poly) Sub(q Poly) Poly { return p.Add(q.Neg()) }

func mulKey(a, b string) string {
	if a == "" {
		return b
	}
	if b == "" {
		return a
	}
	parts := append(strings.Split(a, "*"), strings.Split(b, "*")...)
	sort.Strings(parts)
	return strings.Join(parts, "*")
}

func (p Poly) Mul(q Poly) Poly {
	r := Poly{}
	for k1, v1 := range p {
		for k2, v2 := range q {
			k := mulKey(k1, k2)
			t := new(big.Rat).Mul(v1, v2)
			if x, ok := r[k]; ok {
				x.Add(x, t)
			} else {
				r[k] = t
			}
		}
	}
	return r.norm()
}

func (p Poly) DivConst(d int64) Poly {
	r := p.clone()
	for _, v := range r {
		v.Quo(v, big.NewRat(d, 1))
	}
	return r
}

func (p Poly) Equal(q Poly) bool { return len(p.Sub(q)) == 0 }

func (p Poly) IsConst() (int64, bool) {
	if len(p) == 0 {
		return 0, true
	}
	if len(p) == 1 {
		if v, ok := p[""]; ok && v.IsInt() {
			return v.Num().Int64(), true
		}
	}
	return 0, false
}

// Atoms lists the atoms occurring in p.
func (p Poly) Atoms() []string {
	set := map[string]bool{}
	for k := range p {
		if k == "" {
			continue
		}
		for _, a := range strings.Split(k, "*") {
			set[a] = true
		}
	}
	var out []string
	for a := range set {
		out = append(out, a)
	}
	sort.Strings(out)
	return out
}

func (p Poly) Has(atom string) bool {
	for _, a := range p.Atoms() {
		if a == atom {
			return true
		}
	}
	return false
}

// CoefOf returns the polynomial multiplying `atom` when p is linear in it, and the rest.
// ok is false if atom occurs with degree > 1.
func (p Poly) SplitLinear(atom string) (coef, rest Poly, ok bool) {
	coef, rest = Poly{}, Poly{}
	for k, v := range p {
		parts := []string{}
		if k != "" {
			parts = strings.Split(k, "*")
		}
		n := 0
		var others []string
		for _, a := range parts {
			if a == atom {
				n++
			} else {
				others = append(others, a)
			}
		}
		switch n {
		case 0:
			rest[k] = new(big.Rat).Set(v)
		case 1:
			coef[strings.Join(others, "*")] = new(big.Rat).Set(v)
		default:
			return nil, nil, false
		}
	}
	return coef, rest, true
}

// Eval evaluates p with every atom set by val.
func (p Poly) Eval(val func(atom string) int64) *big.Rat {
	sum := new(big.Rat)
	for k, v := range p {
		t := new(big.Rat).Set(v)
		if k != "" {
			for _, a := range strings.Split(k, "*") {
				t.Mul(t, big.NewRat(val(a), 1))
			}
		}
		sum.Add(sum, t)
	}
	return sum
}

func (p Poly) String() string {
	if len(p) == 0 {
		return "0"
	}
	var keys []string
	for k := range p {
		keys = append(keys, k)
	}
	sort.Strings(keys)
	var parts []string
	for _, k := range keys {
		c := p[k].RatString()
		switch {
		case k == "":
			parts = append(parts, c)
		case c == "1":
			parts = append(parts, k)
		default:
			parts = append(parts, fmt.Sprintf("%s*%s", c, k))
		}
	}
	return strings.Join(parts, " + ")
}
