package sqlx

import (
	"fmt"
	"go/constant"
	"go/token"
	"go/types"
	"sort"
	"strconv"
	"strings"

	"golang.org/x/tools/go/ssa"

	"verifchecker/internal/engine"
)

// Seg is one segment of a symbolic string.
type Seg struct {
	Lit    string
	Rep    *Rep   // repeated unit
	Opaque string // reason the segment could not be evaluated
}

// Rep is `unit` repeated N times joined by Sep.
type Rep struct {
	Unit string
	Sep  string
	N    Poly
}

// SymStr is a symbolic string.
type SymStr []Seg

func lit(s string) SymStr { return SymStr{{Lit: s}} }

func (s SymStr) concat(t SymStr) SymStr {
	out := append(SymStr{}, s...)
	for _, g := range t {
		if n := len(out); n > 0 && g.Rep == nil && g.Opaque == "" && out[n-1].Rep == nil && out[n-1].Opaque == "" {
			out[n-1].Lit += g.Lit
		} else {
			out = append(out, g)
		}
	}
	return out
}

// Opaque reports the first non-evaluable segment.
func (s SymStr) OpaqueReason() string {
	for _, g := range s {
		if g.Opaque != "" {
			return g.Opaque
		}
	}
	return ""
}

// IsLit returns the literal value if s has no symbolic part.
func (s SymStr) IsLit() (string, bool) {
	var b strings.Builder
	for _, g := range s {
		if g.Rep != nil || g.Opaque != "" {
			return "", false
		}
		b.WriteString(g.Lit)
	}
	return b.String(), true
}

// Render instantiates every atom with val.
func (s SymStr) Render(val func(string) int64) (string, error) {
	var b strings.Builder
	for _, g := range s {
		switch {
		case g.Opaque != "":
			return "", fmt.Errorf("not evaluable: %s", g.Opaque)
		case g.Rep != nil:
			n := g.Rep.N.Eval(val)
			if !n.IsInt() || n.Sign() < 0 {
				return "", fmt.Errorf("repeat count %s is not a natural number for the sample assignment", g.Rep.N)
			}
			c := int(n.Num().Int64())
			for i := 0; i < c; i++ {
				if i > 0 {
					b.WriteString(g.Rep.Sep)
				}
				b.WriteString(g.Rep.Unit)
			}
		default:
			b.WriteString(g.Lit)
		}
	}
	return b.String(), nil
}

// Placeholders counts '?' outside quotes symbolically.
func (s SymStr) Placeholders() Poly {
	p := Poly{}
	for _, g := range s {
		switch {
		case g.Rep != nil:
			p = p.Add(g.Rep.N.Mul(Const(int64(countQ(g.Rep.Unit)))))
			// separators contain no placeholders in this code base; count anyway
			if q := countQ(g.Rep.Sep); q > 0 {
				p = p.Add(g.Rep.N.Sub(Const(1)).Mul(Const(int64(q))))
			}
		default:
			p = p.Add(Const(int64(countQ(g.Lit))))
		}
	}
	return p
}

// countQ counts '?' outside of '…', "…" and `…` quoting.
func countQ(s string) int {
	n := 0
	var quote byte
	for i := 0; i < len(s); i++ {
		c := s[i]
		if quote != 0 {
			if c == quote {
				quote = 0
			}
			continue
		}
		switch c {
		case '\'', '"', '`':
			quote = c
		case '?':
			n++
		}
	}
	return n
}

func (s SymStr) String() string {
	var b strings.Builder
	for _, g := range s {
		switch {
		case g.Opaque != "":
			b.WriteString("⟨?" + g.Opaque + "⟩")
		case g.Rep != nil:
			fmt.Fprintf(&b, "⟨%q×(%s) sep %q⟩", g.Rep.Unit, g.Rep.N, g.Rep.Sep)
		default:
			b.WriteString(g.Lit)
		}
	}
	return b.String()
}

// AtomInfo documents an atom.
type AtomInfo struct {
	Name      string
	Kind      string // len | flagsetlen | chunklen | unknown | int
	ChunkOf   ssa.Value
	ChunkSize int64
	Def       ssa.Value
	Desc      string
}

// Shared is the state shared by all frames of one evaluation.
type Shared struct {
	P        *engine.Prog
	Atoms    map[string]*AtomInfo
	fresh    int
	SampleID bool // an integer id was replaced by the sample value 1
}

func NewShared(p *engine.Prog) *Shared { return &Shared{P: p, Atoms: map[string]*AtomInfo{}} }

// Frame evaluates values of one function with optional parameter bindings.
type Frame struct {
	S        *Shared
	Fn       *ssa.Function
	Str      map[*ssa.Parameter][]SymStr   // bound string parameters
	Strs     map[*ssa.Parameter][][]SymStr // bound []string parameters (elements)
	Ints     map[*ssa.Parameter]Poly
	Caller   *Frame
	CallSite ssa.CallInstruction
	depth    int
	phiBusy  map[*ssa.Phi]string
	lenMemo  map[ssa.Value]Poly
}

func (s *Shared) NewFrame(fn *ssa.Function) *Frame {
	return &Frame{S: s, Fn: fn, Str: map[*ssa.Parameter][]SymStr{}, Strs: map[*ssa.Parameter][][]SymStr{}, Ints: map[*ssa.Parameter]Poly{}, phiBusy: map[*ssa.Phi]string{}, lenMemo: map[ssa.Value]Poly{}}
}

func (s *Shared) freshAtom(kind, desc string, def ssa.Value) Poly {
	s.fresh++
	name := fmt.Sprintf("u%d⟨%s⟩", s.fresh, desc)
	s.Atoms[name] = &AtomInfo{Name: name, Kind: kind, Def: def, Desc: desc}
	return AtomP(name)
}

func (s *Shared) atom(name, kind string, def ssa.Value) Poly {
	if _, ok := s.Atoms[name]; !ok {
		s.Atoms[name] = &AtomInfo{Name: name, Kind: kind, Def: def, Desc: name}
	}
	return AtomP(name)
}

const maxAlt = 24

func cross(a, b []SymStr) []SymStr {
	var out []SymStr
	for _, x := range a {
		for _, y := range b {
			out = append(out, x.concat(y))
			if len(out) >= maxAlt {
				return out
			}
		}
	}
	return out
}

func opaque(why string) []SymStr { return []SymStr{{{Opaque: why}}} }

// canon gives a structural name to a pure access path so that repeated loads of the same
// field get the same atom.  (Stores in between are ignored: documented assumption.)
func (f *Frame) canon(v ssa.Value) string {
	switch t := v.(type) {
	case *ssa.Parameter:
		return engine.ShortName(f.Fn) + "." + t.Name()
	case *ssa.FreeVar:
		return engine.ShortName(f.Fn) + ".fv." + t.Name()
	case *ssa.FieldAddr:
		st := t.X.Type().Underlying().(*types.Pointer).Elem().Underlying().(*types.Struct)
		return f.canon(t.X) + "." + st.Field(t.Field).Name()
	case *ssa.Field:
		st := t.X.Type().Underlying().(*types.Struct)
		return f.canon(t.X) + "." + st.Field(t.Field).Name()
	case *ssa.UnOp:
		if t.Op == token.MUL {
			switch t.X.(type) {
			case *ssa.FieldAddr, *ssa.Parameter, *ssa.FreeVar:
				return f.canon(t.X)
			case *ssa.UnOp:
				return f.canon(t.X)
			}
		}
	case *ssa.ChangeType:
		return f.canon(t.X)
	case *ssa.MakeInterface:
		return f.canon(t.X)
	}
	pf := ""
	if v.Parent() != nil {
		pf = engine.ShortName(v.Parent())
	}
	return pf + "." + v.Name()
}

func isStringType(t types.Type) bool {
	b, ok := t.Underlying().(*types.Basic)
	return ok && b.Info()&types.IsString != 0
}

func isIntType(t types.Type) bool {
	b, ok := t.Underlying().(*types.Basic)
	return ok && b.Info()&types.IsInteger != 0
}

func calleeIs(fn *ssa.Function, pkgSuffix, name string) bool {
	if fn == nil || engine.BaseName(fn) != name {
		return false
	}
	o := fn
	if fn.Origin() != nil {
		o = fn.Origin()
	}
	if o.Pkg == nil {
		return false
	}
	return strings.HasSuffix(o.Pkg.Pkg.Path(), pkgSuffix)
}

// VarargElems returns the elements packed into a variadic slice literal, in order.
func VarargElems(v ssa.Value) ([]ssa.Value, bool) {
	if c, ok := v.(*ssa.Const); ok && c.Value == nil {
		return nil, true
	}
	sl, ok := v.(*ssa.Slice)
	if !ok || sl.Low != nil || sl.High != nil {
		return nil, false
	}
	al, ok := sl.X.(*ssa.Alloc)
	if !ok {
		return nil, false
	}
	arr, ok := al.Type().Underlying().(*types.Pointer).Elem().Underlying().(*types.Array)
	if !ok {
		return nil, false
	}
	out := make([]ssa.Value, arr.Len())
	for _, r := range *al.Referrers() {
		ia, ok := r.(*ssa.IndexAddr)
		if !ok {
			continue
		}
		c, ok := ia.Index.(*ssa.Const)
		if !ok {
			return nil, false
		}
		idx, _ := constant.Int64Val(c.Value)
		for _, st := range engine.StoresTo(ia) {
			if idx < 0 || idx >= int64(len(out)) || out[idx] != nil {
				return nil, false
			}
			out[idx] = st.Val
		}
	}
	for _, e := range out {
		if e == nil {
			return nil, false
		}
	}
	return out, true
}

// EvalStr evaluates a string-typed value to its alternatives.
func (f *Frame) EvalStr(v ssa.Value) []SymStr {
	if f.depth > 8 {
		return opaque("evaluation depth exceeded")
	}
	switch t := v.(type) {
	case *ssa.Const:
		if t.Value != nil && t.Value.Kind() == constant.String {
			return []SymStr{lit(constant.StringVal(t.Value))}
		}
		return opaque("non-string constant")
	case *ssa.BinOp:
		if t.Op == token.ADD {
			return cross(f.EvalStr(t.X), f.EvalStr(t.Y))
		}
	case *ssa.Phi:
		var out []SymStr
		seen := map[string]bool{}
		for _, e := range t.Edges {
			if e == v {
				continue
			}
			for _, a := range f.EvalStr(e) {
				if k := a.String(); !seen[k] {
					seen[k] = true
					out = append(out, a)
				}
			}
		}
		if len(out) > maxAlt {
			out = out[:maxAlt]
		}
		return out
	case *ssa.ChangeType:
		return f.EvalStr(t.X)
	case *ssa.Convert:
		if isStringType(t.X.Type()) {
			return f.EvalStr(t.X)
		}
	case *ssa.Parameter:
		if a, ok := f.Str[t]; ok {
			return a
		}
		return f.fromCallers(t)
	case *ssa.FreeVar:
		var out []SymStr
		par := f.parentFrame()
		for _, b := range engine.FreeVarBinding(t) {
			out = append(out, par.EvalStr(b)...)
		}
		if len(out) > 0 {
			return out
		}
	case *ssa.UnOp:
		if t.Op == token.MUL {
			// element of a []string being ranged over / indexed
			if ia, ok := t.X.(*ssa.IndexAddr); ok {
				if elems, ok := f.EvalStrSlice(ia.X); ok {
					var out []SymStr
					for _, e := range elems {
						out = append(out, e...)
					}
					if len(out) > 0 {
						return out
					}
				}
			}
			if al, ok := t.X.(*ssa.Alloc); ok {
				var out []SymStr
				for _, st := range engine.StoresTo(al) {
					out = append(out, f.EvalStr(st.Val)...)
				}
				if len(out) > 0 {
					return out
				}
			}
			if fv, ok := t.X.(*ssa.FreeVar); ok {
				var out []SymStr
				par := f.parentFrame()
				for _, b := range engine.FreeVarBinding(fv) {
					if al, ok := b.(*ssa.Alloc); ok {
						for _, st := range engine.StoresTo(al) {
							out = append(out, par.EvalStr(st.Val)...)
						}
					}
				}
				if len(out) > 0 {
					return out
				}
			}
		}
	case *ssa.Call:
		return f.evalStrCall(t)
	case *ssa.Extract:
		// first result of a multi-value call: not a string builder in this code base
	}
	return opaque(fmt.Sprintf("%T %s in %s", v, v.Name(), engine.ShortName(f.Fn)))
}

func (f *Frame) parentFrame() *Frame {
	if f.Fn.Parent() == nil {
		return f
	}
	// closures see the bindings of the lexically enclosing frame if we came from it
	for c := f.Caller; c != nil; c = c.Caller {
		if c.Fn == f.Fn.Parent() {
			return c
		}
	}
	p := f.S.NewFrame(f.Fn.Parent())
	p.depth = f.depth + 1
	return p
}

// fromCallers evaluates an unbound parameter in every caller (demand driven).
func (f *Frame) fromCallers(p *ssa.Parameter) []SymStr {
	idx := engine.ParamIndex(f.Fn, p)
	if idx < 0 || f.depth > 6 {
		return opaque("unbound parameter " + p.Name())
	}
	var out []SymStr
	seen := map[string]bool{}
	callers := f.S.P.CallersOf(f.Fn)
	if len(callers) == 0 {
		return opaque("parameter " + p.Name() + " of " + engine.ShortName(f.Fn) + " has no caller")
	}
	for _, cs := range callers {
		arg := engine.ArgForParam(cs.Common(), f.Fn, idx)
		if arg == nil {
			continue
		}
		cf := f.S.NewFrame(cs.Fn)
		cf.depth = f.depth + 1
		for _, a := range cf.EvalStr(arg) {
			if k := a.String(); !seen[k] {
				seen[k] = true
				out = append(out, a)
			}
		}
	}
	if len(out) > maxAlt {
		out = out[:maxAlt]
	}
	return out
}

func (f *Frame) evalStrCall(c *ssa.Call) []SymStr {
	callee := c.Call.StaticCallee()
	if callee == nil {
		// interface method returning string (Table.Name()): union over implementations
		var out []SymStr
		for _, cal := range f.S.P.Callees(engine.CallSite{Fn: f.Fn, Instr: c}) {
			out = append(out, f.callReturn(cal, c)...)
		}
		if len(out) > 0 {
			return out
		}
		return opaque("dynamic call " + c.String())
	}
	args := c.Call.Args
	switch {
	case calleeIs(callee, "fmt", "Sprintf"):
		fmts := f.EvalStr(args[0])
		if len(fmts) != 1 {
			return opaque("format string is not a single constant")
		}
		format, ok := fmts[0].IsLit()
		if !ok {
			return opaque("format string is not constant")
		}
		elems, ok := VarargElems(args[1])
		if !ok {
			return opaque("Sprintf arguments are not an explicit list")
		}
		return f.sprintf(format, elems)
	case calleeIs(callee, "strings", "Join"):
		seps := f.EvalStr(args[1])
		if len(seps) != 1 {
			return opaque("Join separator")
		}
		sep, ok := seps[0].IsLit()
		if !ok {
			return opaque("Join separator not constant")
		}
		return f.join(args[0], sep)
	case calleeIs(callee, "strings", "Repeat"):
		u := f.EvalStr(args[0])
		if len(u) == 1 {
			if s, ok := u[0].IsLit(); ok {
				return []SymStr{{{Rep: &Rep{Unit: s, Sep: "", N: f.EvalInt(args[1])}}}}
			}
		}
		return opaque("strings.Repeat of non-constant")
	case calleeIs(callee, "internal/db_impl/sqlite3/utils", "GenSQLIn"):
		return []SymStr{{{Rep: &Rep{Unit: "?", Sep: ",", N: f.EvalInt(args[0])}}}}
	case calleeIs(callee, "strings", "ToLower"), calleeIs(callee, "strings", "TrimSpace"):
		return f.EvalStr(args[0])
	}
	if f.S.P.IsOwn(callee) && len(callee.Blocks) > 0 {
		return f.callReturn(callee, c)
	}
	return opaque("call to " + callee.String())
}

// callReturn evaluates the (first) string result of callee with parameters bound from call.
func (f *Frame) callReturn(callee *ssa.Function, call ssa.CallInstruction) []SymStr {
	if len(callee.Blocks) == 0 {
		return opaque("no body: " + callee.String())
	}
	nf := f.Bind(callee, call)
	var out []SymStr
	seen := map[string]bool{}
	for _, r := range engine.Returns(callee) {
		if len(r.Results) == 0 {
			continue
		}
		for _, a := range nf.EvalStr(r.Results[0]) {
			if k := a.String(); !seen[k] {
				seen[k] = true
				out = append(out, a)
			}
		}
	}
	return out
}

// Bind creates the callee frame with string / []string / int parameters evaluated in f.
func (f *Frame) Bind(callee *ssa.Function, call ssa.CallInstruction) *Frame {
	nf := f.S.NewFrame(callee)
	nf.depth = f.depth + 1
	nf.Caller = f
	nf.CallSite = call
	cc := call.Common()
	for i, p := range callee.Params {
		arg := engine.ArgForParam(cc, callee, i)
		if arg == nil {
			continue
		}
		switch {
		case isStringType(p.Type()):
			nf.Str[p] = f.EvalStr(arg)
		case isIntType(p.Type()):
			nf.Ints[p] = f.EvalInt(arg)
			if _, isConst := arg.(*ssa.Const); !isConst && isNamedID(p.Type()) {
				// an id: rendered as the sample value
				delete(nf.Ints, p)
			}
		default:
			if sl, ok := p.Type().Underlying().(*types.Slice); ok && isStringType(sl.Elem()) {
				if el, ok := f.EvalStrSlice(arg); ok {
					nf.Strs[p] = el
				}
			}
		}
	}
	return nf
}

func isNamedID(t types.Type) bool {
	n, ok := t.(*types.Named)
	return ok && strings.Contains(n.Obj().Name(), "ID")
}

type fmtPart struct {
	lit string
	arg int // -1 for literal
}

func parseFormat(format string) ([]fmtPart, error) {
	var parts []fmtPart
	next := 0
	var b strings.Builder
	for i := 0; i < len(format); i++ {
		c := format[i]
		if c != '%' {
			b.WriteByte(c)
			continue
		}
		i++
		if i >= len(format) {
			return nil, fmt.Errorf("dangling %%")
		}
		if format[i] == '%' {
			b.WriteByte('%')
			continue
		}
		idx := -1
		if format[i] == '[' {
			j := strings.IndexByte(format[i:], ']')
			if j < 0 {
				return nil, fmt.Errorf("bad index")
			}
			n, err := strconv.Atoi(format[i+1 : i+j])
			if err != nil {
				return nil, err
			}
			idx = n - 1
			i += j + 1
		}
		if i >= len(format) || !strings.ContainsRune("vsdq", rune(format[i])) {
			return nil, fmt.Errorf("unsupported verb in %q", format)
		}
		if idx < 0 {
			idx = next
		}
		next = idx + 1
		if b.Len() > 0 {
			parts = append(parts, fmtPart{lit: b.String(), arg: -1})
			b.Reset()
		}
		parts = append(parts, fmtPart{arg: idx})
	}
	if b.Len() > 0 {
		parts = append(parts, fmtPart{lit: b.String(), arg: -1})
	}
	return parts, nil
}

func (f *Frame) sprintf(format string, elems []ssa.Value) []SymStr {
	parts, err := parseFormat(format)
	if err != nil {
		return opaque(err.Error())
	}
	out := []SymStr{{}}
	for _, p := range parts {
		if p.arg < 0 {
			out = cross(out, []SymStr{lit(p.lit)})
			continue
		}
		if p.arg >= len(elems) {
			return opaque(fmt.Sprintf("format %q references missing argument %d", format, p.arg+1))
		}
		out = cross(out, f.fmtArg(elems[p.arg]))
	}
	return out
}

// fmtArg renders one Sprintf operand.
func (f *Frame) fmtArg(v ssa.Value) []SymStr {
	if mi, ok := v.(*ssa.MakeInterface); ok {
		v = mi.X
	}
	if c, ok := v.(*ssa.Const); ok && c.Value != nil {
		switch c.Value.Kind() {
		case constant.String:
			return []SymStr{lit(constant.StringVal(c.Value))}
		case constant.Int, constant.Bool:
			return []SymStr{lit(c.Value.ExactString())}
		}
	}
	if isStringType(v.Type()) {
		return f.EvalStr(v)
	}
	if isIntType(v.Type()) {
		if p, ok := v.(*ssa.Parameter); ok {
			if val, ok := f.Ints[p]; ok {
				if n, isC := val.IsConst(); isC {
					return []SymStr{lit(strconv.FormatInt(n, 10))}
				}
			}
		}
		// a runtime integer (mailbox id): sample value
		f.S.SampleID = true
		return []SymStr{lit("1")}
	}
	return opaque("Sprintf operand of type " + v.Type().String())
}

// join evaluates strings.Join(x, sep).
func (f *Frame) join(x ssa.Value, sep string) []SymStr {
	if c, ok := x.(*ssa.Call); ok {
		if callee := c.Call.StaticCallee(); callee != nil {
			switch {
			case calleeIs(callee, "juniper/xslices", "Repeat"):
				u := f.EvalStr(c.Call.Args[0])
				if len(u) == 1 {
					if s, ok := u[0].IsLit(); ok {
						return []SymStr{{{Rep: &Rep{Unit: s, Sep: sep, N: f.EvalInt(c.Call.Args[1])}}}}
					}
				}
			case calleeIs(callee, "juniper/xslices", "Map"):
				// unit = closure applied to a sample element
				var cl *ssa.Function
				switch m := c.Call.Args[1].(type) {
				case *ssa.MakeClosure:
					cl = m.Fn.(*ssa.Function)
				case *ssa.Function:
					cl = m
				}
				if cl != nil {
					if len(cl.Params) == 1 && isStringType(cl.Params[0].Type()) {
						nf := f.S.NewFrame(cl)
						nf.depth = f.depth + 1
						nf.Caller = f
						nf.Str[cl.Params[0]] = []SymStr{lit("x")}
						for _, r := range engine.Returns(cl) {
							u := nf.EvalStr(r.Results[0])
							if len(u) == 1 {
								if s, ok := u[0].IsLit(); ok {
									return []SymStr{{{Rep: &Rep{Unit: s, Sep: sep, N: f.EvalLen(c.Call.Args[0])}}}}
								}
							}
						}
					}
				}
			}
		}
	}
	if elems, ok := f.EvalStrSlice(x); ok {
		out := []SymStr{{}}
		for i, e := range elems {
			if i > 0 {
				out = cross(out, []SymStr{lit(sep)})
			}
			out = cross(out, e)
		}
		return out
	}
	return opaque("strings.Join operand")
}

// EvalStrSlice evaluates a []string value to its elements (each with alternatives).
func (f *Frame) EvalStrSlice(v ssa.Value) ([][]SymStr, bool) {
	switch t := v.(type) {
	case *ssa.Parameter:
		if e, ok := f.Strs[t]; ok {
			return e, true
		}
		// demand driven
		idx := engine.ParamIndex(f.Fn, t)
		if idx >= 0 && f.depth < 6 {
			var out [][]SymStr
			for _, cs := range f.S.P.CallersOf(f.Fn) {
				cf := f.S.NewFrame(cs.Fn)
				cf.depth = f.depth + 1
				if e, ok := cf.EvalStrSlice(engine.ArgForParam(cs.Common(), f.Fn, idx)); ok {
					out = append(out, e...)
				} else {
					return nil, false
				}
			}
			return out, len(out) > 0
		}
	case *ssa.Slice, *ssa.Const:
		if elems, ok := VarargElems(v); ok {
			var out [][]SymStr
			for _, e := range elems {
				out = append(out, f.EvalStr(e))
			}
			return out, true
		}
	}
	return nil, false
}

// ---------------------------------------------------------------------------------
// integers and lengths

// EvalInt evaluates an int-typed value to a polynomial.
func (f *Frame) EvalInt(v ssa.Value) Poly {
	switch t := v.(type) {
	case *ssa.Const:
		if t.Value != nil && t.Value.Kind() == constant.Int {
			n, _ := constant.Int64Val(t.Value)
			return Const(n)
		}
	case *ssa.Parameter:
		if p, ok := f.Ints[t]; ok {
			return p
		}
		return f.S.atom("int("+f.canon(t)+")", "int", t)
	case *ssa.Call:
		if b, ok := t.Call.Value.(*ssa.Builtin); ok && b.Name() == "len" {
			return f.EvalLen(t.Call.Args[0])
		}
		if callee := t.Call.StaticCallee(); callee != nil {
			if engine.BaseName(callee) == "Len" && engine.RecvNamed(callee) != nil && engine.RecvNamed(callee).Obj().Name() == "FlagSet" {
				return f.S.atom("Len("+f.canon(t.Call.Args[0])+")", "flagsetlen", t)
			}
		}
	case *ssa.BinOp:
		switch t.Op {
		case token.ADD:
			return f.EvalInt(t.X).Add(f.EvalInt(t.Y))
		case token.SUB:
			return f.EvalInt(t.X).Sub(f.EvalInt(t.Y))
		case token.MUL:
			return f.EvalInt(t.X).Mul(f.EvalInt(t.Y))
		case token.QUO:
			if d, ok := f.EvalInt(t.Y).IsConst(); ok && d > 0 {
				x := f.EvalInt(t.X)
				if f.divisible(x, d) {
					return x.DivConst(d)
				}
				return f.S.freshAtom("unknown", fmt.Sprintf("(%s)/%d not provably exact", x, d), v)
			}
		}
	case *ssa.Convert:
		if isIntType(t.X.Type()) {
			return f.EvalInt(t.X)
		}
	case *ssa.ChangeType:
		return f.EvalInt(t.X)
	case *ssa.Phi:
		var first Poly
		same := true
		for i, e := range t.Edges {
			p := f.EvalInt(e)
			if i == 0 {
				first = p
			} else if !first.Equal(p) {
				same = false
			}
		}
		if same && first != nil {
			return first
		}
	}
	return f.S.freshAtom("unknown", "int "+f.canon(v), v)
}

// divisible: every term of x is provably a multiple of d.
func (f *Frame) divisible(x Poly, d int64) bool {
	for k, c := range x {
		if c.IsInt() && c.Num().Int64()%d == 0 {
			continue
		}
		// coefficient not divisible: one of the atoms must be a chunk length whose parent
		// length and chunk size are both multiples of d
		ok := false
		if k != "" {
			for _, a := range strings.Split(k, "*") {
				ai := f.S.Atoms[a]
				if ai != nil && ai.Kind == "chunklen" && ai.ChunkSize%d == 0 && ai.ChunkOf != nil {
					parent := f.EvalLen(ai.ChunkOf)
					if f.multipleOf(parent, d) {
						ok = true
					}
					// the chunked slice is a parameter: its length is a multiple of d at every call site
					if pp, isParam := ai.ChunkOf.(*ssa.Parameter); isParam && !ok && f.paramLenMultipleOf(pp, d) {
						ok = true
					}
				}
			}
		}
		if !ok {
			return false
		}
	}
	return true
}

func (f *Frame) multipleOf(x Poly, d int64) bool {
	for _, c := range x {
		if !c.IsInt() || c.Num().Int64()%d != 0 {
			return false
		}
	}
	return true
}

func loopBody(h *ssa.BasicBlock) map[*ssa.BasicBlock]bool { return engine.LoopBody(h) }

// tripCount of the loop with header h.
func (f *Frame) tripCount(h *ssa.BasicBlock, body map[*ssa.BasicBlock]bool) Poly {
	iff := engine.IfOf(h)
	if iff != nil {
		if cmp, ok := iff.Cond.(*ssa.BinOp); ok && cmp.Op == token.LSS {
			// range over slice: (phi+1) < len(S), phi = [-1, phi+1]
			if inc, ok := cmp.X.(*ssa.BinOp); ok && inc.Op == token.ADD {
				if ph, ok := inc.X.(*ssa.Phi); ok && ph.Block() == h {
					if one, ok := f.EvalInt(inc.Y).IsConst(); ok && one == 1 {
						initOK := false
						for i, e := range ph.Edges {
							if !body[h.Preds[i]] {
								if n, ok := f.EvalInt(e).IsConst(); ok && n == -1 {
									initOK = true
								}
							}
						}
						if initOK && !body[valueBlock(cmp.Y)] {
							return f.EvalInt(cmp.Y)
						}
					}
				}
			}
			// for i := 0; i < n; i++
			if ph, ok := cmp.X.(*ssa.Phi); ok && ph.Block() == h && (!body[valueBlock(cmp.Y)] || invariantLen(cmp.Y, body)) {
				initOK, stepOK := false, false
				for i, e := range ph.Edges {
					if !body[h.Preds[i]] {
						if n, ok := f.EvalInt(e).IsConst(); ok && n == 0 {
							initOK = true
						}
					} else if inc, ok := e.(*ssa.BinOp); ok && inc.Op == token.ADD && inc.X == ph {
						if one, ok := f.EvalInt(inc.Y).IsConst(); ok && one == 1 {
							stepOK = true
						}
					}
				}
				if initOK && stepOK {
					return f.EvalInt(cmp.Y)
				}
			}
		}
	}
	return f.S.freshAtom("unknown", "trip count of data-dependent loop at "+f.S.P.Pos(firstPos(h)), nil)
}

// invariantLen: v is len(X) re-evaluated in the loop, X being defined outside it (the length of an SSA
// slice value cannot change).
func invariantLen(v ssa.Value, body map[*ssa.BasicBlock]bool) bool {
	c, ok := engine.IsBuiltinCall(v, "len")
	if !ok {
		return false
	}
	return !body[valueBlock(c.Call.Args[0])]
}

func firstPos(b *ssa.BasicBlock) token.Pos {
	for _, in := range b.Instrs {
		if in.Pos().IsValid() {
			return in.Pos()
		}
	}
	return token.NoPos
}

func valueBlock(v ssa.Value) *ssa.BasicBlock {
	if in, ok := v.(ssa.Instruction); ok {
		return in.Block()
	}
	return nil
}

// EvalLen evaluates the length of a slice value.
func (f *Frame) EvalLen(v ssa.Value) Poly {
	if p, ok := f.lenMemo[v]; ok {
		return p
	}
	p := f.evalLen(v)
	if _, busy := v.(*ssa.Phi); !busy || len(f.phiBusy) == 0 {
		f.lenMemo[v] = p
	}
	return p
}

func (f *Frame) evalLen(v ssa.Value) Poly {
	switch t := v.(type) {
	case *ssa.Const:
		if t.Value == nil {
			return Const(0)
		}
		if t.Value.Kind() == constant.String {
			return Const(int64(len(constant.StringVal(t.Value))))
		}
	case *ssa.MakeSlice:
		return f.EvalInt(t.Len)
	case *ssa.Slice:
		if t.Low == nil && t.High == nil {
			if al, ok := t.X.(*ssa.Alloc); ok {
				if arr, ok := al.Type().Underlying().(*types.Pointer).Elem().Underlying().(*types.Array); ok {
					return Const(arr.Len())
				}
			}
			return f.EvalLen(t.X)
		}
	case *ssa.ChangeType:
		return f.EvalLen(t.X)
	case *ssa.Call:
		if b, ok := t.Call.Value.(*ssa.Builtin); ok && b.Name() == "append" {
			return f.EvalLen(t.Call.Args[0]).Add(f.EvalLen(t.Call.Args[1]))
		}
		if callee := t.Call.StaticCallee(); callee != nil {
			switch {
			case calleeIs(callee, "internal/db_impl/sqlite3/utils", "MapSliceToAny"), calleeIs(callee, "juniper/xslices", "Map"):
				return f.EvalLen(t.Call.Args[0])
			case calleeIs(callee, "juniper/xslices", "Repeat"):
				return f.EvalInt(t.Call.Args[1])
			case (engine.BaseName(callee) == "ToSliceUnsorted" || engine.BaseName(callee) == "ToSlice") && engine.RecvNamed(callee) != nil && engine.RecvNamed(callee).Obj().Name() == "FlagSet":
				return f.S.atom("Len("+f.canon(t.Call.Args[0])+")", "flagsetlen", t)
			}
		}
	case *ssa.Phi:
		return f.phiLen(t)
	case *ssa.UnOp:
		if t.Op == token.MUL {
			// element of xslices.Chunk(X, k)
			if ia, ok := t.X.(*ssa.IndexAddr); ok {
				if c, ok := ia.X.(*ssa.Call); ok {
					if callee := c.Call.StaticCallee(); callee != nil && calleeIs(callee, "juniper/xslices", "Chunk") {
						// named by the Chunk call and the index, so that two reads of chunks[i] are one quantity
						name := "len(" + f.canon(c) + "[" + f.canon(ia.Index) + "])"
						p := f.S.atom(name, "chunklen", v)
						ai := f.S.Atoms[name]
						ai.ChunkOf = c.Call.Args[0]
						if k, ok := f.EvalInt(c.Call.Args[1]).IsConst(); ok {
							ai.ChunkSize = k
						}
						ai.Desc = fmt.Sprintf("length of a chunk of %s (chunk size %d)", f.canon(c.Call.Args[0]), ai.ChunkSize)
						return p
					}
				}
			}
			if al, ok := t.X.(*ssa.Alloc); ok {
				// local slice variable captured by a closure: single assignment only
				if sts := engine.StoresTo(al); len(sts) == 1 {
					return f.EvalLen(sts[0].Val)
				}
			}
		}
	case *ssa.Parameter:
		// a slice parameter of a helper that every caller hands one chunk of xslices.Chunk(X, k): a chunk length
		if k, ok := f.chunkParam(t); ok {
			name := "len(" + f.canon(v) + ")"
			p := f.S.atom(name, "chunklen", v)
			ai := f.S.Atoms[name]
			ai.ChunkSize = k
			ai.Desc = fmt.Sprintf("length of parameter %s, which every caller binds to one chunk (chunk size %d)", t.Name(), k)
			return p
		}
		// otherwise a variadic/slice parameter: its length is an atom of this function
	}
	return f.S.atom("len("+f.canon(v)+")", "len", v)
}

// phiLen solves len(phi) for loop-carried accumulation: init + trip × delta.
func (f *Frame) phiLen(ph *ssa.Phi) Poly {
	if name, busy := f.phiBusy[ph]; busy {
		return AtomP(name)
	}
	h := ph.Block()
	body := loopBody(h)
	if body == nil {
		// plain merge: all alternatives must agree
		var first Poly
		for i, e := range ph.Edges {
			p := f.EvalLen(e)
			if i == 0 {
				first = p
			} else if !first.Equal(p) {
				return f.S.freshAtom("unknown", "length differs between branches at "+f.S.P.Pos(ph.Pos()), ph)
			}
		}
		return first
	}
	self := "φ" + f.canon(ph)
	f.phiBusy[ph] = self
	defer delete(f.phiBusy, ph)
	var init, delta Poly
	for i, e := range ph.Edges {
		if body[h.Preds[i]] {
			// the memo must not cache values that mention the in-progress phi
			saved := f.lenMemo
			f.lenMemo = map[ssa.Value]Poly{}
			el := f.EvalLen(e)
			f.lenMemo = saved
			coef, rest, ok := el.SplitLinear(self)
			one, isOne := coef.IsConst()
			if !ok || !isOne || one != 1 {
				return f.S.freshAtom("unknown", "loop-carried length is not phi+delta at "+f.S.P.Pos(ph.Pos()), ph)
			}
			if delta == nil {
				delta = rest
			} else if !delta.Equal(rest) {
				return f.S.freshAtom("unknown", "different increments on different back edges at "+f.S.P.Pos(ph.Pos()), ph)
			}
		} else {
			p := f.EvalLen(e)
			if init == nil {
				init = p
			} else if !init.Equal(p) {
				return f.S.freshAtom("unknown", "different initial lengths at "+f.S.P.Pos(ph.Pos()), ph)
			}
		}
	}
	if init == nil || delta == nil {
		return f.S.freshAtom("unknown", "loop shape at "+f.S.P.Pos(ph.Pos()), ph)
	}
	if len(delta) == 0 {
		return init
	}
	// delta must be invariant in this loop
	varying := false
	for _, a := range delta.Atoms() {
		ai := f.S.Atoms[a]
		if ai == nil {
			continue
		}
		if ai.Kind == "unknown" {
			varying = true
		}
		if in, ok := ai.Def.(ssa.Instruction); ok && ai.Def != nil && body[in.Block()] {
			varying = true
		}
	}
	if varying {
		// total = init + g × (unknown), g = gcd of the integer coefficients of delta
		g := int64(0)
		for _, c := range delta {
			if !c.IsInt() {
				g = 1
				break
			}
			g = gcd(g, abs64(c.Num().Int64()))
		}
		if g == 0 {
			g = 1
		}
		return init.Add(Const(g).Mul(f.S.freshAtom("unknown", "sum over iterations of a varying increment", ph)))
	}
	trip := f.tripCount(h, body)
	return init.Add(trip.Mul(delta))
}

func gcd(a, b int64) int64 {
	for b != 0 {
		a, b = b, a%b
	}
	return a
}

func abs64(a int64) int64 {
	if a < 0 {
		return -a
	}
	return a
}

// SortedAtoms lists the atom names of the shared registry.
func (s *Shared) SortedAtoms() []string {
	var out []string
	for k := range s.Atoms {
		out = append(out, k)
	}
	sort.Strings(out)
	return out
}

// chunkParam: p is a slice parameter of a declared function all of whose call sites pass an element of
// xslices.Chunk(X, k) with one constant k.
func (f *Frame) chunkParam(p *ssa.Parameter) (int64, bool) {
	fn := p.Parent()
	if fn == nil || fn.Parent() != nil || f.S.P == nil {
		return 0, false
	}
	idx := -1
	for i, q := range fn.Params {
		if q == p {
			idx = i
		}
	}
	if _, isSlice := p.Type().Underlying().(*types.Slice); !isSlice || idx < 0 {
		return 0, false
	}
	callers := f.S.P.CallersOf(fn)
	if len(callers) == 0 {
		return 0, false
	}
	size := int64(0)
	for _, cs := range callers {
		cc := cs.Common()
		if cc.IsInvoke() || idx >= len(cc.Args) {
			return 0, false
		}
		u, ok := cc.Args[idx].(*ssa.UnOp)
		if !ok || u.Op != token.MUL {
			return 0, false
		}
		ia, ok := u.X.(*ssa.IndexAddr)
		if !ok {
			return 0, false
		}
		c, ok := ia.X.(*ssa.Call)
		if !ok || c.Call.StaticCallee() == nil || !calleeIs(c.Call.StaticCallee(), "juniper/xslices", "Chunk") {
			return 0, false
		}
		cf := f.S.NewFrame(cs.Fn)
		k, isConst := cf.EvalInt(c.Call.Args[1]).IsConst()
		if !isConst || k <= 0 || (size != 0 && size != k) {
			return 0, false
		}
		size = k
	}
	return size, true
}

// paramLenMultipleOf: p is a slice parameter of a declared function and at every call site the length of the
// argument is provably a multiple of d.
func (f *Frame) paramLenMultipleOf(p *ssa.Parameter, d int64) bool {
	fn := p.Parent()
	if fn == nil || fn.Parent() != nil || f.S.P == nil {
		return false
	}
	idx := -1
	for i, q := range fn.Params {
		if q == p {
			idx = i
		}
	}
	callers := f.S.P.CallersOf(fn)
	if idx < 0 || len(callers) == 0 {
		return false
	}
	for _, cs := range callers {
		if cs.Common().IsInvoke() || idx >= len(cs.Common().Args) {
			return false
		}
		cf := f.S.NewFrame(cs.Fn)
		if !cf.multipleOf(cf.EvalLen(cs.Common().Args[idx]), d) {
			return false
		}
	}
	return true
}
