package sqlx

import (
	"context"
	"database/sql"
	"database/sql/driver"
	"fmt"
	"regexp"
	"sort"
	"strings"

	sqlite3 "github.com/mattn/go-sqlite3"
)

// DB is an in-memory SQLite used only as a parser/validator for the extracted statement
// texts.  No gluon code runs against it.
type DB struct {
	db   *sql.DB
	conn *sql.Conn
	Log  []string // DDL executed, in order
}

func OpenDB() (*DB, error) {
	db, err := sql.Open("sqlite3", "file::memory:?_fk=0")
	if err != nil {
		return nil, err
	}
	db.SetMaxOpenConns(1)
	conn, err := db.Conn(context.Background())
	if err != nil {
		return nil, err
	}
	return &DB{db: db, conn: conn}, nil
}

func (d *DB) Close() { d.conn.Close(); d.db.Close() }

var ddlRe = regexp.MustCompile(`(?i)^\s*(create|drop|alter)\s`)

// IsDDL reports whether the statement changes the schema.
func IsDDL(q string) bool { return ddlRe.MatchString(q) }

// ExecDDL executes a schema statement.
func (d *DB) ExecDDL(q string) error {
	_, err := d.conn.ExecContext(context.Background(), q)
	if err == nil {
		d.Log = append(d.Log, q)
	}
	return err
}

// Prepared describes a successfully prepared statement.
type Prepared struct {
	NumInput int
	Columns  int // -1 unknown
}

// Prepare parses q against the current schema; returns SQLite's own placeholder count
// and, for row-returning statements, the number of result columns.
func (d *DB) Prepare(q string) (*Prepared, error) {
	var out Prepared
	out.Columns = -1
	err := d.conn.Raw(func(dc any) error {
		sc, ok := dc.(*sqlite3.SQLiteConn)
		if !ok {
			return fmt.Errorf("unexpected driver connection %T", dc)
		}
		st, err := sc.Prepare(q)
		if err != nil {
			return err
		}
		defer st.Close()
		out.NumInput = st.NumInput()
		up := strings.ToUpper(strings.TrimSpace(q))
		if strings.HasPrefix(up, "SELECT") {
			args := make([]driver.Value, out.NumInput)
			rows, err := st.Query(args)
			if err != nil {
				return fmt.Errorf("query on empty schema: %w", err)
			}
			out.Columns = len(rows.Columns())
			rows.Close()
		} else if i := strings.LastIndex(up, "RETURNING"); i >= 0 {
			out.Columns = len(strings.Split(q[i+len("RETURNING"):], ","))
		}
		return nil
	})
	if err != nil {
		return nil, err
	}
	return &out, nil
}

// TableSQL returns the CREATE statement SQLite stored for a table ("" if absent).
func (d *DB) TableSQL(name string) string {
	var s sql.NullString
	_ = d.conn.QueryRowContext(context.Background(), "SELECT sql FROM sqlite_master WHERE type='table' AND name=?", name).Scan(&s)
	return s.String
}

// Column describes one column per pragma table_info.
type Column struct {
	Name string
	Type string
	PK   int
}

func (d *DB) Columns(table string) []Column {
	rows, err := d.conn.QueryContext(context.Background(), fmt.Sprintf("PRAGMA table_info(`%s`)", table))
	if err != nil {
		return nil
	}
	defer rows.Close()
	var out []Column
	for rows.Next() {
		var cid, notnull, pk int
		var name, typ string
		var dflt sql.NullString
		if err := rows.Scan(&cid, &name, &typ, &notnull, &dflt, &pk); err == nil {
			out = append(out, Column{name, typ, pk})
		}
	}
	return out
}

// UniqueColumns returns the single-column UNIQUE constraints / unique indexes of a table.
func (d *DB) UniqueColumns(table string) map[string]bool {
	out := map[string]bool{}
	rows, err := d.conn.QueryContext(context.Background(), fmt.Sprintf("PRAGMA index_list(`%s`)", table))
	if err != nil {
		return out
	}
	type ix struct {
		name   string
		unique int
	}
	var ixs []ix
	for rows.Next() {
		var seq, unique, partial int
		var name, origin string
		if err := rows.Scan(&seq, &name, &unique, &origin, &partial); err == nil {
			ixs = append(ixs, ix{name, unique})
		}
	}
	rows.Close()
	for _, i := range ixs {
		if i.unique == 0 {
			continue
		}
		r2, err := d.conn.QueryContext(context.Background(), fmt.Sprintf("PRAGMA index_info(`%s`)", i.name))
		if err != nil {
			continue
		}
		var cols []string
		for r2.Next() {
			var seqno, cid int
			var name sql.NullString
			if err := r2.Scan(&seqno, &cid, &name); err == nil {
				cols = append(cols, name.String)
			}
		}
		r2.Close()
		if len(cols) == 1 {
			out[cols[0]] = true
		}
	}
	return out
}

// Tables lists the tables of the schema.
func (d *DB) Tables() []string {
	rows, err := d.conn.QueryContext(context.Background(), "SELECT name FROM sqlite_master WHERE type='table' ORDER BY name")
	if err != nil {
		return nil
	}
	defer rows.Close()
	var out []string
	for rows.Next() {
		var n string
		if rows.Scan(&n) == nil {
			out = append(out, n)
		}
	}
	return out
}

// HasExecuted reports whether exactly this DDL text was executed before.
func (d *DB) HasExecuted(q string) bool {
	for _, l := range d.Log {
		if l == q {
			return true
		}
	}
	return false
}

// VariableLimit returns SQLITE_LIMIT_VARIABLE_NUMBER of the linked SQLite.
func (d *DB) VariableLimit() int {
	n := 0
	_ = d.conn.Raw(func(dc any) error {
		if sc, ok := dc.(*sqlite3.SQLiteConn); ok {
			n = sc.GetLimit(sqlite3.SQLITE_LIMIT_VARIABLE_NUMBER)
		}
		return nil
	})
	return n
}

// UniqueKeys returns every uniqueness constraint of a table as a sorted column list:
// the primary key (per table_info) and every unique index (per index_list/index_info).
func (d *DB) UniqueKeys(table string) [][]string {
	var out [][]string
	seen := map[string]bool{}
	add := func(cols []string) {
		if len(cols) == 0 {
			return
		}
		sort.Strings(cols)
		k := strings.Join(cols, ",")
		if !seen[k] {
			seen[k] = true
			out = append(out, cols)
		}
	}
	var pk []string
	for _, c := range d.Columns(table) {
		if c.PK > 0 {
			pk = append(pk, c.Name)
		}
	}
	add(pk)
	rows, err := d.conn.QueryContext(context.Background(), fmt.Sprintf("PRAGMA index_list(`%s`)", table))
	if err != nil {
		return out
	}
	var names []string
	for rows.Next() {
		var seq, unique, partial int
		var name, origin string
		if err := rows.Scan(&seq, &name, &unique, &origin, &partial); err == nil && unique != 0 {
			names = append(names, name)
		}
	}
	rows.Close()
	for _, n := range names {
		r2, err := d.conn.QueryContext(context.Background(), fmt.Sprintf("PRAGMA index_info(`%s`)", n))
		if err != nil {
			continue
		}
		var cols []string
		for r2.Next() {
			var seqno, cid int
			var name sql.NullString
			if err := r2.Scan(&seqno, &cid, &name); err == nil {
				cols = append(cols, name.String)
			}
		}
		r2.Close()
		add(cols)
	}
	return out
}
