package sqlx

import (
	"go/types"
	"sort"
	"strings"

	"golang.org/x/tools/go/ssa"

	"verifchecker/internal/engine"
)

// Role describes how a function consumes a statement.
type Role struct {
	Query int    // index into Params of the query string (-1: statement handle instead)
	Args  int    // index into Params of the variadic argument slice (-1: none)
	Stmt  int    // index into Params of a StmtWrapper (-1: none)
	Kind  string // exec | query | queryrow | prepare
}

// SinkOf classifies a call as a direct statement sink (wrapper interface method or
// database/sql method).  Indices are into call.Args (invoke mode: receiver not included).
type SinkCall struct {
	Query ssa.Value // nil for statement-handle calls
	Args  ssa.Value // variadic slice, nil if none
	Stmt  ssa.Value // statement handle for stmt calls
	Kind  string
}

const utilsPkg = "internal/db_impl/sqlite3/utils"

func isWrapperIface(t types.Type, name string) bool {
	return engine.IsNamed(t, utilsPkg, name)
}

func sinkOf(cs engine.CallSite) *SinkCall {
	cc := cs.Common()
	kindOf := func(m string) string {
		switch m {
		case "ExecContext", "Exec":
			return "exec"
		case "QueryContext", "Query":
			return "query"
		case "QueryRowContext", "QueryRow":
			return "queryrow"
		case "PrepareStatement", "PrepareContext", "Prepare":
			return "prepare"
		}
		return ""
	}
	if cc.IsInvoke() {
		k := kindOf(cc.Method.Name())
		if k == "" {
			return nil
		}
		switch {
		case isWrapperIface(cc.Value.Type(), "QueryWrapper"):
			s := &SinkCall{Kind: k}
			if len(cc.Args) >= 2 {
				s.Query = cc.Args[1]
			}
			if k != "prepare" && len(cc.Args) >= 3 {
				s.Args = cc.Args[2]
			}
			return s
		case isWrapperIface(cc.Value.Type(), "StmtWrapper"):
			if k == "prepare" {
				return nil
			}
			s := &SinkCall{Kind: k, Stmt: cc.Value}
			if len(cc.Args) >= 2 {
				s.Args = cc.Args[1]
			}
			return s
		}
		return nil
	}
	callee := cc.StaticCallee()
	if callee == nil || callee.Pkg == nil || callee.Pkg.Pkg.Path() != "database/sql" {
		return nil
	}
	rn := engine.RecvNamed(callee)
	if rn == nil {
		return nil
	}
	k := kindOf(engine.ShortName(callee))
	if k == "" {
		return nil
	}
	withCtx := strings.HasSuffix(engine.ShortName(callee), "Context")
	off := 1 // receiver
	if withCtx {
		off = 2
	}
	switch rn.Obj().Name() {
	case "DB", "Tx", "Conn":
		s := &SinkCall{Kind: k}
		if len(cc.Args) > off {
			s.Query = cc.Args[off]
		}
		if k != "prepare" && len(cc.Args) > off+1 {
			s.Args = cc.Args[off+1]
		}
		return s
	case "Stmt":
		if k == "prepare" {
			return nil
		}
		s := &SinkCall{Kind: k, Stmt: cc.Args[0]}
		if len(cc.Args) > off {
			s.Args = cc.Args[off]
		}
		return s
	}
	return nil
}

// Site is one place where a statement originates (its text is not a forwarded parameter).
type Site struct {
	Fn        *ssa.Function
	Call      ssa.CallInstruction
	Query     ssa.Value // nil for statement-handle uses
	Args      ssa.Value // variadic slice or nil
	Stmt      ssa.Value
	Kind      string
	Mapper    ssa.Value // row-mapper function argument, if the forwarder has one
	Via       string    // name of the forwarder/sink
	ScalarRow bool      // forwarder scans a single column (MapQueryRow[T] etc.)
}

// Forwarders derives the functions that pass a query parameter (and optionally a
// variadic args parameter / statement parameter) unchanged to a sink or another forwarder.
type Forwarder struct {
	Query, Args, Stmt, Mapper int // Param indices (-1 absent)
	Kind                      string
	Scalar                    bool
}

type Index struct {
	P          *engine.Prog
	Forwarders map[*ssa.Function]*Forwarder
	Sites      []*Site
}

func paramIdx(fn *ssa.Function, v ssa.Value) int {
	if v == nil {
		return -1
	}
	return engine.ParamIndex(fn, v)
}

// rootParamIdx: v is a parameter or a field (chain) of a parameter (wrapper structs
// holding the wrapped statement).
func rootParamIdx(fn *ssa.Function, v ssa.Value) int {
	for i := 0; i < 6 && v != nil; i++ {
		if pi := engine.ParamIndex(fn, v); pi >= 0 {
			return pi
		}
		switch t := v.(type) {
		case *ssa.UnOp:
			v = t.X
		case *ssa.FieldAddr:
			v = t.X
		case *ssa.Field:
			v = t.X
		case *ssa.Alloc:
			// spilled value receiver: local copy initialised from the parameter
			sts := engine.StoresTo(t)
			if len(sts) != 1 {
				return -1
			}
			v = sts[0].Val
		default:
			return -1
		}
	}
	return -1
}

// BuildIndex finds forwarders and sites in the given functions.
func BuildIndex(p *engine.Prog, funcs []*ssa.Function) *Index {
	ix := &Index{P: p, Forwarders: map[*ssa.Function]*Forwarder{}}
	type use struct {
		cs     engine.CallSite
		sink   *SinkCall
		fw     *Forwarder
		via    string
		mapper ssa.Value
	}
	usesOf := func(g *ssa.Function) []use {
		var out []use
		for _, cs := range engine.Calls(g) {
			if s := sinkOf(cs); s != nil {
				via := ""
				if cs.Common().IsInvoke() {
					via = cs.Common().Method.Name()
				} else {
					via = engine.ShortName(cs.Common().StaticCallee())
				}
				out = append(out, use{cs: cs, sink: s, via: via})
				continue
			}
			callee := cs.Common().StaticCallee()
			if callee == nil {
				continue
			}
			fw := ix.Forwarders[callee]
			if fw == nil && callee.Origin() != nil {
				fw = ix.Forwarders[callee.Origin()]
			}
			if fw == nil {
				continue
			}
			s := &SinkCall{Kind: fw.Kind}
			cc := cs.Common()
			get := func(i int) ssa.Value {
				if i < 0 {
					return nil
				}
				return engine.ArgForParam(cc, callee, i)
			}
			s.Query, s.Args, s.Stmt = get(fw.Query), get(fw.Args), get(fw.Stmt)
			out = append(out, use{cs: cs, sink: s, fw: fw, via: engine.BaseName(callee), mapper: get(fw.Mapper)})
		}
		return out
	}
	// mapper parameter: a func(RowScanner) parameter of the function
	mapperParam := func(g *ssa.Function) int {
		for i, pa := range g.Params {
			if sig, ok := pa.Type().Underlying().(*types.Signature); ok && sig.Params().Len() == 1 && engine.IsNamed(sig.Params().At(0).Type(), utilsPkg, "RowScanner") {
				return i
			}
		}
		return -1
	}
	for changed := true; changed; {
		changed = false
		for _, g := range funcs {
			key := g
			if g.Origin() != nil {
				key = g.Origin()
			}
			if ix.Forwarders[key] != nil {
				continue
			}
			for _, u := range usesOf(g) {
				qi, ai, si := paramIdx(g, u.sink.Query), paramIdx(g, u.sink.Args), rootParamIdx(g, u.sink.Stmt)
				isFw := false
				if u.sink.Query != nil && qi >= 0 && (u.sink.Args == nil || ai >= 0 || isEmptyVariadic(u.sink.Args)) {
					isFw = true
				}
				if u.sink.Query == nil && u.sink.Stmt != nil && si >= 0 && (u.sink.Args == nil || ai >= 0) {
					isFw = true
				}
				if !isFw {
					continue
				}
				fw := &Forwarder{Query: qi, Args: ai, Stmt: si, Kind: u.sink.Kind, Mapper: mapperParam(g)}
				if u.fw != nil && u.fw.Scalar {
					fw.Scalar = true
				}
				// a forwarder that passes its own closure scanning one value is scalar
				if fw.Mapper < 0 && u.mapper != nil {
					if n, ok := ScanArity(u.mapper); ok && n == 1 {
						fw.Scalar = true
					}
				}
				ix.Forwarders[key] = fw
				changed = true
				break
			}
		}
	}
	for _, g := range funcs {
		key := g
		if g.Origin() != nil {
			key = g.Origin()
		}
		// instantiations of generic functions duplicate their origin's sites
		if g.Origin() != nil && g.Origin() != g {
			continue
		}
		_ = key
		for _, u := range usesOf(g) {
			fwSelf := ix.Forwarders[g]
			if fwSelf != nil {
				// inside a forwarder the forwarded statement is not a site
				if (u.sink.Query != nil && paramIdx(g, u.sink.Query) == fwSelf.Query) || (u.sink.Query == nil && u.sink.Stmt != nil && rootParamIdx(g, u.sink.Stmt) == fwSelf.Stmt) {
					continue
				}
			}
			st := &Site{Fn: g, Call: u.cs.Instr, Query: u.sink.Query, Args: u.sink.Args, Stmt: u.sink.Stmt, Kind: u.sink.Kind, Mapper: u.mapper, Via: u.via}
			if u.fw != nil {
				st.ScalarRow = u.fw.Scalar
			}
			ix.Sites = append(ix.Sites, st)
		}
	}
	sort.Slice(ix.Sites, func(i, j int) bool { return ix.Sites[i].Call.Pos() < ix.Sites[j].Call.Pos() })
	return ix
}

func isEmptyVariadic(v ssa.Value) bool {
	c, ok := v.(*ssa.Const)
	return ok && c.Value == nil
}

// ScanArity returns the number of destinations of the single Scan call in a row mapper
// (a closure or named function value).
func ScanArity(v ssa.Value) (int, bool) {
	var fn *ssa.Function
	switch t := v.(type) {
	case *ssa.MakeClosure:
		fn = t.Fn.(*ssa.Function)
	case *ssa.Function:
		fn = t
	case *ssa.ChangeType:
		return ScanArity(t.X)
	default:
		return 0, false
	}
	if len(fn.Blocks) == 0 {
		return 0, false
	}
	n, found := 0, 0
	for _, cs := range engine.Calls(fn) {
		cc := cs.Common()
		if cc.IsInvoke() && cc.Method.Name() == "Scan" && len(cc.Args) == 1 {
			el, ok := VarargElems(cc.Args[0])
			if !ok {
				return 0, false
			}
			n = len(el)
			found++
		}
	}
	if found != 1 {
		return 0, false
	}
	return n, true
}

// StmtQuery finds the PrepareStatement call that produced a statement handle.
func StmtQuery(ix *Index, stmt ssa.Value) *Site {
	var call ssa.Value = stmt
	for {
		switch t := call.(type) {
		case *ssa.Extract:
			call = t.Tuple
			continue
		case *ssa.ChangeInterface:
			call = t.X
			continue
		case *ssa.MakeInterface:
			call = t.X
			continue
		}
		break
	}
	for _, s := range ix.Sites {
		if s.Kind == "prepare" {
			if v, ok := s.Call.(ssa.Value); ok && v == call {
				return s
			}
		}
	}
	return nil
}
