package rules

import (
	"go/token"
	"go/types"
	"sort"
	"strings"

	"golang.org/x/tools/go/ssa"

	"verifchecker/internal/engine"
)

func init() { register("C05", c05) }

// permitFuncs derives the "flush-like" functions: popResponders (seed, found by role)
// and every own function that forwards one of its own bool parameters into the permit
// parameter of a flush-like function.  Result: function -> index into fn.Params.
func (c *Ctx) permitFuncs(rule string) map[*ssa.Function]int {
	pf := map[*ssa.Function]int{}
	// seed by role: method of state.State, one bool parameter, returns []Responder
	var seed *ssa.Function
	for _, m := range c.methodsOf("internal/state", "State") {
		sig := m.Signature
		if sig.Results().Len() != 1 || sig.Params().Len() != 1 {
			continue
		}
		if b, ok := sig.Params().At(0).Type().Underlying().(*types.Basic); !ok || b.Kind() != types.Bool {
			continue
		}
		sl, ok := sig.Results().At(0).Type().Underlying().(*types.Slice)
		if !ok || !engine.IsNamed(sl.Elem(), "internal/state", "Responder") {
			continue
		}
		if seed == nil || engine.ShortName(m) == "popResponders" {
			seed = m
		}
	}
	if seed == nil {
		c.R.Fail(rule, "anchor:popResponders", "", "no method of state.State with signature (bool) []Responder: the hold-back mechanism is gone")
		return pf
	}
	pf[seed] = 1 // Params[0] is the receiver
	for changed := true; changed; {
		changed = false
		for _, g := range c.productFuncs() {
			if _, ok := pf[g]; ok {
				continue
			}
			for _, cs := range engine.Calls(g) {
				for _, callee := range c.P.Callees(cs) {
					idx, ok := pf[callee]
					if !ok {
						continue
					}
					arg := engine.ArgForParam(cs.Common(), callee, idx)
					if pi := engine.ParamIndex(g, arg); pi >= 0 {
						if _, have := pf[g]; !have {
							pf[g] = pi
							changed = true
						}
					}
				}
			}
		}
	}
	return pf
}

type tri int

const (
	triNone tri = iota // no binding
	triFalse
	triTrue
	triUnknown
)

func (t tri) String() string {
	return [...]string{"unbound", "false", "true", "not a compile-time constant"}[t]
}

// resolvePermit evaluates a bool value in the context "fn's permit parameter is bound to b".
func resolvePermit(v ssa.Value, fn *ssa.Function, pf map[*ssa.Function]int, b tri) tri {
	res := triNone
	merge := func(t tri) {
		if res == triNone {
			res = t
		} else if res != t {
			res = triUnknown
		}
	}
	engine.Backward(v, engine.FlowOpts{Loads: true}, func(x ssa.Value) bool {
		switch t := x.(type) {
		case *ssa.Const:
			if val, ok := engine.ConstBool(t); ok {
				if val {
					merge(triTrue)
				} else {
					merge(triFalse)
				}
			} else {
				merge(triUnknown)
			}
			return false
		case *ssa.Parameter:
			// parameter of fn itself or of a lexical parent that is flush-like
			owner := t.Parent()
			if idx, ok := pf[owner]; ok && engine.ParamIndex(owner, t) == idx && b != triNone {
				merge(b)
			} else {
				merge(triUnknown)
			}
			return false
		case *ssa.Phi, *ssa.UnOp, *ssa.FreeVar, *ssa.Alloc:
			if u, ok := x.(*ssa.UnOp); ok && u.Op.String() == "!" {
				merge(triUnknown)
				return false
			}
			return true
		default:
			merge(triUnknown)
			return false
		}
	})
	if res == triNone {
		return triUnknown
	}
	return res
}

func c05(c *Ctx) {
	defer c.queueKeepsWhatItIsGiven("R05.6")
	P, R := c.P, c.R
	R.Explain("R05.1", "T-CONSTARG: from handleFetch/handleStore/handleSearch (also via handleUID) every call that reaches the permitExpunge parameter of a flush-like function (derived: popResponders and every wrapper forwarding a bool parameter into it) passes the constant false, context-sensitively through wrapper parameters; and every flush-like call in a static-call ancestor of those handlers that shares a path with the dispatch is false too (the trailing flush of handleSelectedCommand).")
	R.Explain("R05.2", "popResponders evaluated with permitExpunge=false: every append to the returned slice is dominated by the not-*expunge edge of a type test on the appended element; appends under the *targetedExists edge are dominated by the false edge of the skip-set Contains test; the *expunge edge adds the id to the skip set and appends to the remainder that is stored back to State.res.")
	R.Explain("R05.3", "T-CALLERS: Responder.handle is invoked only in State.flushResponses and, under idleCh != nil, in State.PushResponder; State.idleCh is written only by the IDLE implementation (beginIdle/endIdle, or State.Idle when written inline).")
	R.Explain("R05.4", "T-MUST (liveness): in NOOP, CHECK, EXPUNGE, UID EXPUNGE, CLOSE, MOVE, STATUS, APPEND handlers and beginIdle every path to the tagged OK passes a flush with constant true, except along 'mailbox not selected' edges.")
	R.Explain("R05.5", "T-DOM: each tagged OK built by handleFetch/Store/Search is dominated by Mailbox.ExpungeIssued(), whose true edge adds ItemExpungeIssued to the items passed to that OK; ExpungeIssued scans State.res for *expunge.")

	pf := c.permitFuncs("R05.1")
	var pfRows []string
	for f, i := range pf {
		pfRows = append(pfRows, fmtf("%s param#%d", c.name(f), i))
	}
	sort.Strings(pfRows)
	R.Table("flush-like functions (derived)", pfRows...)
	R.Min("R05.1", "flush-like functions", len(pf), 4)

	roots := []*ssa.Function{
		c.fn("R05.1", "internal/session.(*Session).handleFetch"),
		c.fn("R05.1", "internal/session.(*Session).handleStore"),
		c.fn("R05.1", "internal/session.(*Session).handleSearch"),
	}

	// ---- R05.1a context-sensitive descent -------------------------------------------
	type ctxKey struct {
		fn *ssa.Function
		b  tri
	}
	sites := 0
	for _, root := range roots {
		if root == nil {
			continue
		}
		seen := map[ctxKey]bool{}
		type item struct {
			k    ctxKey
			path []string
		}
		work := []item{{ctxKey{root, triNone}, []string{c.name(root)}}}
		for len(work) > 0 {
			it := work[0]
			work = work[1:]
			if seen[it.k] {
				continue
			}
			seen[it.k] = true
			f := it.k.fn
			for _, cl := range f.AnonFuncs {
				work = append(work, item{ctxKey{cl, it.k.b}, append(append([]string{}, it.path...), c.name(cl))})
			}
			for _, cs := range engine.Calls(f) {
				for _, callee := range P.Callees(cs) {
					if !P.IsOwn(callee) || !isProductPkg(engine.RelPkg(P.OwnPkgPath(callee))) {
						continue
					}
					nb := triNone
					if idx, ok := pf[callee]; ok {
						sites++
						arg := engine.ArgForParam(cs.Common(), callee, idx)
						nb = resolvePermit(arg, f, pf, it.k.b)
						key := fmtf("%s|%s->%s", c.name(root), c.name(f), c.name(callee))
						if nb == triFalse {
							R.Pass("R05.1", key, P.Pos(cs.Pos()), "permitExpunge is the constant false on this path")
						} else {
							R.FailPath("R05.1", key, P.Pos(cs.Pos()),
								fmtf("while answering %s a flush is reached with permitExpunge=%s: EXPUNGE responses may be sent during FETCH/STORE/SEARCH", engine.ShortName(root), nb),
								strings.Join(append(append([]string{}, it.path...), c.name(callee)), " -> "))
							continue
						}
					}
					if len(it.path) < 60 {
						work = append(work, item{ctxKey{callee, nb}, append(append([]string{}, it.path...), c.name(callee))})
					}
				}
			}
		}
	}
	R.Stats["R05.1 flush-like call sites on FETCH/STORE/SEARCH paths"] = sites
	R.Min("R05.1", "flush-like call sites reachable from the three handlers", sites, 4)

	// ---- R05.1b ancestors (static calls + lexical nesting) --------------------------
	anc := map[*ssa.Function]bool{}
	for _, r := range roots {
		if r != nil {
			anc[r] = true
		}
	}
	sessionFuncs := c.funcsInPkg("internal/session")
	for changed := true; changed; {
		changed = false
		for _, g := range sessionFuncs {
			if anc[g] {
				continue
			}
			hit := false
			for _, cs := range engine.Calls(g) {
				if sc := cs.Common().StaticCallee(); sc != nil && anc[sc] {
					hit = true
				}
			}
			for _, cl := range g.AnonFuncs {
				if anc[cl] {
					hit = true
				}
			}
			if hit {
				anc[g] = true
				changed = true
			}
		}
	}
	ancSites := 0
	var ancNames []string
	for g := range anc {
		isRoot := false
		for _, r := range roots {
			if r == g {
				isRoot = true
			}
		}
		if isRoot {
			continue
		}
		ancNames = append(ancNames, c.name(g))
		// dispatch sites: static calls to ancestors/roots, or creation of ancestor closures
		var dispatch []ssa.Instruction
		for _, b := range g.Blocks {
			for _, in := range b.Instrs {
				switch t := in.(type) {
				case ssa.CallInstruction:
					if sc := t.Common().StaticCallee(); sc != nil && anc[sc] {
						dispatch = append(dispatch, in)
					}
				case *ssa.MakeClosure:
					if anc[t.Fn.(*ssa.Function)] {
						dispatch = append(dispatch, in)
					}
				}
			}
		}
		for _, cs := range engine.Calls(g) {
			for _, callee := range P.Callees(cs) {
				idx, ok := pf[callee]
				if !ok {
					continue
				}
				shares := false
				for _, d := range dispatch {
					if d == cs.Instr || engine.InstrReaches(d, cs.Instr) || engine.InstrReaches(cs.Instr, d) {
						shares = true
					}
				}
				if !shares {
					continue
				}
				ancSites++
				nb := resolvePermit(engine.ArgForParam(cs.Common(), callee, idx), g, pf, triNone)
				key := fmtf("ancestor|%s->%s", c.name(g), c.name(callee))
				if nb == triFalse {
					R.Pass("R05.1", key, P.Pos(cs.Pos()), "flush around the FETCH/STORE/SEARCH dispatch uses the constant false")
				} else {
					R.Fail("R05.1", key, P.Pos(cs.Pos()), fmtf("flush on the path that dispatches FETCH/STORE/SEARCH has permitExpunge=%s", nb))
				}
			}
		}
	}
	sort.Strings(ancNames)
	R.Table("static-call ancestors of handleFetch/Store/Search", ancNames...)
	R.Min("R05.1", "flush sites sharing a path with the dispatch", ancSites, 1)

	c05pop(c, pf)
	c05callers(c)
	c05liveness(c, pf)
	c05issued(c, roots)
}

// typeTests finds `x.(*T)` comma-ok tests in fn: returns for each the If and which
// successor index is taken when the assertion holds.
type typeTest struct {
	ta   *ssa.TypeAssert
	ifb  *ssa.BasicBlock
	okIx int
}

func typeTests(fn *ssa.Function, pkgRel, name string) []typeTest {
	var out []typeTest
	for _, b := range fn.Blocks {
		for _, in := range b.Instrs {
			ta, ok := in.(*ssa.TypeAssert)
			if !ok || !ta.CommaOk || !engine.IsNamed(ta.AssertedType, pkgRel, name) {
				continue
			}
			for _, r := range *ta.Referrers() {
				ex, ok := r.(*ssa.Extract)
				if !ok || ex.Index != 1 {
					continue
				}
				for _, r2 := range *ex.Referrers() {
					if iff, ok := r2.(*ssa.If); ok {
						out = append(out, typeTest{ta, iff.Block(), 0})
					}
				}
			}
		}
	}
	return out
}

func c05pop(c *Ctx, pf map[*ssa.Function]int) {
	P, R := c.P, c.R
	var pop *ssa.Function
	for f, i := range pf {
		if i == 1 && engine.RecvNamed(f) != nil && engine.RecvNamed(f).Obj().Name() == "State" && f.Signature.Params().Len() == 1 {
			if sl, ok := f.Signature.Results().At(0).Type().Underlying().(*types.Slice); ok && engine.IsNamed(sl.Elem(), "internal/state", "Responder") {
				pop = f
			}
		}
	}
	if pop == nil {
		return
	}
	pop, _, live := holdBackFunction(pop)

	// chain of the returned slice
	retChain := map[ssa.Value]bool{}
	for _, r := range engine.Returns(pop) {
		if live[r.Block()] && len(r.Results) == 1 {
			engine.Backward(r.Results[0], engine.FlowOpts{AppendBase: true}, func(x ssa.Value) bool { retChain[x] = true; return true })
		}
	}
	// chain of the value stored back to State.res
	resFld := c.fieldOf("internal/state", "State", "res")
	remChain := map[ssa.Value]bool{}
	resStores := 0
	for _, b := range pop.Blocks {
		for _, in := range b.Instrs {
			if st, ok := in.(*ssa.Store); ok && fieldAddrIs(st.Addr, resFld) {
				resStores++
				engine.Backward(st.Val, engine.FlowOpts{AppendBase: true}, func(x ssa.Value) bool { remChain[x] = true; return true })
			}
		}
	}
	expT := typeTests(pop, "internal/state", "expunge")
	texT := typeTests(pop, "internal/state", "targetedExists")
	if len(expT) == 0 {
		R.Fail("R05.2", c.name(pop)+"|expunge-test", P.Pos(pop.Pos()), "popResponders no longer tests responders for *expunge: nothing holds EXPUNGE back")
		return
	}
	// Contains tests (skip set)
	type condCall struct {
		ifb *ssa.BasicBlock
	}
	var containsIfs []*ssa.BasicBlock
	for _, b := range pop.Blocks {
		if iff := engine.IfOf(b); iff != nil {
			cv, _ := engine.StripNot(iff.Cond)
			if call, ok := cv.(*ssa.Call); ok {
				if sc := call.Call.StaticCallee(); sc != nil && engine.BaseName(sc) == "Contains" {
					containsIfs = append(containsIfs, b)
				}
			}
		}
	}
	appends := 0
	for v := range retChain {
		call, ok := engine.IsBuiltinCall(v, "append")
		if !ok || !live[call.Block()] {
			continue
		}
		appends++
		blk := call.Block()
		key := fmtf("%s|append-to-result", c.name(pop))
		// (A) dominated by the not-expunge edge of an *expunge test
		okA := false
		for _, t := range expT {
			if engine.EdgeDominates(t.ifb, 1, blk) {
				okA = true
			}
		}
		R.Check(okA, "R05.2", key+"|not-expunge", P.Pos(call.Pos()),
			"with permitExpunge=false this append is only reached on the not-*expunge edge",
			"with permitExpunge=false this append to the popped responders is reachable without passing the not-*expunge edge of a type test: an expunge responder can be popped and its EXPUNGE sent during FETCH/STORE/SEARCH")
		// (B) under *targetedExists: dominated by !Contains
		underTex := false
		for _, t := range texT {
			if engine.EdgeDominates(t.ifb, 0, blk) {
				underTex = true
			}
		}
		if underTex {
			okB := false
			for _, cb := range containsIfs {
				iff := engine.IfOf(cb)
				_, neg := engine.StripNot(iff.Cond)
				falseIx := 1
				if neg {
					falseIx = 0
				}
				if engine.EdgeDominates(cb, falseIx, blk) {
					okB = true
				}
			}
			R.Check(okB, "R05.2", key+"|exists-not-skipped", P.Pos(call.Pos()),
				"a targetedExists is popped only when its message is not in the skip set",
				"a *targetedExists is popped without the skip-set test: a message removed and put back would be announced before its removal")
		}
	}
	R.Min("R05.2", "appends to the popped slice (permitExpunge=false)", appends, 2)
	R.Check(len(texT) > 0, "R05.2", c.name(pop)+"|targetedExists-test", P.Pos(pop.Pos()),
		"popResponders distinguishes *targetedExists", "popResponders no longer tests for *targetedExists: re-added messages are not held back behind their expunge")

	// (C) expunge edge: Add to skip set + append to remainder stored to State.res
	addOK, remOK := false, false
	for _, t := range expT {
		for _, b := range pop.Blocks {
			if !engine.EdgeDominates(t.ifb, 0, b) {
				continue
			}
			for _, in := range b.Instrs {
				if call, ok := in.(*ssa.Call); ok {
					if sc := call.Call.StaticCallee(); sc != nil && engine.BaseName(sc) == "Add" {
						addOK = true
					}
					if _, isApp := engine.IsBuiltinCall(call, "append"); isApp && remChain[call] {
						remOK = true
					}
				}
			}
		}
	}
	R.Check(addOK, "R05.2", c.name(pop)+"|expunge-edge-adds-skip", P.Pos(pop.Pos()),
		"the *expunge edge records the message id in the skip set", "the *expunge edge does not add the message id to the skip set")
	if _, esc := c.expungeHoldbackAlwaysRecordsID(pop); true {
		R.Check(esc == "", "R05.2", c.name(pop)+"|expunge-edge-adds-skip-on-every-path", P.Pos(pop.Pos()),
			"every path of the *expunge edge records the message id in the skip set", "a held-back *expunge can pass without its message id being added to the skip set (path leaves at "+esc+"): a later EXISTS for the same message is released ahead of its EXPUNGE")
	}
	R.Check(remOK && resStores > 0, "R05.2", c.name(pop)+"|expunge-edge-keeps-responder", P.Pos(pop.Pos()),
		"held-back expunge responders are appended to the remainder stored in State.res", "held-back expunge responders are not kept in State.res (removal would never be announced)")
	// the skipped targetedExists must also go to the remainder
	keepTex := false
	// on the "its expunge was held back" edge (skip set contains the id) of a *targetedExists, every way
	// through the iteration appends the responder to the remainder
	remApps := map[ssa.Instruction]bool{}
	for _, b := range pop.Blocks {
		for _, in := range b.Instrs {
			if call, ok := in.(*ssa.Call); ok {
				if _, isApp := engine.IsBuiltinCall(call, "append"); isApp && remChain[call] {
					remApps[in] = true
				}
			}
		}
	}
	resFldK := c.fieldOf("internal/state", "State", "res")
	var headers []*ssa.BasicBlock
	for _, h := range engine.RangeLoopsOver(pop, func(sv ssa.Value) bool {
		ld, ok := sv.(*ssa.UnOp)
		return ok && fieldAddrIs(ld.X, resFldK)
	}) {
		headers = append(headers, h)
	}
	for _, t := range texT {
		for _, cb := range containsIfs {
			if !engine.EdgeDominates(t.ifb, 0, cb) {
				continue
			}
			iff := engine.IfOf(cb)
			_, neg := engine.StripNot(iff.Cond)
			trueIx := 0
			if neg {
				trueIx = 1
			}
			start := cb.Succs[trueIx]
			ok := len(remApps) > 0 && len(headers) > 0
			for _, h := range headers {
				if len(h.Instrs) > 0 && engine.ReachesAvoidingFrom(start, 0, h.Instrs[0], remApps, nil) {
					ok = false
				}
			}
			for _, ret := range engine.Returns(pop) {
				if engine.ReachesAvoidingFrom(start, 0, ret, remApps, nil) {
					ok = false
				}
			}
			if ok {
				keepTex = true
			}
		}
	}
	R.Check(keepTex, "R05.2", c.name(pop)+"|skipped-exists-kept", P.Pos(pop.Pos()),
		"a held-back targetedExists stays queued behind its expunge", "a held-back targetedExists is not kept in State.res: the re-added message would never be announced")
}

func c05callers(c *Ctx) {
	P, R := c.P, c.R
	idleFld := c.fieldOf("internal/state", "State", "idleCh")
	n := 0
	for _, f := range c.productFuncs() {
		for _, cs := range engine.Calls(f) {
			cc := cs.Common()
			isHandle := false
			if cc.IsInvoke() && engine.MethodName(cc.Method) == "handle" && engine.IsNamed(cc.Value.Type(), "internal/state", "Responder") {
				isHandle = true
			} else if sc := cc.StaticCallee(); sc != nil && engine.ShortName(sc) == "handle" && engine.RecvNamed(sc) != nil {
				rn := engine.RecvNamed(sc).Obj().Name()
				if rn == "expunge" || rn == "targetedExists" || rn == "fetch" {
					isHandle = true
				}
			}
			if !isHandle {
				continue
			}
			n++
			top := f
			for top.Parent() != nil {
				top = top.Parent()
			}
			key := fmtf("%s|Responder.handle", c.name(f))
			if !c.isAnchor(top, "internal/state.(*State).flushResponses", "internal/state.(*State).PushResponder") && c.onlyCalledFrom(top, 2, "internal/state.(*State).flushResponses") {
				R.Pass("R05.3", key, P.Pos(cs.Pos()), "invoked from a helper that only flushResponses calls")
				continue
			}
			if !c.isAnchor(top, "internal/state.(*State).flushResponses", "internal/state.(*State).PushResponder") && c.onlyCalledFrom(top, 1, "internal/state.(*State).PushResponder") {
				// a helper of PushResponder: the idle-only condition must hold at every call of the helper
				okAll := true
				for _, cs2 := range P.CallersOf(top) {
					if !c.dominatedByIdleNonNil(cs2.Fn, cs2.Instr.Block(), idleFld) {
						okAll = false
					}
				}
				R.Check(okAll, "R05.3", key+"|idle-only", P.Pos(cs.Pos()),
					"immediate handling (in a helper of PushResponder) happens only while idleCh != nil",
					"a helper of PushResponder handles a responder immediately without its call being dominated by idleCh != nil: an EXPUNGE could be produced outside IDLE/flush")
				continue
			}
			if !c.isAnchor(top, "internal/state.(*State).flushResponses", "internal/state.(*State).PushResponder") {
				R.Fail("R05.3", key, P.Pos(cs.Pos()), "Responder.handle (which mutates the snapshot and produces EXISTS/EXPUNGE/FETCH) is invoked outside flushResponses/PushResponder")
				continue
			}
			if c.isAnchor(top, "internal/state.(*State).PushResponder") {
				// must be dominated by the non-nil edge of an idleCh nil test
				ok := false
				for _, b := range f.Blocks {
					iff := engine.IfOf(b)
					if iff == nil {
						continue
					}
					bin, isBin := iff.Cond.(*ssa.BinOp)
					if !isBin {
						continue
					}
					var other ssa.Value
					if engine.IsNilConst(bin.Y) {
						other = bin.X
					} else if engine.IsNilConst(bin.X) {
						other = bin.Y
					} else {
						continue
					}
					ld, isLd := other.(*ssa.UnOp)
					if !isLd || !fieldAddrIs(ld.X, idleFld) {
						continue
					}
					nonNilIx := 1
					if bin.Op.String() == "!=" {
						nonNilIx = 0
					}
					if engine.EdgeDominates(b, nonNilIx, cs.Instr.Block()) {
						ok = true
					}
				}
				R.Check(ok, "R05.3", key+"|idle-only", P.Pos(cs.Pos()),
					"immediate handling in PushResponder happens only while idleCh != nil (IDLE permits EXPUNGE)",
					"PushResponder handles a responder immediately without being dominated by idleCh != nil: an EXPUNGE could be produced outside IDLE/flush")
			} else {
				R.Pass("R05.3", key, P.Pos(cs.Pos()), "invoked from flushResponses")
			}
		}
	}
	R.Min("R05.3", "Responder.handle call sites", n, 2)
	// writers of State.idleCh
	w := 0
	for _, f := range c.productFuncs() {
		for _, b := range f.Blocks {
			for _, in := range b.Instrs {
				st, ok := in.(*ssa.Store)
				if !ok || !fieldAddrIs(st.Addr, idleFld) {
					continue
				}
				w++
				top := f
				for top.Parent() != nil {
					top = top.Parent()
				}
				// the IDLE implementation: beginIdle / endIdle, or State.Idle itself when they are written inline
				okw := c.isAnchor(top, "internal/state.(*State).beginIdle", "internal/state.(*State).endIdle", "internal/state.(*State).Idle", "internal/state.NewState")
				R.Check(okw, "R05.3", fmtf("%s|store idleCh", c.name(f)), P.Pos(st.Pos()),
					"State.idleCh written by beginIdle/endIdle", "State.idleCh is written outside beginIdle/endIdle: immediate (expunge-permitting) delivery could be active outside IDLE")
			}
		}
	}
	R.Min("R05.3", "stores to State.idleCh", w, 2)
}

// isTaggedOk reports whether call is response.Ok(tag) with a non-empty tag list.
func isTaggedCall(call *ssa.Call, names ...string) bool {
	sc := call.Call.StaticCallee()
	if sc == nil || sc.Pkg == nil || engine.RelPkg(sc.Pkg.Pkg.Path()) != "internal/response" || sc.Signature.Recv() != nil {
		return false
	}
	match := false
	for _, n := range names {
		if engine.ShortName(sc) == n {
			match = true
		}
	}
	if !match || len(call.Call.Args) != 1 {
		return false
	}
	return !engine.IsNilConst(call.Call.Args[0])
}

// notSelectedEdges: edges that mean "this session has not selected the mailbox in question".
func (c *Ctx) notSelectedEdges(f *ssa.Function) map[engine.Edge]bool {
	out := map[engine.Edge]bool{}
	stateFld := c.fieldOf("internal/session", "Session", "state")
	for _, b := range f.Blocks {
		iff := engine.IfOf(b)
		if iff == nil {
			continue
		}
		cv, neg := engine.StripNot(iff.Cond)
		falseIx := 1
		if neg {
			falseIx = 0
		}
		switch t := cv.(type) {
		case *ssa.Call:
			if sc := t.Call.StaticCallee(); sc != nil {
				if c.isAnchor(sc, "internal/state.(*State).IsSelected", "internal/state.(*Mailbox).Selected") {
					out[engine.Edge{From: b, Succ: falseIx}] = true
				}
			}
		case *ssa.BinOp:
			var other ssa.Value
			if engine.IsNilConst(t.Y) {
				other = t.X
			} else if engine.IsNilConst(t.X) {
				other = t.Y
			}
			if ld, ok := other.(*ssa.UnOp); ok && fieldAddrIs(ld.X, stateFld) {
				nilIx := 0
				if t.Op.String() == "!=" {
					nilIx = 1
				}
				if neg {
					nilIx = 1 - nilIx
				}
				out[engine.Edge{From: b, Succ: nilIx}] = true
			}
		case *ssa.Phi:
			// `sel := s.state != nil && s.state.IsSelected(); if sel {…}`: every incoming value is the
			// constant false or an IsSelected()/Selected() result, so the false edge means "not selected"
			allSel := len(t.Edges) > 0
			for _, e := range t.Edges {
				switch x := e.(type) {
				case *ssa.Const:
					if bv, ok := engine.ConstBool(x); !ok || bv {
						allSel = false
					}
				case *ssa.Call:
					sc := x.Call.StaticCallee()
					if sc == nil {
						allSel = false
						break
					}
					if !c.isAnchor(sc, "internal/state.(*State).IsSelected", "internal/state.(*Mailbox).Selected") {
						allSel = false
					}
				default:
					allSel = false
				}
			}
			if allSel {
				out[engine.Edge{From: b, Succ: falseIx}] = true
			}
		case *ssa.Parameter:
			// the isSameMBox parameter of the AppendOnlyMailbox callback
			sig := f.Signature
			if sig.Params().Len() == 2 && engine.IsNamed(sig.Params().At(0).Type(), "internal/state", "AppendOnlyMailbox") {
				out[engine.Edge{From: b, Succ: falseIx}] = true
			}
		}
	}
	return out
}

func c05liveness(c *Ctx, pf map[*ssa.Function]int) {
	P, R := c.P, c.R
	handlers := []string{"handleNoop", "handleCheck", "handleExpunge", "handleUIDExpunge", "handleClose", "handleMove", "handleStatus", "handleAppend"}
	R.Table("R05.4 handlers that must announce removals", handlers...)

	// flushing instructions of a function: flush-like call with true, or a call that is
	// handed a closure which itself flushes on every path to a nil return.
	var flushInstrs func(f *ssa.Function, depth int) map[ssa.Instruction]bool
	closureFlushes := func(cl *ssa.Function, depth int) bool {
		fi := flushInstrs(cl, depth+1)
		if len(fi) == 0 {
			return false
		}
		skip := c.notSelectedEdges(cl)
		for _, r := range engine.Returns(cl) {
			if len(r.Results) == 0 {
				continue
			}
			last := engine.LastResult(r)
			if !engine.IsNilConst(last) {
				// returning the flush's own error (return flush(...)) or another error
				continue
			}
			if engine.ReachesAvoiding(cl, r, fi, skip) {
				return false
			}
		}
		return true
	}
	flushInstrs = func(f *ssa.Function, depth int) map[ssa.Instruction]bool {
		out := map[ssa.Instruction]bool{}
		if depth > 3 {
			return out
		}
		for _, cs := range engine.Calls(f) {
			for _, callee := range P.Callees(cs) {
				if idx, ok := pf[callee]; ok {
					if resolvePermit(engine.ArgForParam(cs.Common(), callee, idx), f, pf, triNone) == triTrue {
						out[cs.Instr] = true
					}
				}
			}
			for _, a := range cs.Common().Args {
				if fn := engine.FuncValue(a); fn != nil && fn.Parent() != nil {
					if closureFlushes(fn, depth) {
						out[cs.Instr] = true
					}
				}
			}
			// a helper of the session package that itself flushes (permitting EXPUNGE) on every path to a nil
			// return, not-selected edges excepted
			if sc := cs.Common().StaticCallee(); sc != nil && sc != f && len(sc.Blocks) > 0 && sc.Parent() == nil && strings.HasSuffix(engine.PkgPathOf(sc), "internal/session") {
				if _, isFlushLike := pf[sc]; !isFlushLike && closureFlushes(sc, depth) {
					out[cs.Instr] = true
				}
			}
		}
		return out
	}

	for _, h := range handlers {
		top := c.fn("R05.4", "internal/session.(*Session)."+h)
		if top == nil {
			continue
		}
		oks := 0
		for _, f := range engine.WithClosures(top) {
			fi := flushInstrs(f, 0)
			skip := c.notSelectedEdges(f)
			for _, b := range f.Blocks {
				for _, in := range b.Instrs {
					call, ok := in.(*ssa.Call)
					if !ok || !isTaggedCall(call, "Ok") {
						continue
					}
					oks++
					key := fmtf("%s|tagged-OK", c.name(f))
					// a closure's OK may rely on the flush of its lexical parent only if
					// the closure is created after it; keep it simple: look in f itself.
					bad := engine.ReachesAvoiding(f, call, fi, skip)
					R.Check(!bad, "R05.4", key, P.Pos(call.Pos()),
						"every path to the tagged OK passes a flush with permitExpunge=true (or a not-selected edge)",
						"a path reaches the tagged OK of "+h+" without a flush that permits EXPUNGE: removals held back during FETCH/STORE/SEARCH are not announced by this command")
				}
			}
		}
		R.Check(oks > 0, "R05.4", c.name(top)+"|has-tagged-OK", P.Pos(top.Pos()), "handler builds its tagged OK", "no tagged OK found in "+h+" (rule cannot be evaluated)")
	}
	// IDLE: the store that arms idleCh is dominated by a flush(true), wherever it is written
	c.idleArmedAfterFullFlush("R05.4")
}

func c05issued(c *Ctx, roots []*ssa.Function) {
	P, R := c.P, c.R
	ei := c.fn("R05.5", "internal/state.(*Mailbox).ExpungeIssued")
	n := 0
	// the OK may be built by a helper of the session package that the handler calls
	var expanded []*ssa.Function
	seenRoot := map[*ssa.Function]bool{}
	okVia := map[*ssa.Function]bool{}
	for _, root := range roots {
		if root == nil {
			continue
		}
		if !seenRoot[root] {
			seenRoot[root] = true
			expanded = append(expanded, root)
		}
		for _, cs := range engine.Calls(root) {
			g := cs.Common().StaticCallee()
			if g == nil || len(g.Blocks) == 0 || engine.RelPkg(P.OwnPkgPath(g)) != "internal/session" || strings.HasPrefix(engine.ShortName(g), "handle") {
				continue
			}
			if seenRoot[g] {
				if okVia[g] {
					okVia[root] = true
				}
				continue
			}
			hasOK := false
			for _, b := range g.Blocks {
				for _, in := range b.Instrs {
					if call, ok := in.(*ssa.Call); ok && isTaggedCall(call, "Ok") {
						hasOK = true
					}
				}
			}
			if hasOK {
				seenRoot[g] = true
				okVia[g] = true
				expanded = append(expanded, g)
				okVia[root] = true
			}
		}
		for _, b := range root.Blocks {
			for _, in := range b.Instrs {
				if call, ok := in.(*ssa.Call); ok && isTaggedCall(call, "Ok") {
					okVia[root] = true
				}
			}
		}
	}
	covered := 0
	for _, root := range roots {
		if root != nil && okVia[root] {
			covered++
		}
	}
	for _, root := range expanded {
		if root == nil || ei == nil {
			continue
		}
		var eiCalls []*ssa.Call
		for _, cs := range engine.Calls(root) {
			if cs.Common().StaticCallee() == ei {
				if call, ok := cs.Instr.(*ssa.Call); ok {
					eiCalls = append(eiCalls, call)
				}
			}
		}
		for _, b := range root.Blocks {
			for _, in := range b.Instrs {
				call, ok := in.(*ssa.Call)
				if !ok || !isTaggedCall(call, "Ok") {
					continue
				}
				n++
				key := fmtf("%s|tagged-OK", c.name(root))
				good := false
				why := "the tagged OK is not dominated by a call to Mailbox.ExpungeIssued()"
				for _, ec := range eiCalls {
					if !engine.InstrDominates(ec, call) {
						continue
					}
					why = "ExpungeIssued() is called but its true edge does not add ItemExpungeIssued to the items of this OK"
					// If on its result
					for _, r := range *ec.Referrers() {
						iff, ok := r.(*ssa.If)
						if !ok {
							continue
						}
						// find ItemExpungeIssued call on the true edge
						for _, tb := range root.Blocks {
							if !engine.EdgeDominates(iff.Block(), 0, tb) {
								continue
							}
							for _, tin := range tb.Instrs {
								ic, ok := tin.(*ssa.Call)
								if !ok {
									continue
								}
								sc := ic.Call.StaticCallee()
								if sc == nil || engine.ShortName(sc) != "ItemExpungeIssued" {
									continue
								}
								// does it flow to a WithItems on the OK chain?
								if okChainGets(call, ic) {
									good = true
								}
							}
						}
					}
				}
				// the items may come from a helper of the session package that asks ExpungeIssued itself
				if !good {
					for _, cs2 := range engine.Calls(root) {
						h := cs2.Common().StaticCallee()
						hc, isCall := cs2.Instr.(*ssa.Call)
						if h == nil || !isCall || len(h.Blocks) == 0 || h.Parent() != nil || engine.RelPkg(P.OwnPkgPath(h)) != "internal/session" {
							continue
						}
						if !okChainGets(call, hc) { // the chain evaluates Ok(tag) first and the items afterwards
							continue
						}
						// in h: the true outcome of ExpungeIssued() returns ItemExpungeIssued
						for _, ecs := range engine.Calls(h) {
							ec, ok := ecs.Instr.(*ssa.Call)
							if !ok || ecs.Common().StaticCallee() != ei || ec.Referrers() == nil {
								continue
							}
							var walkRef func(v ssa.Value, neg bool)
							walkRef = func(v ssa.Value, neg bool) {
								for _, r := range *v.Referrers() {
									switch u := r.(type) {
									case *ssa.UnOp:
										if u.Op == token.NOT && u.Referrers() != nil {
											walkRef(u, !neg)
										}
									case *ssa.If:
										trueIx := 0
										if neg {
											trueIx = 1
										}
										for _, ret := range engine.Returns(h) {
											if !engine.EdgeDominates(u.Block(), trueIx, ret.Block()) && !(u.Block().Succs[trueIx] == ret.Block() && len(ret.Block().Preds) == 1) {
												continue
											}
											if len(ret.Results) > 0 && engine.AnyBackward(ret.Results[0], engine.FlowOpts{AppendElems: true, AppendBase: true, Loads: true}, func(x ssa.Value) bool {
												ic, ok := x.(*ssa.Call)
												return ok && ic.Call.StaticCallee() != nil && engine.ShortName(ic.Call.StaticCallee()) == "ItemExpungeIssued"
											}) {
												good = true
											}
										}
									}
								}
							}
							walkRef(ec, false)
						}
					}
				}
				R.Check(good, "R05.5", key, P.Pos(call.Pos()), "OK carries [EXPUNGEISSUED] when expunges were held back", why)
			}
		}
	}
	_ = n
	R.Min("R05.5", "handlers among handleFetch/Store/Search whose tagged OK was found", covered, 3)
	if ei != nil {
		resFld := c.fieldOf("internal/state", "State", "res")
		reads, tests := false, len(typeTests(ei, "internal/state", "expunge")) > 0
		for _, b := range ei.Blocks {
			for _, in := range b.Instrs {
				if fa, ok := in.(*ssa.FieldAddr); ok && fieldAddrIs(fa, resFld) {
					reads = true
				}
			}
		}
		// the true result must be produced under the ok edge
		trueUnderOk := false
		for _, t := range typeTests(ei, "internal/state", "expunge") {
			for _, r := range engine.Returns(ei) {
				engine.Backward(r.Results[0], engine.FlowOpts{Loads: true}, func(x ssa.Value) bool {
					if ph, ok := x.(*ssa.Phi); ok {
						for i, e := range ph.Edges {
							if v, isB := engine.ConstBool(e); isB && v {
								pred := ph.Block().Preds[i]
								if pred == t.ifb.Succs[0] || engine.EdgeDominates(t.ifb, 0, pred) {
									trueUnderOk = true
								}
							}
						}
					}
					if v, isB := engine.ConstBool(x); isB && v {
						if engine.EdgeDominates(t.ifb, 0, r.Block()) {
							trueUnderOk = true
						}
					}
					return true
				})
			}
		}
		// and unconditionally so: between the ok edge and the production of `true` there is no further test
		// (an expunge whose message is not in the snapshot yet is held back like any other)
		for _, t := range typeTests(ei, "internal/state", "expunge") {
			blk := t.ifb.Succs[0]
			uncond := true
			for steps := 0; steps < 6; steps++ {
				if engine.IfOf(blk) != nil {
					uncond = false
					break
				}
				if len(blk.Succs) != 1 {
					break
				}
				// stop at the block where the value joins (a phi receives the constant true) or at a return
				next := blk.Succs[0]
				joins := false
				for _, in := range next.Instrs {
					if ph, ok := in.(*ssa.Phi); ok {
						for i, e := range ph.Edges {
							if v, isB := engine.ConstBool(e); isB && v && next.Preds[i] == blk {
								joins = true
							}
						}
					}
				}
				if joins {
					break
				}
				blk = next
			}
			R.Check(uncond, "R05.5", c.name(ei)+"|every-queued-expunge-counts", P.Pos(ei.Pos()), "a queued *expunge makes ExpungeIssued true without further conditions",
				"ExpungeIssued tests something else besides the responder being an *expunge: an expunge that is held back but does not satisfy the extra condition (for instance its message is not in the snapshot yet) is not reported, the tagged OK lacks [EXPUNGEISSUED]")
		}
		R.Check(reads && tests && trueUnderOk, "R05.5", c.name(ei)+"|scans-pending", P.Pos(ei.Pos()),
			"ExpungeIssued scans the remaining queue State.res for *expunge", "ExpungeIssued no longer reports a pending *expunge in State.res")
	}
}

// okChainGets: the response built from okCall receives (via a WithItems call on the
// chain of method calls starting at okCall) a slice into which item flows.
func okChainGets(okCall *ssa.Call, item *ssa.Call) bool {
	chain := []ssa.Value{okCall}
	seen := map[ssa.Value]bool{okCall: true}
	for i := 0; i < len(chain); i++ {
		refs := chain[i].Referrers()
		if refs == nil {
			continue
		}
		for _, r := range *refs {
			switch t := r.(type) {
			case *ssa.Call:
				if len(t.Call.Args) > 0 && t.Call.Args[0] == chain[i] && t.Call.StaticCallee() != nil {
					if engine.ShortName(t.Call.StaticCallee()) == "WithItems" && len(t.Call.Args) > 1 {
						if engine.AnyBackward(t.Call.Args[1], engine.FlowOpts{AppendBase: true, AppendElems: true, Loads: true}, func(x ssa.Value) bool { return x == ssa.Value(item) }) {
							return true
						}
					}
					if !seen[t] {
						seen[t] = true
						chain = append(chain, t)
					}
				}
			case *ssa.Phi:
				if !seen[t] {
					seen[t] = true
					chain = append(chain, t)
				}
			}
		}
	}
	return false
}

// expungeHoldbackAlwaysRecordsID: in popResponders, on every path through the region entered by the
// "*expunge" edge of the type test, the message id is added to the skip set before the region is left.
// Returns the number of expunge edges judged and the position of an escaping path ("" if none).
func (c *Ctx) expungeHoldbackAlwaysRecordsID(pop *ssa.Function) (int, string) {
	n := 0
	for _, t := range typeTests(pop, "internal/state", "expunge") {
		n++
		entry := t.ifb.Succs[0]
		region := map[*ssa.BasicBlock]bool{}
		for _, b := range pop.Blocks {
			if engine.EdgeDominates(t.ifb, 0, b) {
				region[b] = true
			}
		}
		if !region[entry] {
			return n, c.P.Pos(t.ifb.Instrs[len(t.ifb.Instrs)-1].Pos())
		}
		seen := map[*ssa.BasicBlock]bool{}
		var esc string
		var walk func(b *ssa.BasicBlock)
		walk = func(b *ssa.BasicBlock) {
			if seen[b] || esc != "" {
				return
			}
			seen[b] = true
			for _, in := range b.Instrs {
				if call, ok := in.(*ssa.Call); ok {
					if sc := call.Call.StaticCallee(); sc != nil && engine.BaseName(sc) == "Add" {
						return
					}
				}
			}
			for _, s := range b.Succs {
				if !region[s] {
					last := b.Instrs[len(b.Instrs)-1]
					esc = c.P.Pos(last.Pos())
					if esc == "" || esc == "-" || esc == "?" {
						esc = c.P.Pos(t.ifb.Instrs[len(t.ifb.Instrs)-1].Pos())
					}
					return
				}
				walk(s)
			}
		}
		walk(entry)
		if esc != "" {
			return n, esc
		}
	}
	return n, ""
}

// holdBackFunction resolves where the hold-back decision is made: popResponders itself, evaluated with
// permitExpunge=false (edges taken only when it is true are cut), or - when popResponders merely
// dispatches on the parameter - the method of State it calls and returns on the permitExpunge=false path.
// It returns that function, the cut edges and the blocks that are live under them.
func holdBackFunction(pop *ssa.Function) (*ssa.Function, map[engine.Edge]bool, map[*ssa.BasicBlock]bool) {
	var permit ssa.Value
	if len(pop.Params) > 1 {
		permit = pop.Params[1]
	}
	for depth := 0; ; depth++ {
		cutEdges := map[engine.Edge]bool{}
		if permit != nil {
			for _, b := range pop.Blocks {
				if iff := engine.IfOf(b); iff != nil {
					cv, neg := engine.StripNot(iff.Cond)
					if cv == permit {
						if neg {
							cutEdges[engine.Edge{From: b, Succ: 1}] = true
						} else {
							cutEdges[engine.Edge{From: b, Succ: 0}] = true
						}
					}
				}
			}
		}
		live := map[*ssa.BasicBlock]bool{}
		var walk func(b *ssa.BasicBlock)
		walk = func(b *ssa.BasicBlock) {
			if live[b] {
				return
			}
			live[b] = true
			for i, s := range b.Succs {
				if !cutEdges[engine.Edge{From: b, Succ: i}] {
					walk(s)
				}
			}
		}
		walk(pop.Blocks[0])
		if depth >= 2 || len(typeTests(pop, "internal/state", "expunge")) > 0 {
			return pop, cutEdges, live
		}
		// a pure dispatcher: follow the call whose result is returned on a live path
		var next *ssa.Function
		for _, r := range engine.Returns(pop) {
			if !live[r.Block()] || len(r.Results) != 1 {
				continue
			}
			engine.Backward(r.Results[0], engine.FlowOpts{}, func(x ssa.Value) bool {
				if call, ok := x.(*ssa.Call); ok && live[call.Block()] {
					if sc := call.Call.StaticCallee(); sc != nil && len(sc.Blocks) > 0 && engine.RecvNamed(sc) != nil && engine.RecvNamed(sc).Obj().Name() == "State" {
						if len(typeTests(sc, "internal/state", "expunge")) > 0 {
							next = sc
						}
					}
				}
				return true
			})
		}
		if next == nil {
			return pop, cutEdges, live
		}
		pop, permit = next, nil
	}
}

// dominatedByIdleNonNil: block blk of f is dominated by the non-nil edge of a nil test of State.idleCh.
func (c *Ctx) dominatedByIdleNonNil(f *ssa.Function, blk *ssa.BasicBlock, idleFld *types.Var) bool {
	for _, b := range f.Blocks {
		iff := engine.IfOf(b)
		if iff == nil {
			continue
		}
		bin, isBin := iff.Cond.(*ssa.BinOp)
		if !isBin {
			continue
		}
		var other ssa.Value
		if engine.IsNilConst(bin.Y) {
			other = bin.X
		} else if engine.IsNilConst(bin.X) {
			other = bin.Y
		} else {
			continue
		}
		ld, isLd := other.(*ssa.UnOp)
		if !isLd || !fieldAddrIs(ld.X, idleFld) {
			continue
		}
		nonNilIx := 1
		if bin.Op.String() == "!=" {
			nonNilIx = 0
		}
		if engine.EdgeDominates(b, nonNilIx, blk) {
			return true
		}
	}
	return false
}

// queueKeepsWhatItIsGiven (R05.6): every responder handed to the queue is in the queue.
func (c *Ctx) queueKeepsWhatItIsGiven(rule string) {
	P, R := c.P, c.R
	R.Explain(rule, "every removal is announced: the functions of internal/state that put their Responder parameter into State.res (queueResponder) do so for all of it on every path - either one append of the whole parameter that every return passes, or a loop over the parameter every iteration of which appends the element (no `continue` past the append).  A queue that drops a responder it considers redundant - a second expunge of a message whose first expunge is still held back, with the re-adding exists in between - loses an announcement for good: the observer keeps a message that no longer exists.")
	resFld := c.fieldOf("internal/state", "State", "res")
	isResponders := func(t types.Type) bool {
		if sl, ok := t.Underlying().(*types.Slice); ok {
			t = sl.Elem()
		}
		return engine.IsNamed(t, "internal/state", "Responder")
	}
	n := 0
	for _, f := range c.funcsInPkg("internal/state") {
		if f.Parent() != nil {
			continue
		}
		var params []*ssa.Parameter
		for _, p := range f.Params {
			if isResponders(p.Type()) {
				params = append(params, p)
			}
		}
		if len(params) == 0 {
			continue
		}
		for _, par := range params {
			whole := map[ssa.Instruction]bool{}
			elem := map[ssa.Instruction]bool{}
			for _, b := range f.Blocks {
				for _, in := range b.Instrs {
					st, ok := in.(*ssa.Store)
					if !ok {
						continue
					}
					fa, ok := st.Addr.(*ssa.FieldAddr)
					if !ok || fieldOfAddr(fa) != resFld {
						continue
					}
					engine.Backward(st.Val, engine.FlowOpts{AppendElems: true, Loads: true}, func(x ssa.Value) bool {
						if x == ssa.Value(par) {
							whole[st] = true
							return false
						}
						if u, ok := x.(*ssa.UnOp); ok && u.Op == token.MUL {
							if ia, ok := u.X.(*ssa.IndexAddr); ok && engine.AnyBackward(ia.X, engine.FlowOpts{Loads: true}, func(y ssa.Value) bool { return y == ssa.Value(par) }) {
								elem[st] = true
								return false
							}
						}
						return true
					})
				}
			}
			if len(whole) == 0 && len(elem) == 0 {
				continue
			}
			n++
			bad := ""
			// an element is also taken care of when it is handled on the spot (PushResponder while idling)
			consume := map[ssa.Instruction]bool{}
			for in := range elem {
				consume[in] = true
			}
			for _, cs := range engine.Calls(f) {
				cc := cs.Common()
				if cs.Instr.Parent() == f && cc.IsInvoke() && engine.MethodName(cc.Method) == "handle" && engine.IsNamed(cc.Value.Type(), "internal/state", "Responder") {
					fromPar := engine.AnyBackward(cc.Value, engine.FlowOpts{Loads: true}, func(x ssa.Value) bool {
						if u, ok := x.(*ssa.UnOp); ok {
							if ia, ok := u.X.(*ssa.IndexAddr); ok {
								return engine.AnyBackward(ia.X, engine.FlowOpts{Loads: true}, func(y ssa.Value) bool { return y == ssa.Value(par) })
							}
						}
						return false
					})
					if fromPar {
						consume[cs.Instr] = true
					}
				}
			}
			cut := map[ssa.Instruction]bool{}
			for in := range whole {
				cut[in] = true
			}
			loops := engine.RangeLoopsOver(f, func(sv ssa.Value) bool {
				return engine.AnyBackward(sv, engine.FlowOpts{Loads: true}, func(y ssa.Value) bool { return y == ssa.Value(par) })
			})
			for _, h := range loops {
				body := engine.LoopBody(h)
				complete := len(consume) > 0
				for _, s := range h.Succs {
					if !body[s] || s == h {
						continue
					}
					if engine.ReachesAvoidingFrom(s, 0, h.Instrs[0], consume, nil) {
						complete = false
						if len(elem) > 0 {
							bad = "an iteration of the loop over the parameter can reach the next one without appending the element (" + P.Pos(firstPosOf(h)) + ")"
						}
					}
				}
				if complete {
					cut[h.Instrs[0]] = true
				}
			}
			if len(whole) == 0 && len(loops) == 0 {
				bad = "elements of the parameter are appended outside a loop over it"
			}
			for _, ret := range engine.Returns(f) {
				if lr := engine.LastResult(ret); lr != nil && lr.Type().String() == "error" && !engine.IsNilConst(lr) {
					continue
				}
				if bad == "" && engine.ReachesAvoiding(f, ret, cut, nil) {
					bad = "a return (" + P.Pos(ret.Pos()) + ") is reached without the append of the parameter (or a loop that appends / handles every element)"
				}
			}
			R.Check(bad == "", rule, c.name(f)+"|queues all of "+par.Name(), P.Pos(f.Pos()), "every responder handed in is appended to State.res", "State.res does not receive every responder the function is given: "+bad+" - a dropped responder is an update (an EXPUNGE, an EXISTS, a FETCH) the session is never told about")
		}
	}
	R.Min(rule, "functions that queue their Responder parameter", n, 1)
}
