package rules

import (
	"go/types"
	"sort"
	"strings"

	"golang.org/x/tools/go/ssa"

	"verifchecker/internal/engine"
)

func init() { register("C06", c06) }

func isInvoke(cs engine.CallSite, ifacePkg, iface, method string) bool {
	cc := cs.Common()
	return cc.IsInvoke() && engine.MethodName(cc.Method) == method && engine.IsNamed(cc.Value.Type(), ifacePkg, iface)
}

// implementersOf returns the concrete named types of package pkgRel whose pointer or
// value method set implements the interface.
func (c *Ctx) implementersOf(pkgRel string, iface *types.Interface) []*types.Named {
	pk := c.P.Pkg(pkgRel)
	var out []*types.Named
	if pk == nil {
		return nil
	}
	sc := pk.Types.Scope()
	for _, n := range sc.Names() {
		tn, ok := sc.Lookup(n).(*types.TypeName)
		if !ok {
			continue
		}
		nt, ok := tn.Type().(*types.Named)
		if !ok {
			continue
		}
		if _, isIf := nt.Underlying().(*types.Interface); isIf {
			continue
		}
		if types.Implements(nt, iface) || types.Implements(types.NewPointer(nt), iface) {
			out = append(out, nt)
		}
	}
	return out
}

func c06(c *Ctx) {
	c.singleIDHeader("R06.7")
	defer c06exactNoChangeTests(c)
	defer c06updatesConserved(c)
	defer c06updatesInWriteOrder(c)
	P, R := c.P, c.R
	R.Explain("R06.8", "a remove followed by a re-add reaches the session in that order: in State.popResponders every path of the *expunge edge (permitExpunge=false) records the message id in the skip set, whatever the snapshot holds, so the EXISTS of the re-add waits behind the held-back EXPUNGE; released early it is applied first and the later EXPUNGE then removes the message the connector re-added (shared with R05.2).")
	if pop := c.fn("R06.8", "internal/state.(*State).popResponders"); pop != nil {
		pop, _, _ = holdBackFunction(pop)
		n, esc := c.expungeHoldbackAlwaysRecordsID(pop)
		R.Check(esc == "", "R06.8", c.name(pop)+"|held-back expunge always recorded", P.Pos(pop.Pos()), "every path of the *expunge edge adds the id to the skip set", "a held-back *expunge can pass without its message id being recorded (path leaves at "+esc+"): the EXISTS of a connector re-add overtakes the EXPUNGE and the message disappears from the session")
		R.Min("R06.8", "*expunge type tests in popResponders", n, 1)
	}
	R.Explain("R06.1", "T-MUST exactly once: in user.apply every path to a return calls update.Done(err) exactly once with the error it returns; Done has no other caller; the update goroutine calls apply for every received update and its error branch neither returns nor breaks.")
	R.Explain("R06.2", "T-EXHAUST: the type switch in user.apply has a case for every concrete imap.Update type.")
	R.Explain("R06.3", "T-SQL: every statement reachable from the apply* functions is valid and arity-correct (engine of C08 restricted to the call graph below user.apply).")
	R.Explain("R06.4", "idempotence: every add-to-mailbox on an update path is justified by a membership query of the same transaction: the message list is the result of filtering with MailboxFilterContains / the mailbox list is filtered with GetMessageMailboxIDs (all sources of the captured membership value are that query), or the message id is fresh (NewInternalMessageID); mailbox creation is dominated by MailboxExistsWithRemoteID.")
	R.Explain("R06.5", "every apply* / DBIMAPStateWrite entry that names a mailbox compares it with the recovery mailbox before any write.")

	apply := c.fn("R06.1", "internal/backend.(*user).apply")
	if apply == nil {
		return
	}
	// ---- R06.1 ----------------------------------------------------------------------
	var dones []ssa.Instruction
	doneArg := map[ssa.Instruction]ssa.Value{}
	doneHelpers := map[*ssa.Function]bool{}
	cut := map[ssa.Instruction]bool{}
	isDone := func(cs engine.CallSite) bool {
		return cs.Common().IsInvoke() && engine.MethodName(cs.Common().Method) == "Done" && engine.IsNamed(cs.Common().Value.Type(), "imap", "Update")
	}
	for _, cs := range engine.Calls(apply) {
		if cs.Instr.Parent() != apply {
			continue
		}
		if isDone(cs) {
			dones = append(dones, cs.Instr)
			doneArg[cs.Instr] = cs.Common().Args[0]
			cut[cs.Instr] = true
			continue
		}
		// a helper that acknowledges on every path with the error it is given and hands that error back
		g := cs.Common().StaticCallee()
		if g == nil || len(g.Blocks) == 0 || !P.IsOwn(g) || g.Parent() != nil {
			continue
		}
		var inner []engine.CallSite
		for _, cs2 := range engine.Calls(g) {
			if isDone(cs2) && cs2.Instr.Parent() == g {
				inner = append(inner, cs2)
			}
		}
		if len(inner) != 1 {
			continue
		}
		icut := map[ssa.Instruction]bool{inner[0].Instr: true}
		okHelper := true
		ep, isParam := inner[0].Common().Args[0].(*ssa.Parameter)
		if !isParam {
			okHelper = false
		}
		for _, r := range engine.Returns(g) {
			if engine.ReachesAvoiding(g, r, icut, nil) {
				okHelper = false
			}
			if len(r.Results) != 1 || engine.ResultOf(r, 0) != ssa.Value(ep) {
				okHelper = false
			}
		}
		if engine.InstrReaches(inner[0].Instr, inner[0].Instr) {
			okHelper = false
		}
		if !okHelper {
			continue
		}
		doneHelpers[g] = true
		dones = append(dones, cs.Instr)
		doneArg[cs.Instr] = engine.ArgForParam(cs.Common(), g, engine.ParamIndex(g, ep))
		cut[cs.Instr] = true
	}
	R.Check(len(dones) >= 1, "R06.1", c.name(apply)+"|has-Done", P.Pos(apply.Pos()), "apply acknowledges the update", "user.apply contains no update.Done call: updates are never acknowledged")
	for _, ret := range engine.Returns(apply) {
		R.Check(!engine.ReachesAvoiding(apply, ret, cut, nil), "R06.1", c.name(apply)+"|Done-on-every-path", P.Pos(ret.Pos()),
			"every path to this return acknowledges the update", "a path reaches this return of user.apply without update.Done: the submitter waits forever")
		// the acknowledged error is the returned error
		if len(ret.Results) == 1 && len(dones) == 1 {
			arg := doneArg[dones[0]]
			res := engine.ResultOf(ret, 0)
			same := res == arg
			if call, ok := res.(*ssa.Call); ok && ssa.Instruction(call) == dones[0] {
				same = true // `return acknowledge(update, err)`: the helper returns the error it acknowledged
			}
			R.Check(same, "R06.1", c.name(apply)+"|Done-gets-returned-error", P.Pos(ret.Pos()),
				"Done receives the error apply returns", "update.Done is called with a different value than the error user.apply returns (acknowledgement and outcome disagree)")
		}
	}
	twice := false
	for _, a := range dones {
		for _, b := range dones {
			if a != b && engine.InstrReaches(a, b) {
				twice = true
			}
		}
		// Done inside a loop
		if engine.InstrReaches(a, a) {
			for _, s := range a.Block().Succs {
				if engine.BlocksReachableFrom(s)[a.Block()] {
					twice = true
				}
			}
		}
	}
	R.Check(!twice, "R06.1", c.name(apply)+"|Done-once", P.Pos(apply.Pos()), "no path acknowledges twice", "a path of user.apply calls update.Done twice (second call panics on the closed channel)")
	// closures of apply must not call Done either
	for _, cl := range engine.WithClosures(apply)[1:] {
		for _, cs := range engine.Calls(cl) {
			if cs.Common().IsInvoke() && engine.MethodName(cs.Common().Method) == "Done" && engine.IsNamed(cs.Common().Value.Type(), "imap", "Update") {
				R.Fail("R06.1", c.name(cl)+"|Done-in-closure", P.Pos(cs.Pos()), "update.Done called inside a closure of apply: cannot be counted")
			}
		}
	}
	// no other caller of Done on an imap.Update / Waiter in product code
	others := 0
	for _, f := range c.productFuncs() {
		if topFn(f) == apply || strings.HasPrefix(engine.RelPkg(P.OwnPkgPath(f)), "connector") {
			continue
		}
		if doneHelpers[f] {
			// the acknowledging helper of apply: it must have no other caller
			only := true
			for _, cs := range P.CallersOf(f) {
				if topFn(cs.Fn) != apply {
					only = false
				}
			}
			if only {
				continue
			}
		}
		for _, cs := range engine.Calls(f) {
			cc := cs.Common()
			if cc.IsInvoke() && engine.MethodName(cc.Method) == "Done" && (engine.IsNamed(cc.Value.Type(), "imap", "Update") || engine.IsNamed(cc.Value.Type(), "imap", "Waiter")) {
				others++
				R.Fail("R06.1", c.name(f)+"|foreign-Done", P.Pos(cs.Pos()), "update.Done is called outside user.apply: an update could be acknowledged twice or before it was applied")
			}
		}
	}
	R.Check(others == 0, "R06.1", "Done-only-in-apply", "", "Done has no caller besides user.apply in gluon's server packages", "see foreign-Done")

	// update goroutine: apply is called in a loop whose error branch stays in the loop
	nu := c.fn("R06.1", "internal/backend.newUser")
	if nu != nil {
		found := false
		for _, f := range engine.WithClosuresAndHandedOut(nu) {
			for _, cs := range engine.Calls(f) {
				callee := cs.Common().StaticCallee()
				if callee != apply {
					// a wrapper method that applies the update on every path (and reports the failure itself)
					if callee == nil || len(callee.Blocks) == 0 || !P.IsOwn(callee) || topFn(callee) == apply {
						continue
					}
					acut := map[ssa.Instruction]bool{}
					for _, cs2 := range engine.Calls(callee) {
						if cs2.Common().StaticCallee() == apply && cs2.Instr.Parent() == callee {
							acut[cs2.Instr] = true
						}
					}
					if len(acut) == 0 {
						continue
					}
					must := true
					for _, r := range engine.Returns(callee) {
						if engine.ReachesAvoiding(callee, r, acut, nil) {
							must = false
						}
					}
					if !must {
						continue
					}
				}
				found = true
				call, isCall := cs.Instr.(*ssa.Call)
				if !isCall {
					continue
				}
				// the call must be in a loop, and from the call every path returns to the loop head
				// unless it goes through a channel-closed / quit edge: approximated as: the block of the
				// call reaches itself, and no Return is reachable from the call without re-entering the
				// block that receives from the channel (the select).
				inLoop := false
				for _, s := range call.Block().Succs {
					if engine.BlocksReachableFrom(s)[call.Block()] {
						inLoop = true
					}
				}
				R.Check(inLoop, "R06.1", c.name(f)+"|apply-in-loop", P.Pos(call.Pos()), "updates are applied in a loop", "user.apply is not called from a loop: later updates are not processed")
				// error branch: blocks dominated by err != nil edge must not contain Return and must reach the call block again
				for _, r := range *call.Referrers() {
					bin, ok := r.(*ssa.BinOp)
					if !ok {
						continue
					}
					for _, r2 := range *bin.Referrers() {
						iff, ok := r2.(*ssa.If)
						if !ok {
							continue
						}
						errIx := 0
						if bin.Op.String() == "==" {
							errIx = 1
						}
						okBranch := true
						for _, b := range f.Blocks {
							if !engine.EdgeDominates(iff.Block(), errIx, b) {
								continue
							}
							if len(b.Instrs) > 0 {
								if _, isRet := b.Instrs[len(b.Instrs)-1].(*ssa.Return); isRet {
									okBranch = false
								}
							}
							if !engine.BlocksReachableFrom(b)[call.Block()] {
								okBranch = false
							}
						}
						R.Check(okBranch, "R06.1", c.name(f)+"|error-branch-continues", P.Pos(iff.Pos()), "a failed update does not stop the update loop", "the error branch after user.apply leaves the update loop: later updates are never processed")
					}
				}
			}
		}
		R.Check(found, "R06.1", c.name(nu)+"|calls-apply", P.Pos(nu.Pos()), "the update goroutine calls user.apply", "newUser's update goroutine does not call user.apply")
	}

	// ---- R06.2 ----------------------------------------------------------------------
	updT := c.lookupType("imap", "Update")
	if updT == nil {
		R.Fail("R06.2", "anchor:imap.Update", "", "imap.Update not found")
	} else {
		iface := updT.Underlying().(*types.Interface)
		impls := c.implementersOf("imap", iface)
		cases := map[string]bool{}
		var sw *ssa.Function
		for _, f := range engine.WithClosures(apply) {
			for _, b := range f.Blocks {
				for _, in := range b.Instrs {
					if ta, ok := in.(*ssa.TypeAssert); ok && ta.CommaOk {
						if nt := engine.NamedOf(ta.AssertedType); nt != nil {
							cases[nt.Obj().Name()] = true
							sw = f
						}
					}
				}
			}
		}
		var names []string
		for _, nt := range impls {
			n := nt.Obj().Name()
			if n == "updateBase" || n == "updateWaiter" {
				continue
			}
			names = append(names, n)
			pos := ""
			if sw != nil {
				pos = P.Pos(sw.Pos())
			}
			R.Check(cases[n], "R06.2", "apply-case|"+n, pos, "update kind "+n+" has a case in user.apply", "imap."+n+" implements imap.Update but user.apply has no case for it: the update is answered with 'bad update' instead of being applied")
		}
		sort.Strings(names)
		R.Table("imap.Update kinds", names...)
		R.Min("R06.2", "imap.Update kinds", len(names), 12)
	}

	// ---- R06.3 ----------------------------------------------------------------------
	reach := P.Reachable([]*ssa.Function{apply}, engine.ReachOpts{FollowClosures: true, OwnOnly: true})
	res := c.sqlAnalysis()
	n := c.emitSQL(res, "", map[string]string{"R08.1": "R06.3", "R08.2": "R06.3"}, func(o sqlOb) bool {
		if o.fn == nil {
			return false
		}
		_, ok := reach[o.fn]
		return ok
	})
	R.Min("R06.3", "statement obligations reachable from user.apply", n, 40)

	c06idem(c, apply, reach)
	R.Explain("R06.6", "flag case discipline (same rule as R03.4): flags restated by a connector update are compared case-insensitively, so the echo of a flag stored in another letter case changes nothing.")
	c.flagCase("R06.6")
	c06recovery(c, apply)
}

// valueSourcesAll collects the producers of v through phis, loads of local cells and free
// variables; returns them for inspection.
func valueSources(v ssa.Value) []ssa.Value {
	var out []ssa.Value
	seen := map[ssa.Value]bool{}
	var walk func(x ssa.Value)
	walk = func(x ssa.Value) {
		if x == nil || seen[x] {
			return
		}
		seen[x] = true
		switch t := x.(type) {
		case *ssa.Phi:
			for _, e := range t.Edges {
				walk(e)
			}
		case *ssa.Extract:
			walk(t.Tuple)
		case *ssa.ChangeType:
			walk(t.X)
		case *ssa.MakeInterface:
			walk(t.X)
		case *ssa.Alloc:
			sts := engine.StoresTo(t)
			if len(sts) == 0 {
				out = append(out, x)
			}
			for _, st := range sts {
				walk(st.Val)
			}
		case *ssa.FreeVar:
			bs := engine.FreeVarBinding(t)
			if len(bs) == 0 {
				out = append(out, x)
			}
			for _, b := range bs {
				walk(b)
			}
		case *ssa.UnOp:
			if t.Op.String() == "*" {
				switch a := t.X.(type) {
				case *ssa.Alloc, *ssa.FreeVar:
					walk(a)
					return
				case *ssa.IndexAddr:
					out = append(out, a)
					return
				}
			}
			out = append(out, x)
		default:
			out = append(out, x)
		}
	}
	walk(v)
	return out
}

func isTxMethodCall(v ssa.Value, names ...string) bool {
	call, ok := v.(*ssa.Call)
	if !ok || !call.Call.IsInvoke() {
		return false
	}
	if !engine.IsNamed(call.Call.Value.Type(), "db", "Transaction") && !engine.IsNamed(call.Call.Value.Type(), "db", "ReadOnly") {
		return false
	}
	for _, n := range names {
		if engine.MethodName(call.Call.Method) == n {
			return true
		}
	}
	return false
}

// closureMembership: the predicate closure passed to xslices.Filter captures a value all
// of whose sources are calls to one of the membership queries.
func filterJustified(v ssa.Value, queries ...string) (bool, string) {
	call, ok := v.(*ssa.Call)
	if !ok {
		return false, ""
	}
	sc := call.Call.StaticCallee()
	if sc != nil && engine.BaseName(sc) != "Filter" && len(sc.Blocks) > 0 && sc.Parent() == nil {
		// a helper of gluon that wraps one Filter whose predicate captures the helper's parameters: judge the
		// arguments bound to those parameters at this call
		rets := engine.Returns(sc)
		if len(rets) == 1 && len(rets[0].Results) == 1 {
			if inner, ok := rets[0].Results[0].(*ssa.Call); ok && inner.Call.StaticCallee() != nil && engine.BaseName(inner.Call.StaticCallee()) == "Filter" {
				if mc, ok := inner.Call.Args[1].(*ssa.MakeClosure); ok {
					for _, b := range mc.Bindings {
						p, isParam := b.(*ssa.Parameter)
						if !isParam {
							// a captured cell holding the parameter
							if al, isAl := b.(*ssa.Alloc); isAl {
								if sts := engine.StoresTo(al); len(sts) == 1 {
									p, isParam = sts[0].Val.(*ssa.Parameter)
								}
							}
						}
						if !isParam {
							continue
						}
						for i, q := range sc.Params {
							if q != p || i >= len(call.Call.Args) {
								continue
							}
							srcs := valueSources(call.Call.Args[i])
							all := len(srcs) > 0
							for _, s := range srcs {
								if !isTxMethodCall(s, queries...) {
									all = false
								}
							}
							if all {
								return true, ""
							}
						}
					}
				}
			}
		}
		// ... or that writes the filter as a loop: the kept elements are decided by a comma-ok lookup in a map
		// parameter; judge the argument bound to that parameter
		for _, b := range sc.Blocks {
			for _, in := range b.Instrs {
				lk, isLk := in.(*ssa.Lookup)
				if !isLk || !lk.CommaOk {
					continue
				}
				m := lk.X
				if ld, isLd := m.(*ssa.UnOp); isLd {
					if al, isAl := ld.X.(*ssa.Alloc); isAl {
						if sts := engine.StoresTo(al); len(sts) == 1 {
							m = sts[0].Val
						}
					}
				}
				q, isParam := m.(*ssa.Parameter)
				if !isParam {
					continue
				}
				for i, pp := range sc.Params {
					if pp != q || i >= len(call.Call.Args) {
						continue
					}
					srcs := valueSources(call.Call.Args[i])
					all := len(srcs) > 0
					for _, s := range srcs {
						if !isTxMethodCall(s, queries...) {
							all = false
						}
					}
					if all {
						return true, ""
					}
				}
			}
		}
		return false, ""
	}
	if sc == nil || engine.BaseName(sc) != "Filter" {
		return false, ""
	}
	mc, ok := call.Call.Args[1].(*ssa.MakeClosure)
	if !ok {
		return false, "the filter predicate captures nothing"
	}
	for _, b := range mc.Bindings {
		srcs := valueSources(b)
		if len(srcs) == 0 {
			continue
		}
		all := true
		any := false
		for _, s := range srcs {
			if isTxMethodCall(s, queries...) {
				any = true
			} else {
				all = false
			}
		}
		if any && all {
			return true, ""
		}
		if any && !all {
			return false, "the membership value captured by the filter predicate does not come from the membership query on every path"
		}
	}
	return false, "the filter predicate does not use a membership query result"
}

func c06idem(c *Ctx, apply *ssa.Function, reach map[*ssa.Function]*ssa.Function) {
	P, R := c.P, c.R
	addFn := c.fn("R06.4", "internal/state.AddMessagesToMailbox")
	wrap := c.fnOpt("internal/backend.(*user).applyMessagesAddedToMailbox")
	n := 0
	var fns []*ssa.Function
	for f := range reach {
		if engine.RelPkg(P.OwnPkgPath(f)) == "internal/backend" {
			fns = append(fns, f)
		}
	}
	sort.Slice(fns, func(i, j int) bool { return fns[i].Pos() < fns[j].Pos() })
	for _, f := range fns {
		if f == wrap {
			continue
		}
		for _, cs := range engine.Calls(f) {
			callee := cs.Common().StaticCallee()
			if callee == nil || (callee != addFn && callee != wrap) {
				continue
			}
			n++
			key := c.name(f) + "|add-to-mailbox"
			// parameter positions: (ctx, tx, mboxID, messageIDs, ...) for both (wrap has receiver first)
			off := 0
			if callee == wrap {
				off = 1
			}
			mbox := cs.Common().Args[off+2]
			msgs := cs.Common().Args[off+3]
			just, why := false, "neither the message list nor the mailbox is the result of filtering with a membership query, and the message id is not fresh"
			// J1: message list filtered by MailboxFilterContains — on every path (all sources)
			srcs := valueSources(msgs)
			nJust := 0
			for _, s := range srcs {
				if ok, w := filterJustified(s, "MailboxFilterContains", "MailboxFilterContainsInternalID"); ok {
					nJust++
				} else if w != "" {
					why = w
				}
			}
			if len(srcs) > 0 && nJust == len(srcs) {
				just = true
			} else if nJust > 0 {
				why = "the message list is filtered with the membership query on some paths only"
			}
			// J2: mailbox id is an element of a slice filtered by GetMessageMailboxIDs
			if !just {
				for _, s := range valueSources(mbox) {
					// element of ranged slice: load of IndexAddr(slice)
					if ia, ok := s.(*ssa.IndexAddr); ok {
						for _, s2 := range valueSources(ia.X) {
							if ok, w := filterJustified(s2, "GetMessageMailboxIDs"); ok {
								just = true
							} else if w != "" {
								why = w
							}
						}
					}
				}
			}
			// J2b: the call is dominated by the "not contained" outcome of slices.Contains(<GetMessageMailboxIDs result>, mbox)
			if !just {
				for _, b := range f.Blocks {
					iff := engine.IfOf(b)
					if iff == nil {
						continue
					}
					cond, neg := engine.StripNot(iff.Cond)
					call, ok := cond.(*ssa.Call)
					if !ok || call.Call.StaticCallee() == nil || engine.BaseName(call.Call.StaticCallee()) != "Contains" || len(call.Call.Args) != 2 {
						continue
					}
					if !strings.Contains(engine.PkgPathOf(call.Call.StaticCallee()), "slices") {
						continue
					}
					srcs := valueSources(call.Call.Args[0])
					allQ := len(srcs) > 0
					for _, s2 := range srcs {
						if !isTxMethodCall(s2, "GetMessageMailboxIDs") {
							allQ = false
						}
					}
					same := call.Call.Args[1] == mbox
					if !same {
						for _, a := range valueSources(call.Call.Args[1]) {
							for _, m := range valueSources(mbox) {
								if a == m {
									same = true
								}
							}
						}
					}
					notIx := 1
					if neg {
						notIx = 0
					}
					if allQ && same && engine.EdgeDominates(b, notIx, cs.Instr.Block()) {
						just = true
					}
				}
			}
			// J3: fresh message id
			if !just {
				fresh := false
				engine.Backward(msgs, engine.FlowOpts{AppendElems: true, AppendBase: true, Loads: true}, func(x ssa.Value) bool {
					if call, ok := x.(*ssa.Call); ok {
						if sc := call.Call.StaticCallee(); sc != nil && engine.ShortName(sc) == "NewInternalMessageID" {
							fresh = true
						}
					}
					// struct literal fields stored through FieldAddr of the element
					if al, ok := x.(*ssa.Alloc); ok {
						for _, r := range *al.Referrers() {
							if ia, ok := r.(*ssa.IndexAddr); ok {
								for _, r2 := range *ia.Referrers() {
									if fa, ok := r2.(*ssa.FieldAddr); ok {
										for _, st := range engine.StoresTo(fa) {
											for _, s := range valueSources(st.Val) {
												if call, ok := s.(*ssa.Call); ok {
													if sc := call.Call.StaticCallee(); sc != nil && engine.ShortName(sc) == "NewInternalMessageID" {
														fresh = true
													}
												}
											}
										}
									}
								}
							}
						}
					}
					return true
				})
				if fresh {
					just = true
				}
			}
			R.Check(just, "R06.4", key, P.Pos(cs.Pos()), "add-to-mailbox is guarded by a membership query of the same transaction (or the id is fresh)",
				"messages are added to a mailbox on a connector-update path without excluding those already there: "+why+" — re-delivering the update fails on the UNIQUE constraint or assigns a new UID")
		}
	}
	R.Min("R06.4", "add-to-mailbox sites on update paths", n, 3)
	// mailbox creation guarded by existence
	if mc := c.fn("R06.4", "internal/backend.(*user).applyMailboxCreated"); mc != nil {
		var exists, creates []ssa.Instruction
		for _, f := range c.withPackageHelpers(mc, "internal/backend", 1) {
			for _, cs := range engine.Calls(f) {
				if isInvokeNamed(cs, "MailboxExistsWithRemoteID") {
					exists = append(exists, cs.Instr)
				}
				if isInvokeNamed(cs, "CreateMailbox") {
					creates = append(creates, cs.Instr)
				}
			}
		}
		R.Check(len(exists) > 0 && len(creates) > 0, "R06.4", c.name(mc)+"|exists-before-create", P.Pos(mc.Pos()),
			"MailboxCreated checks MailboxExistsWithRemoteID", "applyMailboxCreated does not query MailboxExistsWithRemoteID before creating: a duplicate MailboxCreated fails or duplicates")
		// the exists result must gate an early return before the write closure is created
		gated := false
		for _, e := range exists {
			call, ok := e.(*ssa.Call)
			if !ok {
				continue
			}
			f := call.Parent()
			// result flows (possibly through the ClientReadType wrapper) to an If in mc whose true edge returns nil
			_ = f
			for _, b := range mc.Blocks {
				iff := engine.IfOf(b)
				if iff == nil {
					continue
				}
				if _, isBool := iff.Cond.Type().Underlying().(*types.Basic); !isBool {
					continue
				}
				// true successor returns nil and the closure creating the mailbox is made on the false side
				ts := b.Succs[0]
				if len(ts.Instrs) > 0 {
					if ret, ok := ts.Instrs[len(ts.Instrs)-1].(*ssa.Return); ok && engine.IsNilConst(engine.LastResult(ret)) {
						if ex, ok := iff.Cond.(*ssa.Extract); ok && ex.Index == 0 {
							gated = true
						}
					}
				}
			}
		}
		R.Check(gated, "R06.4", c.name(mc)+"|exists-returns-early", P.Pos(mc.Pos()), "an existing mailbox makes MailboxCreated a no-op", "the result of the existence query does not lead to an early nil return")
	}
}

func isInvokeNamed(cs engine.CallSite, method string) bool {
	cc := cs.Common()
	return cc.IsInvoke() && engine.MethodName(cc.Method) == method
}

func c06recovery(c *Ctx, apply *ssa.Function) {
	P, R := c.P, c.R
	// entries that name a mailbox: apply functions whose update type has a mailbox field
	type entry struct{ fn, why string }
	entries := []entry{
		{"internal/backend.(*user).applyMailboxCreated", "Mailbox.ID"},
		{"internal/backend.(*user).applyMailboxDeleted", "MailboxID"},
		{"internal/backend.(*user).applyMailboxUpdated", "MailboxID"},
		{"internal/backend.(*user).applyMailboxIDChanged", "InternalID"},
		{"internal/backend.(*user).applyMessagesCreated", "MailboxIDs"},
		{"internal/backend.(*user).applyMessageMailboxesUpdated", "MailboxIDs"},
	}
	var rows []string
	for _, e := range entries {
		rows = append(rows, e.fn+" ("+e.why+")")
		f := c.fn("R06.5", e.fn)
		if f == nil {
			continue
		}
		// a comparison with the recovery id: BinOp EQL with ids.GluonInternalRecoveryMailboxRemoteID
		// constant, user.recoveryMailboxID field, or slices.Contains(..., recovery const)
		var guards []ssa.Instruction
		recFld := c.fieldOf("internal/backend", "user", "recoveryMailboxID")
		for _, g := range engine.WithClosures(f) {
			for _, b := range g.Blocks {
				for _, in := range b.Instrs {
					switch t := in.(type) {
					case *ssa.BinOp:
						if t.Op.String() != "==" && t.Op.String() != "!=" {
							continue
						}
						for _, side := range []ssa.Value{t.X, t.Y} {
							if s, ok := engine.ConstString(side); ok && c.isRecoveryConst(s) {
								guards = append(guards, in)
							}
							if ld, ok := side.(*ssa.UnOp); ok && fieldAddrIs(ld.X, recFld) {
								guards = append(guards, in)
							}
						}
					case *ssa.Call:
						if sc := t.Call.StaticCallee(); sc != nil && engine.BaseName(sc) == "Contains" && len(t.Call.Args) == 2 {
							if s, ok := engine.ConstString(t.Call.Args[1]); ok && c.isRecoveryConst(s) {
								guards = append(guards, in)
							}
						}
					}
				}
			}
		}
		// every transaction write in f (incl. closures) must be preceded by a guard: the guard must
		// dominate, within its function, the creation of the write closure / the write itself
		var writes []ssa.Instruction
		for _, g := range engine.WithClosures(f) {
			for _, cs := range engine.Calls(g) {
				cc := cs.Common()
				if cc.IsInvoke() && engine.IsNamed(cc.Value.Type(), "db", "Transaction") && isWriteMethod(engine.MethodName(cc.Method)) {
					writes = append(writes, cs.Instr)
				}
				if sc := cc.StaticCallee(); sc != nil && (engine.ShortName(sc) == "AddMessagesToMailbox" || engine.ShortName(sc) == "applyMessagesAddedToMailbox") {
					writes = append(writes, cs.Instr)
				}
			}
		}
		ok := len(guards) > 0
		bad := ""
		// a Contains-guard on a field (message.MailboxIDs) protects every write derived from
		// that field if all other loads of the field are dominated by its not-contains edge
		fieldGuard := false
		for _, g := range guards {
			if call, isCall := g.(*ssa.Call); isCall && containsGuardsField(call) {
				fieldGuard = true
			}
		}
		for _, w := range writes {
			covered := fieldGuard
			for _, g := range guards {
				if guardCovers(g, w) {
					covered = true
				}
			}
			if !covered {
				ok = false
				bad = P.Pos(w.Pos())
			}
		}
		R.Check(ok, "R06.5", e.fn+"|recovery-guard", P.Pos(f.Pos()), fmtf("%d writes, each preceded by the recovery-mailbox comparison", len(writes)),
			"a database write ("+bad+") on this update path is not preceded by the comparison with the recovery mailbox id: a connector update could modify the protected 'Recovered Messages' mailbox")
	}
	R.Table("R06.5 update entries naming a mailbox", rows...)
}

func (c *Ctx) isRecoveryConst(s string) bool {
	pk := c.P.Pkg("internal/ids")
	if pk == nil {
		return false
	}
	for _, n := range []string{"GluonInternalRecoveryMailboxRemoteID"} {
		if o, ok := pk.Types.Scope().Lookup(n).(*types.Const); ok {
			if o.Val().ExactString() == `"`+s+`"` {
				return true
			}
		}
	}
	return false
}

func isWriteMethod(n string) bool {
	for _, p := range []string{"Create", "Delete", "Rename", "Add", "Remove", "Set", "Update", "Mark", "Clear", "Store", "GetOrCreate"} {
		if strings.HasPrefix(n, p) {
			return true
		}
	}
	return false
}

// guardCovers: guard g (in function G) precedes write w (in function W): same function and
// g's block dominates w's block; or W is a closure (transitively) of G and g dominates the
// MakeClosure that creates it; or W == G's closure and g is inside the same closure before w.
func guardCovers(g, w ssa.Instruction) bool {
	gf, wf := g.Parent(), w.Parent()
	if gf == wf {
		return engine.InstrDominates(g, w) || g.Block().Dominates(w.Block())
	}
	// climb from wf to gf
	for f := wf; f != nil && f.Parent() != nil; f = f.Parent() {
		par := f.Parent()
		// find MakeClosure of f in par
		for _, b := range par.Blocks {
			for _, in := range b.Instrs {
				if mc, ok := in.(*ssa.MakeClosure); ok && mc.Fn == f {
					if par == gf {
						return engine.InstrDominates(g, in) || g.Block().Dominates(in.Block())
					}
				}
			}
		}
	}
	return false
}

// containsGuardsField: call is Contains(X, const) with X a load of field p of some base;
// every other load of the same field of the same base in the function is dominated by the
// false edge of an If on the call's result.
func containsGuardsField(call *ssa.Call) bool {
	ld, ok := call.Call.Args[0].(*ssa.UnOp)
	if !ok {
		return false
	}
	fa, ok := ld.X.(*ssa.FieldAddr)
	if !ok {
		return false
	}
	var iff *ssa.If
	for _, r := range *call.Referrers() {
		if i, ok := r.(*ssa.If); ok {
			iff = i
		}
	}
	if iff == nil {
		return false
	}
	fn := call.Parent()
	others := 0
	for _, b := range fn.Blocks {
		for _, in := range b.Instrs {
			fa2, ok := in.(*ssa.FieldAddr)
			if !ok || fa2 == fa || fa2.Field != fa.Field || fa2.X.Type() != fa.X.Type() {
				continue
			}
			// same base value (the loop variable)
			if !sameBase(fa.X, fa2.X) {
				continue
			}
			others++
			if !engine.EdgeDominates(iff.Block(), 1, fa2.Block()) {
				return false
			}
		}
	}
	return others > 0
}

func sameBase(a, b ssa.Value) bool {
	if a == b {
		return true
	}
	la, ok1 := a.(*ssa.UnOp)
	lb, ok2 := b.(*ssa.UnOp)
	if ok1 && ok2 && la.X == lb.X {
		return true
	}
	return false
}

// c06exactNoChangeTests (R06.9): "nothing to do" is decided by identity, not by case-folded equality.
func c06exactNoChangeTests(c *Ctx) { c.exactNoChangeTests("R06.9") }

// exactNoChangeTests is shared with C14 (R14.12): mailbox names other than INBOX are case-sensitive.
func (c *Ctx) exactNoChangeTests(rule string) {
	P, R := c.P, c.R
	R.Explain(rule, "an update that differs from the current state only in letter case is still a change: in the functions below user.apply (internal/backend, closures included) no success return is control-dependent on the true outcome of strings.EqualFold applied to two non-constant values (stored value against update value).  Only INBOX is case-insensitive; comparing with a constant (\"inbox\") is fine, comparing data with data case-insensitively turns a case-only rename into a silently acknowledged no-op.")
	apply := c.fn(rule, "internal/backend.(*user).apply")
	if apply == nil {
		return
	}
	n := 0
	for _, f := range c.withPackageHelpers(apply, "internal/backend", 3) {
		n++
		bad := ""
		for _, b := range f.Blocks {
			iff := engine.IfOf(b)
			if iff == nil {
				continue
			}
			cond, neg := engine.StripNot(iff.Cond)
			call, ok := cond.(*ssa.Call)
			if !ok || call.Call.StaticCallee() == nil || engine.PkgPathOf(call.Call.StaticCallee()) != "strings" || call.Call.StaticCallee().Name() != "EqualFold" {
				continue
			}
			_, k0 := call.Call.Args[0].(*ssa.Const)
			_, k1 := call.Call.Args[1].(*ssa.Const)
			if k0 || k1 {
				continue
			}
			eqIx := 0
			if neg {
				eqIx = 1
			}
			// a nil-error return that is inevitable from the "equal" edge but not from the other one
			for _, ret := range engine.Returns(f) {
				lr := engine.LastResult(ret)
				if lr == nil || !engine.IsNilConst(lr) {
					continue
				}
				inev := func(s *ssa.BasicBlock) bool {
					seen := map[*ssa.BasicBlock]bool{}
					ok := true
					var walk func(x *ssa.BasicBlock)
					walk = func(x *ssa.BasicBlock) {
						if seen[x] || !ok || x == ret.Block() {
							return
						}
						seen[x] = true
						if len(x.Succs) == 0 {
							ok = false
							return
						}
						for _, y := range x.Succs {
							walk(y)
						}
					}
					walk(s)
					return ok
				}
				if inev(b.Succs[eqIx]) && !inev(b.Succs[1-eqIx]) {
					bad = P.Pos(call.Pos())
				}
			}
		}
		if bad != "" || f.Parent() == nil {
			R.Check(bad == "", rule, c.name(f)+"|no case-folded no-change test", P.Pos(f.Pos()), "no success return hangs on EqualFold(data, data)", "a success return is taken because two values are equal ignoring case ("+bad+"): an update that changes only the letter case is acknowledged but not applied")
		}
	}
	R.Min(rule, "functions below user.apply", n, 15)
}

// c06updatesConserved (R06.10): applying an update announces every part of the change.
func c06updatesConserved(c *Ctx) {
	P, R := c.P, c.R
	R.Explain("R06.10", "the whole change is announced: in the functions below user.apply every list of state updates returned by a call is consumed - appended, passed on, stored or returned - on every path to a success return, and when it is obtained inside a loop, before the loop comes round again (same rule as R02.1, restricted to the update appliers).  An update that touches several mailboxes but forwards only the last mailbox's announcements leaves the sessions of the other mailboxes with a message the connector deleted.")
	apply := c.fn("R06.10", "internal/backend.(*user).apply")
	if apply == nil {
		return
	}
	n := 0
	for _, f := range c.withPackageHelpers(apply, "internal/backend", 3) {
		for _, cs := range engine.Calls(f) {
			call, ok := cs.Instr.(*ssa.Call)
			if !ok {
				continue
			}
			tup, isTup := call.Type().(*types.Tuple)
			if !isTup || call.Referrers() == nil {
				continue
			}
			for _, r := range *call.Referrers() {
				ex, isEx := r.(*ssa.Extract)
				if !isEx || ex.Index >= tup.Len() || !isUpdateType(tup.At(ex.Index).Type()) {
					continue
				}
				n++
				esc := updatesDroppedOnPath(f, ex)
				R.Check(!esc.IsValid(), "R06.10", fmtf("%s|%s#%d", c.name(f), calleeLabel(call), ex.Index), P.Pos(call.Pos()), "consumed on every path", "the state updates returned by "+calleeLabel(call)+" can be lost ("+P.Pos(esc)+"): part of the change the update describes is never announced")
			}
		}
	}
	R.Min("R06.10", "update-returning calls below user.apply", n, 8)
}

// c06updatesInWriteOrder (R06.11): the sessions hear about the parts of a change in the order in which they were written.
func c06updatesInWriteOrder(c *Ctx) {
	P, R := c.P, c.R
	R.Explain("R06.11", "announcements follow the writes: where the functions below user.apply concatenate the state updates of two calls (`append(a, b...)`, a from call X, b from call Y), X is executed before Y.  The updates carry data read at the time of their write (an EXISTS carries the flags the message had when it was added); replaying them in another order than the writes lets an earlier snapshot of the data overwrite a later change in the sessions that are told (a flag change announced before the EXISTS that still carries the old flags).")
	apply := c.fn("R06.11", "internal/backend.(*user).apply")
	if apply == nil {
		return
	}
	srcCalls := func(v ssa.Value) []*ssa.Call {
		var found []*ssa.Call
		engine.Backward(v, engine.FlowOpts{AppendBase: true, AppendElems: true}, func(x ssa.Value) bool {
			if ex, ok := x.(*ssa.Extract); ok {
				if call, ok := ex.Tuple.(*ssa.Call); ok && isUpdateType(ex.Type()) {
					if _, isBuiltin := call.Call.Value.(*ssa.Builtin); !isBuiltin {
						found = append(found, call)
					}
				}
				return false
			}
			return true
		})
		return found
	}
	n := 0
	for _, f := range c.withPackageHelpers(apply, "internal/backend", 3) {
		for _, cs := range engine.Calls(f) {
			v, isVal := cs.Instr.(ssa.Value)
			if !isVal {
				continue
			}
			app, ok := engine.IsBuiltinCall(v, "append")
			if !ok || len(app.Call.Args) != 2 || !isUpdateType(app.Type()) {
				continue
			}
			for _, x := range srcCalls(app.Call.Args[0]) {
				for _, y := range srcCalls(app.Call.Args[1]) {
					if x == y || x.Block() == nil || y.Block() == nil {
						continue
					}
					// loop-carried accumulation: the same call site feeds both sides in different iterations
					n++
					okOrder := engine.InstrDominates(x, y) || (engine.InstrReaches(x, y) && !engine.InstrReaches(y, x))
					R.Check(okOrder, "R06.11", c.name(f)+"|append order "+calleeLabel(x)+" then "+calleeLabel(y), P.Pos(app.Pos()), "the updates are concatenated in the order of their writes", "the state updates of "+calleeLabel(y)+" (written first) are announced after those of "+calleeLabel(x)+" (written later): sessions apply them in the wrong order")
				}
			}
		}
	}
	R.Stats["R06.11 concatenations of two calls' updates"] = n
}
