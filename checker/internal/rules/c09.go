package rules

import (
	"go/constant"
	"go/token"
	"go/types"
	"os"
	"strings"

	"golang.org/x/tools/go/ssa"

	"verifchecker/internal/engine"
	"verifchecker/internal/sqlx"
)

func init() { register("C09", c09) }

func c09(c *Ctx) {
	defer c.truncationIsAnError()
	defer c.listReportsEveryParsedName("R09.12")
	defer c09pathAgreement(c)
	defer c09deleteAll(c)
	defer c09releaseRechecksUnderLock(c)
	defer c09releaseRemovesOwnEntry(c)
	defer c.hashIsOfInput()
	P, R := c.P, c.R
	R.Explain("R09.1", "T-GUARDED/T-PAIR: in WriteControlledStore.Get/Set/Delete the call into the wrapped store is dominated by acquireSyncRef(id) for the same id and by RLock (Get) / Lock (Set, Delete) on that entry's lock, with the unlock and releaseSyncRef deferred; only the two *Unchecked methods bypass it.")
	R.Explain("R09.2", "T-SOURCE: every id passed to SetUnchecked is fresh (imap.NewInternalMessageID, directly, through a request struct field, or returned by Connector.CreateMessage): the unlocked write can never hit an id another goroutine is reading.")
	R.Explain("R09.3", "reference counting: a lock entry taken from the pool is published in entryTable only after its counter was set to 1; the counter is otherwise touched only through sync/atomic; entryTable is accessed only under WriteControlledStore.lock.")
	R.Explain("R09.4", "T-NODROP in store/disk.go: the errors of every file.Write in Set and of the integrity reads in Get (io.ReadFull of header and nonce, the decompressor's WriteTo) are returned; in the decrypt goroutine a gcm.Open failure ends in CloseWithError(err).")
	R.Explain("R09.5", "T-CALLERS: outside package store the raw store.Store interface is used only by newUser's start-up scan; everything else goes through *WriteControlledStore.")
	R.Explain("R09.6", "overwrite semantics: onDiskStore.Set opens the cache file with O_CREATE|O_TRUNC and write access (a shorter new value must not keep the tail of the old file).")

	// ---- R09.1 -----------------------------------------------------------------------
	acq := c.fn("R09.1", "store.(*WriteControlledStore).acquireSyncRef")
	rel := c.fn("R09.1", "store.(*WriteControlledStore).releaseSyncRef")
	implFld := c.fieldOf("store", "WriteControlledStore", "impl")
	n := 0
	for _, m := range c.methodsOf("store", "WriteControlledStore") {
		if strings.HasSuffix(engine.ShortName(m), "Unchecked") || m == acq || m == rel {
			continue
		}
		for _, f := range engine.WithClosures(m) {
			for _, cs := range engine.Calls(f) {
				cc := cs.Common()
				if !cc.IsInvoke() || !engine.IsNamed(cc.Value.Type(), "store", "Store") {
					continue
				}
				name := engine.MethodName(cc.Method)
				if name != "Get" && name != "Set" && name != "Delete" {
					continue
				}
				// receiver is w.impl
				isImpl := false
				if ld, ok := cc.Value.(*ssa.UnOp); ok && fieldAddrIs(ld.X, implFld) {
					isImpl = true
				}
				if !isImpl {
					continue
				}
				n++
				key := c.name(f) + "|impl." + name
				var idArg ssa.Value
				if len(cc.Args) > 0 {
					idArg = cc.Args[0]
				}
				ok, why := serialisedBySyncRef(f, cs.Instr, idArg, name, acq, rel)
				if !ok && f.Parent() != nil {
					// the closure is run by a helper method that takes the per-id lock around it
					if ok2, why2 := closureRunUnderSyncRef(c, f, idArg, name, acq, rel); ok2 {
						ok, why = true, why2
					}
				}
				R.Check(ok, "R09.1", key, P.Pos(cs.Pos()), "serialised by the per-id lock, released by defer ("+why+")",
					"impl."+name+" is not properly serialised: "+why+": concurrent readers/writers of one id are not serialised and a reader can observe a half-written value")
			}
		}
	}
	R.Min("R09.1", "locked calls into the wrapped store", n, 3)

	// ---- R09.2 -----------------------------------------------------------------------
	k := 0
	for _, f := range c.funcsInPkg("internal/state", "internal/backend") {
		for _, cs := range engine.Calls(f) {
			if !isStoreCall(cs, "SetUnchecked") {
				continue
			}
			k++
			idArg := cs.Common().Args[1]
			okAll, bad := true, ""
			origins := P.Origins(idArg, engine.OriginOpts{FollowFields: true, Through: commonThrough, MaxDepth: 30, Stop: func(v ssa.Value) bool {
				if call, ok := v.(*ssa.Call); ok {
					if sc := call.Call.StaticCallee(); sc != nil && engine.ShortName(sc) == "NewInternalMessageID" {
						return true
					}
				}
				return false
			}})
			for _, o := range origins {
				if call, ok := o.V.(*ssa.Call); ok {
					if sc := call.Call.StaticCallee(); sc != nil && engine.ShortName(sc) == "NewInternalMessageID" {
						continue
					}
					if call.Call.IsInvoke() && engine.MethodName(call.Call.Method) == "CreateMessage" {
						continue
					}
				}
				if o.Kind == "const" {
					continue
				}
				okAll, bad = false, o.V.String()+" in "+parentName(c, o.V)
			}
			R.Check(okAll && len(origins) > 0, "R09.2", c.name(f)+"|SetUnchecked", P.Pos(cs.Pos()), "the unlocked write targets a freshly generated id", "SetUnchecked (no per-id lock) can be called with an id that is not freshly generated ("+bad+"): a concurrent reader of that id may observe a partial value")
		}
	}
	R.Min("R09.2", "SetUnchecked call sites", k, 4)
	c.uncheckedDeleteOnlyFresh("R09.2")

	// ---- R09.3 -----------------------------------------------------------------------
	cntFld := c.fieldOf("store", "syncRef", "counter")
	tblFld := c.fieldOf("store", "WriteControlledStore", "entryTable")
	// publications: every write into entryTable, wherever it sits (acquireSyncRef or a helper of it)
	isTable := func(m ssa.Value) bool {
		return engine.AnyBackward(m, engine.FlowOpts{Loads: true}, func(x ssa.Value) bool {
			if u, ok := x.(*ssa.UnOp); ok {
				if fa, ok := u.X.(*ssa.FieldAddr); ok && fieldOfAddr(fa) == tblFld {
					return true
				}
			}
			return false
		})
	}
	// a value is private when it was just taken from the pool or freshly allocated in this function
	privateRef := func(v ssa.Value) bool {
		okAll, any := true, false
		engine.Backward(v, engine.FlowOpts{Loads: true}, func(x ssa.Value) bool {
			switch t := x.(type) {
			case *ssa.Phi, *ssa.Extract, *ssa.ChangeType:
				return true
			case *ssa.TypeAssert:
				if call, ok := t.X.(*ssa.Call); ok && call.Call.StaticCallee() != nil && call.Call.StaticCallee().String() == "(*sync.Pool).Get" {
					any = true
					return false
				}
			case *ssa.Alloc:
				if t.Heap {
					any = true
					return false
				}
			}
			if _, isLoad := x.(*ssa.UnOp); isLoad {
				return true
			}
			okAll = false
			return false
		})
		return okAll && any
	}
	pub := 0
	pubsOf := map[*ssa.Function][]*ssa.MapUpdate{}
	for _, f := range c.funcsInPkg("store") {
		for _, b := range f.Blocks {
			for _, in := range b.Instrs {
				mu, ok := in.(*ssa.MapUpdate)
				if !ok || !isTable(mu.Map) {
					continue
				}
				pub++
				pubsOf[f] = append(pubsOf[f], mu)
				v := mu.Value
				okInit := false
				for _, b2 := range f.Blocks {
					for _, in2 := range b2.Instrs {
						st, ok := in2.(*ssa.Store)
						if !ok {
							continue
						}
						fa, ok := st.Addr.(*ssa.FieldAddr)
						if !ok || fieldOfAddr(fa) != cntFld || fa.X != v {
							continue
						}
						if kc, ok := st.Val.(*ssa.Const); ok && kc.Value != nil && kc.Value.ExactString() == "1" && engine.InstrDominates(in2, in) {
							okInit = true
						}
					}
				}
				R.Check(okInit, "R09.3", c.name(f)+"|publish-with-count-1", P.Pos(mu.Pos()), "a pooled lock entry is published with counter = 1", "a lock entry taken from the pool is put into entryTable without resetting its counter to 1: a recycled entry starts at 0 or below, is dropped from the table while a holder still owns the lock, and the next user of the id gets a different lock (reader and writer overlap)")
			}
		}
	}
	R.Min("R09.3", "publications into entryTable", pub, 1)
	for _, f := range c.funcsInPkg("store") {
		for _, b := range f.Blocks {
			for _, in := range b.Instrs {
				fa, ok := in.(*ssa.FieldAddr)
				if !ok || fieldOfAddr(fa) != cntFld {
					continue
				}
				for _, r := range *fa.Referrers() {
					switch t := r.(type) {
					case *ssa.Call:
						if sc := t.Call.StaticCallee(); sc != nil && engine.PkgPathOf(sc) == "sync/atomic" {
							continue
						}
						R.Fail("R09.3", c.name(f)+"|counter-access", P.Pos(r.Pos()), "syncRef.counter used without sync/atomic")
					case *ssa.Store:
						// plain stores only while the entry is private: in acquireSyncRef before publication, or the pool constructor
						// plain stores only while the entry is private: taken from the pool (or allocated) in this very function and not yet published
						okPriv := privateRef(fa.X)
						for _, mu := range pubsOf[f] {
							if mu.Value == fa.X && !engine.InstrDominates(t, mu) {
								okPriv = false
							}
						}
						R.Check(okPriv, "R09.3", c.name(f)+"|counter-store", P.Pos(r.Pos()), "plain store to the counter only while the entry is private", "syncRef.counter is written non-atomically to an entry that is not private (not just taken from the pool / allocated here, or already published in entryTable)")
					case *ssa.UnOp:
						R.Fail("R09.3", c.name(f)+"|counter-load", P.Pos(r.Pos()), "syncRef.counter read without sync/atomic")
					}
				}
			}
		}
	}
	_ = tblFld
	ng := c.guardedField("R09.3", "store", "WriteControlledStore", "entryTable", "lock", map[string]string{"NewWriteControlledStore": "constructor"})
	R.Min("R09.3", "accesses of entryTable", ng, 3)

	// ---- R09.4 -----------------------------------------------------------------------
	e := c.errorsPropagated("R09.4", []string{"store"}, func(cs engine.CallSite) (string, bool) {
		top := topFn(cs.Fn)
		if engine.RecvNamed(top) == nil || engine.RecvNamed(top).Obj().Name() != "onDiskStore" || (engine.ShortName(top) != "Set" && engine.ShortName(top) != "Get") {
			return "", false
		}
		if cs.Fn.Parent() != nil {
			return "", false // the goroutines are handled below
		}
		sc := cs.Common().StaticCallee()
		if sc == nil {
			if cs.Common().IsInvoke() && engine.MethodName(cs.Common().Method) == "WriteTo" {
				return "decompressor.WriteTo", true
			}
			return "", false
		}
		switch {
		case engine.ShortName(sc) == "Write" && engine.RecvNamed(sc) != nil && engine.RecvNamed(sc).Obj().Name() == "File":
			return "file.Write", true
		case (engine.ShortName(sc) == "ReadFull" || engine.ShortName(sc) == "ReadAtLeast") && engine.PkgPathOf(sc) == "io":
			return "io." + engine.ShortName(sc), true
		case engine.ShortName(sc) == "WriteTo" && strings.Contains(engine.PkgPathOf(sc), "lz4"):
			return "decompressor.WriteTo", true
		}
		return "", false
	}, "a truncated, altered or foreign cache file (or a failed write) would be reported as success")
	R.Min("R09.4", "integrity-relevant I/O calls in onDiskStore.Get/Set", e, 5)
	// decrypt goroutine
	if get := c.fn("R09.4", "store.(*onDiskStore).Get"); get != nil {
		found := false
		for _, cl := range engine.WithClosuresAndHandedOut(get)[1:] {
			for _, cs := range engine.Calls(cl) {
				cc := cs.Common()
				if !(cc.IsInvoke() && engine.MethodName(cc.Method) == "Open") {
					continue
				}
				found = true
				call := cs.Instr.(*ssa.Call)
				ok := false
				for _, r := range *call.Referrers() {
					ex, isEx := r.(*ssa.Extract)
					if !isEx || ex.Index != 1 {
						continue
					}
					for _, r2 := range *ex.Referrers() {
						bin, isBin := r2.(*ssa.BinOp)
						if !isBin {
							continue
						}
						for _, r3 := range *bin.Referrers() {
							iff, isIf := r3.(*ssa.If)
							if !isIf {
								continue
							}
							errIx := 0
							if bin.Op.String() == "==" {
								errIx = 1
							}
							for _, cs2 := range engine.Calls(cl) {
								if sc := cs2.Common().StaticCallee(); sc != nil && engine.ShortName(sc) == "CloseWithError" && (engine.EdgeDominates(iff.Block(), errIx, cs2.Instr.Block()) || iff.Block().Succs[errIx] == cs2.Instr.Block()) {
									// the error handed on derives from the Open error
									if engine.AnyBackward(cs2.Common().Args[1], engine.FlowOpts{AppendElems: true, Calls: func(cl2 *ssa.Call) []ssa.Value { return cl2.Call.Args }}, func(x ssa.Value) bool { return x == ssa.Value(ex) }) {
										ok = true
									}
								}
							}
						}
					}
				}
				R.Check(ok, "R09.4", c.name(cl)+"|gcm.Open", P.Pos(call.Pos()), "an authentication failure of a block is propagated through the pipe", "a gcm.Open (authentication) failure in the decrypt goroutine does not end in CloseWithError(err): a corrupted block would be skipped or delivered silently")
			}
		}
		R.Check(found, "R09.4", c.name(get)+"|decrypts-with-gcm.Open", P.Pos(get.Pos()), "Get authenticates every block", "Get no longer decrypts/authenticates blocks with gcm.Open")
	}

	// ---- R09.5 -----------------------------------------------------------------------
	raw := 0
	for _, f := range c.productFuncs() {
		rel := engine.RelPkg(P.OwnPkgPath(f))
		if rel == "store" || strings.HasPrefix(rel, "store/") {
			continue
		}
		for _, cs := range engine.Calls(f) {
			cc := cs.Common()
			if !cc.IsInvoke() || !engine.IsNamed(cc.Value.Type(), "store", "Store") {
				continue
			}
			if engine.MethodName(cc.Method) == "Close" {
				continue // lifecycle, not data access
			}
			raw++
			okc := c.isAnchor(topFn(f), "internal/backend.newUser")
			R.Check(okc, "R09.5", c.name(f)+"|raw-store."+engine.MethodName(cc.Method), P.Pos(cs.Pos()), "raw store used by the start-up scan only", "the raw store.Store is called from "+c.name(f)+", bypassing the per-id locks of WriteControlledStore")
		}
	}
	R.Stats["R09.5 raw store.Store calls outside package store"] = raw

	// ---- R09.6 -----------------------------------------------------------------------
	if set := c.fn("R09.6", "store.(*onDiskStore).Set"); set != nil {
		found := false
		for _, cs := range engine.Calls(set) {
			sc := cs.Common().StaticCallee()
			if sc == nil || engine.ShortName(sc) != "OpenFile" || engine.PkgPathOf(sc) != "os" {
				continue
			}
			found = true
			kc, ok := cs.Common().Args[1].(*ssa.Const)
			flags := int64(-1)
			if ok && kc.Value != nil && kc.Value.Kind() == constant.Int {
				flags, _ = constant.Int64Val(kc.Value)
			}
			okF := flags >= 0 && flags&int64(os.O_TRUNC) != 0 && flags&int64(os.O_CREATE) != 0 && flags&int64(os.O_RDWR|os.O_WRONLY) != 0
			R.Check(okF, "R09.6", c.name(set)+"|open-flags", P.Pos(cs.Pos()), "cache file opened with O_CREATE|O_TRUNC for writing", "the cache file is not opened with O_CREATE|O_TRUNC and write access: overwriting an id with a shorter value leaves the tail of the old file, which then fails authentication (or yields other bytes)")
		}
		R.Check(found, "R09.6", c.name(set)+"|opens-file", P.Pos(set.Pos()), "Set opens the cache file with os.OpenFile", "Set no longer opens the file with os.OpenFile (flags cannot be checked)")
	}
}

func allInstrs(f *ssa.Function) []ssa.Instruction {
	var out []ssa.Instruction
	for _, b := range f.Blocks {
		out = append(out, b.Instrs...)
	}
	return out
}

// sliceOfOne: v is a variadic slice literal holding exactly elem.
func sliceOfOne(v, elem ssa.Value) bool {
	els, ok := variadicElems(v)
	return ok && len(els) == 1 && sameLoad(els[0], elem)
}

// sameLoad: identical values, or two loads of the same address (go/ssa has no CSE).
func sameLoad(a, b ssa.Value) bool {
	if a == b {
		return true
	}
	la, ok1 := a.(*ssa.UnOp)
	lb, ok2 := b.(*ssa.UnOp)
	return ok1 && ok2 && la.X == lb.X
}

// serialisedBySyncRef: in f, instruction `at` is dominated by acquireSyncRef(<same id>) and by
// RLock (Get) / Lock on that entry's lock; unlock and releaseSyncRef are deferred.  idVal nil
// skips the same-id test (it is done by the caller).
func serialisedBySyncRef(f *ssa.Function, at ssa.Instruction, idVal ssa.Value, name string, acq, rel *ssa.Function) (bool, string) {
	var acqCall *ssa.Call
	for _, cs2 := range engine.Calls(f) {
		if cs2.Common().StaticCallee() == acq && acq != nil && cs2.Instr.Parent() == f && engine.InstrDominates(cs2.Instr, at) {
			acqCall, _ = cs2.Instr.(*ssa.Call)
		}
	}
	if acqCall == nil {
		return false, "the wrapped store is called without acquireSyncRef for the id"
	}
	sameID := idVal == nil || sameLoad(acqCall.Call.Args[1], idVal) || sliceOfOne(idVal, acqCall.Call.Args[1])
	locked, mode := false, ""
	deferUnlock, deferRelease := false, false
	for _, in2 := range allInstrs(f) {
		ci, ok := in2.(ssa.CallInstruction)
		if !ok {
			continue
		}
		sc := ci.Common().StaticCallee()
		if sc == nil {
			continue
		}
		if sc == rel {
			if _, isDefer := in2.(*ssa.Defer); isDefer {
				deferRelease = true
			}
		}
		if engine.PkgPathOf(sc) != "sync" || len(ci.Common().Args) == 0 {
			continue
		}
		fa, ok := ci.Common().Args[0].(*ssa.FieldAddr)
		if !ok || fa.X != ssa.Value(acqCall) {
			continue
		}
		switch engine.ShortName(sc) {
		case "Lock", "RLock":
			if _, isDefer := in2.(*ssa.Defer); !isDefer && engine.InstrDominates(in2, at) {
				locked, mode = true, engine.ShortName(sc)
			}
		case "Unlock", "RUnlock":
			if _, isDefer := in2.(*ssa.Defer); isDefer {
				deferUnlock = true
			}
		}
	}
	modeOK := locked && (mode == "Lock" || name == "Get")
	why := fmtf("same id: %v, lock held: %v mode %q, deferred unlock: %v, deferred release: %v", sameID, locked, mode, deferUnlock, deferRelease)
	return sameID && modeOK && deferUnlock && deferRelease, why
}

// closureRunUnderSyncRef: closure cl is handed to a WriteControlledStore method g that calls it
// while holding the per-id lock of the id it was given, and that id is the one cl uses.
func closureRunUnderSyncRef(c *Ctx, cl *ssa.Function, idInClosure ssa.Value, name string, acq, rel *ssa.Function) (bool, string) {
	par := cl.Parent()
	for _, b := range par.Blocks {
		for _, in := range b.Instrs {
			mc, ok := in.(*ssa.MakeClosure)
			if !ok || mc.Fn != ssa.Value(cl) {
				continue
			}
			for _, r := range *mc.Referrers() {
				call, ok := r.(*ssa.Call)
				if !ok {
					return false, ""
				}
				g := call.Call.StaticCallee()
				if g == nil || len(g.Blocks) == 0 {
					return false, ""
				}
				// which parameter of g receives the closure, and where does g call it
				pi := -1
				for i, a := range call.Call.Args {
					if a == ssa.Value(mc) {
						pi = i
					}
				}
				if pi < 0 || pi >= len(g.Params) {
					return false, ""
				}
				var site ssa.Instruction
				for _, cs := range engine.Calls(g) {
					if cs.Common().Value == ssa.Value(g.Params[pi]) && cs.Instr.Parent() == g {
						if site != nil {
							return false, "" // called more than once: not handled
						}
						site = cs.Instr
					}
				}
				if site == nil {
					return false, ""
				}
				ok2, why := serialisedBySyncRef(g, site, nil, name, acq, rel)
				if !ok2 {
					return false, why
				}
				// the id g locks is one of its parameters; the caller passes the id the closure uses
				var acqCall *ssa.Call
				for _, cs2 := range engine.Calls(g) {
					if cs2.Common().StaticCallee() == acq && engine.InstrDominates(cs2.Instr, site) {
						acqCall, _ = cs2.Instr.(*ssa.Call)
					}
				}
				idParam := -1
				for i, p := range g.Params {
					if acqCall != nil && sameLoad(acqCall.Call.Args[1], p) {
						idParam = i
					}
				}
				if idParam < 0 {
					return false, "the helper locks an id that is not its parameter"
				}
				passed := call.Call.Args[idParam]
				// id used inside the closure: a free variable bound to the same value/cell the caller passes
				same := false
				inner := idInClosure
				if els, ok := variadicElems(inner); ok && len(els) == 1 {
					inner = els[0]
				}
				if u, ok := inner.(*ssa.UnOp); ok {
					if fv, ok := u.X.(*ssa.FreeVar); ok {
						for _, bnd := range engine.FreeVarBinding(fv) {
							if pu, ok := passed.(*ssa.UnOp); ok && pu.X == bnd {
								same = true
							}
						}
					}
				}
				if fv, ok := inner.(*ssa.FreeVar); ok {
					for _, bnd := range engine.FreeVarBinding(fv) {
						if bnd == passed {
							same = true
						}
					}
				}
				if !same {
					return false, "the id locked by " + engine.ShortName(g) + " is not the id the closure passes to the wrapped store"
				}
				return true, "inside " + engine.ShortName(g) + ": " + why
			}
		}
	}
	return false, ""
}

// truncationIsAnError (R09.7): the decompressor's error may be ignored only if it is io.EOF.
func (c *Ctx) truncationIsAnError() {
	P, R := c.P, c.R
	R.Explain("R09.7", "a truncated cache file is an error, never a shorter value: in onDiskStore.Get the error of the decompressor's WriteTo (the only place where a missing tail of the encrypted stream shows up, as io.ErrUnexpectedEOF) reaches a nil-error return only through the true edge of errors.Is(err, io.EOF); any other tolerated classification returns a prefix of the message as if it were the message.")
	f := c.fn("R09.7", "store.(*onDiskStore).Get")
	if f == nil {
		return
	}
	n := 0
	for _, cs := range engine.Calls(f) {
		isWT := false
		if cs.Common().IsInvoke() && engine.MethodName(cs.Common().Method) == "WriteTo" {
			isWT = true
		}
		if sc := cs.Common().StaticCallee(); sc != nil && engine.ShortName(sc) == "WriteTo" && strings.Contains(engine.PkgPathOf(sc), "lz4") {
			isWT = true
		}
		call, ok := cs.Instr.(*ssa.Call)
		if !isWT || !ok || cs.Instr.Parent() != f {
			continue
		}
		n++
		key := c.name(f) + "|WriteTo-error-only-EOF-tolerated"
		var errVal ssa.Value
		for _, r := range *call.Referrers() {
			if ex, ok := r.(*ssa.Extract); ok && ex.Index == 1 {
				errVal = ex
			}
		}
		if errVal == nil {
			R.Fail("R09.7", key, P.Pos(call.Pos()), "the error of the decompressor is not looked at")
			continue
		}
		// the non-nil edge of the error test
		var start *ssa.BasicBlock
		allowed := map[engine.Edge]bool{}
		for _, b := range f.Blocks {
			iff := engine.IfOf(b)
			if iff == nil {
				continue
			}
			if bin, ok := iff.Cond.(*ssa.BinOp); ok && (bin.X == errVal && engine.IsNilConst(bin.Y)) {
				ix := 0
				if bin.Op == token.EQL {
					ix = 1
				}
				start = b.Succs[ix]
			}
			cond, neg := engine.StripNot(iff.Cond)
			if isCall, ok := cond.(*ssa.Call); ok {
				if sc := isCall.Call.StaticCallee(); sc != nil && engine.ShortName(sc) == "Is" && engine.PkgPathOf(sc) == "errors" && len(isCall.Call.Args) == 2 && isCall.Call.Args[0] == errVal {
					if ld, ok := isCall.Call.Args[1].(*ssa.UnOp); ok {
						if g, ok := ld.X.(*ssa.Global); ok && g.Name() == "EOF" && g.Pkg.Pkg.Path() == "io" {
							tix := 0
							if neg {
								tix = 1
							}
							allowed[engine.Edge{From: b, Succ: tix}] = true
						}
					}
				}
			}
		}
		if start == nil {
			R.Fail("R09.7", key, P.Pos(call.Pos()), "the error of the decompressor is not compared with nil")
			continue
		}
		bad := ""
		for _, ret := range engine.Returns(f) {
			if lr := engine.LastResult(ret); lr == nil || !engine.IsNilConst(lr) {
				continue
			}
			if engine.ReachesAvoidingFrom(start, 0, ret, nil, allowed) {
				bad = P.Pos(ret.Pos())
			}
		}
		R.Check(bad == "", "R09.7", key, P.Pos(call.Pos()), "only io.EOF is tolerated", "with a non-nil decompressor error a nil-error return ("+bad+") is reachable without the error being io.EOF: a cache file truncated at a block boundary yields a prefix of the message instead of an error")
	}
	R.Min("R09.7", "decompressor WriteTo calls in Get", n, 1)
}

// uncheckedDeleteOnlyFresh: DeleteUnchecked (no per-id lock, used to undo a failed creation) is
// only ever given ids that this operation generated itself.
func (c *Ctx) uncheckedDeleteOnlyFresh(rule string) {
	P, R := c.P, c.R
	R.Explain(rule+"b", "the undo of a failed creation removes only what it created: every id passed to DeleteUnchecked originates from imap.NewInternalMessageID (through request structs, slices and maps) - an id that was looked up in the database belongs to a message that is still listed, deleting its file loses the bytes of an acknowledged message.")
	k := 0
	for _, f := range c.funcsInPkg("internal/state", "internal/backend") {
		for _, cs := range engine.Calls(f) {
			if !isStoreCall(cs, "DeleteUnchecked") {
				continue
			}
			k++
			okAll, bad := true, ""
			n := 0
			for _, a := range cs.Common().Args[1:] {
				vals := []ssa.Value{a}
				if els, ok := variadicElems(a); ok {
					vals = els
				}
				// a value taken from a map while ranging over it: what was put into that map
				var expanded []ssa.Value
				for _, v := range vals {
					expanded = append(expanded, mapRangeSources(v)...)
				}
				vals = expanded
				for _, v := range vals {
					for _, o := range P.Origins(v, engine.OriginOpts{FollowFields: true, Through: commonThrough, MaxDepth: 30, Stop: func(x ssa.Value) bool {
						if call, ok := x.(*ssa.Call); ok {
							if sc := call.Call.StaticCallee(); sc != nil && engine.ShortName(sc) == "NewInternalMessageID" {
								return true
							}
						}
						return false
					}}) {
						n++
						if call, ok := o.V.(*ssa.Call); ok {
							if sc := call.Call.StaticCallee(); sc != nil && engine.ShortName(sc) == "NewInternalMessageID" {
								continue
							}
							if call.Call.IsInvoke() && engine.MethodName(call.Call.Method) == "CreateMessage" {
								continue // id generated by the connector layer for the message being created
							}
						}
						if o.Kind == "const" {
							continue
						}
						okAll, bad = false, o.V.String()+" in "+parentName(c, o.V)
					}
				}
			}
			R.Check(okAll && n > 0, rule+"b", c.name(f)+"|DeleteUnchecked", P.Pos(cs.Pos()), "only freshly generated ids are removed without the per-id lock", "DeleteUnchecked can be given an id that was not generated by this operation ("+bad+"): the cache file of a message that is still listed is deleted when the transaction fails")
		}
	}
	R.Min(rule+"b", "DeleteUnchecked call sites", k, 1)
}

// mapRangeSources: if v is the value component of `for _, v := range m`, the values stored into m in
// the same function (recursively through loads); otherwise v itself.
func mapRangeSources(v ssa.Value) []ssa.Value {
	ex, ok := v.(*ssa.Extract)
	if !ok {
		return []ssa.Value{v}
	}
	nx, ok := ex.Tuple.(*ssa.Next)
	if !ok || ex.Index != 2 {
		return []ssa.Value{v}
	}
	rng, ok := nx.Iter.(*ssa.Range)
	if !ok {
		return []ssa.Value{v}
	}
	if _, isMap := rng.X.Type().Underlying().(*types.Map); !isMap {
		return []ssa.Value{v}
	}
	var out []ssa.Value
	f := rng.Parent()
	for _, g := range engine.WithClosures(f) {
		for _, b := range g.Blocks {
			for _, in := range b.Instrs {
				if mu, ok := in.(*ssa.MapUpdate); ok && sameMapValue(mu.Map, rng.X) {
					out = append(out, mu.Value)
				}
			}
		}
	}
	if len(out) == 0 {
		return []ssa.Value{v}
	}
	return out
}

func sameMapValue(a, b ssa.Value) bool {
	if a == b {
		return true
	}
	root := func(v ssa.Value) ssa.Value {
		for i := 0; i < 4; i++ {
			u, ok := v.(*ssa.UnOp)
			if !ok {
				return v
			}
			switch x := u.X.(type) {
			case *ssa.Alloc:
				sts := engine.StoresTo(x)
				if len(sts) == 1 {
					v = sts[0].Val
					continue
				}
				return x
			case *ssa.FreeVar:
				bs := engine.FreeVarBinding(x)
				if len(bs) == 1 {
					if al, ok := bs[0].(*ssa.Alloc); ok {
						sts := engine.StoresTo(al)
						if len(sts) == 1 {
							v = sts[0].Val
							continue
						}
						return al
					}
				}
				return x
			}
			return v
		}
		return v
	}
	return root(a) == root(b)
}

// hashIsOfInput (R09.8): a digest is computed over data that was written to the hasher.
func (c *Ctx) hashIsOfInput() {
	P, R := c.P, c.R
	R.Explain("R09.8", "key derivation and content hashes digest their input: every call of hash.Hash.Sum is preceded, on the same hasher, by a Write (directly or through io.Copy / an io.Writer use) that dominates it; Sum's own argument is only a prefix to append to and is not hashed - sha256.New().Sum(passphrase) yields passphrase||const, so two passphrases with a common 32-byte prefix derive the same store key and a file written with one is readable with the other.")
	n := 0
	for _, f := range c.productFuncs() {
		for _, cs := range engine.Calls(f) {
			cc := cs.Common()
			if !cc.IsInvoke() || engine.MethodName(cc.Method) != "Sum" || !strings.HasSuffix(cc.Value.Type().String(), "hash.Hash") {
				continue
			}
			n++
			// uses of the same hasher value that feed it data and dominate the Sum
			fed := false
			h := cc.Value
			roots := []ssa.Value{h}
			if u, ok := h.(*ssa.UnOp); ok {
				roots = append(roots, u.X) // hasher kept in a cell: other loads of the same cell
			}
			for _, cs2 := range engine.Calls(f) {
				if cs2.Instr == cs.Instr || !engine.InstrDominates(cs2.Instr, cs.Instr) {
					continue
				}
				c2 := cs2.Common()
				same := func(v ssa.Value) bool {
					for _, r := range roots {
						if v == r {
							return true
						}
						if u, ok := v.(*ssa.UnOp); ok && u.X == r {
							return true
						}
						if mi, ok := v.(*ssa.MakeInterface); ok && (mi.X == r) {
							return true
						}
						if ct, ok := v.(*ssa.ChangeInterface); ok && (ct.X == r) {
							return true
						}
					}
					return false
				}
				if c2.IsInvoke() && engine.MethodName(c2.Method) == "Write" && same(c2.Value) {
					fed = true
				}
				for _, a := range c2.Args {
					if same(a) {
						fed = true // handed to a function as io.Writer (hashBody, io.Copy, ...)
					}
				}
			}
			// a closure that writes to the captured hasher before Sum (walk callbacks)
			if !fed {
				for _, g := range engine.WithClosures(f)[1:] {
					for _, cs3 := range engine.Calls(g) {
						c3 := cs3.Common()
						if c3.IsInvoke() && engine.MethodName(c3.Method) == "Write" && strings.HasSuffix(c3.Value.Type().String(), "hash.Hash") {
							fed = true
						}
					}
				}
			}
			R.Check(fed, "R09.8", c.name(f)+"|Sum", P.Pos(cs.Pos()), "the hasher was fed before Sum", "hash.Sum is called on a hasher nothing was written to: the result is the digest of the empty input appended to Sum's argument, not a digest of the data (keys/hashes of different inputs coincide)")
		}
	}
	R.Min("R09.8", "hash.Sum call sites", n, 2)
}

// c09pathAgreement (R09.9): all file operations of the on-disk store name an entry's file in the same, injective way.
func c09pathAgreement(c *Ctx) {
	P, R := c.P, c.R
	R.Explain("R09.9", "IDs do not influence each other, and Set/Get/Delete agree on the file: every os.Open / OpenFile / Create / Remove / Rename / Stat in a method of store.onDiskStore that handles a message id takes filepath.Join(<the store's path field>, <InternalMessageID.String() of that id>) - the full textual id, the same expression in every sibling - and List turns file names back into ids with imap.InternalMessageIDFromString.  A shortened or differently derived name makes two ids share a file or makes Get/Delete miss what Set wrote.")
	pathFld := c.fieldOf("store", "onDiskStore", "path")
	n := 0
	for _, f := range c.funcsInPkg("store") {
		top := f
		for top.Parent() != nil {
			top = top.Parent() // a function literal inside a method belongs to the method
		}
		if top.Signature.Recv() == nil || !strings.Contains(top.Signature.Recv().Type().String(), "onDiskStore") {
			continue
		}
		for _, cs := range engine.Calls(f) {
			sc := cs.Common().StaticCallee()
			if sc == nil || engine.PkgPathOf(sc) != "os" || sc.Signature.Recv() != nil {
				continue
			}
			switch sc.Name() {
			case "Open", "OpenFile", "Create", "Remove", "Rename", "Stat", "ReadFile", "WriteFile":
			default:
				continue
			}
			n++
			why := pathExprWhy(cs.Common().Args[0], pathFld, 0)
			R.Check(why == "", "R09.9", c.name(f)+"|os."+sc.Name()+" path", P.Pos(cs.Pos()), "filepath.Join(c.path, id.String())", why)
		}
	}
	R.Min("R09.9", "file operations by id in onDiskStore", n, 3)
	// List: names -> ids through InternalMessageIDFromString
	lst := c.fn("R09.9", "store.(*onDiskStore).List")
	if lst != nil {
		ok := false
		for _, g := range c.withPackageHelpers(lst, "store", 1) {
			_ = g
		}
		for _, g := range append(engine.WithClosuresAndHandedOut(lst), c.withPackageHelpers(lst, "store", 1)...) {
			for _, cs := range engine.Calls(g) {
				if sc := cs.Common().StaticCallee(); sc != nil && engine.BaseName(sc) == "InternalMessageIDFromString" {
					ok = true
				}
			}
		}
		R.Check(ok, "R09.9", c.name(lst)+"|names parsed back", P.Pos(lst.Pos()), "List parses file names with InternalMessageIDFromString", "List does not turn file names back into ids with imap.InternalMessageIDFromString (the inverse of the name Set uses)")
	}
}

// pathExprWhy explains why v is not filepath.Join(<store path field>, <InternalMessageID.String()>), looking
// through helpers of package store that return such an expression ("" = it is).
func pathExprWhy(v ssa.Value, pathFld *types.Var, depth int) string {
	call, ok := v.(*ssa.Call)
	if !ok || call.Call.StaticCallee() == nil {
		return "the file name is not built by filepath.Join (directly or in a helper of the store)"
	}
	sc := call.Call.StaticCallee()
	if engine.PkgPathOf(sc) == "path/filepath" && sc.Name() == "Join" {
		elems, okE := sqlx.VarargElems(call.Call.Args[0])
		if !okE || len(elems) != 2 {
			return "filepath.Join does not take exactly (store path, id)"
		}
		if u, ok := elems[0].(*ssa.UnOp); !ok || !fieldAddrIs(u.X, pathFld) {
			return "the directory is not the store's path field"
		}
		idc, ok := elems[1].(*ssa.Call)
		if !ok || idc.Call.StaticCallee() == nil || engine.BaseName(idc.Call.StaticCallee()) != "String" || !strings.Contains(idc.Call.StaticCallee().String(), "InternalMessageID") {
			return "the file name is not InternalMessageID.String() of the id (full textual id)"
		}
		return ""
	}
	if depth < 2 && strings.HasSuffix(engine.PkgPathOf(sc), "/store") && len(sc.Blocks) > 0 {
		rets := engine.Returns(sc)
		if len(rets) == 0 {
			return "the path helper never returns"
		}
		for _, r := range rets {
			if len(r.Results) != 1 {
				return "the path helper does not return a single path"
			}
			if why := pathExprWhy(r.Results[0], pathFld, depth+1); why != "" {
				return why + " (in " + engine.ShortName(sc) + ")"
			}
		}
		return ""
	}
	return "the file name is not built by filepath.Join (directly or in a helper of the store)"
}

// c09deleteAll (R09.10): a batch operation of the store that reports success has handled every id.
func c09deleteAll(c *Ctx) {
	P, R := c.P, c.R
	R.Explain("R09.10", "deleted ids are gone: in the methods of package store that take a list of ids (Delete / DeleteUnchecked of every implementation), a loop over the ids that is left early (break, or a jump out of the body that is not a return) cannot be followed by a success: no return of the nil error - a nil constant, or a phi with a nil edge taken after the early exit - is reachable from the early-exit edge.  Otherwise the ids after the first failing one are silently kept while the caller is told they were removed.")
	n := 0
	for _, f := range c.funcsInPkg("store") {
		if f.Parent() != nil || f.Signature.Recv() == nil || f.Signature.Params().Len() == 0 || !f.Signature.Variadic() {
			continue
		}
		if nm := engine.BaseName(f); nm != "Delete" && nm != "DeleteUnchecked" {
			continue
		}
		ids := f.Params[len(f.Params)-1]
		top := f
		for _, f := range engine.WithClosures(top) { // the loop may sit in a function literal that captured the ids
			for _, h := range f.Blocks {
				body := engine.LoopBody(h)
				if body == nil {
					continue
				}
				reads := false
				for b := range body {
					for _, in := range b.Instrs {
						if ia, ok := in.(*ssa.IndexAddr); ok && engine.AnyBackward(ia.X, engine.FlowOpts{Loads: true}, func(x ssa.Value) bool { return x == ssa.Value(ids) }) {
							reads = true
						}
					}
				}
				if !reads {
					continue
				}
				n++
				bad := ""
				for b := range body {
					if b == h {
						continue
					}
					for _, s := range b.Succs {
						if body[s] {
							continue
						}
						// early exit b -> s: which returns can follow, and do they report success?
						reach := engine.BlocksReachableFrom(s)
						for _, ret := range engine.Returns(f) {
							if !reach[ret.Block()] {
								continue
							}
							lr := engine.LastResult(ret)
							if lr == nil {
								continue
							}
							if engine.IsNilConst(lr) {
								bad = P.Pos(ret.Pos())
							}
							if phi, ok := lr.(*ssa.Phi); ok {
								for i, e := range phi.Edges {
									if engine.IsNilConst(e) && (reach[phi.Block().Preds[i]] || phi.Block().Preds[i] == s) && !body[phi.Block().Preds[i]] {
										bad = P.Pos(ret.Pos())
									}
								}
							}
						}
					}
				}
				R.Check(bad == "", "R09.10", c.name(top)+"|loop over ids", P.Pos(firstPosOf(h)), "an early exit of the loop is never followed by a nil error", "after leaving the loop over the ids early the method can still return a nil error ("+bad+"): the remaining ids are not deleted although success is reported")
			}
		}
	}
	R.Min("R09.10", "loops over id lists in Delete methods of package store", n, 2)
}

// c09releaseRechecksUnderLock (R09.11): an entry leaves the lock table only on a count read under the table lock.
func c09releaseRechecksUnderLock(c *Ctx) {
	P, R := c.P, c.R
	R.Explain("R09.11", "no lock entry is recycled while in use: in package store every delete from WriteControlledStore.entryTable, and every return of a syncRef to the pool (sync.Pool.Put), is dominated by a branch on the entry's reference counter read *while WriteControlledStore.lock is held* (atomic load/add executed in the locked region).  The decrement that reaches zero happens outside the table lock; between it and taking the lock another goroutine can re-acquire the same entry, so acting on the earlier read hands two different locks to a reader and a writer of one id and a Get sees a half-written file.")
	counterFld := c.fieldOf("store", "syncRef", "counter")
	tableFld := c.fieldOf("store", "WriteControlledStore", "entryTable")
	n := 0
	for _, f := range c.funcsInPkg("store") {
		held := engine.HeldAt(f)
		// branches on a counter value read under the lock
		type edge struct {
			b  *ssa.BasicBlock
			ok bool
		}
		var guards []*ssa.BasicBlock
		for _, b := range f.Blocks {
			iff := engine.IfOf(b)
			if iff == nil {
				continue
			}
			good := false
			engine.Backward(iff.Cond, engine.FlowOpts{}, func(x ssa.Value) bool {
				if bo, ok := x.(*ssa.BinOp); ok {
					for _, op := range []ssa.Value{bo.X, bo.Y} {
						if call, ok := op.(*ssa.Call); ok {
							sc := call.Call.StaticCallee()
							if sc != nil && engine.PkgPathOf(sc) == "sync/atomic" && len(call.Call.Args) > 0 && fieldAddrIs(call.Call.Args[0], counterFld) {
								for l := range held(call) {
									if strings.HasSuffix(l, ".lock") {
										good = true
									}
								}
							}
						}
					}
				}
				return true
			})
			if good {
				guards = append(guards, b)
			}
		}
		for _, cs := range engine.Calls(f) {
			cc := cs.Common()
			isDel := false
			if bi, ok := cc.Value.(*ssa.Builtin); ok && bi.Name() == "delete" && len(cc.Args) > 0 {
				if ld, ok := cc.Args[0].(*ssa.UnOp); ok && fieldAddrIs(ld.X, tableFld) {
					isDel = true
				}
			}
			isPut := false
			if sc := cc.StaticCallee(); sc != nil && engine.PkgPathOf(sc) == "sync" && sc.Name() == "Put" {
				isPut = true
			}
			if !isDel && !isPut {
				continue
			}
			n++
			ok := false
			for _, g := range guards {
				if engine.EdgeDominates(g, 0, cs.Instr.Block()) || engine.EdgeDominates(g, 1, cs.Instr.Block()) {
					ok = true
				}
			}
			what := "delete from entryTable"
			if isPut {
				what = "return of the entry to the pool"
			}
			R.Check(ok, "R09.11", c.name(f)+"|"+what, P.Pos(cs.Pos()), "decided by a counter read under the table lock", "the "+what+" is not guarded by a reference-count read made while WriteControlledStore.lock is held: an entry that was re-acquired between the decrement and the lock is recycled while in use")
		}
	}
	R.Min("R09.11", "recycling steps (table delete / pool put)", n, 2)
}

// listReportsEveryParsedName (R09.12): listing yields every stored id.
func (c *Ctx) listReportsEveryParsedName(rule string) {
	P, R := c.P, c.R
	R.Explain(rule, "listing yields exactly the stored ids: in package store, after a file name has been turned back into an id (imap.InternalMessageIDFromString), every path to a return of that function appends the id to the listing - the only way past the append is the non-nil edge of a test of the parse error.  Whether a name is reported must not depend on the value of the id (a comparison with the zero id, a prefix, a range): the all-zero UUID is a valid id that Set, Get and Delete accept, and an entry List does not report is never cleaned up at start-up.")
	n := 0
	for _, f := range c.funcsInPkg("store") {
		for _, cs := range engine.Calls(f) {
			sc := cs.Common().StaticCallee()
			call, isCall := cs.Instr.(*ssa.Call)
			if sc == nil || !isCall || cs.Instr.Parent() != f || engine.ShortName(sc) != "InternalMessageIDFromString" || call.Referrers() == nil {
				continue
			}
			var id, perr ssa.Value
			for _, r := range *call.Referrers() {
				if ex, ok := r.(*ssa.Extract); ok {
					if ex.Index == 0 {
						id = ex
					} else {
						perr = ex
					}
				}
			}
			if id == nil {
				continue
			}
			appends := map[ssa.Instruction]bool{}
			for _, b := range f.Blocks {
				for _, in := range b.Instrs {
					ac, ok := in.(*ssa.Call)
					if !ok {
						continue
					}
					if _, isApp := engine.IsBuiltinCall(ac, "append"); !isApp || len(ac.Call.Args) < 2 {
						continue
					}
					if engine.AnyBackward(ac.Call.Args[1], engine.FlowOpts{AppendElems: true, Loads: true}, func(x ssa.Value) bool { return x == id }) {
						appends[in] = true
					}
				}
			}
			n++
			cutEdges := map[engine.Edge]bool{}
			if perr != nil {
				for _, b := range f.Blocks {
					iff := engine.IfOf(b)
					if iff == nil {
						continue
					}
					cond, neg := engine.StripNot(iff.Cond)
					bo, ok := cond.(*ssa.BinOp)
					if !ok || (bo.Op != token.NEQ && bo.Op != token.EQL) || !((bo.X == perr && engine.IsNilConst(bo.Y)) || (bo.Y == perr && engine.IsNilConst(bo.X))) {
						continue
					}
					nonNil := 0
					if bo.Op == token.EQL {
						nonNil = 1
					}
					if neg {
						nonNil = 1 - nonNil
					}
					// the non-nil edge is cut only if it does not lead to the append anyway
					cutEdges[engine.Edge{From: b, Succ: nonNil}] = true
				}
			}
			bad := ""
			if len(appends) == 0 {
				bad = "the parsed id is never appended to a listing"
			}
			for _, ret := range engine.Returns(f) {
				if bad == "" && engine.ReachesAvoidingFrom(call.Block(), engine.InstrIndex(call)+1, ret, appends, cutEdges) {
					// the cut of the error edge may have hidden a path on which the error was logged and the id appended all the same: re-check without the cut
					bad = "the return at " + P.Pos(ret.Pos()) + " is reached past the append on a path that is not the failed-parse path"
				}
			}
			if bad != "" && len(appends) > 0 && len(cutEdges) > 0 {
				// tolerate `if err != nil { log }; append`: with no edge cut, does every path append?
				all := true
				for _, ret := range engine.Returns(f) {
					if engine.ReachesAvoidingFrom(call.Block(), engine.InstrIndex(call)+1, ret, appends, nil) {
						all = false
					}
				}
				if all {
					bad = ""
				}
			}
			R.Check(bad == "", rule, c.name(f)+"|every parsed name is listed", P.Pos(cs.Pos()), "only a failed parse can keep a name out of the listing", bad+": whether a stored entry is listed depends on something other than its name being an id")
		}
	}
	R.Min(rule, "file names parsed back into ids in package store", n, 1)
}

// c09releaseRemovesOwnEntry (R09.13): a releaser removes the table entry only if it is still its own.
func c09releaseRemovesOwnEntry(c *Ctx) {
	P, R := c.P, c.R
	R.Explain("R09.13", "a releaser only removes its own entry: in package store, a function that is handed a *syncRef and deletes from WriteControlledStore.entryTable (or returns the entry to the pool) does so only on the equal edge of a comparison of the table's current entry for the id (a lookup in entryTable) with the entry it was handed.  A releaser that lost the race for the table lock can find its entry already removed and pooled by a later releaser and the id mapped to a newer entry in use (counter of the old entry still zero): deleting by id alone removes that newer entry, the next caller of the id gets a fresh lock and reads while a Set of the id is in progress.")
	tableFld := c.fieldOf("store", "WriteControlledStore", "entryTable")
	n := 0
	for _, f := range c.funcsInPkg("store") {
		var refParam *ssa.Parameter
		for _, p := range f.Params {
			if pt, ok := p.Type().(*types.Pointer); ok {
				if nt := engine.NamedOf(pt.Elem()); nt != nil && nt.Obj().Name() == "syncRef" {
					refParam = p
				}
			}
		}
		if refParam == nil {
			continue
		}
		type guard struct {
			b    *ssa.BasicBlock
			edge int
		}
		var guards []guard
		for _, b := range f.Blocks {
			iff := engine.IfOf(b)
			if iff == nil {
				continue
			}
			bo, ok := iff.Cond.(*ssa.BinOp)
			if !ok || (bo.Op != token.EQL && bo.Op != token.NEQ) {
				continue
			}
			fromTable := func(v ssa.Value) bool {
				found := false
				engine.Backward(v, engine.FlowOpts{}, func(x ssa.Value) bool {
					if lk, ok := x.(*ssa.Lookup); ok {
						if ld, ok := lk.X.(*ssa.UnOp); ok && fieldAddrIs(ld.X, tableFld) {
							found = true
						}
					}
					return true
				})
				return found
			}
			isRef := func(v ssa.Value) bool {
				found := false
				engine.Backward(v, engine.FlowOpts{}, func(x ssa.Value) bool {
					if x == ssa.Value(refParam) {
						found = true
					}
					return true
				})
				return found
			}
			if (fromTable(bo.X) && isRef(bo.Y)) || (fromTable(bo.Y) && isRef(bo.X)) {
				e := 0
				if bo.Op == token.NEQ {
					e = 1
				}
				guards = append(guards, guard{b, e})
			}
		}
		for _, cs := range engine.Calls(f) {
			cc := cs.Common()
			isDel, isPut := false, false
			if bi, ok := cc.Value.(*ssa.Builtin); ok && bi.Name() == "delete" && len(cc.Args) > 0 {
				if ld, ok := cc.Args[0].(*ssa.UnOp); ok && fieldAddrIs(ld.X, tableFld) {
					isDel = true
				}
			}
			if sc := cc.StaticCallee(); sc != nil && engine.PkgPathOf(sc) == "sync" && sc.Name() == "Put" {
				isPut = true
			}
			if !isDel && !isPut {
				continue
			}
			n++
			ok := false
			for _, g := range guards {
				if engine.EdgeDominates(g.b, g.edge, cs.Instr.Block()) {
					ok = true
				}
			}
			what := "delete from entryTable"
			if isPut {
				what = "return of the entry to the pool"
			}
			R.Check(ok, "R09.13", c.name(f)+"|"+what, P.Pos(cs.Pos()), "only when the table still maps the id to the entry handed in", "the "+what+" happens without comparing the table's current entry for the id with the entry being released: a releaser that lost the race for the table lock removes a newer entry of the same id that is in use (and pools its own entry twice), so a reader and a writer of one id run under different locks")
		}
	}
	R.Min("R09.13", "recycling steps in functions handed a *syncRef", n, 2)
}
