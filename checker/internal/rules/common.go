package rules

import (
	"encoding/json"
	"fmt"
	"go/token"
	"go/types"
	"os"
	"sort"
	"strings"

	"golang.org/x/tools/go/ssa"

	"verifchecker/internal/engine"
)

// fn resolves an anchor by its stable name; a missing anchor is an undecided obligation
// (reported as violation), never a silent pass.  Names are the reference names: a function
// that was merely renamed is still found (engine.ApplyReference).
func (c *Ctx) fn(rule, name string) *ssa.Function {
	f := c.fnOpt(name)
	if f == nil {
		c.R.Fail(rule, "anchor:"+name, "", "anchor function "+name+" not found: the mechanism this rule rests on is gone; the rule cannot prove the property")
	}
	return f
}

// fnOpt resolves an anchor without recording a failure.
func (c *Ctx) fnOpt(name string) *ssa.Function {
	f := c.P.Func(name)
	if f != nil {
		if c.anchorsSeen == nil {
			c.anchorsSeen = map[string]bool{}
		}
		c.anchorsSeen[name] = true
	}
	return f
}

// isAnchor reports whether f is one of the named anchor functions.
func (c *Ctx) isAnchor(f *ssa.Function, names ...string) bool {
	for _, n := range names {
		if g := c.fnOpt(n); g != nil && g == f {
			return true
		}
	}
	return false
}

// DumpAnchors writes the anchors this run looked up by name.
func (c *Ctx) DumpAnchors(path string) {
	b, _ := json.MarshalIndent(c.anchorsSeen, "", " ")
	_ = os.WriteFile(path, b, 0o644)
}

func (c *Ctx) name(f *ssa.Function) string { return c.P.FuncName(f) }

func (c *Ctx) pos(in interface{ Pos() token.Pos }) string { return c.P.Pos(in.Pos()) }

// methodsOf returns all own SSA functions that are methods of the named type.
func (c *Ctx) methodsOf(pkgRel, typeName string) []*ssa.Function {
	var out []*ssa.Function
	for _, f := range c.P.Funcs {
		if f.Parent() != nil {
			continue
		}
		rn := engine.RecvNamed(f)
		if rn == nil || rn.Obj().Name() != typeName || rn.Obj().Pkg() == nil {
			continue
		}
		if engine.RelPkg(rn.Obj().Pkg().Path()) == pkgRel {
			out = append(out, f)
		}
	}
	return out
}

// funcsInPkg returns the own functions (incl. closures) whose package is pkgRel.
func (c *Ctx) funcsInPkg(pkgRel ...string) []*ssa.Function {
	want := map[string]bool{}
	for _, p := range pkgRel {
		want[p] = true
	}
	var out []*ssa.Function
	for _, f := range c.reprFuncs() {
		if want[engine.RelPkg(c.P.OwnPkgPath(f))] {
			out = append(out, f)
		}
	}
	return out
}

// reprFuncs: all own functions, with instantiations reduced to their generic origin (or
// one representative instance when the origin itself is not in the function set).
func (c *Ctx) reprFuncs() []*ssa.Function {
	if c.allRepr != nil {
		return c.allRepr
	}
	present := map[*ssa.Function]bool{}
	for _, f := range c.P.Funcs {
		present[f] = true
	}
	repr := map[*ssa.Function]bool{}
	for _, f := range c.P.Funcs {
		if isInstance(f) {
			o := originOf(f)
			if o == nil || present[o] || repr[o] {
				continue
			}
			repr[o] = true
		}
		c.allRepr = append(c.allRepr, f)
	}
	return c.allRepr
}

// nonTest filters helper packages that are not part of the server (benchmarks, tests,
// demo, tools, mocks).
func isProductPkg(rel string) bool {
	for _, p := range []string{"benchmarks", "tests", "demo", "tools", "connector/mock_connector", "internal/db_impl/sqlite3/utils/mock"} {
		if rel == p || strings.HasPrefix(rel, p+"/") {
			return false
		}
	}
	return !strings.Contains(rel, "/mock")
}

func (c *Ctx) productFuncs() []*ssa.Function {
	if c.prodFuncs != nil {
		return c.prodFuncs
	}
	for _, f := range c.reprFuncs() {
		if isProductPkg(engine.RelPkg(c.P.OwnPkgPath(f))) {
			c.prodFuncs = append(c.prodFuncs, f)
		}
	}
	return c.prodFuncs
}

// originOf returns the generic origin of an instance (for closures: of the enclosing instance).
func originOf(f *ssa.Function) *ssa.Function {
	if f.Origin() != nil {
		return f.Origin()
	}
	if f.Parent() != nil {
		po := originOf(f.Parent())
		if po == nil {
			return nil
		}
		for i, a := range f.Parent().AnonFuncs {
			if a == f && i < len(po.AnonFuncs) {
				return po.AnonFuncs[i]
			}
		}
	}
	return nil
}

func isInstance(f *ssa.Function) bool {
	for ; f != nil; f = f.Parent() {
		if f.Origin() != nil && f.Origin() != f {
			return true
		}
	}
	return false
}

func sortedKeys[V any](m map[string]V) []string {
	var out []string
	for k := range m {
		out = append(out, k)
	}
	sort.Strings(out)
	return out
}

// lookupType finds a named type in a gluon package.
func (c *Ctx) lookupType(pkgRel, name string) *types.Named {
	pk := c.P.Pkg(pkgRel)
	if pk == nil {
		return nil
	}
	o := pk.Types.Scope().Lookup(name)
	if o == nil {
		return nil
	}
	n, _ := o.Type().(*types.Named)
	return n
}

// fieldOf returns the field object `field` of struct type pkgRel.typeName.
func (c *Ctx) fieldOf(pkgRel, typeName, field string) *types.Var {
	n := c.lookupType(pkgRel, typeName)
	if n == nil {
		return nil
	}
	st, ok := n.Underlying().(*types.Struct)
	if !ok {
		return nil
	}
	for i := 0; i < st.NumFields(); i++ {
		if st.Field(i).Name() == field {
			return st.Field(i)
		}
	}
	return nil
}

// fieldAddrIs reports whether v is &x.field for the given field object (also matches
// instantiated generics by name+struct).
func fieldAddrIs(v ssa.Value, fld *types.Var) bool {
	fa, ok := v.(*ssa.FieldAddr)
	if !ok || fld == nil {
		return false
	}
	st, ok := fa.X.Type().Underlying().(*types.Pointer).Elem().Underlying().(*types.Struct)
	if !ok || fa.Field >= st.NumFields() {
		return false
	}
	return st.Field(fa.Field) == fld
}

// fieldOfAddr returns the field object addressed by a FieldAddr.
func fieldOfAddr(fa *ssa.FieldAddr) *types.Var {
	pt, ok := fa.X.Type().Underlying().(*types.Pointer)
	if !ok {
		return nil
	}
	st, ok := pt.Elem().Underlying().(*types.Struct)
	if !ok || fa.Field >= st.NumFields() {
		return nil
	}
	return st.Field(fa.Field)
}

func fieldOfField(f *ssa.Field) *types.Var {
	st, ok := f.X.Type().Underlying().(*types.Struct)
	if !ok || f.Field >= st.NumFields() {
		return nil
	}
	return st.Field(f.Field)
}

func fmtf(format string, a ...any) string { return fmt.Sprintf(format, a...) }

func constantInt(o *types.Const) (int64, bool) {
	v := o.Val()
	if v == nil {
		return 0, false
	}
	s := v.ExactString()
	var n int64
	for _, ch := range s {
		if ch < '0' || ch > '9' {
			return 0, false
		}
		n = n*10 + int64(ch-'0')
	}
	return n, true
}

// withPackageHelpers returns f with its closures and the declared functions of package pkgRel that f
// calls statically (transitively up to depth levels), each with its closures.
func (c *Ctx) withPackageHelpers(f *ssa.Function, pkgRel string, depth int) []*ssa.Function {
	seen := map[*ssa.Function]bool{}
	var out []*ssa.Function
	var add func(g *ssa.Function, d int)
	add = func(g *ssa.Function, d int) {
		for _, h := range engine.WithClosures(g) {
			if seen[h] {
				continue
			}
			seen[h] = true
			out = append(out, h)
			if d >= depth {
				continue
			}
			for _, cs := range engine.Calls(h) {
				sc := cs.Common().StaticCallee()
				if sc == nil || len(sc.Blocks) == 0 || sc.Parent() != nil || seen[sc] {
					continue
				}
				if strings.HasSuffix(engine.PkgPathOf(sc), pkgRel) {
					add(sc, d+1)
				}
			}
		}
	}
	add(f, 0)
	return out
}

// onlyCalledFrom: every call site of f (transitively through up to depth private helpers) lies in one of
// the named anchor functions; f must have at least one caller and must not escape as a value.
func (c *Ctx) onlyCalledFrom(f *ssa.Function, depth int, anchors ...string) bool {
	callers := c.P.CallersOf(f)
	if len(callers) == 0 {
		return false
	}
	for _, cs := range callers {
		top := cs.Fn
		for top.Parent() != nil {
			top = top.Parent()
		}
		if c.isAnchor(top, anchors...) {
			continue
		}
		if depth <= 0 || top == f || !c.onlyCalledFrom(top, depth-1, anchors...) {
			return false
		}
	}
	return true
}

// ownerFn names the declared function a construct belongs to for the purpose of obligation keys: the
// enclosing declared function, lifted (at most twice) to its caller while it is an unexported function
// whose call sites all lie in one other declared function.
func (c *Ctx) ownerFn(f *ssa.Function) *ssa.Function {
	f = topFn(f)
	for i := 0; i < 2; i++ {
		if f.Object() == nil || f.Object().Exported() {
			return f
		}
		callers := c.P.CallersOf(f)
		if len(callers) == 0 {
			return f
		}
		var only *ssa.Function
		for _, cs := range callers {
			t := topFn(cs.Fn)
			if t == f || (only != nil && only != t) {
				return f
			}
			only = t
		}
		if only == nil || c.P.OwnPkgPath(only) == "" {
			return f
		}
		f = only
	}
	return f
}

// mustCallInstrs returns the instructions of g that are "a call satisfying isTarget", directly or as a call to
// a declared helper of gluon every nil-error (or, without an error result, every) return of which passes such a
// call (depth-limited summary).  Used by the T-MUST rules so that extracting the call into a helper is transparent.
func (c *Ctx) mustCallInstrs(g *ssa.Function, isTarget func(cc *ssa.CallCommon) bool, depth int) map[ssa.Instruction]bool {
	out := map[ssa.Instruction]bool{}
	for _, cs := range engine.Calls(g) {
		if cs.Instr.Parent() != g {
			continue
		}
		cc := cs.Common()
		if isTarget(cc) {
			out[cs.Instr] = true
			continue
		}
		sc := cc.StaticCallee()
		if depth <= 0 || sc == nil || sc == g || len(sc.Blocks) == 0 || sc.Parent() != nil || !c.P.IsOwn(sc) {
			continue
		}
		inner := c.mustCallInstrs(sc, isTarget, depth-1)
		if len(inner) == 0 {
			continue
		}
		all := true
		for _, ret := range engine.Returns(sc) {
			if lr := engine.LastResult(ret); lr != nil && lr.Type().String() == "error" && !engine.IsNilConst(lr) {
				call, isCall := lr.(*ssa.Call)
				if !isCall {
					continue // a failure return
				}
				if sc2 := call.Call.StaticCallee(); sc2 != nil && (sc2.String() == "fmt.Errorf" || sc2.String() == "errors.New") {
					continue // a freshly made error: a failure return as well
				}
			}
			if engine.ReachesAvoiding(sc, ret, inner, nil) {
				all = false
			}
		}
		if all {
			out[cs.Instr] = true
		}
	}
	return out
}
