package rules

import (
	"go/token"
	"go/types"
	"strings"

	"golang.org/x/tools/go/ssa"

	"verifchecker/internal/engine"
)

// searchResultKind (R15.6): UID SEARCH reports UIDs, SEARCH sequence numbers - of the same messages.
func (c *Ctx) searchResultKind(rule string) {
	P, R := c.P, c.R
	R.Explain(rule, "UID SEARCH returns the UIDs of the same messages: the functions of internal/state that map a matching message (snapMsgWithSeq) to the reported number return its UID field or its Seq field; wherever such a mapper is selected - assigned to a variable, merged by a phi or returned by a helper - the UID mapper is in effect exactly when contexts.IsUID(ctx) is true and the Seq mapper exactly when it is false (reaching definitions computed per outcome of the branch).")
	if c.fn(rule, "internal/state.(*Mailbox).Search") == nil {
		return
	}
	fieldReturned := func(g *ssa.Function) string {
		name := ""
		for _, ret := range engine.Returns(g) {
			if len(ret.Results) != 1 {
				return ""
			}
			v := ret.Results[0]
			for {
				switch t := v.(type) {
				case *ssa.Convert:
					v = t.X
					continue
				case *ssa.ChangeType:
					v = t.X
					continue
				}
				break
			}
			fn := fieldNameOf(v)
			if fn == "" || (name != "" && name != fn) {
				return ""
			}
			name = fn
		}
		return name
	}
	asMapper := func(v ssa.Value) *ssa.Function {
		var g *ssa.Function
		switch t := v.(type) {
		case *ssa.Function:
			g = t
		case *ssa.MakeClosure:
			g, _ = t.Fn.(*ssa.Function)
		}
		if g == nil || g.Signature.Params().Len() != 1 || g.Signature.Results().Len() != 1 {
			return nil
		}
		if nt, ok := g.Signature.Params().At(0).Type().(*types.Named); !ok || nt.Obj().Name() != "snapMsgWithSeq" {
			return nil
		}
		if b, ok := g.Signature.Results().At(0).Type().Underlying().(*types.Basic); !ok || b.Info()&types.IsInteger == 0 {
			return nil
		}
		return g
	}
	// a mapper that decides by itself: inside it every return of the UID is taken on the true outcome of a
	// condition derived from contexts.IsUID(ctx) (called there or captured) and every return of Seq on the false one
	fromIsUID := func(v ssa.Value) bool {
		return engine.AnyBackward(v, engine.FlowOpts{Loads: true}, func(x ssa.Value) bool {
			call, ok := x.(*ssa.Call)
			if !ok {
				return false
			}
			sc := call.Call.StaticCallee()
			return sc != nil && engine.BaseName(sc) == "IsUID" && strings.HasSuffix(engine.PkgPathOf(sc), "internal/contexts")
		})
	}
	decidesItself := func(g *ssa.Function) bool {
		if g == nil {
			return false
		}
		seen := map[string]int{}
		for _, ret := range engine.Returns(g) {
			if len(ret.Results) != 1 {
				return false
			}
			v := ret.Results[0]
			for {
				switch t := v.(type) {
				case *ssa.Convert:
					v = t.X
					continue
				case *ssa.ChangeType:
					v = t.X
					continue
				}
				break
			}
			fld := fieldNameOf(v)
			idx, known := map[string]int{"UID": 0, "Seq": 1}[fld]
			if !known {
				return false
			}
			ok := false
			for _, b := range g.Blocks {
				iff := engine.IfOf(b)
				if iff == nil {
					continue
				}
				cond, neg := engine.StripNot(iff.Cond)
				if !fromIsUID(cond) {
					continue
				}
				e := idx
				if neg {
					e = 1 - idx
				}
				if engine.EdgeDominates(b, e, ret.Block()) || (b.Succs[e] == ret.Block() && len(ret.Block().Preds) == 1) {
					ok = true
				}
			}
			if !ok {
				return false
			}
			seen[fld]++
		}
		return seen["UID"] > 0 && seen["Seq"] > 0
	}
	kinds := map[string]int{}
	for _, f := range c.funcsInPkg("internal/state") {
		f := f
		ifs := isUIDIfs(f)
		judge := func(g *ssa.Function, onEdge func(ib *ssa.BasicBlock, idx int) bool, pos token.Pos) {
			if decidesItself(g) {
				kinds["UID"]++
				kinds["Seq"]++
				R.Check(true, rule, c.name(f)+"|result mapper decides by IsUID", P.Pos(pos), "UID on the IsUID edge, Seq otherwise", "")
				return
			}
			fld := fieldReturned(g)
			kinds[fld]++
			idx, known := map[string]int{"UID": 0, "Seq": 1}[fld]
			ok := false
			if known {
				for _, ib := range ifs {
					if onEdge(ib, idx) {
						ok = true
					}
				}
			}
			R.Check(ok, rule, c.name(f)+"|result mapper "+fld, P.Pos(pos), "UID on the IsUID edge, Seq otherwise", "the mapper returning `"+fld+"` is not selected on the matching edge of contexts.IsUID(ctx): SEARCH and UID SEARCH report the wrong kind of number")
		}
		cells := map[ssa.Value][]*ssa.Store{}
		var cellOrder []ssa.Value
		for _, b := range f.Blocks {
			for _, in := range b.Instrs {
				switch t := in.(type) {
				case *ssa.Store:
					if asMapper(t.Val) != nil {
						if cells[t.Addr] == nil {
							cellOrder = append(cellOrder, t.Addr)
						}
						cells[t.Addr] = append(cells[t.Addr], t)
					}
				case *ssa.Phi:
					for i, e := range t.Edges {
						if g := asMapper(e); g != nil {
							pred, blk := b.Preds[i], b
							judge(g, func(ib *ssa.BasicBlock, idx int) bool {
								return engine.EdgeDominates(ib, idx, pred) || (ib == pred && ib.Succs[idx] == blk && ib.Succs[1-idx] != blk)
							}, g.Pos())
						}
					}
				case *ssa.Return:
					for _, r := range t.Results {
						if g := asMapper(r); g != nil {
							blk := b
							judge(g, func(ib *ssa.BasicBlock, idx int) bool { return engine.EdgeDominates(ib, idx, blk) }, t.Pos())
						}
					}
				}
			}
		}
		for _, cell := range cellOrder {
			stores := cells[cell]
			isStore := map[ssa.Instruction]bool{}
			allDecide := true
			for _, st := range stores {
				isStore[st] = true
				if !decidesItself(asMapper(st.Val)) {
					allDecide = false
				}
			}
			if allDecide {
				kinds["UID"]++
				kinds["Seq"]++
				for _, want := range []string{"UID", "Seq"} {
					R.Check(true, rule, c.name(f)+"|result mapper "+want, P.Pos(f.Pos()), "UID when IsUID(ctx), Seq otherwise", "")
				}
				continue
			}
			for _, st := range stores {
				kinds[fieldReturned(asMapper(st.Val))]++
			}
			var uses []ssa.Instruction
			if refs := cell.Referrers(); refs != nil {
				for _, u := range *refs {
					if _, dbg := u.(*ssa.DebugRef); !dbg && !isStore[u] {
						uses = append(uses, u)
					}
				}
			}
			for idx, want := range []string{"UID", "Seq"} {
				why := "no branch on contexts.IsUID(ctx) decides which mapper is used"
				for _, ib := range ifs {
					reach := reachingStores(f, cell, engine.Edge{From: ib, Succ: 1 - idx})
					bad := ""
					seen := 0
					for _, u := range uses {
						defs, live := reach(u)
						if !live {
							continue
						}
						seen++
						if len(defs) == 0 {
							bad = "no mapper is assigned"
						}
						for _, d := range defs {
							if got := fieldReturned(asMapper(d.Val)); got != want {
								bad = "the mapper returning `" + got + "` (" + P.Pos(d.Pos()) + ") is in effect"
							}
						}
					}
					if seen > 0 && bad == "" {
						why = ""
						break
					}
					if bad != "" {
						why = "when IsUID(ctx) is " + map[int]string{0: "true", 1: "false"}[idx] + " " + bad
					}
				}
				R.Check(why == "", rule, c.name(f)+"|result mapper "+want, P.Pos(f.Pos()), "UID when IsUID(ctx), Seq otherwise", why+": SEARCH and UID SEARCH report the wrong kind of number")
			}
		}
	}
	R.Min(rule, "mappers returning the UID", kinds["UID"], 1)
	R.Min(rule, "mappers returning the sequence number", kinds["Seq"], 1)
}

// searchReadsByIDAlone (R15.7): the row SEARCH reads for a message of the view is found by the message id alone.
func (c *Ctx) searchReadsByIDAlone(rule string) {
	R := c.R
	R.Explain(rule, "the session's own view decides which messages exist: the statement behind db.ReadOnly.GetMessageDateAndSize (the only index read SEARCH makes per message, for the size and internal-date keys) selects by the message id and nothing else - no AND / OR / JOIN.  A message of the view can already be marked deleted in the index (removed by the connector, its EXPUNGE still held back); any further predicate makes every SEARCH with a size or date key fail with `value not found` instead of answering from the view.")
	res := c.sqlAnalysis()
	n := 0
	for _, st := range res.stmts {
		if st.fn == nil || st.mig || engine.ShortName(topFn(st.fn)) != "GetMessageDateAndSize" {
			continue
		}
		n++
		up := " " + strings.ToUpper(strings.Join(strings.Fields(st.text), " ")) + " "
		where := ""
		if i := strings.Index(up, " WHERE "); i >= 0 {
			where = up[i+7:]
		}
		ok := where != "" && !strings.Contains(where, " AND ") && !strings.Contains(where, " OR ") && !strings.Contains(up, " JOIN ") && strings.Count(where, "?") == 1
		R.Check(ok, rule, c.name(st.fn)+"|lookup by id alone", st.pos, "WHERE <id> = ? and nothing else", "the statement that loads a message's date and size for SEARCH carries more than the id predicate ("+st.text+"): messages the session still shows but the index has marked are not found and the whole SEARCH fails")
	}
	R.Min(rule, "statements of GetMessageDateAndSize", n, 1)
}

// searchAnswersComeFromSearch (R15.8): the numbers of a SEARCH response are the ones Mailbox.Search produced.
func (c *Ctx) searchAnswersComeFromSearch(rule string) {
	P, R := c.P, c.R
	R.Explain(rule, "UID SEARCH returns UIDs, SEARCH sequence numbers: the choice between the two is made in one place, inside state.Mailbox.Search (R15.6).  In internal/session every number handed to response.Search therefore originates - all producers followed, through variables and phis - from the first result of Mailbox.Search; the handler builds no numbers of its own.  A shortcut in the handler (`ALL` answered as 1..Count()) is right for SEARCH and wrong for UID SEARCH as soon as a message has been expunged.")
	n := 0
	for _, f := range c.funcsInPkg("internal/session") {
		for _, cs := range engine.Calls(f) {
			sc := cs.Common().StaticCallee()
			if sc == nil || cs.Instr.Parent() != f || engine.ShortName(sc) != "Search" || engine.RelPkg(P.OwnPkgPath(sc)) != "internal/response" || len(cs.Common().Args) == 0 {
				continue
			}
			n++
			bad, any := "", false
			var judge func(v ssa.Value, depth int)
			judge = func(v ssa.Value, depth int) {
				engine.Backward(v, engine.FlowOpts{Loads: true, AppendBase: true, AppendElems: true}, func(x ssa.Value) bool {
					if bad != "" {
						return false
					}
					switch t := x.(type) {
					case *ssa.Extract:
						if call, ok := t.Tuple.(*ssa.Call); ok {
							if g := call.Call.StaticCallee(); g != nil && engine.ShortName(g) == "Search" && engine.RecvNamed(g) != nil && engine.RecvNamed(g).Obj().Name() == "Mailbox" && t.Index == 0 {
								any = true
								return false
							}
						}
						bad = "a result of " + t.Tuple.String()
						return false
					case *ssa.Const:
						if t.IsNil() {
							return false
						}
						bad = "constant " + t.String()
						return false
					case *ssa.Parameter:
						// the numbers handed to a helper of the session package: what its call sites pass
						h := t.Parent()
						if depth > 0 && h.Parent() == nil && h.Object() != nil && !h.Object().Exported() {
							ix := engine.ParamIndex(h, t)
							callers := P.CallersOf(h)
							if ix >= 0 && len(callers) > 0 {
								for _, site := range callers {
									if site.Common().StaticCallee() != h || ix >= len(site.Common().Args) {
										bad = "parameter " + t.Name() + " of " + c.name(h) + " (a call site that cannot be followed)"
										return false
									}
									judge(site.Common().Args[ix], depth-1)
								}
								return false
							}
						}
						bad = x.String() + " at " + P.Pos(x.Pos())
						return false
					case *ssa.MakeSlice, *ssa.Alloc:
						bad = x.String() + " at " + P.Pos(x.Pos())
						return false
					case *ssa.Call:
						if _, isApp := engine.IsBuiltinCall(t, "append"); isApp {
							return true
						}
						bad = "the result of " + t.Call.Value.String() + " at " + P.Pos(t.Pos())
						return false
					}
					return true
				})
			}
			judge(cs.Common().Args[0], 2)
			R.Check(bad == "" && any, rule, c.name(f)+"|response.Search numbers", P.Pos(cs.Pos()), "the numbers are the first result of Mailbox.Search", "the SEARCH response is given numbers that do not (only) come from Mailbox.Search ("+bad+"): they are not mapped to UIDs for UID SEARCH / to sequence numbers for SEARCH")
		}
	}
	R.Min(rule, "response.Search call sites in internal/session", n, 1)
}
