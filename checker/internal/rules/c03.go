package rules

import (
	"go/constant"
	"go/token"
	"go/types"
	"regexp"
	"strings"

	"golang.org/x/tools/go/ssa"

	"verifchecker/internal/engine"
)

func init() { register("C03", c03) }

func isDBIface(t types.Type) bool {
	return engine.IsNamed(t, "db", "Transaction") || engine.IsNamed(t, "db", "ReadOnly")
}

// errorsPropagated: the error result of every call selected by pick is either returned
// directly or tested against nil with the non-nil edge leading only to returns of a
// non-nil error.
func (c *Ctx) errorsPropagated(rule string, pkgs []string, pick func(cs engine.CallSite) (string, bool), explainDrop string) int {
	P, R := c.P, c.R
	n := 0
	for _, f := range c.funcsInPkg(pkgs...) {
		for _, cs := range engine.Calls(f) {
			label, ok := pick(cs)
			if !ok {
				continue
			}
			call, isCall := cs.Instr.(*ssa.Call)
			key := fmtf("%s|%s", c.name(f), label)
			if !isCall {
				// go/defer of a failing operation: its error is lost
				n++
				R.Fail(rule, key, P.Pos(cs.Pos()), "called with go/defer: its error cannot be handled; "+explainDrop)
				continue
			}
			// locate the error result
			var errVal ssa.Value
			if tup, isTup := call.Type().(*types.Tuple); isTup {
				if tup.Len() == 0 || !isErrorType(tup.At(tup.Len()-1).Type()) {
					continue
				}
				for _, r := range *call.Referrers() {
					if ex, isEx := r.(*ssa.Extract); isEx && ex.Index == tup.Len()-1 {
						errVal = ex
					}
				}
				n++
				if errVal == nil {
					R.Fail(rule, key, P.Pos(call.Pos()), "the error result is never looked at; "+explainDrop)
					continue
				}
			} else if isErrorType(call.Type()) {
				errVal = call
				n++
			} else {
				continue
			}
			ok2, why := errorHandled(f, errVal)
			R.Check(ok2, rule, key, P.Pos(call.Pos()), "error is returned to the caller", why+"; "+explainDrop)
		}
	}
	return n
}

func isErrorType(t types.Type) bool {
	return types.Identical(t, types.Universe.Lookup("error").Type())
}

// errorHandled: every use of the error value is (a) a return, (b) a nil test whose
// non-nil edge reaches only returns of non-nil errors / panics, (c) wrapping
// (fmt.Errorf, errors.Is/As tests) whose result is handled likewise.
func errorHandled(f *ssa.Function, errVal ssa.Value) (bool, string) {
	refs := errVal.Referrers()
	if refs == nil || len(nonDebug(*refs)) == 0 {
		return false, "the error result is discarded"
	}
	propagated := false
	for _, r := range nonDebug(*refs) {
		switch t := r.(type) {
		case *ssa.Return:
			propagated = true
		case *ssa.BinOp:
			if !(engine.IsNilConst(t.X) || engine.IsNilConst(t.Y)) {
				continue
			}
			for _, r2 := range *t.Referrers() {
				iff, ok := r2.(*ssa.If)
				if !ok {
					continue
				}
				// a test that can only be reached through another test of the same error (`if err != nil &&
				// !IsNotFound(err) {return}; if err == nil {…}`) sees an error that was already judged there
				if !firstErrorTest(f, errVal, iff) {
					continue
				}
				errIx := 0
				if t.Op == token.EQL {
					errIx = 1
				}
				// all returns dominated by the error edge must return a non-nil error; and the edge must not
				// fall back into code that reaches a nil-error return
				tgt := iff.Block().Succs[errIx]
				okEdge := true
				// a nil return is acceptable only behind an explicit classification of this error (true edge of
				// errors.Is / errors.As / IsErr…(err)): a deliberate "not an error" case
				classified := classificationEdges(f, errVal)
				// `if err == nil { err = next() }; if err != nil { return err }`: the second test sits in the block the
				// error edge leads to and tests a phi that is this very error along that edge - its nil outcome cannot
				// be taken by a path that came in over the error edge
				if tIf := engine.IfOf(tgt); tIf != nil {
					if cond, neg := engine.StripNot(tIf.Cond); cond != nil {
						if bo, isBo := cond.(*ssa.BinOp); isBo && (bo.Op == token.NEQ || bo.Op == token.EQL) {
							var phi *ssa.Phi
							if p, isPhi := bo.X.(*ssa.Phi); isPhi && engine.IsNilConst(bo.Y) {
								phi = p
							} else if p, isPhi := bo.Y.(*ssa.Phi); isPhi && engine.IsNilConst(bo.X) {
								phi = p
							}
							if phi != nil && phi.Block() == tgt {
								same := false
								for i, pred := range tgt.Preds {
									if pred == iff.Block() && i < len(phi.Edges) && phi.Edges[i] == errVal {
										same = true
									}
								}
								if same {
									nilIx := 1
									if bo.Op == token.EQL {
										nilIx = 0
									}
									if neg {
										nilIx = 1 - nilIx
									}
									withInf := map[engine.Edge]bool{engine.Edge{From: tgt, Succ: nilIx}: true}
									for e := range classified {
										withInf[e] = true
									}
									classified = withInf
								}
							}
						}
					}
				}
				for _, ret := range engine.Returns(f) {
					lr := engine.LastResult(ret)
					if lr != nil && !engine.IsNilConst(lr) {
						continue
					}
					if engine.ReachesAvoidingFrom(tgt, 0, ret, nil, classified) {
						okEdge = false
					}
				}
				if okEdge {
					propagated = true
				} else {
					return false, "the non-nil edge of its error check can reach a nil-error return (error swallowed)"
				}
			}
		case *ssa.Store:
			// result spill / captured err variable: accept when the cell is returned
			propagated = true
		case *ssa.Call:
			// errors.Is(err, X) / db.IsErrNotFound(err): a classification; the other uses decide
			if sc := t.Call.StaticCallee(); sc != nil && (engine.ShortName(sc) == "Is" || engine.ShortName(sc) == "As" || strings.HasPrefix(engine.ShortName(sc), "IsErr")) {
				continue
			}
			if sc := t.Call.StaticCallee(); sc != nil && engine.ShortName(sc) == "Errorf" {
				propagated = true
			}
		case *ssa.MakeInterface, *ssa.Phi:
			propagated = true
		}
	}
	if !propagated {
		return false, "the error is inspected but never returned"
	}
	return true, ""
}

func c03(c *Ctx) {
	defer c03writesDecidedFromIndex(c)
	defer c03pairedListsAgree(c)
	defer c03remoteAndLocalAddAgree(c)
	c03flagWritesSelectFromTheIndexRead(c)
	c03flagValueComparedWithoutCase(c)
	P, R := c.P, c.R
	R.Explain("R03.1", "T-SQL (engine of C08) restricted to the statements reachable from the message commands (Mailbox.Append/Copy/Move/Store/Expunge/Fetch, State.Create/Delete/Rename): valid against the schema and placeholder count = bound arguments for every batch size (both sides of the chunk limit).")
	R.Explain("R03.2", "transaction shape: on any path of Mailbox.Copy/Move/Store/Expunge and State.Create/Delete/Rename at most one mutating commit wrapper (stateDBWrite/stateDBWriteResult) is executed, so a command answered NO/BAD is one rolled-back transaction.")
	R.Explain("R03.3", "T-NODROP: the error of every mutating db.Transaction call in internal/state and internal/backend is returned to the caller (a swallowed error would commit a partial effect).")
	R.Explain("R03.4", "flag case discipline: arguments of FlagSet.ContainsUnchecked/ContainsAnyUnchecked are lower-case constants or results of strings.ToLower; a flag string in its original spelling (element of FlagSet.ToSlice/ToSliceUnsorted) is never compared with ==, slices.Contains or slices.Index (flags are case-insensitive).")

	roots := []string{
		"internal/state.(*Mailbox).Append", "internal/state.(*Mailbox).Copy", "internal/state.(*Mailbox).Move",
		"internal/state.(*Mailbox).Store", "internal/state.(*Mailbox).Expunge", "internal/state.(*Mailbox).Fetch",
		"internal/state.(*State).Create", "internal/state.(*State).Delete", "internal/state.(*State).Rename",
	}
	var rf []*ssa.Function
	for _, r := range roots {
		if f := c.fn("R03.1", r); f != nil {
			rf = append(rf, f)
		}
	}
	reach := P.Reachable(rf, engine.ReachOpts{FollowClosures: true, OwnOnly: true})
	res := c.sqlAnalysis()
	n := c.emitSQL(res, "", map[string]string{"R08.1": "R03.1", "R08.2": "R03.1", "R08.3": "R03.1", "R08.4": "R03.1"}, func(o sqlOb) bool {
		if o.fn == nil {
			return false
		}
		_, ok := reach[o.fn]
		return ok
	})
	R.Min("R03.1", "statement obligations reachable from the message commands", n, 60)

	// ---- R03.2 -----------------------------------------------------------------------
	wrappers := map[string]bool{"stateDBWrite": true, "stateDBWriteResult": true}
	for _, name := range []string{"internal/state.(*Mailbox).Copy", "internal/state.(*Mailbox).Move", "internal/state.(*Mailbox).Store", "internal/state.(*Mailbox).Expunge", "internal/state.(*State).Create", "internal/state.(*State).Delete", "internal/state.(*State).Rename"} {
		f := c.fnOpt(name)
		if f == nil {
			continue
		}
		var ws []ssa.Instruction
		for _, cs := range engine.Calls(f) {
			if sc := cs.Common().StaticCallee(); sc != nil && wrappers[engine.BaseName(sc)] {
				ws = append(ws, cs.Instr)
			}
		}
		two := false
		for _, a := range ws {
			for _, b := range ws {
				if a != b && engine.InstrReaches(a, b) {
					two = true
				}
			}
			if engine.InstrReaches(a, a) {
				for _, s := range a.Block().Succs {
					if engine.BlocksReachableFrom(s)[a.Block()] {
						two = true
					}
				}
			}
		}
		R.Check(len(ws) >= 1 && !two, "R03.2", name+"|one-transaction", P.Pos(f.Pos()), fmtf("%d commit wrapper call(s), at most one per path", len(ws)),
			"a path of "+name+" runs more than one mutating transaction: if the later one fails the command is answered NO but the earlier effect stays")
	}

	// ---- R03.3 -----------------------------------------------------------------------
	k := c.errorsPropagated("R03.3", []string{"internal/state", "internal/backend"}, func(cs engine.CallSite) (string, bool) {
		cc := cs.Common()
		if cc.IsInvoke() && engine.IsNamed(cc.Value.Type(), "db", "Transaction") && isWriteMethod(engine.MethodName(cc.Method)) {
			return "tx." + engine.MethodName(cc.Method), true
		}
		return "", false
	}, "a failed statement inside a transaction that still commits leaves a partial effect")
	R.Min("R03.3", "mutating transaction calls", k, 40)

	c.flagCase("R03.4")
	c03writeBeforeAnnounce(c)
	c03deletedPerMailbox(c)
	c.chunkAliasing("R03.7")
}

func (c *Ctx) flagCase(rule string) {
	P, R := c.P, c.R
	lowerCasedProg = P
	// (a) Unchecked arguments
	n := 0
	for _, f := range c.productFuncs() {
		for _, cs := range engine.Calls(f) {
			sc := cs.Common().StaticCallee()
			if sc == nil || !isFlagSetMethod(sc) || (engine.ShortName(sc) != "ContainsUnchecked" && engine.ShortName(sc) != "ContainsAnyUnchecked") {
				continue
			}
			if topFn(f).Pkg != nil && engine.RelPkg(topFn(f).Pkg.Pkg.Path()) == "imap" && isFlagSetMethod(topFn(f)) {
				continue // FlagSet's own methods forward their (documented lower-case) parameter
			}
			n++
			args := cs.Common().Args[1:]
			okAll, bad := true, ""
			for _, a := range args {
				var vals []ssa.Value
				if els, isVar := variadicElems(a); isVar {
					vals = els
				} else {
					vals = []ssa.Value{a}
				}
				for _, v := range vals {
					if !lowerCased(v) {
						okAll, bad = false, v.String()
					}
				}
			}
			R.Check(okAll, rule, c.name(f)+"|"+engine.ShortName(sc), P.Pos(cs.Pos()), "unchecked lookup uses a lower-case key", "FlagSet."+engine.ShortName(sc)+" is called with "+bad+", which is not a lower-case constant nor a strings.ToLower result: a flag written in another letter case is not found")
		}
	}
	R.Min(rule, "ContainsUnchecked call sites", n, 20)
	// (b) taint: original spellings compared case-sensitively
	m := 0
	for _, f := range c.productFuncs() {
		rel := engine.RelPkg(P.OwnPkgPath(f))
		if rel == "imap" || strings.HasPrefix(rel, "internal/response") || strings.HasPrefix(rel, "internal/db_impl") || strings.HasPrefix(rel, "connector") {
			continue
		}
		tainted := map[ssa.Value]bool{}
		var work []ssa.Value
		for _, cs := range engine.Calls(f) {
			sc := cs.Common().StaticCallee()
			if sc != nil && isFlagSetMethod(sc) && (engine.ShortName(sc) == "ToSlice" || engine.ShortName(sc) == "ToSliceUnsorted") {
				if v, ok := cs.Instr.(ssa.Value); ok {
					tainted[v] = true
					work = append(work, v)
				}
			}
		}
		if len(work) == 0 {
			continue
		}
		m++
		for len(work) > 0 {
			v := work[0]
			work = work[1:]
			if v.Referrers() == nil {
				continue
			}
			for _, r := range *v.Referrers() {
				switch t := r.(type) {
				case *ssa.IndexAddr, *ssa.Phi, *ssa.Slice, *ssa.ChangeType, *ssa.Lookup, *ssa.Index, *ssa.Range, *ssa.Next, *ssa.Extract:
					if tv := t.(ssa.Value); !tainted[tv] {
						tainted[tv] = true
						work = append(work, tv)
					}
				case *ssa.UnOp:
					if t.Op == token.MUL && !tainted[t] {
						tainted[t] = true
						work = append(work, t)
					}
				case *ssa.Store:
					if al, ok := t.Addr.(*ssa.Alloc); ok && t.Val == v && !tainted[al] {
						tainted[al] = true
						work = append(work, al)
					}
				case *ssa.MakeClosure:
					// captured by a predicate closure: taint the corresponding free variable
					cl := t.Fn.(*ssa.Function)
					for i, b := range t.Bindings {
						if b == v && i < len(cl.FreeVars) {
							c.flagTaintInClosure(rule, cl, cl.FreeVars[i], f)
						}
					}
				case *ssa.BinOp:
					if (t.Op == token.EQL || t.Op == token.NEQ) && isStringType(t.X.Type()) {
						R.Fail(rule, c.name(f)+"|case-sensitive-compare", P.Pos(t.Pos()), "a flag in its original spelling is compared with == / !=: flags are case-insensitive, so \\seen and \\Seen would be treated as different flags")
					}
				case *ssa.Call:
					if sc := t.Call.StaticCallee(); sc != nil {
						bn := engine.BaseName(sc)
						if (bn == "Contains" || bn == "Index") && strings.HasSuffix(engine.PkgPathOf(sc), "slices") {
							R.Fail(rule, c.name(f)+"|case-sensitive-"+bn, P.Pos(t.Pos()), "a flag list in its original spelling is searched with slices."+bn+" (case-sensitive): a flag that differs only in letter case is treated as a different flag")
						}
					}
				}
			}
		}
	}
	R.Stats["R03.4 functions handling original-spelling flag lists"] = m
}

func (c *Ctx) flagTaintInClosure(rule string, cl *ssa.Function, fv *ssa.FreeVar, outer *ssa.Function) {
	P, R := c.P, c.R
	if fv.Referrers() == nil {
		return
	}
	for _, r := range *fv.Referrers() {
		vals := []ssa.Value{}
		if ld, ok := r.(*ssa.UnOp); ok {
			vals = append(vals, ld)
		}
		if call, ok := r.(*ssa.Call); ok {
			vals = append(vals, call)
			_ = call
		}
		for _, v := range vals {
			if v.Referrers() == nil {
				continue
			}
			for _, r2 := range *v.Referrers() {
				if call, ok := r2.(*ssa.Call); ok {
					if sc := call.Call.StaticCallee(); sc != nil {
						bn := engine.BaseName(sc)
						if (bn == "Contains" || bn == "Index") && strings.HasSuffix(engine.PkgPathOf(sc), "slices") {
							R.Fail(rule, c.name(outer)+"|case-sensitive-"+bn, P.Pos(call.Pos()), "a flag list in its original spelling is searched with slices."+bn+" (case-sensitive)")
						}
					}
				}
			}
		}
	}
}

func isStringType(t types.Type) bool {
	b, ok := t.Underlying().(*types.Basic)
	return ok && b.Info()&types.IsString != 0
}

func variadicElems(v ssa.Value) ([]ssa.Value, bool) {
	sl, ok := v.(*ssa.Slice)
	if !ok {
		return nil, false
	}
	al, ok := sl.X.(*ssa.Alloc)
	if !ok {
		return nil, false
	}
	return engine.ElemStores(al), true
}

// lowerCased: constant without upper-case letters, strings.ToLower result, or a global
// slice/constant whose name ends in LowerCase.
func lowerCased(v ssa.Value) bool {
	ok := true
	seen := map[ssa.Value]bool{}
	var walk func(x ssa.Value)
	walk = func(x ssa.Value) {
		if seen[x] {
			return
		}
		seen[x] = true
		switch t := x.(type) {
		case *ssa.Const:
			if t.Value != nil && t.Value.Kind() == constant.String {
				s := constant.StringVal(t.Value)
				if s != strings.ToLower(s) {
					ok = false
				}
			}
		case *ssa.Call:
			if sc := t.Call.StaticCallee(); sc != nil && engine.ShortName(sc) == "ToLower" {
				return
			}
			ok = false
		case *ssa.Phi:
			for _, e := range t.Edges {
				walk(e)
			}
		case *ssa.UnOp:
			switch a := t.X.(type) {
			case *ssa.Global:
				if !strings.HasSuffix(a.Name(), "LowerCase") {
					ok = false
				}
			case *ssa.Alloc:
				for _, st := range engine.StoresTo(a) {
					walk(st.Val)
				}
			case *ssa.FreeVar:
				for _, b := range engine.FreeVarBinding(a) {
					if al, isAl := b.(*ssa.Alloc); isAl {
						for _, st := range engine.StoresTo(al) {
							walk(st.Val)
						}
					} else {
						walk(b)
					}
				}
			default:
				ok = false
			}
		case *ssa.FreeVar:
			for _, b := range engine.FreeVarBinding(t) {
				walk(b)
			}
		case *ssa.Slice:
			walk(t.X)
		case *ssa.Parameter:
			// the parameter of an unexported helper: lower-cased if every call site passes a lower-cased value
			fn := t.Parent()
			if lowerCasedProg == nil || fn == nil || fn.Object() == nil || fn.Object().Exported() {
				ok = false
				return
			}
			idx := -1
			for i, q := range fn.Params {
				if q == t {
					idx = i
				}
			}
			callers := lowerCasedProg.CallersOf(fn)
			if idx < 0 || len(callers) == 0 {
				ok = false
				return
			}
			for _, cs := range callers {
				if cs.Common().IsInvoke() || idx >= len(cs.Common().Args) {
					ok = false
					return
				}
				walk(cs.Common().Args[idx])
			}
		default:
			ok = false
		}
	}
	walk(v)
	return ok
}

// lowerCasedProg gives lowerCased access to the call graph (callers of a helper).
var lowerCasedProg *engine.Prog

// classifiedEdge: blk is dominated by the true edge of errors.Is(err, X) / db.IsErrNotFound(err).
// firstErrorTest: the nil test `iff` of errVal can be the first such test on some path from the
// definition of errVal.
func firstErrorTest(f *ssa.Function, errVal ssa.Value, iff *ssa.If) bool {
	def, ok := errVal.(ssa.Instruction)
	if !ok || def.Block() == nil {
		return true
	}
	cut := map[ssa.Instruction]bool{}
	for _, r := range *errVal.Referrers() {
		bin, ok := r.(*ssa.BinOp)
		if !ok || !(engine.IsNilConst(bin.X) || engine.IsNilConst(bin.Y)) {
			continue
		}
		for _, r2 := range *bin.Referrers() {
			if other, ok := r2.(*ssa.If); ok && other != iff {
				cut[other] = true
			}
		}
	}
	if len(cut) == 0 {
		return true
	}
	return engine.ReachesAvoidingFrom(def.Block(), engine.InstrIndex(def)+1, iff, cut, nil)
}

// classificationEdges: the edges taken when errVal is recognised as a particular error
// (errors.Is / errors.As / IsErr…(errVal) true, through `!`).
func classificationEdges(f *ssa.Function, errVal ssa.Value) map[engine.Edge]bool {
	out := map[engine.Edge]bool{}
	for _, b := range f.Blocks {
		iff := engine.IfOf(b)
		if iff == nil {
			continue
		}
		cond, neg := engine.StripNot(iff.Cond)
		call, ok := cond.(*ssa.Call)
		if !ok {
			continue
		}
		sc := call.Call.StaticCallee()
		if sc == nil || !(engine.ShortName(sc) == "Is" || engine.ShortName(sc) == "As" || strings.HasPrefix(engine.ShortName(sc), "IsErr")) {
			continue
		}
		for _, a := range call.Call.Args {
			if a == errVal {
				ix := 0
				if neg {
					ix = 1
				}
				out[engine.Edge{From: b, Succ: ix}] = true
			}
		}
	}
	return out
}

func classifiedEdge(f *ssa.Function, errVal ssa.Value, blk *ssa.BasicBlock) bool {
	for _, b := range f.Blocks {
		iff := engine.IfOf(b)
		if iff == nil {
			continue
		}
		call, ok := iff.Cond.(*ssa.Call)
		if !ok {
			continue
		}
		sc := call.Call.StaticCallee()
		if sc == nil || !(engine.ShortName(sc) == "Is" || engine.ShortName(sc) == "As" || strings.HasPrefix(engine.ShortName(sc), "IsErr")) {
			continue
		}
		uses := false
		for _, a := range call.Call.Args {
			if a == errVal {
				uses = true
			}
		}
		if uses && (engine.EdgeDominates(b, 0, blk) || b.Succs[0] == blk) {
			return true
		}
	}
	return false
}

// c03writeBeforeAnnounce (R03.5): a state update that announces a flag change is only
// constructed after the matching database write, on every path.
func c03writeBeforeAnnounce(c *Ctx) {
	P, R := c.P, c.R
	R.Explain("R03.5", "write-before-announce (T-DOM): every construction of a flag-changing state update (Set/Added/Removed) in internal/state is dominated by the matching transaction write (SetFlagsOnMessages / AddFlagToMessages|SetMailboxMessagesDeletedFlag / RemoveFlagFromMessages|SetMailboxMessagesDeletedFlag): a change is never broadcast to the sessions without having been written to the index.")
	want := map[string][]string{
		"NewMessageFlagsSetStateUpdate": {"SetFlagsOnMessages"},
		// a replacement sets the shared flags AND this mailbox's \Deleted column, whatever the (possibly stale) snapshot says
		"NewMessageFlagsSetStateUpdate#2":   {"SetMailboxMessagesDeletedFlag"},
		"newMessageFlagsAddedStateUpdate":   {"AddFlagToMessages", "SetMailboxMessagesDeletedFlag"},
		"NewMessageFlagsRemovedStateUpdate": {"RemoveFlagFromMessages", "SetMailboxMessagesDeletedFlag"},
	}
	n := 0
	for _, f := range c.funcsInPkg("internal/state") {
		for _, cs := range engine.Calls(f) {
			sc := cs.Common().StaticCallee()
			if sc == nil {
				continue
			}
			if _, isCtor := want[engine.ShortName(sc)]; !isCtor {
				continue
			}
			n++
			for _, wk := range []string{engine.ShortName(sc), engine.ShortName(sc) + "#2"} {
				writes, has := want[wk]
				if !has {
					continue
				}
				ok := false
				for _, cs2 := range engine.Calls(f) {
					cc := cs2.Common()
					if !cc.IsInvoke() || !engine.IsNamed(cc.Value.Type(), "db", "Transaction") {
						continue
					}
					for _, w := range writes {
						if engine.MethodName(cc.Method) == w && engine.InstrDominates(cs2.Instr, cs.Instr) {
							ok = true
						}
					}
				}
				R.Check(ok, "R03.5", c.name(f)+"|"+wk, P.Pos(cs.Pos()), "the flag change is written to the index before it is announced",
					"the state update "+engine.ShortName(sc)+" is built on a path where none of "+strings.Join(writes, "/")+" was executed: sessions are told about a flag change that the index never received (a new session sees the old flags)")
			}
		}
	}
	R.Min("R03.5", "flag-change state update constructions", n, 5)
}

// c03deletedPerMailbox (R03.6): a flag update that came from another mailbox never changes
// this snapshot's \Deleted bit.
func c03deletedPerMailbox(c *Ctx) {
	P, R := c.P, c.R
	R.Explain("R03.6", "\\Deleted is per mailbox (T-MUST): in (*fetch).handle, on the edge where the update cameFromDifferentMailbox every path to the snapshot write snap.setMessageFlags passes through newFlags.SetOnSelf(\\Deleted, <the snapshot's current \\Deleted>): whatever the other mailbox's update carries - including a replacement list - the local \\Deleted (and with it the expunge set of EXPUNGE/CLOSE) is preserved.")
	// the function that distinguishes the foreign-mailbox case (fetch.handle or a helper of it)
	n := 0
	for _, f := range c.funcsInPkg("internal/state") {
		var guard *ssa.If
		for _, b := range f.Blocks {
			iff := engine.IfOf(b)
			if iff == nil {
				continue
			}
			if u, ok := iff.Cond.(*ssa.UnOp); ok {
				if fa, ok := u.X.(*ssa.FieldAddr); ok && fieldOfAddr(fa).Name() == "cameFromDifferentMailbox" {
					guard = iff
				}
			}
		}
		if guard == nil {
			continue
		}
		n++
		key := c.name(f) + "|deleted-restored-for-foreign-mailbox"
		// the snapshot's current flags: a getMessageFlags result, or a parameter that every caller feeds with one
		isCurrent := func(v ssa.Value) bool {
			return engine.AnyBackward(v, engine.FlowOpts{Loads: true}, func(x ssa.Value) bool {
				if ex, ok := x.(*ssa.Extract); ok {
					if call, ok := ex.Tuple.(*ssa.Call); ok && call.Call.StaticCallee() != nil && engine.ShortName(call.Call.StaticCallee()) == "getMessageFlags" {
						return true
					}
				}
				if p, ok := x.(*ssa.Parameter); ok && p.Parent() == f {
					pi := engine.ParamIndex(f, p)
					callers := P.CallersOf(f)
					if len(callers) == 0 {
						return false
					}
					for _, cs := range callers {
						arg := engine.ArgForParam(cs.Common(), f, pi)
						okc := arg != nil && engine.AnyBackward(arg, engine.FlowOpts{Loads: true}, func(y ssa.Value) bool {
							if ex, ok := y.(*ssa.Extract); ok {
								if call, ok := ex.Tuple.(*ssa.Call); ok && call.Call.StaticCallee() != nil && engine.ShortName(call.Call.StaticCallee()) == "getMessageFlags" {
									return true
								}
							}
							return false
						})
						if !okc {
							return false
						}
					}
					return true
				}
				return false
			})
		}
		var sinks []ssa.Instruction
		cut := map[ssa.Instruction]bool{}
		for _, cs := range engine.Calls(f) {
			sc := cs.Common().StaticCallee()
			if sc == nil {
				continue
			}
			switch engine.ShortName(sc) {
			case "setMessageFlags":
				sinks = append(sinks, cs.Instr)
			case "SetOnSelf":
				args := cs.Common().Args
				if len(args) != 3 {
					continue
				}
				flag, isConst := engine.ConstString(args[1])
				cur, isCall := args[2].(*ssa.Call)
				if !isConst || !strings.EqualFold(flag, `\Deleted`) || !isCall || cur.Call.StaticCallee() == nil || !strings.HasPrefix(engine.ShortName(cur.Call.StaticCallee()), "Contains") {
					continue
				}
				q, _ := engine.ConstString(cur.Call.Args[len(cur.Call.Args)-1])
				if isCurrent(cur.Call.Args[0]) && strings.EqualFold(q, `\Deleted`) {
					cut[cs.Instr] = true
				}
			}
		}
		if len(sinks) == 0 {
			// the function computes the flags for its caller: its returns are the sinks
			for _, r := range engine.Returns(f) {
				sinks = append(sinks, r)
			}
		}
		bypass := false
		for _, sk := range sinks {
			if engine.ReachesAvoidingFrom(guard.Block().Succs[0], 0, sk, cut, nil) {
				bypass = true
			}
		}
		R.Check(len(cut) > 0 && len(sinks) > 0 && !bypass, "R03.6", key, P.Pos(guard.Pos()), "every foreign-mailbox path restores the local \\Deleted before the snapshot write",
			"with cameFromDifferentMailbox set, the snapshot write can be reached without SetOnSelf(\\Deleted, current local value): a STORE FLAGS in another mailbox clears this mailbox's \\Deleted in the snapshot and the next EXPUNGE/CLOSE skips the message")
	}
	R.Min("R03.6", "functions that distinguish the foreign-mailbox case", n, 1)
}

// c03writesDecidedFromIndex (R03.8): inside a write transaction nothing is decided from the session's own copy of the flags.
func c03writesDecidedFromIndex(c *Ctx) {
	P, R := c.P, c.R
	R.Explain("R03.8", "what a command writes is decided from the index, not from the session's view: in internal/state no function that works inside a write transaction (has a db.Transaction parameter; closures included) reads the flags of a snapshot message (field snapMsg.flags).  The snapshot lags behind the authoritative state - another session may have changed the flags without this session having flushed - so skipping or shaping a write by it makes STORE a no-op where the reference semantics require a change (the functions compare with tx.GetMessagesFlags instead).")
	flagsFld := c.fieldOf("internal/state", "snapMsg", "flags")
	if flagsFld == nil {
		R.Fail("R03.8", "anchor|snapMsg.flags", "-", "field snapMsg.flags not found")
		return
	}
	hasTx := func(f *ssa.Function) bool {
		for g := f; g != nil; g = g.Parent() {
			for _, p := range g.Params {
				if engine.IsNamed(p.Type(), "db", "Transaction") {
					return true
				}
			}
		}
		return false
	}
	n := 0
	for _, f := range c.funcsInPkg("internal/state") {
		if !hasTx(f) {
			continue
		}
		n++
		bad := ""
		for _, b := range f.Blocks {
			for _, in := range b.Instrs {
				switch t := in.(type) {
				case *ssa.FieldAddr:
					if fieldOfAddr(t) == flagsFld {
						bad = P.Pos(t.Pos())
					}
				case *ssa.Field:
					if fieldOfField(t) == flagsFld {
						bad = P.Pos(t.Pos())
					}
				}
			}
		}
		if bad != "" || f.Parent() == nil {
			R.Check(bad == "", "R03.8", c.name(f)+"|no snapshot flags in a write transaction", P.Pos(f.Pos()), "the function does not read snapMsg.flags", "a function working inside a write transaction reads the session's copy of a message's flags ("+bad+"): what is written depends on a view that may be stale")
		}
	}
	R.Min("R03.8", "functions of internal/state working inside a write transaction", n, 20)
}

// c03pairedListsAgree (R03.9): the two views of the message list a MOVE works on are the same list.
func c03pairedListsAgree(c *Ctx) {
	P, R := c.P, c.R
	R.Explain("R03.9", "a MOVE adds exactly what it removes: wherever state.MoveMessagesFromMailbox is called, its list of id pairs (added to the destination) and its list of internal ids (removed from the source) are two views of one list - the internal ids are the first result of db.SplitMessageIDPairSlice applied to that very list of pairs; the remote ids the connector is told about and the count checked against the limits come from the same split.  Passing the unfiltered request list on one side re-creates in the destination a message another session has already expunged from the source.")
	n := 0
	for _, f := range c.funcsInPkg("internal/state", "internal/backend") {
		for _, cs := range engine.Calls(f) {
			sc := cs.Common().StaticCallee()
			if sc == nil || engine.ShortName(sc) != "MoveMessagesFromMailbox" || engine.RecvNamed(sc) != nil || len(cs.Common().Args) < 6 {
				continue
			}
			n++
			pairs, internal := cs.Common().Args[4], cs.Common().Args[5]
			why := ""
			ex, ok := internal.(*ssa.Extract)
			if !ok || ex.Index != 0 {
				why = "the internal ids are not the first result of db.SplitMessageIDPairSlice"
			} else if call, ok := ex.Tuple.(*ssa.Call); !ok || call.Call.StaticCallee() == nil || engine.ShortName(call.Call.StaticCallee()) != "SplitMessageIDPairSlice" {
				why = "the internal ids are not the first result of db.SplitMessageIDPairSlice"
			} else if call.Call.Args[0] != pairs {
				why = "the internal ids are split from another list (" + valExpr(call.Call.Args[0], 0) + ") than the pairs that are added (" + valExpr(pairs, 0) + ")"
			}
			R.Check(why == "", "R03.9", c.name(f)+"|MoveMessagesFromMailbox lists", P.Pos(cs.Pos()), "pairs and internal ids are two views of one list", why+": the set added to the destination differs from the set removed from the source")
		}
	}
	R.Min("R03.9", "calls of state.MoveMessagesFromMailbox", n, 1)
}

// c03remoteAndLocalAddAgree (R03.10): the connector is told to add exactly the messages that are added locally.
func c03remoteAndLocalAddAgree(c *Ctx) {
	P, R := c.P, c.R
	R.Explain("R03.10", "remote and local content stay in step: in a function of internal/state that both tells the connector to add messages to a mailbox (Connector.AddMessagesToMailbox through state.user.GetRemote()) and adds them to the index (state.AddMessagesToMailbox), the remote ids handed to the connector are derived (xslices.Map / db.SplitMessageIDPairSlice) from the very list that is added locally - not from a filtered copy.  Messages added locally but not labelled remotely (after the same function had the remote remove them) are taken out of the mailbox again when the connector's next update is applied.")
	n := 0
	for _, f := range c.funcsInPkg("internal/state") {
		var remote, local []ssa.CallInstruction
		for _, cs := range engine.Calls(f) {
			cc := cs.Common()
			if cs.Instr.Parent() != f {
				continue
			}
			if cc.IsInvoke() && engine.MethodName(cc.Method) == "AddMessagesToMailbox" && !engine.IsNamed(cc.Value.Type(), "db", "Transaction") {
				remote = append(remote, cs.Instr)
			}
			if sc := cc.StaticCallee(); sc != nil && engine.ShortName(sc) == "AddMessagesToMailbox" && engine.RecvNamed(sc) == nil && len(cc.Args) >= 4 {
				local = append(local, cs.Instr)
			}
		}
		if len(remote) == 0 || len(local) == 0 {
			continue
		}
		for _, r := range remote {
			n++
			var ids ssa.Value
			for _, a := range r.Common().Args {
				if sl, ok := a.Type().Underlying().(*types.Slice); ok && engine.IsNamed(sl.Elem(), "imap", "MessageID") {
					ids = a
				}
			}
			ok := false
			for _, l := range local {
				list := l.Common().Args[3]
				if ids == nil {
					continue
				}
				reaches, foreign := false, false
				engine.Backward(ids, engine.FlowOpts{Loads: true, Calls: func(cl *ssa.Call) []ssa.Value {
					if sc := cl.Call.StaticCallee(); sc != nil && (engine.BaseName(sc) == "Map" || engine.BaseName(sc) == "SplitMessageIDPairSlice") {
						return cl.Call.Args[:1]
					}
					return nil
				}}, func(x ssa.Value) bool {
					if x == list {
						reaches = true
						return false
					}
					if cl, isCall := x.(*ssa.Call); isCall {
						if sc := cl.Call.StaticCallee(); sc == nil || (engine.BaseName(sc) != "Map" && engine.BaseName(sc) != "SplitMessageIDPairSlice") {
							foreign = true // another producer (a filter, a lookup): not a pure view of the list
						}
					}
					return true
				})
				if reaches && !foreign {
					ok = true
				}
			}
			R.Check(ok, "R03.10", c.name(f)+"|remote add = local add", P.Pos(r.Pos()), "the remote ids derive from the list that is added locally", "the connector is told to add another list of messages than the one added to the index: remote and local mailbox content diverge and the next connector update removes what the command added")
		}
	}
	R.Min("R03.10", "functions adding both remotely and locally", n, 1)
}

// c03flagWritesSelectFromTheIndexRead (R03.11): which messages a flag is written to is decided over all the rows read.
func c03flagWritesSelectFromTheIndexRead(c *Ctx) {
	P, R := c.P, c.R
	R.Explain("R03.11", "STORE changes every message of the set: where internal/state builds the id list of a per-flag index write (tx.AddFlagToMessages / tx.RemoveFlagFromMessages) by picking ids out of message-flag rows, the rows it ranges over are the result of tx.GetMessagesFlags for the request - every origin of the ranged slice is that read, not a narrowed copy (a filter applied beforehand for all flags at once).  The per-flag test inside the loop is what decides; a pre-filter that keeps only the messages carrying all (or none) of the named flags leaves the flags of the others unchanged in the index although the command named them.")
	n := 0
	for _, f := range c.funcsInPkg("internal/state") {
		for _, cs := range engine.Calls(f) {
			cc := cs.Common()
			if cs.Instr.Parent() != f || !cc.IsInvoke() || !engine.IsNamed(cc.Value.Type(), "db", "Transaction") {
				continue
			}
			// a per-flag write, recognised by its shape: (ctx, ids []InternalMessageID, flag string) error
			if sig := cc.Signature(); sig.Params().Len() != 3 || sig.Results().Len() != 1 || sig.Params().At(2).Type().String() != "string" {
				continue
			}
			var ids ssa.Value
			for _, a := range cc.Args {
				if sl, ok := a.Type().Underlying().(*types.Slice); ok && engine.IsNamed(sl.Elem(), "imap", "InternalMessageID") {
					ids = a
				}
			}
			if ids == nil {
				continue
			}
			// the slices whose elements' ID field is appended - here, or in a helper of the package that builds the list
			var rangedOf func(v ssa.Value, depth int) []ssa.Value
			rangedOf = func(v ssa.Value, depth int) []ssa.Value {
				var ranged []ssa.Value
				engine.Backward(v, engine.FlowOpts{Loads: true, AppendBase: true, AppendElems: true}, func(x ssa.Value) bool {
					if call, ok := x.(*ssa.Call); ok && depth > 0 {
						if h := call.Call.StaticCallee(); h != nil && len(h.Blocks) > 0 && engine.RelPkg(P.OwnPkgPath(h)) == "internal/state" {
							for _, ret := range engine.Returns(h) {
								if len(ret.Results) == 0 {
									continue
								}
								for _, rs := range rangedOf(ret.Results[0], depth-1) {
									// a slice parameter of the helper stands for the caller's argument
									engine.Backward(rs, engine.FlowOpts{Loads: true}, func(y ssa.Value) bool {
										if p, ok := y.(*ssa.Parameter); ok {
											for i, hp := range h.Params {
												if hp == p && i < len(call.Call.Args) {
													ranged = append(ranged, call.Call.Args[i])
												}
											}
											return false
										}
										return true
									})
								}
							}
							return false
						}
					}
					var fx ssa.Value
					switch t := x.(type) {
					case *ssa.Field:
						fx = t.X
					case *ssa.UnOp:
						if fa, ok := t.X.(*ssa.FieldAddr); ok {
							fx = fa.X
						}
					}
					if fx == nil {
						return true
					}
					cands := []ssa.Value{fx}
					if al, ok := fx.(*ssa.Alloc); ok { // the range variable kept in a cell
						cands = nil
						for _, st := range engine.StoresTo(al) {
							cands = append(cands, st.Val)
						}
					}
					hit := false
					for _, cv := range cands {
						if u, ok := cv.(*ssa.UnOp); ok {
							cv = u.X
						}
						if ia, ok := cv.(*ssa.IndexAddr); ok {
							if sl, ok := ia.X.Type().Underlying().(*types.Slice); ok && engine.IsNamed(sl.Elem(), "db", "MessageFlagSet") {
								ranged = append(ranged, ia.X)
								hit = true
							}
						}
					}
					return !hit
				})
				return ranged
			}
			ranged := rangedOf(ids, 2)
			for _, rs := range ranged {
				n++
				bad := ""
				any := false
				engine.Backward(rs, engine.FlowOpts{Loads: true}, func(x ssa.Value) bool {
					switch t := x.(type) {
					case *ssa.Extract:
						// the read is recognised by its shape (a method of the transaction that returns the message-flag
						// rows), not by its name
						if call, ok := t.Tuple.(*ssa.Call); ok && call.Call.IsInvoke() && t.Index == 0 &&
							(engine.IsNamed(call.Call.Value.Type(), "db", "Transaction") || engine.IsNamed(call.Call.Value.Type(), "db", "ReadOnly")) {
							if sl, isSl := t.Type().Underlying().(*types.Slice); isSl && engine.IsNamed(sl.Elem(), "db", "MessageFlagSet") {
								any = true
								return false
							}
						}
						bad = "a result of " + t.Tuple.String()
						return false
					case *ssa.Call:
						bad = "the result of " + t.Call.Value.String() + " (" + P.Pos(t.Pos()) + ")"
						return false
					case *ssa.Parameter:
						bad = "parameter " + t.Name()
						return false
					}
					return true
				})
				R.Check(bad == "" && any, "R03.11", c.name(f)+"|"+engine.MethodName(cc.Method)+" picks from the rows read", P.Pos(cs.Pos()), "the ids are picked out of the unfiltered result of tx.GetMessagesFlags", "the ids written to are picked out of something other than the rows tx.GetMessagesFlags returned for the request ("+bad+"): messages of the set that a pre-filter dropped keep their flags in the index although the command changes them")
			}
		}
	}
	R.Min("R03.11", "per-flag writes whose ids are picked out of message-flag rows", n, 2)
}

var flagValueCmpRe = regexp.MustCompile("(?i)`?value`?\\s*(=|!=|<>|IS)\\s*\\?(\\s*COLLATE\\s+NOCASE)?")

// c03flagValueComparedWithoutCase (R03.12): the index compares a flag given by a command without regard to letter case.
func c03flagValueComparedWithoutCase(c *Ctx) {
	R := c.R
	R.Explain("R03.12", "flags are case-insensitive in the index too: the flag table keeps the spelling a flag was first stored with, so every run-time statement that compares the column message_flags.value with one bound parameter (`value` = ?) must do so with COLLATE NOCASE.  STORE -FLAGS (FOO) selects the messages whose flag set contains foo (case-insensitively, R03.4) and then deletes the row whose value equals the spelling of the request; compared byte-wise the row `Foo` stays, the session that issued the command is told the flag is gone, and every other session and the next SELECT still see it.")
	res := c.sqlAnalysis()
	n := 0
	for _, st := range res.stmts {
		if st.fn == nil || st.mig || !strings.Contains(st.text, "message_flags") {
			continue
		}
		for _, m := range flagValueCmpRe.FindAllStringSubmatch(st.text, -1) {
			n++
			R.Check(m[2] != "", "R03.12", c.name(topFn(st.fn))+"|flag value compared with COLLATE NOCASE", st.pos, "value = ? COLLATE NOCASE", "the statement compares the stored spelling of a flag byte-wise with the spelling of the request ("+st.text+"): a flag written in another letter case is not matched, so the index keeps a flag the command removed")
		}
	}
	R.Min("R03.12", "comparisons of message_flags.value with a bound parameter", n, 1)
}
