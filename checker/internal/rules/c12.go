package rules

import (
	"go/constant"
	"go/token"
	"go/types"

	"golang.org/x/tools/go/ssa"

	"verifchecker/internal/engine"
)

func init() { register("C12", c12) }

func c12(c *Ctx) {
	c.sectionWindow("R12.7")
	c.recursionDepthPaired("R12.6")
	c.eofTermination("R12.3", "rfc5322")
	c.listWriterDiscipline()
	c.noNegativeIndex("R12.8")
	c.boundedRecursion("R12.1", []string{"rfc5322", "rfc822", "imap", "rfcparser"}, []string{"rfc5322", "rfc822", "imap"}, 5)
}

// noNegativeIndex (R12.8): an index computed by subtraction is proved non-negative.
func (c *Ctx) noNegativeIndex(rule string) {
	P, R := c.P, c.R
	R.Explain(rule, "no index below zero: in the packages that parse message and command bytes (rfc822, rfc5322, rfcparser, imap, imap/command) every element access x[i-k] (slice, array or string; k a positive constant) is proved to have i-k >= 0 from the branch conditions that dominate it (linear-inequality entailment; `i >= 1 && x[i-1]` counts through the short-circuit edge).  An unguarded x[i-1] panics for the input on which i is 0 - an empty line, a terminator at the very start - and a panic while a message is parsed takes the whole process down.  Sites whose guard lives in an invariant the prover cannot see are tabled with the reason.")
	tabled := map[string]string{
		"rfc822.(*ByteScanner).getPreviousLineBreakIndex": "offset = s.progress + index with index >= 0 returned by bytes.Index and s.progress >= 0 (only ever advanced); the s.progress == offset case returns first, so offset >= s.progress+1 >= 1; the second access is guarded by offset-s.progress >= 2",
	}
	R.Table(rule+" tabled sites (guard is an invariant of the caller)", "rfc822.(*ByteScanner).getPreviousLineBreakIndex: "+tabled["rfc822.(*ByteScanner).getPreviousLineBreakIndex"])
	n, nt := 0, 0
	for _, f := range c.funcsInPkg("rfc822", "rfc5322", "rfcparser", "imap", "imap/command") {
		for _, b := range f.Blocks {
			for _, in := range b.Instrs {
				var idx ssa.Value
				switch t := in.(type) {
				case *ssa.IndexAddr:
					idx = t.Index
				case *ssa.Index:
					idx = t.Index
				case *ssa.Lookup:
					if _, isMap := t.X.Type().Underlying().(*types.Map); isMap {
						continue
					}
					idx = t.Index
				default:
					continue
				}
				for {
					if cv, ok := idx.(*ssa.Convert); ok {
						idx = cv.X
						continue
					}
					break
				}
				bo, ok := idx.(*ssa.BinOp)
				if !ok || bo.Op != token.SUB {
					continue
				}
				k, isK := bo.Y.(*ssa.Const)
				if !isK || k.Value == nil || k.Value.Kind() != constant.Int || k.Int64() <= 0 {
					continue
				}
				if _, isTabled := tabled[c.name(f)]; isTabled {
					nt++
					continue
				}
				n++
				ok2 := engine.EntailedAt(f, b, idx, 0, false, P.IsOwn)
				R.Check(ok2, rule, c.name(f)+"|index "+valExpr(bo.X, 0)+"-"+k.Value.ExactString(), P.Pos(in.Pos()), "index proved >= 0", "the element access at index "+valExpr(bo.X, 0)+"-"+k.Value.ExactString()+" is not dominated by a condition that makes the index non-negative: the input on which "+valExpr(bo.X, 0)+" is smaller than "+k.Value.ExactString()+" panics (index out of range) while parsing")
			}
		}
	}
	R.Stats[rule+" tabled subtractive index sites"] = nt
	R.Min(rule, "subtractive index expressions judged", n, 2)
}
