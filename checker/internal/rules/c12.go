package rules

func init() { register("C12", c12) }

func c12(c *Ctx) {
	c.sectionWindow("R12.7")
	c.recursionDepthPaired("R12.6")
	c.eofTermination("R12.3", "rfc5322")
	c.listWriterDiscipline()
	c.boundedRecursion("R12.1", []string{"rfc5322", "rfc822", "imap", "rfcparser"}, []string{"rfc5322", "rfc822", "imap"}, 5)
}
