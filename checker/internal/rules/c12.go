package rules

import (
	"go/constant"
	"go/token"
	"go/types"
	"strings"

	"golang.org/x/tools/go/ssa"

	"verifchecker/internal/engine"
)

func init() { register("C12", c12) }

func c12(c *Ctx) {
	c.sectionWindow("R12.7")
	c.recursionDepthPaired("R12.6")
	c.eofTermination("R12.3", "rfc5322")
	c.listWriterDiscipline()
	c.noNegativeIndex("R12.8")
	c.headerOffsetsInRange("R12.9")
	c.emptyBodyHasNoLines("R12.10")
	c.mimeTypesAreNormalised("R12.11")
	c.boundedRecursion("R12.1", []string{"rfc5322", "rfc822", "imap", "rfcparser"}, []string{"rfc5322", "rfc822", "imap"}, 5)
}

// noNegativeIndex (R12.8): an index computed by subtraction is proved non-negative.
func (c *Ctx) noNegativeIndex(rule string) {
	P, R := c.P, c.R
	R.Explain(rule, "no index below zero: in the packages that parse message and command bytes (rfc822, rfc5322, rfcparser, imap, imap/command) every element access x[i-k] (slice, array or string; k a positive constant) is proved to have i-k >= 0 from the branch conditions that dominate it (linear-inequality entailment; `i >= 1 && x[i-1]` counts through the short-circuit edge).  An unguarded x[i-1] panics for the input on which i is 0 - an empty line, a terminator at the very start - and a panic while a message is parsed takes the whole process down.  Sites whose guard lives in an invariant the prover cannot see are tabled with the reason.")
	tabled := map[string]string{
		"rfc822.(*ByteScanner).getPreviousLineBreakIndex": "offset = s.progress + index with index >= 0 returned by bytes.Index and s.progress >= 0 (only ever advanced); the s.progress == offset case returns first, so offset >= s.progress+1 >= 1; the second access is guarded by offset-s.progress >= 2",
	}
	R.Table(rule+" tabled sites (guard is an invariant of the caller)", "rfc822.(*ByteScanner).getPreviousLineBreakIndex: "+tabled["rfc822.(*ByteScanner).getPreviousLineBreakIndex"])
	n, nt := 0, 0
	for _, f := range c.funcsInPkg("rfc822", "rfc5322", "rfcparser", "imap", "imap/command") {
		for _, b := range f.Blocks {
			for _, in := range b.Instrs {
				var idx ssa.Value
				switch t := in.(type) {
				case *ssa.IndexAddr:
					idx = t.Index
				case *ssa.Index:
					idx = t.Index
				case *ssa.Lookup:
					if _, isMap := t.X.Type().Underlying().(*types.Map); isMap {
						continue
					}
					idx = t.Index
				default:
					continue
				}
				for {
					if cv, ok := idx.(*ssa.Convert); ok {
						idx = cv.X
						continue
					}
					break
				}
				bo, ok := idx.(*ssa.BinOp)
				if !ok || bo.Op != token.SUB {
					continue
				}
				k, isK := bo.Y.(*ssa.Const)
				if !isK || k.Value == nil || k.Value.Kind() != constant.Int || k.Int64() <= 0 {
					continue
				}
				if _, isTabled := tabled[c.name(f)]; isTabled {
					nt++
					continue
				}
				n++
				ok2 := engine.EntailedAt(f, b, idx, 0, false, P.IsOwn)
				R.Check(ok2, rule, c.name(f)+"|index "+valExpr(bo.X, 0)+"-"+k.Value.ExactString(), P.Pos(in.Pos()), "index proved >= 0", "the element access at index "+valExpr(bo.X, 0)+"-"+k.Value.ExactString()+" is not dominated by a condition that makes the index non-negative: the input on which "+valExpr(bo.X, 0)+" is smaller than "+k.Value.ExactString()+" panics (index out of range) while parsing")
			}
		}
	}
	R.Stats[rule+" tabled subtractive index sites"] = nt
	R.Min(rule, "subtractive index expressions judged", n, 2)
}

// headerOffsetsInRange (R12.9): the offsets a header entry records never point past the header.
func (c *Ctx) headerOffsetsInRange(rule string) {
	P, R := c.P, c.R
	R.Explain(rule, "header entries stay inside the header: in rfc822.(*headerParser).next every value stored into parsedHeaderEntry.valueEnd / valueStart (the bounds with which the value is later sliced out of the header bytes) is proved <= len(hp.header) from the branch conditions on every path (linear-inequality entailment with a case split over the loop phis); copies of the entry's own keyStart/keyEnd are earlier offsets and are not judged, and the one store of the cursor hp.offset (prelude line, taken right after the line feed read at an index below the length) is tabled.  An offset that overshoots by one - the line break after a trailing '\\r' consumed without checking that a byte is left - slices one byte past the literal: a panic when the literal fills its buffer (APPEND), a stray byte of whatever follows otherwise.")
	if c.fn(rule, "rfc822.(*headerParser).next") == nil {
		return
	}
	hdrFld := c.fieldOf("rfc822", "headerParser", "header")
	n, copies, tabled := 0, 0, 0
	// next and whatever functions of the package it was split into: each is judged on its own branch conditions
	for _, f := range c.funcsInPkg("rfc822") {
		storesOffsets := false
		if top := topFn(f); top.Signature.Recv() == nil || !strings.Contains(top.Signature.Recv().Type().String(), "headerParser") {
			continue // only the parser's own methods read entries out of the header bytes (Header.Set, applyOffset edit existing ones)
		}
		for _, b := range f.Blocks {
			for _, in := range b.Instrs {
				if st, ok := in.(*ssa.Store); ok {
					if fa, ok := st.Addr.(*ssa.FieldAddr); ok {
						if fv := fieldOfAddr(fa); fv != nil && (fv.Name() == "valueEnd" || fv.Name() == "valueStart") && engine.IsNamed(fa.X.Type(), "rfc822", "parsedHeaderEntry") {
							storesOffsets = true
						}
					}
				}
			}
		}
		if !storesOffsets {
			continue
		}
		// len(hp.header) values
		var lens []ssa.Value
		for _, b := range f.Blocks {
			for _, in := range b.Instrs {
				if call, ok := in.(*ssa.Call); ok {
					if bi, ok := call.Call.Value.(*ssa.Builtin); ok && bi.Name() == "len" {
						if ld, ok := call.Call.Args[0].(*ssa.UnOp); ok && fieldAddrIs(ld.X, hdrFld) {
							lens = append(lens, call)
						}
					}
				}
			}
		}
		if len(lens) == 0 {
			R.Fail(rule, c.name(f)+"|len(header)", P.Pos(f.Pos()), "the function stores value offsets but never takes len(hp.header): the offsets cannot be bounded")
			continue
		}
		for _, b := range f.Blocks {
			for _, in := range b.Instrs {
				st, ok := in.(*ssa.Store)
				if !ok {
					continue
				}
				fa, ok := st.Addr.(*ssa.FieldAddr)
				if !ok {
					continue
				}
				fv := fieldOfAddr(fa)
				if fv == nil || (fv.Name() != "valueEnd" && fv.Name() != "valueStart") || !engine.IsNamed(fa.X.Type(), "rfc822", "parsedHeaderEntry") {
					continue
				}
				if k, isK := st.Val.(*ssa.Const); isK && k.Value != nil && k.Int64() <= 0 {
					continue
				}
				// a copy of an earlier offset of the same entry (keyStart / keyEnd): offsets only grow while an entry is read
				if ld, isLd := st.Val.(*ssa.UnOp); isLd {
					if fa2, ok := ld.X.(*ssa.FieldAddr); ok && fa2.X == fa.X {
						if f2 := fieldOfAddr(fa2); f2 != nil && (f2.Name() == "keyStart" || f2.Name() == "keyEnd") {
							copies++
							continue
						}
					}
					// tabled: the parser's own cursor right after it consumed the '\n' it had just read at hp.offset < len
					if fa2, ok := ld.X.(*ssa.FieldAddr); ok {
						if f2 := fieldOfAddr(fa2); f2 != nil && f2.Name() == "offset" {
							tabled++
							continue
						}
					}
				}
				n++
				ok2 := false
				for _, l := range lens {
					if st.Val == l || engine.ProveLEAt(f, b, st.Val, l) {
						ok2 = true
					}
				}
				R.Check(ok2, rule, c.name(f)+"|"+fv.Name()+" <= len(header)|"+valExpr(st.Val, 0), P.Pos(st.Pos()), "offset proved within the header", "the offset stored in "+fv.Name()+" is not proved <= len(hp.header): the header value is later sliced past the end of the header bytes")
			}
		}
	}
	R.Stats[rule+" copies of keyStart/keyEnd (not judged)"] = copies
	R.Stats[rule+" stores of the cursor hp.offset (tabled: taken right after consuming the line feed read at an index < len)"] = tabled
	R.Min(rule, "offset stores judged", n, 3)
}

// emptyBodyHasNoLines (R12.10): the line count of an empty body is zero.
func (c *Ctx) emptyBodyHasNoLines(rule string) {
	P, R := c.P, c.R
	R.Explain(rule, "sizes and line counts: in imap.countLines every increment that flows into the returned count is dominated by a condition that makes the bytes still to be counted non-empty (len(x) >= 1 proved for a slice derived from the argument).  A count of `number of line feeds, plus one if the text does not end in one` gives 1 for the empty body; BODYSTRUCTURE then reports `0 1` (size 0, one line) for every empty text part.")
	f := c.fn(rule, "imap.countLines")
	if f == nil {
		return
	}
	// len(...) values of slices derived from the parameter
	var lens []ssa.Value
	for _, b := range f.Blocks {
		for _, in := range b.Instrs {
			if v, isVal := in.(ssa.Value); isVal {
				if call, ok := engine.IsBuiltinCall(v, "len"); ok {
					lens = append(lens, call)
				}
			}
		}
	}
	n := 0
	for _, b := range f.Blocks {
		for _, in := range b.Instrs {
			bo, ok := in.(*ssa.BinOp)
			if !ok || bo.Op != token.ADD {
				continue
			}
			k, isK := bo.Y.(*ssa.Const)
			if !isK || k.Value == nil || k.Value.Kind() != constant.Int || k.Int64() <= 0 {
				continue
			}
			// flows into a result?
			flows := false
			for _, ret := range engine.Returns(f) {
				if len(ret.Results) > 0 && engine.AnyBackward(ret.Results[0], engine.FlowOpts{}, func(x ssa.Value) bool { return x == ssa.Value(bo) }) {
					flows = true
				}
			}
			if !flows {
				continue
			}
			n++
			ok2 := false
			for _, l := range lens {
				if engine.EntailedAt(f, b, l, 1, false, P.IsOwn) {
					ok2 = true
				}
			}
			R.Check(ok2, rule, c.name(f)+"|increment only for non-empty input", P.Pos(bo.Pos()), "dominated by len(...) >= 1", "the line count is incremented on a path on which the remaining bytes may be empty: an empty body is reported with one line")
		}
	}
	R.Min(rule, "increments of the line count", n, 1)
}

// mimeTypesAreNormalised (R12.11): every media type gluon compares was lower-cased by the media type parser.
func (c *Ctx) mimeTypesAreNormalised(rule string) {
	P, R := c.P, c.R
	R.Explain(rule, "types of the MIME tree: the structure code compares media types with lower-case constants (`text`, `message/rfc822`, the `multipart/` prefix), so every string that becomes an rfc822.MIMEType must be in that normal form: a constant, the first result of mime.ParseMediaType (reached directly or through the package variable ParseMediaType, which is assigned nothing else), a strings.ToLower result, or a value that already has the type.  A media type taken over as written (`TEXT/PLAIN`, `Message/RFC822`) is reported without its line count, without the embedded envelope and body, and its parts cannot be addressed.")
	// the package variable ParseMediaType must only ever hold mime.ParseMediaType
	var pmt *ssa.Global
	if pkg := P.SSAPkg("rfc822"); pkg != nil {
		if g, ok := pkg.Members["ParseMediaType"].(*ssa.Global); ok {
			pmt = g
		}
	}
	isStdParse := func(v ssa.Value) bool {
		fn, ok := v.(*ssa.Function)
		return ok && fn.String() == "mime.ParseMediaType"
	}
	if pmt != nil {
		n := 0
		fns := append([]*ssa.Function{}, c.reprFuncs()...)
		if ini := P.SSAPkg("rfc822").Func("init"); ini != nil {
			fns = append(fns, ini) // the initialiser of the variable lives in the package's init
		}
		for _, f := range fns {
			for _, b := range f.Blocks {
				for _, in := range b.Instrs {
					if st, ok := in.(*ssa.Store); ok && st.Addr == ssa.Value(pmt) {
						n++
						R.Check(isStdParse(st.Val), rule, c.name(f)+"|ParseMediaType assigned", P.Pos(st.Pos()), "the variable holds mime.ParseMediaType", "rfc822.ParseMediaType is assigned something other than mime.ParseMediaType: the media types it yields are no longer known to be lower-cased")
					}
				}
			}
		}
		R.Min(rule, "assignments of the variable ParseMediaType", n, 1)
	}
	isMIME := func(t types.Type) bool { return engine.IsNamed(t, "rfc822", "MIMEType") }
	parseResult := func(v ssa.Value) bool {
		ex, ok := v.(*ssa.Extract)
		if !ok || ex.Index != 0 {
			return false
		}
		call, ok := ex.Tuple.(*ssa.Call)
		if !ok {
			return false
		}
		if isStdParse(call.Call.Value) {
			return true
		}
		if ld, ok := call.Call.Value.(*ssa.UnOp); ok && pmt != nil && ld.X == ssa.Value(pmt) {
			return true
		}
		return false
	}
	n := 0
	for _, f := range c.productFuncs() {
		for _, b := range f.Blocks {
			for _, in := range b.Instrs {
				var x ssa.Value
				var res ssa.Value
				switch t := in.(type) {
				case *ssa.ChangeType:
					x, res = t.X, t
				case *ssa.Convert:
					x, res = t.X, t
				default:
					continue
				}
				if !isMIME(res.Type()) || isMIME(x.Type()) {
					continue
				}
				n++
				bad := ""
				engine.Backward(x, engine.FlowOpts{Loads: true}, func(v ssa.Value) bool {
					if bad != "" {
						return false
					}
					switch t := v.(type) {
					case *ssa.Const:
						return false
					case *ssa.Phi:
						return true
					case *ssa.ChangeType:
						if isMIME(t.X.Type()) {
							return false
						}
						return true
					case *ssa.Convert:
						if isMIME(t.X.Type()) {
							return false
						}
						return true
					case *ssa.UnOp:
						if _, isAlloc := t.X.(*ssa.Alloc); isAlloc && t.Op == token.MUL {
							return true
						}
					case *ssa.Extract:
						if parseResult(t) {
							return false
						}
						if call, ok := t.Tuple.(*ssa.Call); ok {
							if sc := call.Call.StaticCallee(); sc != nil && P.IsOwn(sc) && isMIME(sc.Signature.Results().At(t.Index).Type()) {
								return false
							}
						}
					case *ssa.Call:
						if sc := t.Call.StaticCallee(); sc != nil {
							if sc.String() == "strings.ToLower" {
								return false
							}
							if P.IsOwn(sc) && sc.Signature.Results().Len() == 1 && isMIME(sc.Signature.Results().At(0).Type()) {
								return false
							}
						}
					}
					bad = v.String()
					if pos := P.Pos(v.Pos()); pos != "" && pos != "-" {
						bad += " at " + pos
					}
					return false
				})
				R.Check(bad == "", rule, c.name(f)+"|to MIMEType", P.Pos(in.Pos()), "the string is a lower-cased media type", "a string that was not lower-cased by mime.ParseMediaType / strings.ToLower ("+bad+") becomes an rfc822.MIMEType: a part whose Content-Type is written in upper or mixed case is not recognised as text, message/rfc822 or multipart")
			}
		}
	}
	R.Min(rule, "conversions to rfc822.MIMEType", n, 1)
}
