package rules

import (
	"go/token"
	"go/types"
	"strings"

	"golang.org/x/tools/go/ssa"

	"verifchecker/internal/engine"
)

func init() { register("C18", c18) }

// nilSafeMethods: methods that start by testing their receiver against nil.
func (c *Ctx) nilSafeMethods(pkgRel, typ string) map[*ssa.Function]bool {
	out := map[*ssa.Function]bool{}
	for _, m := range c.methodsOf(pkgRel, typ) {
		if len(m.Blocks) == 0 || len(m.Params) == 0 {
			continue
		}
		iff := engine.IfOf(m.Blocks[0])
		if iff == nil {
			continue
		}
		if bin, ok := iff.Cond.(*ssa.BinOp); ok && (bin.X == ssa.Value(m.Params[0]) && engine.IsNilConst(bin.Y)) {
			out[m] = true
		}
	}
	return out
}

// stateNonNilAt: instruction `in` of function f is dominated by the non-nil edge of a
// test of Session.state against nil inside f.
func stateNonNilAt(f *ssa.Function, in ssa.Instruction, fld *types.Var) bool {
	// conditions implied at the instruction, through &&-phis and boolean predicate helpers
	for _, fact := range engine.FactsDominating(f, in.Block(), func(g *ssa.Function) bool {
		return strings.HasPrefix(engine.PkgPathOf(g), "github.com/ProtonMail/gluon")
	}) {
		bin, ok := fact.Cond.(*ssa.BinOp)
		if !ok || (bin.Op != token.EQL && bin.Op != token.NEQ) {
			continue
		}
		var other ssa.Value
		if engine.IsNilConst(bin.Y) {
			other = bin.X
		} else if engine.IsNilConst(bin.X) {
			other = bin.Y
		} else {
			continue
		}
		if ld, ok := other.(*ssa.UnOp); ok && fieldAddrIs(ld.X, fld) {
			if (bin.Op == token.NEQ) == fact.Truth {
				return true
			}
		}
	}
	for _, b := range f.Blocks {
		iff := engine.IfOf(b)
		if iff == nil {
			continue
		}
		bin, ok := iff.Cond.(*ssa.BinOp)
		if !ok {
			continue
		}
		var other ssa.Value
		if engine.IsNilConst(bin.Y) {
			other = bin.X
		} else if engine.IsNilConst(bin.X) {
			other = bin.Y
		} else {
			continue
		}
		// `if err := s.requireX(); err != nil { return err }` where requireX returns nil only with s.state != nil
		if call := errorCallOf(other); call != nil && depthGuard < 2 {
			if g := call.Call.StaticCallee(); g != nil && len(g.Blocks) > 0 && len(call.Call.Args) > 0 && len(f.Params) > 0 && sameRecv(call.Call.Args[0], f) {
				all, any := true, false
				depthGuard++
				for _, r := range engine.Returns(g) {
					if lr := engine.LastResult(r); lr != nil && engine.IsNilConst(lr) {
						any = true
						if !stateNonNilAt(g, r, fld) {
							all = false
						}
					}
				}
				depthGuard--
				nilIx := 1
				if bin.Op.String() == "==" {
					nilIx = 0
				}
				if any && all && engine.EdgeDominates(b, nilIx, in.Block()) {
					return true
				}
			}
			continue
		}
		ld, ok := other.(*ssa.UnOp)
		if !ok || !fieldAddrIs(ld.X, fld) {
			continue
		}
		nonNilIx := 1
		if bin.Op.String() == "!=" {
			nonNilIx = 0
		}
		if engine.EdgeDominates(b, nonNilIx, in.Block()) {
			return true
		}
	}
	return false
}

func c18(c *Ctx) {
	defer c18everyAttemptCounted(c)
	defer c18selectCommitsLast(c)
	defer c18dsnPathEscaped(c)
	defer c18passwordComparedExactly(c)
	defer c18counterWriters(c)
	P, R := c.P, c.R
	R.Explain("R18.1", "guarded-by-login (T-DOM, inter-procedural): in internal/session every method call on Session.state (other than the nil-safe getters, derived: methods that begin with a receiver nil test) is dominated by the non-nil edge of a test of s.state in the same function or, failing that, at every static call site of the function up to 4 frames; closures inherit the guard that dominates their creation.")
	R.Explain("R18.2", "T-WRITERS: Session.state is assigned only in handleLogin, from the result of Backend.GetState on its nil-error edge; State.user only in NewState; StateUserInterfaceImpl.u only in its constructor (a state can only reach the database/store/connector of the user it was created for).")
	R.Explain("R18.3", "Backend.getUserID returns a user id only on the true edge of connector.Authorize; loginWG.Wait() dominates the authorisation loop; the branch taken at exactly maxLoginAttempts failures arms loginWG.Add(1) and time.AfterFunc(loginJailTime, cb) whose callback releases the WaitGroup and resets the failure counter (otherwise the count==max test never fires again).")
	R.Explain("R18.5", "CLOSE and UNSELECT leave the selected state: every success path of handleClose / handleUnselect passes Mailbox.Close (which drops the snapshot), so later selected-state commands are refused.")

	stateFld := c.fieldOf("internal/session", "Session", "state")
	nilSafe := c.nilSafeMethods("internal/state", "State")
	var nsRows []string
	for m := range nilSafe {
		nsRows = append(nsRows, c.name(m))
	}
	R.Table("nil-safe State methods (derived)", nsRows...)

	// ---- R18.1 -----------------------------------------------------------------------
	uses := 0
	var guardedFn func(f *ssa.Function, at ssa.Instruction, depth int, seen map[*ssa.Function]bool) (bool, string)
	guardedFn = func(f *ssa.Function, at ssa.Instruction, depth int, seen map[*ssa.Function]bool) (bool, string) {
		if stateNonNilAt(f, at, stateFld) {
			return true, ""
		}
		if depth > 4 {
			return false, "no guard within 4 frames of " + c.name(f)
		}
		if seen[f] {
			return true, ""
		}
		seen[f] = true
		// closure: guard must dominate its creation in the parent
		if f.Parent() != nil {
			par := f.Parent()
			for _, b := range par.Blocks {
				for _, in := range b.Instrs {
					if mc, ok := in.(*ssa.MakeClosure); ok && mc.Fn == f {
						return guardedFn(par, in, depth, seen)
					}
				}
			}
			return false, "closure creation not found"
		}
		callers := P.CallersOf(f)
		n := 0
		for _, cs := range callers {
			if engine.RelPkg(P.OwnPkgPath(cs.Fn)) != "internal/session" {
				continue
			}
			if cs.Common().StaticCallee() != f {
				continue
			}
			n++
			if ok, why := guardedFn(cs.Fn, cs.Instr, depth+1, seen); !ok {
				return false, why
			}
		}
		if n == 0 {
			return false, c.name(f) + " uses s.state unguarded and has no guarded static caller"
		}
		return true, ""
	}
	for _, f := range c.funcsInPkg("internal/session") {
		for _, cs := range engine.Calls(f) {
			sc := cs.Common().StaticCallee()
			if sc == nil || engine.RecvNamed(sc) == nil || engine.RecvNamed(sc).Obj().Name() != "State" || len(cs.Common().Args) == 0 {
				continue
			}
			ld, ok := cs.Common().Args[0].(*ssa.UnOp)
			if !ok || !fieldAddrIs(ld.X, stateFld) {
				continue
			}
			if nilSafe[sc] {
				continue
			}
			uses++
			if c.afterNilSafeReceive(f, cs.Instr, stateFld, nilSafe) {
				R.Pass("R18.1", c.name(f)+"|s.state."+engine.ShortName(sc), P.Pos(cs.Pos()), "reached only by receiving from a nil-safe getter's channel (a nil channel when s.state is nil never delivers)")
				continue
			}
			ok2, why := guardedFn(f, cs.Instr, 0, map[*ssa.Function]bool{})
			R.Check(ok2, "R18.1", c.name(f)+"|s.state."+engine.ShortName(sc), P.Pos(cs.Pos()), "use of the authenticated state is guarded by s.state != nil",
				"s.state."+engine.ShortName(sc)+" is reachable without a dominating s.state != nil test ("+why+"): before LOGIN this dereferences a nil state (crash) or acts without authentication")
		}
	}
	R.Min("R18.1", "method calls on Session.state", uses, 15)

	// ---- R18.2 -----------------------------------------------------------------------
	w := 0
	for _, f := range c.productFuncs() {
		for _, b := range f.Blocks {
			for _, in := range b.Instrs {
				st, ok := in.(*ssa.Store)
				if !ok {
					continue
				}
				fa, ok := st.Addr.(*ssa.FieldAddr)
				if !ok {
					continue
				}
				fv := fieldOfAddr(fa)
				switch {
				case fv == stateFld && fv != nil:
					w++
					okW := c.stateFromSuccessfulGetState(f, st.Val, st.Block(), 0)
					fromGetState, onNil := okW, okW
					R.Check(okW && fromGetState && onNil, "R18.2", c.name(f)+"|store Session.state", P.Pos(st.Pos()), "Session.state is set from Backend.GetState's result on its nil-error edge in handleLogin",
						"Session.state is assigned outside handleLogin / not from a successful Backend.GetState: a session could become authenticated without valid credentials")
				case fv != nil && fv.Name() == "user" && engine.IsNamed(fa.X.Type(), "internal/state", "State"):
					R.Check(c.isAnchor(topFn(f), "internal/state.NewState"), "R18.2", c.name(f)+"|store State.user", P.Pos(st.Pos()), "State.user set by NewState", "State.user is re-assigned after construction: a state could reach another user's data")
				case fv != nil && fv.Name() == "u" && engine.IsNamed(fa.X.Type(), "internal/backend", "StateUserInterfaceImpl"):
					R.Check(c.isAnchor(topFn(f), "internal/backend.newStateUserInterfaceImpl"), "R18.2", c.name(f)+"|store StateUserInterfaceImpl.u", P.Pos(st.Pos()), "user binding set by the constructor", "StateUserInterfaceImpl.u is re-assigned after construction")
				}
			}
		}
	}
	R.Min("R18.2", "stores to Session.state", w, 1)

	c18jail(c)

	// ---- R18.5 -----------------------------------------------------------------------
	for _, h := range []string{"handleClose", "handleUnselect"} {
		f := c.fn("R18.5", "internal/session.(*Session)."+h)
		if f == nil {
			continue
		}
		cut := map[ssa.Instruction]bool{}
		for _, cs := range engine.Calls(f) {
			if sc := cs.Common().StaticCallee(); sc != nil && engine.ShortName(sc) == "Close" && engine.RecvNamed(sc) != nil && engine.RecvNamed(sc).Obj().Name() == "Mailbox" {
				cut[cs.Instr] = true
			}
		}
		bad := false
		for _, ret := range engine.Returns(f) {
			if len(ret.Results) == 2 && engine.IsNilConst(engine.ResultOf(ret, 1)) && !engine.IsNilConst(engine.ResultOf(ret, 0)) {
				if engine.ReachesAvoiding(f, ret, cut, nil) {
					bad = true
				}
			}
		}
		R.Check(len(cut) > 0 && !bad, "R18.5", c.name(f)+"|leaves-selected-state", P.Pos(f.Pos()), "every success path closes the mailbox (snapshot dropped)",
			h+" can answer OK without Mailbox.Close: the session stays selected, so FETCH/COPY/… are still accepted after CLOSE/UNSELECT")
	}
}

func c18jail(c *Ctx) {
	P, R := c.P, c.R
	f := c.fn("R18.3", "internal/backend.(*Backend).getUserID")
	if f == nil {
		return
	}
	// getUserID and the Backend methods it calls directly are looked at as one unit: an instruction inside
	// a helper is represented in f by the helper's call site.
	type located struct {
		in     ssa.Instruction // the instruction itself
		site   ssa.Instruction // where it happens in f (itself, or the call of the helper that contains it)
		fn     *ssa.Function
		uncond bool // for helper instructions: executed on every path through the helper
	}
	var all []located
	addFrom := func(g *ssa.Function, site ssa.Instruction) {
		for _, cs := range engine.Calls(g) {
			if cs.Instr.Parent() != g {
				continue
			}
			s := site
			un := true
			if s == nil {
				s = cs.Instr
			} else {
				for _, r := range engine.Returns(g) {
					if !cs.Instr.Block().Dominates(r.Block()) {
						un = false
					}
				}
			}
			all = append(all, located{in: cs.Instr, site: s, fn: g, uncond: un})
		}
	}
	addFrom(f, nil)
	for _, cs := range engine.Calls(f) {
		if g := cs.Common().StaticCallee(); g != nil && cs.Instr.Parent() == f && len(g.Blocks) > 0 {
			if rn := engine.RecvNamed(g); rn != nil && rn.Obj().Name() == "Backend" {
				addFrom(g, cs.Instr)
			}
		}
	}
	var auth, wait, afterFunc, wgAdd *located
	cntFld := c.fieldOf("internal/backend", "Backend", "loginErrorCount")
	for i := range all {
		l := &all[i]
		cc := l.in.(ssa.CallInstruction).Common()
		if cc.IsInvoke() && engine.MethodName(cc.Method) == "Authorize" {
			auth = l
		}
		if sc := cc.StaticCallee(); sc != nil {
			switch {
			case engine.ShortName(sc) == "Wait" && engine.RecvNamed(sc) != nil && engine.RecvNamed(sc).Obj().Name() == "WaitGroup":
				wait = l
			case engine.ShortName(sc) == "Add" && engine.RecvNamed(sc) != nil && engine.RecvNamed(sc).Obj().Name() == "WaitGroup":
				wgAdd = l
			case engine.ShortName(sc) == "AfterFunc":
				afterFunc = l
			}
		}
	}
	R.Check(auth != nil && wait != nil && wait.fn == f && engine.InstrDominates(wait.site, auth.site) && wait.site != auth.site, "R18.3", c.name(f)+"|wait-before-authorize", P.Pos(f.Pos()), "loginWG.Wait() precedes every credential check", "credentials are checked without first waiting for the login jail to end")
	// user id only on the true edge of Authorize
	if auth != nil {
		call := auth.in.(*ssa.Call)
		authTrueDominates := func(blk *ssa.BasicBlock) bool {
			for _, r := range *call.Referrers() {
				if iff, ok := r.(*ssa.If); ok && engine.EdgeDominates(iff.Block(), 0, blk) {
					return true
				}
			}
			return false
		}
		okRet := true
		if auth.fn == f {
			for _, ret := range engine.Returns(f) {
				if len(ret.Results) != 2 {
					continue
				}
				if engine.IsNilConst(engine.ResultOf(ret, 1)) {
					if !authTrueDominates(ret.Block()) {
						okRet = false
					}
				} else if s, isStr := engine.ConstString(engine.ResultOf(ret, 0)); !isStr || s != "" {
					okRet = false
				}
			}
		} else {
			// helper g returns (id, ok): ok may be true only under Authorize's true edge; f returns an id only under ok
			g := auth.fn
			for _, r := range engine.Returns(g) {
				if len(r.Results) != 2 {
					okRet = false
					continue
				}
				if bv, isB := engine.ConstBool(engine.ResultOf(r, 1)); isB && !bv {
					continue
				}
				if !authTrueDominates(r.Block()) {
					okRet = false
				}
			}
			hcall, _ := auth.site.(*ssa.Call)
			var okIf []*ssa.If
			if hcall != nil {
				for _, r := range *hcall.Referrers() {
					if ex, ok := r.(*ssa.Extract); ok && ex.Index == 1 {
						for _, rr := range *ex.Referrers() {
							if iff, ok := rr.(*ssa.If); ok {
								okIf = append(okIf, iff)
							}
						}
					}
				}
			}
			for _, ret := range engine.Returns(f) {
				if len(ret.Results) != 2 {
					continue
				}
				if engine.IsNilConst(engine.ResultOf(ret, 1)) {
					dom := false
					for _, iff := range okIf {
						if engine.EdgeDominates(iff.Block(), 0, ret.Block()) {
							dom = true
						}
					}
					if !dom {
						okRet = false
					}
				} else if s, isStr := engine.ConstString(engine.ResultOf(ret, 0)); !isStr || s != "" {
					okRet = false
				}
			}
		}
		R.Check(okRet, "R18.3", c.name(f)+"|id-only-if-authorized", P.Pos(auth.in.Pos()), "a user id is returned only when connector.Authorize accepted the credentials", "getUserID can return a user id (or a nil error) on a path where connector.Authorize did not return true: wrong credentials authenticate")
	}
	// jail branch
	okJail := false
	why := "no branch at count == maxLoginAttempts that arms the jail"
	if afterFunc != nil && wgAdd != nil && ((afterFunc.uncond && wgAdd.uncond) || afterFunc.fn == wgAdd.fn) {
		// branch condition: atomic.AddInt32(&loginErrorCount,1) ==/!= const - in getUserID, or in the Backend helper
		// that both counts the failure and arms the jail
		bf := f
		aSite, wSite := afterFunc.site, wgAdd.site
		if afterFunc.fn == wgAdd.fn && afterFunc.fn != f && !(afterFunc.uncond && wgAdd.uncond) {
			bf = afterFunc.fn
			aSite, wSite = afterFunc.in, wgAdd.in
		}
		for _, b := range bf.Blocks {
			iff := engine.IfOf(b)
			if iff == nil {
				continue
			}
			bin, ok := iff.Cond.(*ssa.BinOp)
			if !ok || (bin.Op != token.EQL && bin.Op != token.NEQ) {
				continue
			}
			var cnt ssa.Value
			if _, isK := bin.Y.(*ssa.Const); isK {
				cnt = bin.X
			} else if _, isK := bin.X.(*ssa.Const); isK {
				cnt = bin.Y
			} else {
				continue
			}
			call, ok := cnt.(*ssa.Call)
			if !ok || call.Call.StaticCallee() == nil || !strings.HasPrefix(engine.ShortName(call.Call.StaticCallee()), "Add") || !fieldAddrIs(call.Call.Args[0], cntFld) {
				continue
			}
			eqEdge := 0
			if bin.Op == token.NEQ {
				eqEdge = 1
			}
			if engine.EdgeDominates(b, eqEdge, aSite.Block()) && engine.EdgeDominates(b, eqEdge, wSite.Block()) {
				okJail = true
			}
		}
		afc := afterFunc.in.(*ssa.Call)
		// duration is loginJailTime
		jt := c.fieldOf("internal/backend", "Backend", "loginJailTime")
		if ld, ok := afc.Call.Args[0].(*ssa.UnOp); !ok || !fieldAddrIs(ld.X, jt) {
			okJail, why = false, "the jail timer does not use Backend.loginJailTime"
		}
		// callback: Done + counter reset
		done, reset := false, false
		switch cb := afc.Call.Args[1].(type) {
		case *ssa.MakeClosure:
			fn := cb.Fn.(*ssa.Function)
			if fn.Synthetic != "" {
				// bound method value b.loginWG.Done
				if strings.Contains(engine.ShortName(fn), "Done") {
					done = true
				}
			}
			for _, cs := range engine.Calls(fn) {
				if sc := cs.Common().StaticCallee(); sc != nil {
					if engine.ShortName(sc) == "Done" {
						done = true
					}
					if strings.HasPrefix(engine.ShortName(sc), "Store") && len(cs.Common().Args) == 2 {
						if k, ok := cs.Common().Args[1].(*ssa.Const); ok && k.Value != nil && k.Value.ExactString() == "0" {
							reset = true
						}
					}
				}
			}
		}
		if !done {
			okJail, why = false, "the jail timer's callback does not release loginWG"
		} else if !reset {
			okJail, why = false, "the jail timer's callback does not reset loginErrorCount: the count == maxLoginAttempts test fires only once, later runs of failures are never jailed"
		}
	}
	R.Check(okJail, "R18.3", c.name(f)+"|jail-armed", P.Pos(f.Pos()), "the maxLoginAttempts-th failure arms loginWG and a loginJailTime timer that releases it and resets the counter", why)
}

// afterNilSafeReceive: the instruction is dominated by the select case that receives from
// the channel returned by a nil-safe getter on s.state (nil state -> nil channel -> the
// case can never be taken).
func (c *Ctx) afterNilSafeReceive(f *ssa.Function, at ssa.Instruction, stateFld *types.Var, nilSafe map[*ssa.Function]bool) bool {
	for _, b := range f.Blocks {
		for _, in := range b.Instrs {
			sel, ok := in.(*ssa.Select)
			if !ok {
				continue
			}
			for i, st := range sel.States {
				call, ok := st.Chan.(*ssa.Call)
				if !ok {
					continue
				}
				sc := call.Call.StaticCallee()
				if sc == nil || !nilSafe[sc] || len(call.Call.Args) == 0 {
					continue
				}
				ld, ok := call.Call.Args[0].(*ssa.UnOp)
				if !ok || !fieldAddrIs(ld.X, stateFld) {
					continue
				}
				// index extract == i
				for _, r := range *sel.Referrers() {
					ex, ok := r.(*ssa.Extract)
					if !ok || ex.Index != 0 {
						continue
					}
					for _, r2 := range *ex.Referrers() {
						bin, ok := r2.(*ssa.BinOp)
						if !ok || bin.Op.String() != "==" {
							continue
						}
						k, ok := bin.Y.(*ssa.Const)
						if !ok || k.Value == nil || k.Value.ExactString() != fmtf("%d", i) {
							continue
						}
						for _, r3 := range *bin.Referrers() {
							if iff, ok := r3.(*ssa.If); ok && engine.EdgeDominates(iff.Block(), 0, at.Block()) {
								return true
							}
						}
					}
				}
			}
		}
	}
	return false
}

var depthGuard int

// errorCallOf: v is the error result of a call (directly or as the last tuple component).
func errorCallOf(v ssa.Value) *ssa.Call {
	if !isErrorType(v.Type()) {
		return nil
	}
	switch t := v.(type) {
	case *ssa.Call:
		return t
	case *ssa.Extract:
		call, _ := t.Tuple.(*ssa.Call)
		return call
	}
	return nil
}

// sameRecv: v is f's receiver (first parameter), possibly through the spill cell.
func sameRecv(v ssa.Value, f *ssa.Function) bool {
	root := f
	for root.Parent() != nil {
		root = root.Parent()
	}
	if len(root.Params) == 0 {
		return false
	}
	return engine.AccessPath(v) == root.Params[0].Name()
}

// c18everyAttemptCounted (R18.6): no LOGIN is answered without the backend having seen it.
func c18everyAttemptCounted(c *Ctx) {
	P, R := c.P, c.R
	R.Explain("R18.6", "every login attempt passes the jail: each return of Session.handleLogin is dominated by the call of Backend.GetState (which waits for the jail, counts the failure and arms the jail), except the refusal on the s.state != nil edge (already authenticated).  A failure answered by the session itself is neither delayed by the jail nor counted.")
	f := c.fn("R18.6", "internal/session.(*Session).handleLogin")
	if f == nil {
		return
	}
	stateFld := c.fieldOf("internal/session", "Session", "state")
	var gs ssa.Instruction
	for _, cs := range engine.Calls(f) {
		if sc := cs.Common().StaticCallee(); sc != nil && engine.ShortName(sc) == "GetState" && engine.RecvNamed(sc) != nil && engine.RecvNamed(sc).Obj().Name() == "Backend" {
			gs = cs.Instr
		}
	}
	if gs == nil {
		R.Fail("R18.6", c.name(f)+"|calls-GetState", P.Pos(f.Pos()), "handleLogin does not call Backend.GetState")
		return
	}
	n := 0
	for _, ret := range engine.Returns(f) {
		n++
		ok := engine.InstrDominates(gs, ret)
		if !ok {
			// the already-authenticated refusal: dominated by the non-nil edge of s.state
			for _, fact := range engine.FactsDominating(f, ret.Block(), P.IsOwn) {
				bin, isBin := fact.Cond.(*ssa.BinOp)
				if !isBin || !(engine.IsNilConst(bin.X) || engine.IsNilConst(bin.Y)) {
					continue
				}
				other := bin.X
				if engine.IsNilConst(bin.X) {
					other = bin.Y
				}
				if ld, isLd := other.(*ssa.UnOp); isLd && fieldAddrIs(ld.X, stateFld) && (bin.Op == token.NEQ) == fact.Truth {
					ok = true
				}
			}
		}
		R.Check(ok, "R18.6", c.name(f)+"|return", P.Pos(ret.Pos()), "the attempt went through Backend.GetState (or the session was already authenticated)", "handleLogin can answer a LOGIN without calling Backend.GetState: that attempt is not delayed by an active login jail and its failure is not counted towards the next one")
	}
	R.Min("R18.6", "returns of handleLogin", n, 2)
}

// c18selectCommitsLast (R18.7): a failed SELECT / EXAMINE leaves the session unselected.
func c18selectCommitsLast(c *Ctx) {
	P, R := c.P, c.R
	R.Explain("R18.7", "the selected state is entered last: in State.Select and State.Examine (or the helper of the package that does it for them), after the store that installs the new snapshot (State.snap = snap) the only return that can be reached is the one returning the result of the caller's callback; an error return after the store would answer NO to SELECT while the session already counts as selected, so that selected-state commands are served although no mailbox was selected.")
	snapFld := c.fieldOf("internal/state", "State", "snap")
	n := 0
	judged := map[*ssa.Function]bool{}
	for _, name := range []string{"internal/state.(*State).Select", "internal/state.(*State).Examine"} {
		top := c.fn("R18.7", name)
		if top == nil {
			continue
		}
		for _, f := range c.withPackageHelpers(top, "internal/state", 1) {
			if f.Parent() != nil {
				continue
			}
			for _, b := range f.Blocks {
				for _, in := range b.Instrs {
					st, ok := in.(*ssa.Store)
					if !ok || !fieldAddrIs(st.Addr, snapFld) || engine.IsNilConst(st.Val) {
						continue
					}
					n++ // counted once per entry point that reaches the installation
					if judged[f] {
						continue
					}
					bad := ""
					for _, ret := range engine.Returns(f) {
						if !engine.InstrReaches(st, ret) {
							continue
						}
						// allowed: `return fn(...)` - the result of calling a function-typed parameter
						lr := engine.LastResult(ret)
						okRet := false
						if call, isCall := lr.(*ssa.Call); isCall {
							if _, isParam := call.Call.Value.(*ssa.Parameter); isParam && !call.Call.IsInvoke() {
								okRet = true
							}
						}
						if engine.IsNilConst(lr) {
							okRet = true
						}
						if !okRet {
							bad = P.Pos(ret.Pos())
						}
					}
					if f != top && bad == "" {
						// installed by a helper: Select/Examine must hand the helper's result on unchanged
						for _, cs := range engine.Calls(top) {
							if cs.Common().StaticCallee() != f || cs.Instr.Parent() != top {
								continue
							}
							for _, ret := range engine.Returns(top) {
								if !engine.InstrReaches(cs.Instr, ret) {
									continue
								}
								lr := engine.LastResult(ret)
								if lr != cs.Instr.Value() && !engine.IsNilConst(lr) {
									bad = P.Pos(ret.Pos())
								}
							}
						}
					}
					R.Check(bad == "", "R18.7", c.name(f)+"|snapshot installed last", P.Pos(st.Pos()), "no failure return after the snapshot is installed", "after State.snap is set an error return ("+bad+") is still reachable: SELECT/EXAMINE is answered NO but the session is treated as selected")
				}
			}
			judged[f] = true
		}
	}
	R.Min("R18.7", "snapshot installations in Select/Examine", n, 2)
}

// stateFromSuccessfulGetState: v, used in block `at` of f, is the first result of Backend.GetState on its
// nil-error edge inside handleLogin - or f is a helper that receives it as a parameter from such a place
// at every call site.
func (c *Ctx) stateFromSuccessfulGetState(f *ssa.Function, v ssa.Value, at *ssa.BasicBlock, depth int) bool {
	if ex, isEx := v.(*ssa.Extract); isEx && ex.Index == 0 {
		if !c.isAnchor(topFn(f), "internal/session.(*Session).handleLogin") {
			return false
		}
		call, isCall := ex.Tuple.(*ssa.Call)
		if !isCall {
			return false
		}
		sc := call.Call.StaticCallee()
		if sc == nil || engine.ShortName(sc) != "GetState" {
			return false
		}
		for _, r := range *call.Referrers() {
			e1, ok := r.(*ssa.Extract)
			if !ok || e1.Index != 1 {
				continue
			}
			for _, r2 := range *e1.Referrers() {
				bin, ok := r2.(*ssa.BinOp)
				if !ok {
					continue
				}
				for _, r3 := range *bin.Referrers() {
					if iff, ok := r3.(*ssa.If); ok {
						nilIx := 1
						if bin.Op.String() == "==" {
							nilIx = 0
						}
						if engine.EdgeDominates(iff.Block(), nilIx, at) {
							return true
						}
					}
				}
			}
		}
		return false
	}
	if p, isParam := v.(*ssa.Parameter); isParam && depth < 2 && f.Parent() == nil {
		idx := -1
		for i, q := range f.Params {
			if q == p {
				idx = i
			}
		}
		callers := c.P.CallersOf(f)
		if idx < 0 || len(callers) == 0 {
			return false
		}
		for _, cs := range callers {
			args := cs.Common().Args
			if cs.Common().IsInvoke() || idx >= len(args) {
				return false
			}
			if !c.stateFromSuccessfulGetState(cs.Fn, args[idx], cs.Instr.Block(), depth+1) {
				return false
			}
		}
		return true
	}
	return false
}

// c18dsnPathEscaped (R18.8): two users never share a database file through URI decoding.
func c18dsnPathEscaped(c *Ctx) {
	P, R := c.P, c.R
	R.Explain("R18.8", "one database file per user: in the data source name handed to sql.Open for sqlite (a `file:` URI, followed through Sprintf, concatenation and helpers) every non-constant part is the result of net/url PathEscape (the escaping SQLite's URI decoder undoes).  A hand-made partial escaper leaves `%xx` sequences of a user id or directory name to be decoded by SQLite, so that two different users (`a%2fb` and the path `a/b`, `x%3fy`...) open the same file - a session would see and change another user's mailboxes.")
	n := 0
	for _, f := range c.productFuncs() {
		for _, cs := range engine.Calls(f) {
			sc := cs.Common().StaticCallee()
			if sc == nil || engine.ShortName(sc) != "Open" || engine.PkgPathOf(sc) != "database/sql" || len(cs.Common().Args) != 2 {
				continue
			}
			if drv, ok := engine.ConstString(cs.Common().Args[0]); !ok || !strings.Contains(drv, "sqlite") {
				continue
			}
			// flatten the data source name into its constant and non-constant pieces
			isURI := false
			bad := ""
			seen := map[ssa.Value]bool{}
			var walk func(v ssa.Value, d int)
			walk = func(v ssa.Value, d int) {
				if v == nil || seen[v] || d > 12 {
					return
				}
				seen[v] = true
				v = stripIface(v)
				switch t := v.(type) {
				case *ssa.Const:
					if s, ok := engine.ConstString(t); ok && strings.Contains(s, "file:") {
						isURI = true
					}
				case *ssa.BinOp:
					walk(t.X, d+1)
					walk(t.Y, d+1)
				case *ssa.Phi:
					for _, e := range t.Edges {
						walk(e, d+1)
					}
				case *ssa.Call:
					g := t.Call.StaticCallee()
					switch {
					case g != nil && engine.PkgPathOf(g) == "net/url" && g.Name() == "PathEscape":
						// the escaped file name
					case g != nil && engine.PkgPathOf(g) == "fmt" && g.Name() == "Sprintf":
						walk(t.Call.Args[0], d+1)
						for _, a := range sprintfArgs(t.Common(), 1) {
							walk(a, d+1)
						}
					case g != nil && len(g.Blocks) > 0 && P.IsOwn(g):
						for _, r := range engine.Returns(g) {
							if len(r.Results) > 0 {
								walk(engine.ResultOf(r, 0), d+1)
							}
						}
					default:
						bad = P.Pos(t.Pos())
					}
				case *ssa.UnOp:
					if al, ok := t.X.(*ssa.Alloc); ok {
						for _, st := range engine.StoresTo(al) {
							walk(st.Val, d+1)
						}
						return
					}
					if g, ok := t.X.(*ssa.Global); ok {
						_ = g // package-level constant-like option strings
						return
					}
					bad = P.Pos(t.Pos())
				default:
					// a parameter or any other non-constant piece that was not escaped
					bad = P.Pos(v.Pos())
					if bad == "?" || bad == "" {
						bad = v.String()
					}
				}
			}
			walk(cs.Common().Args[1], 0)
			if !isURI {
				continue
			}
			n++
			R.Check(bad == "", "R18.8", c.name(f)+"|file: URI", P.Pos(cs.Pos()), "every non-constant part of the data source name is url.PathEscape'd", "a non-constant part of the SQLite `file:` URI ("+bad+") is not the result of url.PathEscape: percent sequences in a user id or directory are decoded by SQLite and can name another user's database")
		}
	}
	R.Min("R18.8", "`file:` URIs built in the sqlite3 package", n, 1)
}

// c18passwordComparedExactly (R18.9): gluon's own connector compares the password byte for byte.
func c18passwordComparedExactly(c *Ctx) {
	P, R := c.P, c.R
	R.Explain("R18.9", "wrong credentials never authenticate: in every Authorize method of the repository's own connector implementations (package connector) the password bytes reach no case-folding or normalising function (bytes/strings EqualFold, ToLower, ToUpper, Title, TrimSpace, Fields ...): they are compared as they are.  A case-insensitive comparison lets `PASS` log into the account whose password is `pass`, and lets one user open another's mailboxes when their passwords differ only in case.")
	n := 0
	for _, f := range c.funcsInPkg("connector") {
		if f.Parent() != nil || engine.BaseName(f) != "Authorize" || f.Signature.Recv() == nil {
			continue
		}
		var pw *ssa.Parameter
		for _, p := range f.Params {
			if sl, ok := p.Type().Underlying().(*types.Slice); ok {
				if b, ok := sl.Elem().Underlying().(*types.Basic); ok && b.Kind() == types.Byte {
					pw = p
				}
			}
		}
		if pw == nil {
			continue
		}
		n++
		bad := ""
		for _, g := range engine.WithClosures(f) {
			for _, cs := range engine.Calls(g) {
				sc := cs.Common().StaticCallee()
				if sc == nil {
					continue
				}
				pk := engine.PkgPathOf(sc)
				if pk != "bytes" && pk != "strings" && pk != "unicode" {
					continue
				}
				switch sc.Name() {
				case "EqualFold", "ToLower", "ToUpper", "ToTitle", "Title", "TrimSpace", "Trim", "TrimRight", "TrimLeft", "Fields", "Map", "ToValidUTF8":
				default:
					continue
				}
				for _, a := range cs.Common().Args {
					if engine.AnyBackward(a, engine.FlowOpts{Loads: true}, func(x ssa.Value) bool { return x == ssa.Value(pw) }) {
						bad = P.Pos(cs.Pos()) + " " + pk + "." + sc.Name()
					}
				}
			}
		}
		R.Check(bad == "", "R18.9", c.name(f)+"|password compared as it is", P.Pos(f.Pos()), "no folding / normalising of the password", "the password is passed through a case-folding or normalising function ("+bad+"): a password that differs only in letter case (or padding) authenticates")
	}
	R.Min("R18.9", "Authorize methods of the repository's connectors", n, 1)
}

// c18counterWriters (R18.10): only a login attempt or the jail timer touches the failure counter.
func c18counterWriters(c *Ctx) {
	P, R := c.P, c.R
	R.Explain("R18.10", "three consecutive failures means three consecutive failures: Backend.loginErrorCount is written (sync/atomic Store / Add / Swap / CompareAndSwap) only inside Backend.getUserID, its closures (the jail timer's callback) and helpers only it calls.  Any other writer - a reset when a user is loaded, on logout, on a new connection - lets a guesser interleave an unrelated event and never reach the count that arms the jail.")
	cntFld := c.fieldOf("internal/backend", "Backend", "loginErrorCount")
	n := 0
	for _, f := range c.productFuncs() {
		for _, cs := range engine.Calls(f) {
			sc := cs.Common().StaticCallee()
			if sc == nil || engine.PkgPathOf(sc) != "sync/atomic" || len(cs.Common().Args) == 0 || !fieldAddrIs(cs.Common().Args[0], cntFld) {
				continue
			}
			if strings.HasPrefix(sc.Name(), "Load") {
				continue
			}
			n++
			top := topFn(f)
			ok := c.isAnchor(top, "internal/backend.(*Backend).getUserID") || c.onlyCalledFrom(top, 2, "internal/backend.(*Backend).getUserID")
			R.Check(ok, "R18.10", c.name(c.ownerFn(f))+"|atomic."+sc.Name()+" loginErrorCount", P.Pos(cs.Pos()), "written by the login path only", "the failed-login counter is written outside Backend.getUserID: the run of consecutive failures can be interrupted without a successful login, so the jail is never armed")
		}
		for _, b := range f.Blocks {
			for _, in := range b.Instrs {
				if st, ok := in.(*ssa.Store); ok && fieldAddrIs(st.Addr, cntFld) {
					n++
					R.Check(false, "R18.10", c.name(c.ownerFn(f))+"|plain store loginErrorCount", P.Pos(st.Pos()), "", "the failed-login counter is written with a plain store")
				}
			}
		}
	}
	R.Min("R18.10", "writes of Backend.loginErrorCount", n, 2)
}
