package rules

import (
	"go/token"
	"go/types"
	"sort"
	"strings"

	"golang.org/x/tools/go/ssa"

	"verifchecker/internal/engine"
)

func init() { register("C19", c19) }

func c19(c *Ctx) {
	defer c.noReentryIntoTheDatabase("R19.14")
	R := c.R
	R.Explain("R19.2", "T-GUARDED: every access of a shared field happens while its lock is held, in the accessing function, in the function that runs the closure, or in every caller (table confirmed by reading; constructors are exempt).")
	type g struct {
		pkg, typ, field, lock string
		exempt                map[string]string
	}
	table := []g{
		{"internal/backend", "user", "states", "statesLock", map[string]string{"newUser": "constructor: the user is not shared yet"}},
		{"internal/backend", "Backend", "users", "usersLock", map[string]string{"New": "constructor"}},
		{"store", "WriteControlledStore", "entryTable", "lock", map[string]string{"NewWriteControlledStore": "constructor"}},
		{"internal/utils", "MessageHashesMap", "idToHash", "lock", map[string]string{"NewMessageHashesMap": "constructor"}},
		{"internal/utils", "MessageHashesMap", "hashes", "lock", map[string]string{"NewMessageHashesMap": "constructor"}},
		{"async", "QueuedChannel", "items", "cond.L", map[string]string{"NewQueuedChannel": "constructor"}},
		{".", "Server", "sessions", "sessionsLock", map[string]string{"New": "constructor", "build": "constructor: serverBuilder.build creates the Server"}},
		{".", "Server", "watchers", "watchersLock", map[string]string{"New": "constructor"}},
		{"internal/session", "Session", "caps", "capsLock", map[string]string{"New": "constructor"}},
		{"async", "Abortable", "abortFunc", "abortLock", nil},
		{".", "Server", "nextID", "nextIDLock", map[string]string{"New": "constructor", "build": "constructor"}},
		{"internal/state", "ExistsStateUpdate", "targetStateID", "lock", map[string]string{"newExistsStateUpdateWithExists": "constructor"}},
		{"internal/state", "ExistsStateUpdate", "targetStateSet", "lock", map[string]string{"newExistsStateUpdateWithExists": "constructor"}},
		{"liner", "Liner", "br", "mu", map[string]string{"New": "constructor"}},
	}
	for _, e := range table {
		n := c.guardedField("R19.2", e.pkg, e.typ, e.field, e.lock, e.exempt)
		R.Min("R19.2", e.typ+"."+e.field+" accesses", n, 1)
	}
	c.stateConfinement()
	c.waitGroupPairing()
	c.atomicConsistency()
	c.queueClose()
	c.quitAwareBlocking()
	c.lockOrder()
	c.stickySignals()
	c.abandonedProducersAreDrained()
	c.plainSendsAreTabled()
	c.consumersDrainUntilClosed()
	c.connectionsCloseWithTheServer()
	c.condSignalsUnderLock()
}

// ---- R19.9 ---------------------------------------------------------------------------------

func (c *Ctx) stickySignals() {
	P, R := c.P, c.R
	R.Explain("R19.9", "termination signals are sticky: an unbuffered chan struct{} field (done/quit/stop channels) is signalled only by close(); a send on it - blocking or in a select with default - is lost or blocks when the receiver is busy, so the session/goroutine it should stop never stops and the WaitGroup its owner waits on never drains.  A chan struct{} field that is sent on must be created with a capacity (semaphore idiom).")
	type info struct {
		fld      *types.Var
		owner    string
		sends    []ssa.Instruction
		buffered bool
		unbuf    bool
		closes   int
	}
	infos := map[*types.Var]*info{}
	isSignal := func(v *types.Var) bool {
		ch, ok := v.Type().Underlying().(*types.Chan)
		if !ok {
			return false
		}
		st, ok := ch.Elem().Underlying().(*types.Struct)
		return ok && st.NumFields() == 0
	}
	get := func(fa *ssa.FieldAddr) *info {
		fv := fieldOfAddr(fa)
		if fv == nil || !isSignal(fv) {
			return nil
		}
		if infos[fv] == nil {
			owner := ""
			if nt := engine.NamedOf(fa.X.Type()); nt != nil {
				owner = nt.Obj().Name()
			}
			infos[fv] = &info{fld: fv, owner: owner}
		}
		return infos[fv]
	}
	chanField := func(v ssa.Value) *ssa.FieldAddr {
		if u, ok := v.(*ssa.UnOp); ok && u.Op == token.MUL {
			if fa, ok := u.X.(*ssa.FieldAddr); ok {
				return fa
			}
		}
		return nil
	}
	for _, f := range c.productFuncs() {
		for _, b := range f.Blocks {
			for _, in := range b.Instrs {
				switch t := in.(type) {
				case *ssa.Send:
					if fa := chanField(t.Chan); fa != nil {
						if i := get(fa); i != nil {
							i.sends = append(i.sends, in)
						}
					}
				case *ssa.Select:
					for _, st := range t.States {
						if st.Dir == types.SendOnly {
							if fa := chanField(st.Chan); fa != nil {
								if i := get(fa); i != nil {
									i.sends = append(i.sends, in)
								}
							}
						}
					}
				case *ssa.Store:
					if fa, ok := t.Addr.(*ssa.FieldAddr); ok {
						if i := get(fa); i != nil {
							if mk, ok := t.Val.(*ssa.MakeChan); ok {
								if k, ok := mk.Size.(*ssa.Const); ok && k.Int64() == 0 {
									i.unbuf = true
								} else {
									i.buffered = true
								}
							}
						}
					}
				case ssa.CallInstruction:
					if bi, ok := t.Common().Value.(*ssa.Builtin); ok && bi.Name() == "close" {
						if fa := chanField(t.Common().Args[0]); fa != nil {
							if i := get(fa); i != nil {
								i.closes++
							}
						}
					}
				}
			}
		}
	}
	n := 0
	var names []string
	byName := map[string]*info{}
	for _, i := range infos {
		k := i.owner + "." + i.fld.Name()
		names = append(names, k)
		byName[k] = i
	}
	sort.Strings(names)
	for _, k := range names {
		i := byName[k]
		n++
		pos := ""
		if len(i.sends) > 0 {
			pos = P.Pos(i.sends[0].Pos())
		}
		ok := len(i.sends) == 0 || (i.buffered && !i.unbuf)
		R.Check(ok, "R19.9", "signal channel "+k, pos, fmtf("closed at %d site(s), never sent on (or buffered)", i.closes), k+" is an unbuffered signal channel but a value is sent on it: the signal is lost (non-blocking send) or the sender blocks while the receiver is busy; teardown (RemoveUser / Close) then waits for ever")
	}
	R.Min("R19.9", "chan struct{} fields", n, 5)
}

// ---- R19.3 ---------------------------------------------------------------------------------

// lockName identifies a lock by the struct field that holds it ("user.statesLock").
func lockFieldOf(v ssa.Value) string {
	for i := 0; i < 4; i++ {
		switch t := v.(type) {
		case *ssa.FieldAddr:
			nt := engine.NamedOf(t.X.Type())
			name := fieldOfAddr(t).Name()
			if nt != nil {
				return nt.Obj().Name() + "." + name
			}
			return name
		case *ssa.UnOp:
			v = t.X
		case *ssa.Field:
			nt := engine.NamedOf(t.X.Type())
			if nt != nil {
				return nt.Obj().Name() + "." + fieldOfField(t).Name()
			}
			return fieldOfField(t).Name()
		default:
			return ""
		}
	}
	return ""
}

func (c *Ctx) lockOrder() {
	P, R := c.P, c.R
	R.Explain("R19.3", "lock order: nodes are locks (by the struct field holding them) and WaitGroup waits; h -> l when l can be acquired (directly, or anywhere in the callees resolved by the call graph) while h is held; h -> wait(W) when W.Wait() is called under h; wait(W) -> l for every lock a function that calls W.Done() can acquire before it gets there.  The graph must have no cycle (self edges on a field, i.e. two instances of the same struct, are not judged).")
	// every function of the server packages, generic instances included (a call resolves to the instance)
	var prod []*ssa.Function
	for _, f := range c.P.Funcs {
		if len(f.Blocks) > 0 && isProductPkg(engine.RelPkg(P.OwnPkgPath(f))) {
			prod = append(prod, f)
		}
	}
	direct := map[*ssa.Function]map[string]bool{} // locks/waits directly acquired
	lockOf := map[ssa.Instruction]string{}
	for _, f := range prod {
		direct[f] = map[string]bool{}
		for _, op := range engine.LockOps(f) {
			if !op.Acquire {
				continue
			}
			var recv ssa.Value
			cc := op.Instr.(ssa.CallInstruction).Common()
			if cc.IsInvoke() {
				recv = cc.Value
			} else {
				recv = cc.Args[0]
			}
			if name := lockFieldOf(recv); name != "" {
				direct[f][name] = true
				lockOf[op.Instr] = name
			}
		}
		for _, cs := range engine.Calls(f) {
			if w, ok := isWaitGroupCall(cs, "Wait"); ok && w != nil {
				direct[f]["wait("+wgName(cs, w)+")"] = true
			}
		}
	}
	// transitive acquisition sets
	acq := map[*ssa.Function]map[string]bool{}
	for _, f := range prod {
		acq[f] = map[string]bool{}
		for k := range direct[f] {
			acq[f][k] = true
		}
	}
	callees := map[*ssa.Function][]*ssa.Function{}
	for _, f := range prod {
		seen := map[*ssa.Function]bool{}
		for _, cs := range engine.Calls(f) {
			if _, isGo := cs.Instr.(*ssa.Go); isGo {
				continue
			}
			for _, g := range P.Callees(cs) {
				if acq[g] != nil && !seen[g] {
					seen[g] = true
					callees[f] = append(callees[f], g)
				}
			}
			// closures handed to a callee run inside it
			for _, a := range cs.Common().Args {
				if g := engine.FuncValue(a); g != nil && acq[g] != nil && !seen[g] {
					if sc := cs.Common().StaticCallee(); sc != nil && (engine.ShortName(sc) == "GoAnnotated" || engine.ShortName(sc) == "AfterFunc" || engine.ShortName(sc) == "Go") {
						continue
					}
					seen[g] = true
					callees[f] = append(callees[f], g)
				}
			}
		}
	}
	for changed := true; changed; {
		changed = false
		for _, f := range prod {
			for _, g := range callees[f] {
				for k := range acq[g] {
					if !acq[f][k] {
						acq[f][k] = true
						changed = true
					}
				}
			}
		}
	}
	type edge struct{ from, to string }
	edges := map[edge]string{}
	confined := map[string]string{
		"Session.userLock": "taken only by the session's own command handlers, which run one at a time (serve waits for the handler's response channel to close before reading the next command)",
		"Session.capsLock": "same as Session.userLock; SetTLSConfig runs before Serve starts",
		"Dummy.queueLock":  "test connector, not part of the server",
		"dummyState.lock":  "test connector, not part of the server",
	}
	var crow []string
	for k, v := range confined {
		crow = append(crow, k+": "+v)
	}
	sort.Strings(crow)
	R.Table("R19.3 locks not judged", crow...)
	addEdge := func(a, b, where string) {
		if a == b || a == "" || b == "" || confined[a] != "" || confined[b] != "" {
			return
		}
		if _, ok := edges[edge{a, b}]; !ok {
			edges[edge{a, b}] = where
		}
	}
	for _, f := range prod {
		ops := engine.LockOps(f)
		if len(ops) == 0 {
			continue
		}
		held := engine.HeldAt(f)
		pathName := map[string]string{}
		for _, op := range ops {
			if op.Acquire && lockOf[op.Instr] != "" {
				pathName[op.Path] = lockOf[op.Instr]
			}
		}
		for _, cs := range engine.Calls(f) {
			if cs.Instr.Parent() != f {
				continue
			}
			var hs []string
			for p := range held(cs.Instr) {
				if n := pathName[p]; n != "" {
					hs = append(hs, n)
				}
			}
			if len(hs) == 0 {
				continue
			}
			where := P.Pos(cs.Pos())
			if l := lockOf[cs.Instr]; l != "" {
				for _, h := range hs {
					addEdge(h, l, where)
				}
			}
			if w, ok := isWaitGroupCall(cs, "Wait"); ok && w != nil {
				for _, h := range hs {
					addEdge(h, "wait("+wgName(cs, w)+")", where)
				}
			}
			if _, isGo := cs.Instr.(*ssa.Go); isGo {
				continue
			}
			var targets []*ssa.Function
			targets = append(targets, P.Callees(cs)...)
			for _, a := range cs.Common().Args {
				if g := engine.FuncValue(a); g != nil {
					targets = append(targets, g)
				}
			}
			for _, g := range targets {
				for l := range acq[g] {
					for _, h := range hs {
						addEdge(h, l, where+" via "+c.name(g))
					}
				}
			}
		}
	}
	// wait(W) -> locks needed by the functions that call W.Done()
	for _, f := range prod {
		for _, cs := range engine.Calls(f) {
			if w, ok := isWaitGroupCall(cs, "Done"); ok && w != nil {
				body := topClosureBody(f)
				// when the matching Add is in the same function only what is acquired after it counts
				var add ssa.Instruction
				for _, cs2 := range engine.Calls(body) {
					if w2, ok := isWaitGroupCall(cs2, "Add"); ok && w2 == w && cs2.Instr.Parent() == body {
						add = cs2.Instr
					}
				}
				need := map[string]bool{}
				if add == nil {
					for l := range acq[body] {
						need[l] = true
					}
				} else {
					for _, cs2 := range engine.Calls(body) {
						if cs2.Instr.Parent() == body && !engine.InstrReaches(add, cs2.Instr) {
							continue
						}
						if l := lockOf[cs2.Instr]; l != "" {
							need[l] = true
						}
						for _, g := range P.Callees(cs2) {
							for l := range acq[g] {
								need[l] = true
							}
						}
						for _, a := range cs2.Common().Args {
							if g := engine.FuncValue(a); g != nil {
								for l := range acq[g] {
									need[l] = true
								}
							}
						}
					}
				}
				for l := range need {
					if l != "wait("+wgName(cs, w)+")" {
						addEdge("wait("+wgName(cs, w)+")", l, c.name(body)+" must pass "+l+" before "+w.Name()+".Done")
					}
				}
			}
		}
	}
	var rows []string
	adj := map[string][]string{}
	for e, where := range edges {
		rows = append(rows, e.from+" -> "+e.to+"   ("+where+")")
		adj[e.from] = append(adj[e.from], e.to)
	}
	sort.Strings(rows)
	R.Table("R19.3 lock-order edges", rows...)
	R.Min("R19.3", "lock-order edges", len(edges), 3)
	// cycle detection (report each cycle once, by its smallest node)
	color := map[string]int{}
	var stack []string
	cycles := map[string]string{}
	var dfs func(n string)
	dfs = func(n string) {
		color[n] = 1
		stack = append(stack, n)
		next := adj[n]
		sort.Strings(next)
		for _, m := range next {
			if color[m] == 1 {
				// cycle: from m in stack to n
				var cyc []string
				for i := len(stack) - 1; i >= 0; i-- {
					cyc = append([]string{stack[i]}, cyc...)
					if stack[i] == m {
						break
					}
				}
				min := 0
				for i := range cyc {
					if cyc[i] < cyc[min] {
						min = i
					}
				}
				rot := append(append([]string{}, cyc[min:]...), cyc[:min]...)
				key := strings.Join(rot, " -> ")
				var wh []string
				for i := range rot {
					wh = append(wh, edges[edge{rot[i], rot[(i+1)%len(rot)]}])
				}
				cycles[key] = strings.Join(wh, " ; ")
			} else if color[m] == 0 {
				dfs(m)
			}
		}
		stack = stack[:len(stack)-1]
		color[n] = 2
	}
	var nodes []string
	for n := range adj {
		nodes = append(nodes, n)
	}
	sort.Strings(nodes)
	for _, n := range nodes {
		if color[n] == 0 {
			dfs(n)
		}
	}
	if len(cycles) == 0 {
		R.Pass("R19.3", "lock-order graph|acyclic", "", fmtf("%d edges over %d nodes, no cycle", len(edges), len(nodes)))
	}
	for k, wh := range cycles {
		R.Fail("R19.3", "lock-order cycle|"+k, "", "locks can be taken in a cyclic order ("+wh+"): two goroutines taking them in opposite order deadlock; commands never complete / Close never returns")
	}
}

// ---- R19.4 ---------------------------------------------------------------------------------

// wgName qualifies a WaitGroup field by its struct ("user.statesWG").
func wgName(cs engine.CallSite, w *types.Var) string {
	if len(cs.Common().Args) > 0 {
		if fa, ok := cs.Common().Args[0].(*ssa.FieldAddr); ok {
			if nt := engine.NamedOf(fa.X.Type()); nt != nil {
				return nt.Obj().Name() + "." + w.Name()
			}
		}
	}
	return w.Name()
}

func isWaitGroupCall(cs engine.CallSite, name string) (*types.Var, bool) {
	sc := cs.Common().StaticCallee()
	if sc == nil || engine.ShortName(sc) != name || engine.PkgPathOf(sc) != "sync" {
		return nil, false
	}
	if rn := engine.RecvNamed(sc); rn == nil || rn.Obj().Name() != "WaitGroup" {
		return nil, false
	}
	if len(cs.Common().Args) == 0 {
		return nil, false
	}
	if fa, ok := cs.Common().Args[0].(*ssa.FieldAddr); ok {
		return fieldOfAddr(fa), true
	}
	return nil, true
}

// entryDeferredDone: f (or a static callee, depth<=2) defers W.Done() - directly or inside a
// deferred closure that calls it unconditionally - in a block that dominates all its returns.
func (c *Ctx) entryDeferredDone(f *ssa.Function, w *types.Var, depth int) bool {
	if f == nil || len(f.Blocks) == 0 || depth > 2 {
		return false
	}
	domAll := func(b *ssa.BasicBlock) bool {
		for _, r := range engine.Returns(f) {
			if !b.Dominates(r.Block()) {
				return false
			}
		}
		return true
	}
	for _, b := range f.Blocks {
		for _, in := range b.Instrs {
			d, ok := in.(*ssa.Defer)
			if !ok || !domAll(b) {
				continue
			}
			cs := engine.CallSite{Fn: f, Instr: d}
			if fv, ok := isWaitGroupCall(cs, "Done"); ok && fv == w {
				return true
			}
			if clo := engine.FuncValue(d.Call.Value); clo != nil {
				for _, cs2 := range engine.Calls(clo) {
					if fv, ok := isWaitGroupCall(cs2, "Done"); ok && fv == w {
						if _, isDefer := cs2.Instr.(*ssa.Defer); isDefer || cs2.Instr.Block() == clo.Blocks[0] || len(clo.Blocks) == 1 {
							return true
						}
						allRet := true
						for _, r := range engine.Returns(clo) {
							if !cs2.Instr.Block().Dominates(r.Block()) {
								allRet = false
							}
						}
						if allRet {
							return true
						}
					}
				}
			}
		}
	}
	// a callee that does it (goroutine body calling the worker method)
	for _, cs := range engine.Calls(f) {
		if cs.Instr.Parent() != f {
			continue
		}
		if _, isDefer := cs.Instr.(*ssa.Defer); isDefer {
			continue
		}
		if sc := cs.Common().StaticCallee(); sc != nil && isProductPkg(engine.RelPkg(c.P.OwnPkgPath(sc))) && cs.Instr.Block() == f.Blocks[0] {
			if c.entryDeferredDone(sc, w, depth+1) {
				return true
			}
		}
	}
	return false
}

// doneCarried: in f, every path from instruction `from` to a return passes something that guarantees
// W.Done: a deferred Done, a deferred call of a function that calls Done unconditionally, or the spawn
// of a function that defers Done at its entry.
func (c *Ctx) doneCarried(f *ssa.Function, from ssa.Instruction, w *types.Var) (bool, string) {
	P := c.P
	cut := map[ssa.Instruction]bool{}
	callsDoneUncond := func(g *ssa.Function) bool {
		if g == nil || len(g.Blocks) == 0 {
			return false
		}
		for _, cs := range engine.Calls(g) {
			if fv, ok := isWaitGroupCall(cs, "Done"); ok && fv == w && cs.Instr.Parent() == g {
				all := true
				for _, r := range engine.Returns(g) {
					if !cs.Instr.Block().Dominates(r.Block()) {
						all = false
					}
				}
				if _, isDefer := cs.Instr.(*ssa.Defer); isDefer || all {
					return true
				}
			}
		}
		return false
	}
	for _, cs2 := range engine.Calls(f) {
		if cs2.Instr.Parent() != f || !engine.InstrReaches(from, cs2.Instr) {
			continue
		}
		if fv, ok := isWaitGroupCall(cs2, "Done"); ok && fv == w {
			if _, isDefer := cs2.Instr.(*ssa.Defer); isDefer {
				cut[cs2.Instr] = true
			}
			continue
		}
		if _, isDefer := cs2.Instr.(*ssa.Defer); isDefer {
			if g := cs2.Common().StaticCallee(); g != nil && callsDoneUncond(g) {
				cut[cs2.Instr] = true
			}
			if g := engine.FuncValue(cs2.Common().Value); g != nil && callsDoneUncond(g) {
				cut[cs2.Instr] = true
			}
		}
		var cands []*ssa.Function
		if _, isGo := cs2.Instr.(*ssa.Go); isGo {
			if g := engine.FuncValue(cs2.Common().Value); g != nil {
				cands = append(cands, g)
			}
			if sc := cs2.Common().StaticCallee(); sc != nil {
				cands = append(cands, sc)
			}
		}
		for _, a := range cs2.Common().Args {
			if g := engine.FuncValue(a); g != nil && len(g.Blocks) > 0 {
				cands = append(cands, g)
			}
		}
		for _, g := range cands {
			if c.entryDeferredDone(g, w, 0) {
				cut[cs2.Instr] = true
			}
		}
	}
	bad := ""
	for _, ret := range engine.Returns(f) {
		if engine.InstrReaches(from, ret) && engine.ReachesAvoidingFrom(from.Block(), engine.InstrIndex(from)+1, ret, cut, nil) {
			bad = P.Pos(ret.Pos())
		}
	}
	return len(cut) > 0 && bad == "", bad
}

func (c *Ctx) waitGroupPairing() {
	P, R := c.P, c.R
	R.Explain("R19.4", "T-PAIR: every WaitGroup.Add on a struct field is followed, on every path to the function's exit, by something that guarantees the matching Done: a deferred Done in the same function, or the spawn (go, GoAnnotated, AfterFunc, ...) of a function that defers Done on the same field at its entry (directly, in a deferred closure, or in the worker method it calls first); the one cross-function pair (user.statesWG: Add in newState, Done deferred in removeState right after the state left the map) is checked against its own table row.")
	n := 0
	for _, f := range c.productFuncs() {
		for _, cs := range engine.Calls(f) {
			w, ok := isWaitGroupCall(cs, "Add")
			if !ok || w == nil || cs.Instr.Parent() != f {
				continue
			}
			n++
			key := fmtf("%s|%s.Add", c.name(f), w.Name())
			if w.Name() == "statesWG" {
				// cross-function pair
				rs := c.fnOpt("internal/backend.(*user).removeState")
				okPair, why := false, "removeState not found"
				if rs != nil {
					why = "removeState does not defer statesWG.Done() on every path after the state was removed from user.states"
					var del ssa.Instruction // the call of the closure that deletes from the map
					for _, cs2 := range engine.Calls(rs) {
						if clo := engine.FuncValue(cs2.Common().Value); clo != nil && cs2.Instr.Parent() == rs {
							for _, g := range engine.WithClosures(clo) {
								for _, cs3 := range engine.Calls(g) {
									if bi, ok := cs3.Common().Value.(*ssa.Builtin); ok && bi.Name() == "delete" {
										del = cs2.Instr
									}
								}
							}
						}
					}
					var done ssa.Instruction
					for _, cs2 := range engine.Calls(rs) {
						if fv, ok := isWaitGroupCall(cs2, "Done"); ok && fv == w {
							if _, isDefer := cs2.Instr.(*ssa.Defer); isDefer {
								done = cs2.Instr
							}
						}
					}
					if del != nil && done != nil {
						okPair = true
						cut := map[ssa.Instruction]bool{done: true}
						for _, ret := range engine.Returns(rs) {
							if !engine.InstrReaches(del, ret) || !engine.ReachesAvoidingFrom(del.Block(), engine.InstrIndex(del)+1, ret, cut, nil) {
								continue
							}
							// allowed only if this is the failure return of the removing closure
							if lr := engine.LastResult(ret); lr == nil || engine.IsNilConst(lr) {
								okPair = false
							}
						}
					}
				}
				R.Check(okPair, "R19.4", key, P.Pos(cs.Pos()), "paired with the deferred Done in removeState", why+": user.close waits on statesWG for ever (RemoveUser / Close never return)")
				continue
			}
			okHere, bad := c.doneCarried(f, cs.Instr, w)
			if !okHere {
				// the Add may live in a begin()-style helper: then every caller must carry the Done after the call
				callers := 0
				allOK := true
				for _, cs2 := range P.CallersOf(f) {
					if !isProductPkg(engine.RelPkg(P.OwnPkgPath(cs2.Fn))) || cs2.Common().StaticCallee() != f {
						continue
					}
					callers++
					// the helper itself must reach its exit after the Add without undoing anything: accept, the
					// obligation moves to the caller
					if ok2, _ := c.doneCarried(cs2.Fn, cs2.Instr, w); !ok2 {
						allOK = false
					}
				}
				if callers > 0 && allOK {
					okHere = true
				}
			}
			R.Check(okHere, "R19.4", key, P.Pos(cs.Pos()), "every path after Add reaches a deferred Done or spawns the function that defers it", "after "+w.Name()+".Add a return ("+bad+") is reachable without a deferred Done / without starting the goroutine that calls Done: the matching Wait never returns (Close/RemoveUser hang)")
		}
	}
	R.Min("R19.4", "WaitGroup.Add sites on struct fields", n, 10)
}

// ---- R19.5 ---------------------------------------------------------------------------------

func (c *Ctx) atomicConsistency() {
	P, R := c.P, c.R
	R.Explain("R19.5", "a variable (struct field or package variable) that is accessed through sync/atomic anywhere is accessed only through sync/atomic.")
	atomicVars := map[types.Object]bool{}
	varOf := func(v ssa.Value) types.Object {
		switch t := v.(type) {
		case *ssa.FieldAddr:
			return fieldOfAddr(t)
		case *ssa.Global:
			return t.Object()
		}
		return nil
	}
	isAtomicCall := func(cs engine.CallSite) bool {
		sc := cs.Common().StaticCallee()
		return sc != nil && engine.PkgPathOf(sc) == "sync/atomic"
	}
	for _, f := range c.productFuncs() {
		for _, cs := range engine.Calls(f) {
			if isAtomicCall(cs) && len(cs.Common().Args) > 0 {
				if o := varOf(cs.Common().Args[0]); o != nil {
					atomicVars[o] = true
				}
			}
		}
	}
	n := 0
	for _, f := range c.productFuncs() {
		for _, b := range f.Blocks {
			for _, in := range b.Instrs {
				v, ok := in.(ssa.Value)
				if !ok {
					continue
				}
				o := varOf(v)
				if o == nil || !atomicVars[o] {
					continue
				}
				refs := v.Referrers()
				if refs == nil {
					continue
				}
				for _, r := range *refs {
					n++
					okUse := false
					if ci, isCall := r.(ssa.CallInstruction); isCall {
						okUse = isAtomicCall(engine.CallSite{Fn: f, Instr: ci})
					}
					// initialisation of an object this function just obtained unshared: a fresh allocation or sync.Pool.Get
					if st, isStore := r.(*ssa.Store); isStore && !okUse {
						if fa, ok := v.(*ssa.FieldAddr); ok && st.Addr == v && unsharedObject(fa.X) {
							R.Pass("R19.5", fmtf("%s|%s init", c.name(f), o.Name()), P.Pos(r.Pos()), "plain store initialises an object that is not shared yet (fresh allocation / sync.Pool.Get)")
							continue
						}
					}
					R.Check(okUse, "R19.5", fmtf("%s|%s", c.name(f), o.Name()), P.Pos(r.Pos()), "accessed through sync/atomic", o.Name()+" is accessed with sync/atomic elsewhere but plainly here: data race")
				}
			}
		}
	}
	// globals are not instructions: scan operands
	for _, f := range c.productFuncs() {
		for _, b := range f.Blocks {
			for _, in := range b.Instrs {
				for _, op := range in.Operands(nil) {
					g, ok := (*op).(*ssa.Global)
					if !ok || !atomicVars[g.Object()] {
						continue
					}
					n++
					okUse := false
					if ci, isCall := in.(ssa.CallInstruction); isCall {
						okUse = isAtomicCall(engine.CallSite{Fn: f, Instr: ci})
					}
					R.Check(okUse, "R19.5", fmtf("%s|%s", c.name(f), g.Name()), P.Pos(in.Pos()), "accessed through sync/atomic", g.Name()+" is accessed with sync/atomic elsewhere but plainly here: data race")
				}
			}
		}
	}
	R.Min("R19.5", "accesses of atomically accessed variables", n, 8)
}

// ---- R19.7 ---------------------------------------------------------------------------------

func (c *Ctx) queueClose() {
	P, R := c.P, c.R
	R.Explain("R19.7", "a QueuedChannel closed with the non-discarding Close() keeps its pump goroutine alive until every queued item was read: it may only be used where a reader outlives the close (table); every other owner closes with CloseAndDiscardQueued.")
	allowed := map[string]string{
		"(*Server).Close":       "serveErrCh: the embedding application reads GetErrorCh until it is closed (documented API)",
		"CloseAndDiscardQueued": "the discarding close itself (stopCh is closed first)",
	}
	n := 0
	for _, f := range c.productFuncs() {
		for _, cs := range engine.Calls(f) {
			sc := cs.Common().StaticCallee()
			if sc == nil || engine.BaseName(sc) != "Close" {
				continue
			}
			rn := engine.RecvNamed(sc)
			if rn == nil || rn.Obj().Name() != "QueuedChannel" {
				continue
			}
			n++
			why, ok := "", false
			for k, v := range allowed {
				if strings.HasSuffix(c.name(topFn(f)), k) || engine.BaseName(topFn(f)) == k {
					why, ok = v, true
				}
			}
			R.Check(ok, "R19.7", c.name(f)+"|QueuedChannel.Close", P.Pos(cs.Pos()), "allowed: "+why, "the queue is closed with the non-discarding Close() but nothing reads it afterwards: with more than the channel buffer queued its goroutine blocks for ever (goroutine leak after Close)")
		}
	}
	R.Min("R19.7", "QueuedChannel.Close call sites", n, 2)
}

// ---- R19.8 ---------------------------------------------------------------------------------

func (c *Ctx) quitAwareBlocking() {
	P, R := c.P, c.R
	R.Explain("R19.8", "teardown can interrupt every wait: for a struct that owns a quit channel (a chan struct{} field that some method closes) and a WaitGroup that its Close waits on, every blocking channel operation in the goroutine bodies that call Done on that WaitGroup (and in the methods of the same struct they call) is a select that also receives from the quit channel (or is a receive from it); otherwise close(quit); wg.Wait() never returns.")
	type owner struct {
		typ   *types.Named
		quits map[*types.Var]bool
		wgs   map[*types.Var]bool
	}
	owners := map[*types.Named]*owner{}
	get := func(t *types.Named) *owner {
		if owners[t] == nil {
			owners[t] = &owner{typ: t, quits: map[*types.Var]bool{}, wgs: map[*types.Var]bool{}}
		}
		return owners[t]
	}
	structOf := func(fa *ssa.FieldAddr) *types.Named {
		return engine.NamedOf(fa.X.Type())
	}
	// quit channels: close(x.F) with F chan struct{}
	for _, f := range c.productFuncs() {
		for _, cs := range engine.Calls(f) {
			if bi, ok := cs.Common().Value.(*ssa.Builtin); ok && bi.Name() == "close" {
				if u, ok := cs.Common().Args[0].(*ssa.UnOp); ok {
					if fa, ok := u.X.(*ssa.FieldAddr); ok {
						if ch, ok := fieldOfAddr(fa).Type().Underlying().(*types.Chan); ok {
							if st, ok := ch.Elem().Underlying().(*types.Struct); ok && st.NumFields() == 0 {
								if t := structOf(fa); t != nil {
									get(t).quits[fieldOfAddr(fa)] = true
								}
							}
						}
					}
				}
			}
			if w, ok := isWaitGroupCall(cs, "Wait"); ok && w != nil {
				if fa, ok := cs.Common().Args[0].(*ssa.FieldAddr); ok {
					if t := structOf(fa); t != nil {
						get(t).wgs[w] = true
					}
				}
			}
		}
	}
	n := 0
	for _, o := range owners {
		if len(o.quits) == 0 || len(o.wgs) == 0 {
			continue
		}
		// goroutine bodies: functions that call Done on one of the WaitGroups
		var bodies []*ssa.Function
		for _, f := range c.productFuncs() {
			for _, cs := range engine.Calls(f) {
				if w, ok := isWaitGroupCall(cs, "Done"); ok && w != nil && o.wgs[w] {
					bodies = append(bodies, topClosureBody(f))
				}
			}
		}
		seen := map[*ssa.Function]bool{}
		var work []*ssa.Function
		work = append(work, bodies...)
		for len(work) > 0 {
			f := work[0]
			work = work[1:]
			if f == nil || seen[f] {
				continue
			}
			seen[f] = true
			for _, g := range engine.WithClosures(f) {
				for _, cs := range engine.Calls(g) {
					if sc := cs.Common().StaticCallee(); sc != nil {
						if rn := engine.RecvNamed(sc); rn != nil && rn.Obj() == o.typ.Obj() {
							work = append(work, sc)
						}
					}
				}
			}
		}
		recvOnQuit := func(v ssa.Value) bool {
			if u, ok := v.(*ssa.UnOp); ok {
				if fa, ok := u.X.(*ssa.FieldAddr); ok {
					return o.quits[fieldOfAddr(fa)]
				}
			}
			return false
		}
		for f := range seen {
			for _, g := range engine.WithClosures(f) {
				for _, b := range g.Blocks {
					for _, in := range b.Instrs {
						desc, ok := "", true
						switch t := in.(type) {
						case *ssa.Select:
							if !t.Blocking {
								continue
							}
							has := false
							for _, st := range t.States {
								if st.Dir == types.RecvOnly && recvOnQuit(st.Chan) {
									has = true
								}
							}
							desc, ok = "select", has
						case *ssa.Send:
							desc, ok = "send", false
						case *ssa.UnOp:
							if t.Op != token.ARROW {
								continue
							}
							desc, ok = "receive", recvOnQuit(t.X)
						default:
							continue
						}
						n++
						R.Check(ok, "R19.8", fmtf("%s|blocking %s", c.name(g), desc), P.Pos(in.Pos()), "the wait also ends when "+o.typ.Obj().Name()+"'s quit channel is closed", "a blocking "+desc+" in a goroutine that "+o.typ.Obj().Name()+".Close waits for has no case on the quit channel: when the peer has stopped reading, Close / RemoveUser block for ever")
					}
				}
			}
		}
	}
	R.Min("R19.8", "blocking channel operations in joined goroutines", n, 3)
}

func topClosureBody(f *ssa.Function) *ssa.Function {
	// a deferred closure's Done belongs to the function that defers it
	for f.Parent() != nil {
		par := f.Parent()
		deferred := false
		for _, b := range par.Blocks {
			for _, in := range b.Instrs {
				if d, ok := in.(*ssa.Defer); ok && engine.FuncValue(d.Call.Value) == f {
					deferred = true
				}
			}
		}
		if !deferred {
			return f
		}
		f = par
	}
	return f
}

// stateConfinement implements R19.1.
func (c *Ctx) stateConfinement() {
	P, R := c.P, c.R
	R.Explain("R19.1", "confinement: a *state.State belongs to its session goroutine; other goroutines (connector updates, other sessions, teardown) reach states only through user.states.  Wherever a State value comes out of that map (lookup, range, or the *State parameter of a callback closure in internal/backend), only methods that touch no mutable unsynchronised State field may be called on it (derived: a field is mutable if it is stored outside NewState; QueuedChannel/chan fields synchronise themselves), and it may not be handed to arbitrary code - unless the use is guarded by the own-state test (StateID equals the id taken from the context) or the value was looked up by the caller's own StateID.")
	stateT := c.lookupType("internal/state", "State")
	if stateT == nil {
		R.Fail("R19.1", "anchor:State", "", "type not found")
		return
	}
	st := stateT.Underlying().(*types.Struct)
	isStatePtr := func(t types.Type) bool {
		pt, ok := t.(*types.Pointer)
		return ok && types.Identical(pt.Elem(), stateT)
	}
	// mutable fields: stored outside the constructor
	mutable := map[string]bool{}
	for _, f := range c.funcsInPkg("internal/state") {
		if c.isAnchor(topFn(f), "internal/state.NewState") {
			continue
		}
		for _, b := range f.Blocks {
			for _, in := range b.Instrs {
				if sto, ok := in.(*ssa.Store); ok {
					if fa, ok := sto.Addr.(*ssa.FieldAddr); ok && isStatePtr(fa.X.Type()) {
						mutable[fieldOfAddr(fa).Name()] = true
					}
				}
			}
		}
	}
	var mrows []string
	for i := 0; i < st.NumFields(); i++ {
		fl := st.Field(i)
		kind := "immutable after NewState"
		if mutable[fl.Name()] {
			kind = "MUTABLE, unsynchronised: session goroutine only"
		}
		mrows = append(mrows, fl.Name()+": "+kind)
	}
	R.Table("R19.1 State fields (derived)", mrows...)
	R.Min("R19.1", "mutable State fields", len(mutable), 3)
	// touches(M): mutable fields M accesses on its receiver, transitively through methods called on the same receiver;
	// "*" if the receiver escapes into other code.
	memo := map[*ssa.Function]map[string]bool{}
	var touches func(f *ssa.Function, depth int) map[string]bool
	touches = func(f *ssa.Function, depth int) map[string]bool {
		if m, ok := memo[f]; ok {
			return m
		}
		out := map[string]bool{}
		memo[f] = out
		if len(f.Params) == 0 || !isStatePtr(f.Params[0].Type()) || depth > 6 {
			return out
		}
		recv := f.Params[0]
		isRecv := func(v ssa.Value) bool {
			for i := 0; i < 4; i++ {
				if v == ssa.Value(recv) {
					return true
				}
				u, ok := v.(*ssa.UnOp)
				if !ok {
					return false
				}
				al, ok := u.X.(*ssa.Alloc)
				if !ok {
					return false
				}
				sts := engine.StoresTo(al)
				if len(sts) != 1 {
					return false
				}
				v = sts[0].Val
			}
			return false
		}
		for _, g := range engine.WithClosures(f) {
			for _, b := range g.Blocks {
				for _, in := range b.Instrs {
					switch t := in.(type) {
					case *ssa.FieldAddr:
						if isStatePtr(t.X.Type()) && mutable[fieldOfAddr(t).Name()] {
							out[fieldOfAddr(t).Name()] = true
						}
					case ssa.CallInstruction:
						cc := t.Common()
						for ai, a := range cc.Args {
							if !isStatePtr(a.Type()) {
								continue
							}
							_ = isRecv
							sc := cc.StaticCallee()
							if sc != nil && ai == 0 && len(sc.Params) > 0 && isStatePtr(sc.Params[0].Type()) && engine.RelPkg(P.OwnPkgPath(sc)) == "internal/state" {
								for k := range touches(sc, depth+1) {
									out[k] = true
								}
							} else {
								out["*"] = true
							}
						}
					}
				}
			}
		}
		return out
	}
	// foreign State values
	type use struct {
		fn  *ssa.Function
		val ssa.Value
		how string
		own bool
	}
	var uses []use
	mapOfStates := func(t types.Type) bool {
		m, ok := t.Underlying().(*types.Map)
		return ok && isStatePtr(m.Elem())
	}
	for _, f := range c.productFuncs() {
		rel := engine.RelPkg(P.OwnPkgPath(f))
		if rel == "internal/state" || rel == "internal/session" {
			continue
		}
		// callback parameters
		if f.Parent() != nil {
			for _, p := range f.Params {
				if isStatePtr(p.Type()) {
					uses = append(uses, use{fn: f, val: p, how: "callback parameter"})
				}
			}
		}
		for _, b := range f.Blocks {
			for _, in := range b.Instrs {
				switch t := in.(type) {
				case *ssa.Lookup:
					if mapOfStates(t.X.Type()) {
						own := false
						// key is <*State param>.StateID
						if u, ok := t.Index.(*ssa.UnOp); ok {
							if fa, ok := u.X.(*ssa.FieldAddr); ok && isStatePtr(fa.X.Type()) && fieldOfAddr(fa).Name() == "StateID" {
								own = true
							}
						}
						var v ssa.Value = t
						if t.CommaOk {
							for _, r := range *t.Referrers() {
								if ex, ok := r.(*ssa.Extract); ok && ex.Index == 0 {
									v = ex
								}
							}
						}
						uses = append(uses, use{fn: f, val: v, how: "lookup in the states map", own: own})
					}
				case *ssa.Next:
					if rng, ok := t.Iter.(*ssa.Range); ok && mapOfStates(rng.X.Type()) {
						for _, r := range *t.Referrers() {
							if ex, ok := r.(*ssa.Extract); ok && ex.Index == 2 {
								uses = append(uses, use{fn: f, val: ex, how: "range over the states map"})
							}
						}
					}
				}
			}
		}
	}
	R.Min("R19.1", "places where a State leaves the states map", len(uses), 5)
	n := 0
	for _, u := range uses {
		if u.own {
			R.Pass("R19.1", c.name(u.fn)+"|own state lookup", P.Pos(u.val.Pos()), "looked up by the caller's own StateID")
			continue
		}
		// all values that alias u.val in fn and its closures (captured cells)
		for _, site := range stateUses(u.fn, u.val) {
			n++
			desc, unsafe := "", ""
			switch t := site.(type) {
			case *ssa.FieldAddr:
				fname := fieldOfAddr(t).Name()
				desc = "field " + fname
				if mutable[fname] {
					unsafe = "reads/writes the mutable field " + fname
				}
			case ssa.CallInstruction:
				cc := t.Common()
				sc := cc.StaticCallee()
				switch {
				case sc != nil && len(sc.Params) > 0 && isStatePtr(sc.Params[0].Type()) && len(cc.Args) > 0 && aliasOf(cc.Args[0], u.val):
					desc = "State." + engine.ShortName(sc)
					tt := touches(sc, 0)
					if len(tt) > 0 {
						var ks []string
						for k := range tt {
							ks = append(ks, k)
						}
						sort.Strings(ks)
						unsafe = "State." + engine.ShortName(sc) + " touches " + strings.Join(ks, ",")
					}
				case sc != nil && sc.Signature.Recv() == nil && strings.HasPrefix(engine.PkgPathOf(sc), "github.com/bradenaw/juniper"):
					continue
				case sc == nil && !cc.IsInvoke() && isFuncParam(cc.Value):
					// fn(state) where fn is a parameter: every closure passed for it is analysed as a callback
					continue
				default:
					name := "a call"
					if cc.IsInvoke() {
						name = engine.MethodName(cc.Method)
					} else if sc != nil {
						name = engine.ShortName(sc)
					} else {
						name = "a function value"
					}
					desc = "passed to " + name
					if sc != nil && (engine.ShortName(sc) == "Values" || engine.ShortName(sc) == "Keys") {
						continue
					}
					unsafe = "the state is handed to " + name + ", which may touch any of its fields"
				}
			default:
				continue
			}
			// keyed by the enclosing declared function (a private helper with a single calling function counts as part of
			// that function): closure ordinals shift when closures are added or removed, helpers get extracted
			key := fmtf("%s|%s", c.name(c.ownerFn(site.Parent())), desc)
			if unsafe != "" && ownStateGuard(site) {
				R.Pass("R19.1", key, P.Pos(site.Pos()), "guarded by the own-state test")
				continue
			}
			R.Check(unsafe == "", "R19.1", key, P.Pos(site.Pos()), "only thread-safe parts of a foreign State are used", unsafe+" on a State obtained from user.states ("+u.how+"): another goroutine than the owning session touches unsynchronised session state (data race)")
		}
	}
	R.Min("R19.1", "uses of foreign States", n, 6)
}

func aliasOf(v, root ssa.Value) bool {
	for i := 0; i < 6; i++ {
		if v == root {
			return true
		}
		switch t := v.(type) {
		case *ssa.UnOp:
			if t.Op != token.MUL {
				return false
			}
			switch x := t.X.(type) {
			case *ssa.Alloc:
				for _, s := range engine.StoresTo(x) {
					if aliasOf(s.Val, root) {
						return true
					}
				}
				return false
			case *ssa.FreeVar:
				for _, b := range engine.FreeVarBinding(x) {
					if al, ok := b.(*ssa.Alloc); ok {
						for _, s := range engine.StoresTo(al) {
							if aliasOf(s.Val, root) {
								return true
							}
						}
					}
				}
				return false
			}
			return false
		case *ssa.FreeVar:
			for _, b := range engine.FreeVarBinding(t) {
				if aliasOf(b, root) {
					return true
				}
			}
			return false
		case *ssa.ChangeType:
			v = t.X
		default:
			return false
		}
	}
	return false
}

// stateUses: instructions in fn and its closures that use (an alias of) v as a field base or call argument.
func stateUses(fn *ssa.Function, v ssa.Value) []ssa.Instruction {
	var out []ssa.Instruction
	for _, g := range engine.WithClosures(fn) {
		for _, b := range g.Blocks {
			for _, in := range b.Instrs {
				switch t := in.(type) {
				case *ssa.FieldAddr:
					if aliasOf(t.X, v) {
						out = append(out, in)
					}
				case ssa.CallInstruction:
					cc := t.Common()
					args := cc.Args
					if cc.IsInvoke() {
						args = append([]ssa.Value{cc.Value}, args...)
					}
					for _, a := range args {
						if aliasOf(a, v) {
							out = append(out, in)
							break
						}
					}
				}
			}
		}
	}
	return out
}

// ownStateGuard: the instruction is reached only when `<state>.StateID == id` holds, id
// coming from GetStateIDFromContext.
func ownStateGuard(in ssa.Instruction) bool {
	f := in.Parent()
	for _, d := range f.Blocks {
		iff := engine.IfOf(d)
		if iff == nil {
			continue
		}
		cmp, ok := iff.Cond.(*ssa.BinOp)
		if !ok || (cmp.Op != token.EQL && cmp.Op != token.NEQ) {
			continue
		}
		isSID := func(v ssa.Value) bool {
			u, ok := v.(*ssa.UnOp)
			if !ok {
				return false
			}
			fa, ok := u.X.(*ssa.FieldAddr)
			return ok && fieldOfAddr(fa).Name() == "StateID"
		}
		fromCtx := func(v ssa.Value) bool {
			return engine.AnyBackward(v, engine.FlowOpts{Loads: true}, func(x ssa.Value) bool {
				if ex, ok := x.(*ssa.Extract); ok {
					if call, ok := ex.Tuple.(*ssa.Call); ok && call.Call.StaticCallee() != nil && engine.ShortName(call.Call.StaticCallee()) == "GetStateIDFromContext" {
						return true
					}
				}
				if fv, ok := x.(*ssa.FreeVar); ok {
					for _, b := range engine.FreeVarBinding(fv) {
						if al, ok := b.(*ssa.Alloc); ok {
							for _, s := range engine.StoresTo(al) {
								if ex, ok := s.Val.(*ssa.Extract); ok {
									if call, ok := ex.Tuple.(*ssa.Call); ok && call.Call.StaticCallee() != nil && engine.ShortName(call.Call.StaticCallee()) == "GetStateIDFromContext" {
										return true
									}
								}
							}
						}
					}
				}
				return false
			})
		}
		if !((isSID(cmp.X) && fromCtx(cmp.Y)) || (isSID(cmp.Y) && fromCtx(cmp.X))) {
			continue
		}
		edge := 0
		if cmp.Op == token.NEQ {
			edge = 1
		}
		if engine.EdgeDominates(d, edge, in.Block()) {
			return true
		}
	}
	return false
}

func isFuncParam(v ssa.Value) bool {
	_, ok := v.(*ssa.Parameter)
	return ok
}

// unsharedObject: the pointer was produced in this function by an allocation or by sync.Pool.Get.
func unsharedObject(v ssa.Value) bool {
	for i := 0; i < 6; i++ {
		switch t := v.(type) {
		case *ssa.Alloc:
			return true
		case *ssa.TypeAssert:
			v = t.X
		case *ssa.Extract:
			v = t.Tuple
		case *ssa.Phi:
			for _, e := range t.Edges {
				if !unsharedObject(e) {
					return false
				}
			}
			return true
		case *ssa.Call:
			sc := t.Call.StaticCallee()
			return sc != nil && engine.ShortName(sc) == "Get" && engine.PkgPathOf(sc) == "sync" && engine.RecvNamed(sc) != nil && engine.RecvNamed(sc).Obj().Name() == "Pool"
		default:
			return false
		}
	}
	return false
}

// ---- R19.10 --------------------------------------------------------------------------------

// abandonedProducersAreDrained: a consumer that stops reading a handler's response channel keeps
// a goroutine reading it until the producer closes it.
func (c *Ctx) abandonedProducersAreDrained() {
	P, R := c.P, c.R
	R.Explain("R19.10", "no blocked producer is left behind: in the session's command loop (Session.serve or a method it delegates to) the loop that forwards a command handler's responses (range over the channel returned by handleOther) may be left before the channel is closed only after starting a goroutine that keeps receiving from that channel until it is closed - a plain range over the channel, with no select, no context and without handing the channel to other code.  Handlers send with blocking sends; if the drain can stop early the handler blocks for ever, handleWG.Wait never returns, the state is never released and RemoveUser/Close hang.")
	if c.fn("R19.10", "internal/session.(*Session).handleOther") == nil {
		return
	}
	n := 0
	type site struct {
		f  *ssa.Function
		cs engine.CallSite
	}
	var sites []site
	for _, g := range c.funcsInPkg("internal/session") {
		for _, cs := range engine.Calls(g) {
			sc := cs.Common().StaticCallee()
			if sc == nil || engine.ShortName(sc) != "handleOther" || cs.Instr.Parent() != g {
				continue
			}
			sites = append(sites, site{g, cs})
		}
	}
	for _, st := range sites {
		f, cs := st.f, st.cs
		ch, ok := cs.Instr.(*ssa.Call)
		if !ok {
			continue
		}
		// the receive loop on ch in serve
		var recv *ssa.UnOp
		for _, b := range f.Blocks {
			for _, in := range b.Instrs {
				if u, ok := in.(*ssa.UnOp); ok && u.Op == token.ARROW && (u.X == ssa.Value(ch) || sameOrCell(u.X, ch)) {
					recv = u
				}
			}
		}
		if recv == nil {
			R.Fail("R19.10", c.name(f)+"|responses-forwarded", P.Pos(ch.Pos()), "serve does not receive from the handler's response channel")
			continue
		}
		h := recv.Block()
		body := engine.LoopBody(h)
		if body == nil {
			R.Fail("R19.10", c.name(f)+"|responses-forwarded", P.Pos(recv.Pos()), "the handler's responses are not read in a loop")
			continue
		}
		// drain goroutines: go closures that range over ch until closed
		drains := map[ssa.Instruction]bool{}
		for _, b := range f.Blocks {
			for _, in := range b.Instrs {
				g, ok := in.(*ssa.Go)
				if !ok {
					continue
				}
				cl := engine.FuncValue(g.Call.Value)
				if cl == nil {
					continue
				}
				good, plain := false, true
				for _, cb := range cl.Blocks {
					for _, cin := range cb.Instrs {
						switch t := cin.(type) {
						case *ssa.Select:
							plain = false
						case *ssa.UnOp:
							if t.Op == token.ARROW && t.CommaOk {
								if fv, ok := t.X.(*ssa.UnOp); ok {
									if free, ok := fv.X.(*ssa.FreeVar); ok {
										for _, bnd := range engine.FreeVarBinding(free) {
											if al, ok := bnd.(*ssa.Alloc); ok {
												for _, st := range engine.StoresTo(al) {
													if st.Val == ssa.Value(ch) {
														good = true
													}
												}
											}
										}
									}
								}
								if free, ok := t.X.(*ssa.FreeVar); ok {
									for _, bnd := range engine.FreeVarBinding(free) {
										if bnd == ssa.Value(ch) {
											good = true
										}
									}
								}
							}
						case ssa.CallInstruction:
							// the channel must not be handed to other code (a context-aware helper can stop early)
							for _, a := range t.Common().Args {
								if _, isChan := a.Type().Underlying().(*types.Chan); isChan {
									plain = false
								}
							}
						}
					}
				}
				if good && plain {
					drains[in] = true
				}
			}
		}
		// every exit of the forwarding loop other than through the header's "closed" edge passes a drain
		for b := range body {
			if b == h {
				continue
			}
			for _, s := range b.Succs {
				if body[s] {
					continue
				}
				n++
				// exit edge b -> s: every way from s to a return of serve starts a drain first (or one was started before)
				covered := len(drains) > 0
				for d := range drains {
					if d.Block() == b || d.Block().Dominates(b) {
						covered = true
					}
				}
				if covered {
					for _, ret := range engine.Returns(f) {
						if engine.ReachesAvoidingFrom(s, 0, ret, drains, nil) {
							startedBefore := false
							for d := range drains {
								if d.Block() == b || d.Block().Dominates(b) {
									startedBefore = true
								}
							}
							if !startedBefore {
								covered = false
							}
						}
					}
				}
				R.Check(covered, "R19.10", c.name(f)+"|early exit of the response loop", P.Pos(firstPosOf(b)), "a goroutine keeps draining the channel until the handler closes it", "serve leaves the response loop before the handler closed its channel without starting a goroutine that plainly ranges over the channel until it is closed: the handler blocks on its next send for ever, the session never finishes and RemoveUser / Close hang")
			}
		}
	}
	R.Min("R19.10", "early exits of the response-forwarding loop", n, 1)
}

// plainSendsAreTabled (R19.11): a goroutine of the session never blocks in a send that nothing can interrupt.
func (c *Ctx) plainSendsAreTabled() {
	P, R := c.P, c.R
	R.Explain("R19.11", "no uninterruptible hand-over: in internal/session a plain blocking channel send (outside any select) is made only on the two channel kinds whose reader is guaranteed by other rules - the per-command response channel (chan response.Response, drained until closed: R19.10) and the application's event channel (events.Event, a queued channel).  Every other send - the command reader handing parsed commands to the session loop, ... - sits in a select with a case that fires on shutdown (<-ctx.Done() or a quit channel); a check-then-send (`if ctx.Err() != nil {return}; ch <- x`) blocks for ever once the receiver has gone, and the goroutine with its connection and buffers outlives Close.")
	allowedElem := func(t types.Type) bool {
		ch, ok := t.Underlying().(*types.Chan)
		if !ok {
			return false
		}
		return engine.IsNamed(ch.Elem(), "internal/response", "Response") || engine.IsNamed(ch.Elem(), "events", "Event")
	}
	n, sel := 0, 0
	for _, f := range c.funcsInPkg("internal/session") {
		for _, b := range f.Blocks {
			for _, in := range b.Instrs {
				switch t := in.(type) {
				case *ssa.Send:
					n++
					if allowedElem(t.Chan.Type()) {
						continue
					}
					// a channel made in this function with a constant capacity >= 1 (result slots): a send cannot block for ever
					if mc, ok := t.Chan.(*ssa.MakeChan); ok {
						if k, ok := mc.Size.(*ssa.Const); ok && k.Value != nil && k.Int64() >= 1 {
							continue
						}
					}
					R.Check(false, "R19.11", c.name(c.ownerFn(f))+"|plain send of "+types.TypeString(t.Chan.Type().Underlying().(*types.Chan).Elem(), func(p *types.Package) string { return p.Name() }), P.Pos(t.Pos()), "", "a blocking send outside a select: nothing can interrupt it when the receiver is gone (session ended, server closing); the goroutine leaks")
				case *ssa.Select:
					// a blocking select that sends on a non-tabled channel needs a receive case (shutdown signal)
					if !t.Blocking {
						continue
					}
					hasSend, hasRecv := false, false
					for _, st := range t.States {
						if st.Dir == types.SendOnly && !allowedElem(st.Chan.Type()) {
							hasSend = true
						}
						if st.Dir == types.RecvOnly {
							hasRecv = true
						}
					}
					if hasSend {
						sel++
						R.Check(hasRecv, "R19.11", c.name(c.ownerFn(f))+"|select with send", P.Pos(t.Pos()), "the select also waits for a shutdown signal", "a select that sends has no receive case: it cannot be interrupted on shutdown")
					}
				}
			}
		}
	}
	R.Stats["R19.11 plain sends seen (tabled kinds)"] = n
	R.Min("R19.11", "interruptible sends (select with a send on a non-tabled channel)", sel, 1)
}

// consumersDrainUntilClosed (R19.12): the goroutine that writes pushed responses to the client stays until the channel is closed.
func (c *Ctx) consumersDrainUntilClosed() {
	P, R := c.P, c.R
	R.Explain("R19.12", "a consumer outlives its producers: a function of internal/session that receives from a response channel it was handed (a chan response.Response parameter or captured variable - the IDLE push channel) returns only after it has seen the channel closed: every return is dominated by the `closed` outcome (ok == false) of a receive from that channel.  The producers (State.PushResponder while idleCh is set) send with blocking sends while holding the user's write transaction; a consumer that gives up early - on a failed write to a disconnected client - blocks the next push for ever, and with it every other session's writes, the update goroutine, RemoveUser and Close.")
	isHanded := func(v ssa.Value) bool {
		ch, ok := v.Type().Underlying().(*types.Chan)
		if !ok || !engine.IsNamed(ch.Elem(), "internal/response", "Response") {
			return false
		}
		for i := 0; i < 4; i++ {
			switch t := v.(type) {
			case *ssa.Parameter, *ssa.FreeVar:
				return true
			case *ssa.UnOp:
				v = t.X
				continue
			}
			break
		}
		return false
	}
	type info struct {
		receives bool
		closed   map[engine.Edge]bool
	}
	infos := map[*ssa.Function]*info{}
	funcs := c.funcsInPkg("internal/session")
	for _, f := range funcs {
		inf := &info{closed: map[engine.Edge]bool{}}
		infos[f] = inf
		for _, b := range f.Blocks {
			for _, in := range b.Instrs {
				var okVals []ssa.Value
				switch t := in.(type) {
				case *ssa.UnOp:
					if t.Op == token.ARROW && isHanded(t.X) {
						inf.receives = true
						if t.CommaOk && t.Referrers() != nil {
							for _, r := range *t.Referrers() {
								if ex, ok := r.(*ssa.Extract); ok && ex.Index == 1 {
									okVals = append(okVals, ex)
								}
							}
						}
					}
				case *ssa.Select:
					for _, st := range t.States {
						if st.Dir == types.RecvOnly && isHanded(st.Chan) {
							inf.receives = true
							if t.Referrers() != nil {
								for _, r := range *t.Referrers() {
									if ex, ok := r.(*ssa.Extract); ok && ex.Index == 1 {
										okVals = append(okVals, ex)
									}
								}
							}
						}
					}
				}
				for _, okv := range okVals {
					if okv.Referrers() == nil {
						continue
					}
					var visit func(v ssa.Value, neg bool)
					visit = func(v ssa.Value, neg bool) {
						for _, r := range *v.Referrers() {
							switch u := r.(type) {
							case *ssa.If:
								ix := 1 // ok == false
								if neg {
									ix = 0
								}
								inf.closed[engine.Edge{From: u.Block(), Succ: ix}] = true
							case *ssa.UnOp:
								if u.Op == token.NOT && u.Referrers() != nil {
									visit(u, !neg)
								}
							}
						}
					}
					visit(okv, false)
				}
			}
		}
	}
	// drainers: functions that return only after seeing the channel closed; calls handing the channel to a drainer count too
	drainer := map[*ssa.Function]bool{}
	escapes := func(f *ssa.Function) string {
		inf := infos[f]
		cut := map[ssa.Instruction]bool{}
		for _, cs := range engine.Calls(f) {
			if sc := cs.Common().StaticCallee(); sc != nil && drainer[sc] && cs.Instr.Parent() == f {
				for _, a := range cs.Common().Args {
					if isHanded(a) {
						cut[cs.Instr] = true
					}
				}
			}
		}
		for _, ret := range engine.Returns(f) {
			if engine.ReachesAvoiding(f, ret, cut, inf.closed) {
				p := P.Pos(ret.Pos())
				if p == "?" {
					p = P.Pos(firstPosOf(ret.Block()))
				}
				return p
			}
		}
		return ""
	}
	for round := 0; round < 3; round++ {
		for _, f := range funcs {
			if infos[f].receives && !drainer[f] && escapes(f) == "" {
				drainer[f] = true
			}
		}
	}
	n := 0
	for _, f := range funcs {
		consumer := infos[f].receives
		if !consumer {
			for _, cs := range engine.Calls(f) {
				if sc := cs.Common().StaticCallee(); sc != nil && drainer[sc] && cs.Instr.Parent() == f {
					for _, a := range cs.Common().Args {
						if isHanded(a) {
							consumer = true
						}
					}
				}
			}
		}
		if !consumer {
			continue
		}
		n++
		bad := escapes(f)
		R.Check(bad == "", "R19.12", c.name(c.ownerFn(f))+"|"+c.name(f)+" drains until closed", P.Pos(f.Pos()), "every return follows the observation that the channel is closed", "the consumer of a pushed-response channel can return ("+bad+") while the channel is still open: the next blocking push never completes and everything behind it hangs")
	}
	R.Min("R19.12", "consumers of handed response channels", n, 2)
}

// connectionsCloseWithTheServer (R19.13): stopping the server closes every accepted connection.
func (c *Ctx) connectionsCloseWithTheServer() {
	P, R := c.P, c.R
	R.Explain("R19.13", "Close reaches sessions in any protocol state: in Server.serve every connection received from the accept channel has its Close deferred in serve itself (a defer of the function that returns when the server stops), before the session goroutine is spawned - not only inside the per-connection goroutine.  A session that has not logged in has no state whose Done channel could stop it and its reader is blocked in conn.Read; closing the connection from serve is the only thing that ends it, otherwise the connection and three goroutines outlive Server.Close.")
	f := c.fn("R19.13", "gluon.(*Server).serve")
	if f == nil {
		f = c.fnOpt("(*Server).serve")
	}
	if f == nil {
		return
	}
	n := 0
	// connections: values of type net.Conn received in serve (select recv / <-ch)
	isConn := func(t types.Type) bool { return engine.IsNamed(t, "net", "Conn") }
	var conns []ssa.Value
	for _, b := range f.Blocks {
		for _, in := range b.Instrs {
			v, ok := in.(ssa.Value)
			if !ok {
				continue
			}
			switch t := in.(type) {
			case *ssa.Extract:
				if _, isSel := t.Tuple.(*ssa.Select); isSel && isConn(t.Type()) {
					conns = append(conns, v)
				}
				if u, isRecv := t.Tuple.(*ssa.UnOp); isRecv && u.Op == token.ARROW && isConn(t.Type()) {
					conns = append(conns, v)
				}
			case *ssa.UnOp:
				if t.Op == token.ARROW && isConn(t.Type()) {
					conns = append(conns, v)
				}
			}
		}
	}
	for _, conn := range conns {
		n++
		ok := false
		for _, b := range f.Blocks {
			for _, in := range b.Instrs {
				d, isDefer := in.(*ssa.Defer)
				if !isDefer {
					continue
				}
				if d.Call.IsInvoke() && engine.MethodName(d.Call.Method) == "Close" && sameOrCell(d.Call.Value, conn) {
					ok = true
				}
				// defer func() { conn.Close() }()
				if fn := engine.FuncValue(d.Call.Value); fn != nil {
					for _, cs := range engine.Calls(fn) {
						if cs.Common().IsInvoke() && engine.MethodName(cs.Common().Method) == "Close" && isConn(cs.Common().Value.Type()) {
							ok = true
						}
					}
				}
			}
		}
		R.Check(ok, "R19.13", c.name(f)+"|accepted connection closed when serve returns", P.Pos(conn.Pos()), "defer conn.Close() in serve", "an accepted connection is not closed by a defer of Server.serve: when the server stops, sessions that are not logged in keep their connection and goroutines")
	}
	R.Min("R19.13", "connections accepted in Server.serve", n, 1)
}

// ---- R19.15 --------------------------------------------------------------------------------

// condSignalsUnderLock: a sync.Cond waiter tests its predicate and calls Wait while holding cond.L.  A
// Broadcast/Signal that is issued without cond.L, by a function that did not pass through cond.L since it
// changed the predicate, can fall between the waiter's test and its Wait: the wake-up is lost and the waiter
// (the queue's pump goroutine) sleeps for ever.  Accepted forms: cond.L held at the call (in the function, in
// the function running the closure, or in every caller), or an Unlock of cond.L that dominates the call
// ("lock; change; unlock; signal").
func (c *Ctx) condSignalsUnderLock() {
	P, R := c.P, c.R
	R.Explain("R19.15", "every sync.Cond Broadcast/Signal is issued with cond.L held, or after the function passed through cond.L (an Unlock of cond.L dominates the call): otherwise the wake-up can fall between a waiter's predicate test and its Wait and is lost (goroutine that never ends).")
	n := 0
	for _, f := range c.productFuncs() {
		var held func(ssa.Instruction) map[string]bool
		for _, cs := range engine.Calls(f) {
			sc := cs.Common().StaticCallee()
			if sc == nil || sc.Pkg == nil || sc.Pkg.Pkg.Path() != "sync" || len(cs.Common().Args) == 0 {
				continue
			}
			if rn := engine.RecvNamed(sc); rn == nil || rn.Obj().Name() != "Cond" || (sc.Name() != "Broadcast" && sc.Name() != "Signal") {
				continue
			}
			n++
			key := c.name(f) + "|Cond." + sc.Name()
			base := engine.AccessPath(cs.Common().Args[0])
			if base == "" {
				R.Fail("R19.15", key, P.Pos(cs.Pos()), "the condition variable signalled here cannot be named (no access path): undecided")
				continue
			}
			want := base + ".L"
			if held == nil {
				held = engine.HeldAt(f)
			}
			h := held(cs.Instr)
			ok := h[want]
			how := "cond.L held at the call"
			if !ok {
				for _, op := range engine.LockOps(f) {
					if op.Acquire || op.Deferred || op.Path != want {
						continue
					}
					ob, cb := op.Instr.Block(), cs.Instr.Block()
					if ob == cb {
						for _, in := range ob.Instrs {
							if in == op.Instr {
								ok = true
								break
							}
							if in == cs.Instr {
								break
							}
						}
					} else if ob.Dominates(cb) {
						ok = true
					}
					if ok {
						how = "an Unlock of cond.L dominates the call (the function passed through the lock)"
						break
					}
				}
			}
			if !ok && f.Parent() != nil && c.closureRunsUnderLock(f, "L") {
				ok, how = true, "closure run while the creator holds cond.L"
			}
			if !ok && f.Parent() == nil {
				root, rest := base, ""
				if i := strings.Index(base, "."); i >= 0 {
					root, rest = base[:i], base[i+1:]
				}
				for pi, p := range f.Params {
					if p.Name() == root {
						lp := "L"
						if rest != "" {
							lp = rest + ".L"
						}
						if c.heldByAllCallers(f, pi, lp, 0) {
							ok, how = true, "cond.L held by every caller"
						}
					}
				}
			}
			R.Check(ok, "R19.15", key, P.Pos(cs.Pos()), how,
				"sync.Cond."+sc.Name()+" is issued without "+want+" held (held: "+engine.HeldString(h)+") and the function did not pass through that lock before: the wake-up can fall between a waiter's predicate test and its Wait and is lost - the waiting goroutine (queue pump) never ends")
		}
	}
	R.Min("R19.15", "sync.Cond Broadcast/Signal call sites", n, 2)
}
