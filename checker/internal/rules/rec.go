package rules

import (
	"sort"
	"strings"

	"golang.org/x/tools/go/ssa"

	"verifchecker/internal/engine"
)

// recursionCycles returns the strongly connected components (size>1 or self loop) of the
// static call graph restricted to the given packages (closures belong to their parent's
// component through the creation edge).
func (c *Ctx) recursionCycles(pkgs ...string) [][]*ssa.Function {
	own := map[string]bool{}
	for _, p := range pkgs {
		own[p] = true
	}
	var fns []*ssa.Function
	in := map[*ssa.Function]bool{}
	for _, f := range c.P.Funcs {
		if own[engine.RelPkg(c.P.OwnPkgPath(f))] {
			fns = append(fns, f)
			in[f] = true
		}
	}
	succ := func(f *ssa.Function) []*ssa.Function {
		var out []*ssa.Function
		seen := map[*ssa.Function]bool{}
		add := func(g *ssa.Function) {
			g = engine.Unwrap2(g)
			if g != nil && in[g] && !seen[g] {
				seen[g] = true
				out = append(out, g)
			}
		}
		for _, cs := range engine.Calls(f) {
			for _, g := range c.P.Callees(cs) {
				add(g)
			}
		}
		for _, a := range f.AnonFuncs {
			add(a)
		}
		sort.Slice(out, func(i, j int) bool { return out[i].String() < out[j].String() })
		return out
	}
	index := map[*ssa.Function]int{}
	low := map[*ssa.Function]int{}
	on := map[*ssa.Function]bool{}
	var stack []*ssa.Function
	idx := 0
	var comps [][]*ssa.Function
	var strong func(v *ssa.Function)
	strong = func(v *ssa.Function) {
		index[v], low[v] = idx, idx
		idx++
		stack = append(stack, v)
		on[v] = true
		for _, w := range succ(v) {
			if _, ok := index[w]; !ok {
				strong(w)
				if low[w] < low[v] {
					low[v] = low[w]
				}
			} else if on[w] && index[w] < low[v] {
				low[v] = index[w]
			}
		}
		if low[v] == index[v] {
			var comp []*ssa.Function
			for {
				w := stack[len(stack)-1]
				stack = stack[:len(stack)-1]
				on[w] = false
				comp = append(comp, w)
				if w == v {
					break
				}
			}
			self := false
			if len(comp) == 1 {
				for _, s := range succ(comp[0]) {
					if s == comp[0] {
						self = true
					}
				}
			}
			if len(comp) > 1 || self {
				sort.Slice(comp, func(i, j int) bool { return comp[i].String() < comp[j].String() })
				comps = append(comps, comp)
			}
		}
	}
	for _, f := range fns {
		if _, ok := index[f]; !ok {
			strong(f)
		}
	}
	sort.Slice(comps, func(i, j int) bool { return comps[i][0].String() < comps[j][0].String() })
	return comps
}

func (c *Ctx) cycleName(comp []*ssa.Function) string {
	var n []string
	for _, f := range comp {
		n = append(n, c.name(f))
	}
	return strings.Join(n, " <-> ")
}

// depthGuards finds functions that implement a depth counter: a field is compared with a
// constant (exceed -> non-nil error return) and incremented by one.
func (c *Ctx) depthGuards() map[*ssa.Function]bool {
	out := map[*ssa.Function]bool{}
	for _, f := range c.productFuncs() {
		if len(f.Blocks) == 0 {
			continue
		}
		var incField, cmpField []*ssa.FieldAddr
		errExit := false
		for _, b := range f.Blocks {
			for _, in := range b.Instrs {
				switch t := in.(type) {
				case *ssa.Store:
					fa, ok := t.Addr.(*ssa.FieldAddr)
					if !ok {
						continue
					}
					if add, ok := t.Val.(*ssa.BinOp); ok && add.Op.String() == "+" {
						if ld, ok := add.X.(*ssa.UnOp); ok {
							if fa2, ok := ld.X.(*ssa.FieldAddr); ok && fa2.Field == fa.Field && fa2.X == fa.X {
								if k, ok := add.Y.(*ssa.Const); ok && k.Value != nil && k.Value.ExactString() == "1" {
									incField = append(incField, fa)
								}
							}
						}
					}
				case *ssa.If:
					cmp, ok := t.Cond.(*ssa.BinOp)
					if !ok {
						continue
					}
					// orientation: which successor is taken when the counter is at/above the constant
					var fld *ssa.FieldAddr
					var k *ssa.Const
					exceedIx := -1
					if ld, ok := cmp.X.(*ssa.UnOp); ok {
						if fa, ok := ld.X.(*ssa.FieldAddr); ok {
							if kc, ok := cmp.Y.(*ssa.Const); ok {
								fld, k = fa, kc
								switch cmp.Op.String() {
								case ">=", ">":
									exceedIx = 0
								case "<", "<=":
									exceedIx = 1
								}
							}
						}
					}
					if ld, ok := cmp.Y.(*ssa.UnOp); ok && fld == nil {
						if fa, ok := ld.X.(*ssa.FieldAddr); ok {
							if kc, ok := cmp.X.(*ssa.Const); ok {
								fld, k = fa, kc
								switch cmp.Op.String() {
								case "<=", "<":
									exceedIx = 0
								case ">", ">=":
									exceedIx = 1
								}
							}
						}
					}
					if fld == nil || exceedIx < 0 || k.Value == nil {
						continue
					}
					lim, exact := constantInt64(k)
					if !exact || lim < 1 || lim > 100000 {
						continue
					}
					// the exceeding edge must return a non-nil error
					tgt := t.Block().Succs[exceedIx]
					if len(tgt.Instrs) > 0 {
						if ret, ok := tgt.Instrs[len(tgt.Instrs)-1].(*ssa.Return); ok {
							if lr := engine.LastResult(ret); lr != nil && !engine.IsNilConst(lr) {
								cmpField = append(cmpField, fld)
							}
						}
					}
				case *ssa.Return:
					if lr := engine.LastResult(t); lr != nil && !engine.IsNilConst(lr) {
						if _, isErr := lr.Type().Underlying().(interface{ NumMethods() int }); isErr {
							errExit = true
						}
					}
				}
			}
		}
		ok := false
		for _, a := range incField {
			for _, b := range cmpField {
				if a.Field == b.Field && a.X == b.X {
					ok = true
				}
			}
		}
		if ok && errExit {
			out[f] = true
		}
	}
	return out
}

// guardedFns: members of the component all of whose calls into the component are
// dominated by the nil edge of a depth-guard call.
func (c *Ctx) guardedMembers(comp []*ssa.Function, guards map[*ssa.Function]bool) map[*ssa.Function]bool {
	in := map[*ssa.Function]bool{}
	for _, f := range comp {
		in[f] = true
	}
	out := map[*ssa.Function]bool{}
	for _, f := range comp {
		var gcalls []*ssa.Call
		for _, cs := range engine.Calls(f) {
			if sc := cs.Common().StaticCallee(); sc != nil && guards[sc] {
				if call, ok := cs.Instr.(*ssa.Call); ok {
					gcalls = append(gcalls, call)
				}
			}
		}
		if len(gcalls) == 0 {
			continue
		}
		all := true
		n := 0
		for _, cs := range engine.Calls(f) {
			rec := false
			for _, g := range c.P.Callees(cs) {
				if in[engine.Unwrap2(g)] {
					rec = true
				}
			}
			if !rec {
				continue
			}
			n++
			covered := false
			for _, gc := range gcalls {
				// nil edge of `if err := guard(); err != nil`
				for _, r := range *gc.Referrers() {
					bin, ok := r.(*ssa.BinOp)
					if !ok {
						continue
					}
					for _, r2 := range *bin.Referrers() {
						iff, ok := r2.(*ssa.If)
						if !ok {
							continue
						}
						nilIx := 1
						if bin.Op.String() == "==" {
							nilIx = 0
						}
						if engine.EdgeDominates(iff.Block(), nilIx, cs.Instr.Block()) {
							covered = true
						}
					}
				}
			}
			if !covered {
				all = false
			}
		}
		// closures of f that call into the component are covered if f itself is guarded at entry
		if all && n >= 0 {
			out[f] = true
		}
	}
	return out
}

// acyclicWithout: removing the guarded members breaks every cycle of the component.
func (c *Ctx) acyclicWithout(comp []*ssa.Function, removed map[*ssa.Function]bool) bool {
	in := map[*ssa.Function]bool{}
	for _, f := range comp {
		if !removed[f] {
			in[f] = true
		}
	}
	state := map[*ssa.Function]int{}
	var visit func(f *ssa.Function) bool
	visit = func(f *ssa.Function) bool {
		state[f] = 1
		var next []*ssa.Function
		for _, cs := range engine.Calls(f) {
			for _, g := range c.P.Callees(cs) {
				next = append(next, engine.Unwrap2(g))
			}
		}
		next = append(next, f.AnonFuncs...)
		for _, g := range next {
			if !in[g] {
				continue
			}
			if state[g] == 1 {
				return false
			}
			if state[g] == 0 && !visit(g) {
				return false
			}
		}
		state[f] = 2
		return true
	}
	for f := range in {
		if state[f] == 0 && !visit(f) {
			return false
		}
	}
	return true
}

func constantInt64(k *ssa.Const) (int64, bool) {
	if k.Value == nil {
		return 0, false
	}
	var n int64
	str := k.Value.ExactString()
	for _, ch := range str {
		if ch < '0' || ch > '9' {
			return 0, false
		}
		n = n*10 + int64(ch-'0')
		if n > 1<<40 {
			return 0, false
		}
	}
	return n, true
}
