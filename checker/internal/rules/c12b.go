package rules

import (
	"go/constant"
	"go/token"
	"go/types"
	"strings"

	"golang.org/x/tools/go/ssa"

	"verifchecker/internal/engine"
)

// listWriterDiscipline implements R12.4 / R12.5: the text of ENVELOPE / BODY / BODYSTRUCTURE
// is produced only through the parenthesised-list writer.
func (c *Ctx) listWriterDiscipline() {
	P, R := c.P, c.R
	R.Explain("R12.4", "quoting discipline of the parenthesised-list writer (T-SOURCE): every string handed to parListWriter.writeString outside the writer implementations is a constant, the result of strconv.Quote, or a formatted number (strconv.Itoa/FormatInt/FormatUint); every byte handed to writeByte is one of the constants '(' ')' ' '.  A header value reaching the writer unquoted can close the string early and destroy the list structure.")
	R.Explain("R12.5", "parenthesis pairing (T-PAIR): every list opened with newParamListWithGroup / newChildList is closed with finish on every path to a nil-error return of the opening function (directly or deferred).")
	isWriterMethod := func(cs engine.CallSite, name string) bool {
		cc := cs.Common()
		if cc.IsInvoke() {
			return engine.MethodName(cc.Method) == name && engine.IsNamed(cc.Value.Type(), "imap", "parListWriter")
		}
		sc := cc.StaticCallee()
		if sc == nil || engine.ShortName(sc) != name {
			return false
		}
		rn := engine.RecvNamed(sc)
		return rn != nil && strings.HasSuffix(rn.Obj().Name(), "ParListWriter")
	}
	okString := func(v ssa.Value) (bool, string) {
		bad := ""
		seen := map[ssa.Value]bool{}
		var rec func(v ssa.Value, d int) bool
		rec = func(v ssa.Value, d int) bool {
			if seen[v] {
				return true
			}
			seen[v] = true
			if d > 12 {
				bad = "too deep"
				return false
			}
			switch t := v.(type) {
			case *ssa.Const:
				return true
			case *ssa.Phi:
				for _, e := range t.Edges {
					if !rec(e, d+1) {
						return false
					}
				}
				return true
			case *ssa.UnOp:
				if t.Op == token.MUL {
					if al, ok := t.X.(*ssa.Alloc); ok {
						sts := engine.StoresTo(al)
						if len(sts) == 0 {
							bad = "uninitialised cell"
							return false
						}
						for _, s := range sts {
							if !rec(s.Val, d+1) {
								return false
							}
						}
						return true
					}
				}
			case *ssa.Call:
				if sc := t.Call.StaticCallee(); sc != nil && engine.PkgPathOf(sc) == "strconv" {
					switch engine.ShortName(sc) {
					case "Quote", "Itoa", "FormatInt", "FormatUint":
						return true
					}
				}
				// a helper of this package: every string it can return must qualify
				if sc := t.Call.StaticCallee(); sc != nil && len(sc.Blocks) > 0 && engine.RelPkg(P.OwnPkgPath(sc)) == "imap" {
					rets := engine.Returns(sc)
					if len(rets) == 0 {
						break
					}
					for _, r := range rets {
						if len(r.Results) != 1 || !rec(engine.ResultOf(r, 0), d+1) {
							return false
						}
					}
					return true
				}
			}
			bad = valName(v) + " (" + v.String() + ")"
			return false
		}
		ok := rec(v, 0)
		return ok, bad
	}
	nw := 0
	for _, f := range c.funcsInPkg("imap") {
		if rn := engine.RecvNamed(f); rn != nil && strings.HasSuffix(rn.Obj().Name(), "ParListWriter") {
			continue // the writer implementations forward what they are given
		}
		for _, cs := range engine.Calls(f) {
			switch {
			case isWriterMethod(cs, "writeString"):
				nw++
				args := cs.Common().Args
				ok, bad := okString(args[len(args)-1])
				if !ok && guardedByQuoteFreePredicate(f, cs.Instr, args[len(args)-1]) {
					R.Pass("R12.4", c.name(f)+"|writeString raw-but-checked", P.Pos(cs.Pos()), "raw string written only when a predicate that rejects both '\"' and '\\' accepted it")
					continue
				}
				R.Check(ok, "R12.4", c.name(f)+"|writeString", P.Pos(cs.Pos()), "constant, strconv.Quote result or formatted number", "the list writer is given "+bad+", which is neither a constant, a strconv.Quote result nor a formatted number: a value containing \" or \\ ends the quoted string early and the ENVELOPE/BODYSTRUCTURE list is no longer well formed")
			case isWriterMethod(cs, "writeByte"):
				nw++
				args := cs.Common().Args
				k, isConst := args[len(args)-1].(*ssa.Const)
				ok := false
				if isConst && k.Value != nil && k.Value.Kind() == constant.Int {
					if v, exact := constant.Int64Val(k.Value); exact && (v == '(' || v == ')' || v == ' ' || v == '"') {
						ok = true
					}
				}
				R.Check(ok, "R12.4", c.name(f)+"|writeByte", P.Pos(cs.Pos()), "structural byte constant", "the list writer is given a byte that is not one of the constants '(' ')' ' ' '\"'")
			}
		}
	}
	R.Min("R12.4", "list-writer call sites", nw, 6)

	// pairing
	np := 0
	for _, f := range c.funcsInPkg("imap") {
		for _, cs := range engine.Calls(f) {
			sc := cs.Common().StaticCallee()
			if sc == nil || (engine.ShortName(sc) != "newChildList" && engine.ShortName(sc) != "newParamListWithGroup") || cs.Instr.Parent() != f {
				continue
			}
			if engine.ShortName(f) == "newChildList" {
				continue // forwards the opened list to its caller
			}
			call, ok := cs.Instr.(*ssa.Call)
			if !ok {
				continue
			}
			np++
			// the cell(s) the list value is stored in
			cells := map[ssa.Value]bool{}
			for _, r := range *call.Referrers() {
				if st, ok := r.(*ssa.Store); ok && st.Val == ssa.Value(call) {
					cells[st.Addr] = true
				}
			}
			cut := map[ssa.Instruction]bool{}
			for _, cs2 := range engine.Calls(f) {
				if fin := cs2.Common().StaticCallee(); fin == nil || engine.ShortName(fin) != "finish" || len(cs2.Common().Args) == 0 {
					continue
				}
				recv := cs2.Common().Args[0]
				if cells[recv] {
					if _, isDefer := cs2.Instr.(*ssa.Defer); isDefer && engine.InstrReaches(cs.Instr, cs2.Instr) {
						// a deferred finish covers every later exit: model as cut at the defer
						cut[cs2.Instr] = true
					} else {
						cut[cs2.Instr] = true
					}
				}
			}
			bad := ""
			for _, ret := range engine.Returns(f) {
				if lr := engine.LastResult(ret); lr != nil && isErrorType(lr.Type()) && !engine.IsNilConst(lr) {
					continue // the caller discards the text on error
				}
				if engine.InstrReaches(cs.Instr, ret) && engine.ReachesAvoidingFrom(cs.Instr.Block(), engine.InstrIndex(cs.Instr)+1, ret, cut, nil) {
					bad = P.Pos(ret.Pos())
				}
			}
			R.Check(len(cut) > 0 && bad == "", "R12.5", fmtf("%s|%s", c.name(f), engine.ShortName(sc)), P.Pos(cs.Pos()), "closed with finish on every success path", "a list opened here reaches a successful return ("+bad+") without finish: the '(' is never matched by ')' and the produced ENVELOPE/BODYSTRUCTURE is not a well-formed list")
		}
	}
	R.Min("R12.5", "list openings", np, 6)
}

// guardedByQuoteFreePredicate: the write of v is dominated by the true edge of p(v) where p is a
// function of package imap that compares the bytes of its argument with both '"' and '\\'.
func guardedByQuoteFreePredicate(f *ssa.Function, at ssa.Instruction, v ssa.Value) bool {
	for _, b := range f.Blocks {
		iff := engine.IfOf(b)
		if iff == nil {
			continue
		}
		call, ok := iff.Cond.(*ssa.Call)
		if !ok || call.Call.StaticCallee() == nil || len(call.Call.Args) != 1 || call.Call.Args[0] != v {
			continue
		}
		if !engine.EdgeDominates(b, 0, at.Block()) {
			continue
		}
		p := call.Call.StaticCallee()
		if len(p.Blocks) == 0 {
			continue
		}
		consts := map[int64]bool{}
		for _, pb := range p.Blocks {
			for _, in := range pb.Instrs {
				bo, ok := in.(*ssa.BinOp)
				if !ok || (bo.Op != token.EQL && bo.Op != token.NEQ) {
					continue
				}
				for _, side := range []ssa.Value{bo.X, bo.Y} {
					if k, ok := side.(*ssa.Const); ok && k.Value != nil && k.Value.Kind() == constant.Int {
						if x, exact := constant.Int64Val(k.Value); exact {
							consts[x] = true
						}
					}
				}
			}
		}
		if consts['"'] && consts['\\'] {
			return true
		}
	}
	return false
}

// sectionWindow (R12.7 / R13.5): a MIME section only ever slices its own window of the message.
func (c *Ctx) sectionWindow(rule string) {
	P, R := c.P, c.R
	R.Explain(rule, "containment by construction: in package rfc822 every slice of a Section's literal taken by a method of Section has an explicit lower and upper bound, each read from an offset field of the same Section (header/body/end): a part - and the boundary scanner that discovers its children - never sees bytes outside [start,end) of the part, so every reported part lies inside its parent and BODY[n.m] is that part's bytes.  What the offsets are is decided by the scanner and not checked here.")
	n := 0
	for _, f := range c.funcsInPkg("rfc822") {
		rn := engine.RecvNamed(f)
		if rn == nil || rn.Obj().Name() != "Section" || len(f.Params) == 0 {
			continue
		}
		for _, b := range f.Blocks {
			for _, in := range b.Instrs {
				sl, ok := in.(*ssa.Slice)
				if !ok {
					continue
				}
				ld, ok := sl.X.(*ssa.UnOp)
				if !ok {
					continue
				}
				fa, ok := ld.X.(*ssa.FieldAddr)
				if !ok || fieldOfAddr(fa).Name() != "literal" || engine.AccessPath(fa.X) != f.Params[0].Name() {
					continue
				}
				n++
				offsetOfSelf := func(v ssa.Value) bool {
					if v == nil {
						return false
					}
					u, ok := v.(*ssa.UnOp)
					if !ok {
						return false
					}
					ofa, ok := u.X.(*ssa.FieldAddr)
					return ok && engine.AccessPath(ofa.X) == f.Params[0].Name() && isIntKind(fieldOfAddr(ofa).Type())
				}
				ok2 := offsetOfSelf(sl.Low) && offsetOfSelf(sl.High)
				R.Check(ok2, rule, fmtf("%s|literal[%s:%s]", c.name(f), optName(sl.Low), optName(sl.High)), P.Pos(sl.Pos()), "window bounded by the section's own offsets", "a Section slices the message literal without bounding it by its own offsets on both sides: the part (or the scanner looking for its children) sees bytes of its siblings/parent, so reported parts overlap and sizes/bodies are wrong")
			}
		}
	}
	R.Min(rule, "slices of Section.literal in Section methods", n, 2)
}

func isIntKind(t types.Type) bool {
	b, ok := t.Underlying().(*types.Basic)
	return ok && b.Info()&types.IsInteger != 0
}
