package rules

import (
	"fmt"
	"go/types"
	"sort"
	"strings"

	"golang.org/x/tools/go/ssa"

	"verifchecker/internal/engine"
	"verifchecker/internal/sqlx"
)

// sqlOb is one obligation produced by the T-SQL engine, attributed to the function that
// contains the statement site.
type sqlOb struct {
	rule, key, pos, msg string
	ok                  bool
	fn                  *ssa.Function // top-level function containing the site
}

type sqlResult struct {
	obs        []sqlOb
	db         *sqlx.DB
	sites      int
	chunkSites int
	migSites   int
	samples    []string
	ix         *sqlx.Index
	siteFns    map[*ssa.Function]bool
	varLimit   int
	stmts      []sqlStmt
}

// sqlStmt is one instantiated statement text with the function it originates in.
type sqlStmt struct {
	fn   *ssa.Function
	pos  string
	text string
	mig  bool
}

func topFn(f *ssa.Function) *ssa.Function {
	for f.Parent() != nil {
		f = f.Parent()
	}
	return f
}

func (c *Ctx) sqlAnalysis() *sqlResult {
	if c.sql != nil {
		return c.sql
	}
	P := c.P
	res := &sqlResult{siteFns: map[*ssa.Function]bool{}}
	c.sql = res
	add := func(fn *ssa.Function, ok bool, rule, key, pos, msgOK, msgFail string) {
		m := msgOK
		if !ok {
			m = msgFail
		}
		res.obs = append(res.obs, sqlOb{rule, key, pos, m, ok, topFn(fn)})
	}
	db, err := sqlx.OpenDB()
	if err != nil {
		panic("cannot open in-memory SQLite: " + err.Error())
	}
	res.db = db
	res.varLimit = db.VariableLimit()

	funcs := c.productFuncs()
	ix := sqlx.BuildIndex(P, funcs)
	res.ix = ix
	siteByCall := map[ssa.CallInstruction]*sqlx.Site{}
	for _, s := range ix.Sites {
		siteByCall[s.Call] = s
	}
	visited := map[*sqlx.Site]bool{}
	ordinal := map[string]int{}
	siteKey := func(s *sqlx.Site) string {
		return fmtf("%s|%s", c.name(s.Fn), s.Via)
	}

	vals := []int64{2, 4}
	render := func(q sqlx.SymStr) (string, func(string) int64, error) {
		var lastErr error
		for _, v := range vals {
			v := v
			val := func(string) int64 { return v }
			s, err := q.Render(val)
			if err == nil {
				return s, val, nil
			}
			lastErr = err
		}
		return "", nil, lastErr
	}

	// evaluate one site in the given frame; inMigration executes DDL
	var evalSite func(s *sqlx.Site, fr *sqlx.Frame, inMigration bool, ctxName string)
	evalSite = func(s *sqlx.Site, fr *sqlx.Frame, inMigration bool, ctxName string) {
		res.sites++
		res.siteFns[topFn(s.Fn)] = true
		pos := P.Pos(s.Call.Pos())
		base := siteKey(s)
		if ctxName != "" {
			base += "@" + ctxName
		}
		ordinal[base]++
		if n := ordinal[base]; n > 1 {
			base = fmtf("%s#%d", base, n)
		}
		var queries []sqlx.SymStr
		if s.Query != nil {
			queries = fr.EvalStr(s.Query)
		} else if s.Stmt != nil {
			if ps := sqlx.StmtQuery(ix, s.Stmt); ps != nil {
				queries = fr.EvalStr(ps.Query)
			} else {
				add(s.Fn, false, "R08.1", base+"|stmt-origin", pos, "", "statement handle does not come from a PrepareStatement in the same function: its text cannot be determined")
				return
			}
		}
		if len(queries) == 0 {
			add(s.Fn, false, "R08.1", base+"|query", pos, "", "statement text could not be evaluated")
			return
		}
		var argLen sqlx.Poly
		if s.Kind != "prepare" {
			if s.Args == nil {
				argLen = sqlx.Const(0)
			} else {
				argLen = fr.EvalLen(s.Args)
			}
		}
		for qi, q := range queries {
			k := base
			if len(queries) > 1 {
				k = fmtf("%s/alt%d", base, qi+1)
			}
			if why := q.OpaqueReason(); why != "" {
				add(s.Fn, false, "R08.1", k+"|evaluable", pos, "", "statement text is not statically evaluable ("+why+"): "+q.String())
				continue
			}
			text, val, err := render(q)
			if err != nil {
				add(s.Fn, false, "R08.1", k+"|evaluable", pos, "", "statement cannot be instantiated: "+err.Error()+": "+q.String())
				continue
			}
			if len(res.samples) < 12 {
				res.samples = append(res.samples, pos+": "+q.String())
			}
			res.stmts = append(res.stmts, sqlStmt{fn: topFn(s.Fn), pos: pos, text: text, mig: inMigration})
			isDDL := sqlx.IsDDL(text)
			var prep *sqlx.Prepared
			switch {
			case isDDL && inMigration && s.Stmt == nil:
				err = db.ExecDDL(text)
				if err != nil && strings.Contains(err.Error(), "already exists") && db.HasExecuted(text) {
					err = nil
				}
			case isDDL && strings.HasPrefix(strings.ToUpper(strings.TrimSpace(text)), "CREATE TABLE"):
				name := createdTable(text)
				if have := db.TableSQL(name); have != "" {
					if normSQL(have) != normSQL(text) {
						err = fmt.Errorf("table %s is created with two different definitions", name)
					}
				} else {
					err = db.ExecDDL(text)
				}
			default:
				prep, err = db.Prepare(text)
			}
			add(s.Fn, err == nil, "R08.1", k+"|valid", pos,
				"statement is accepted by SQLite against the schema built from the migrations",
				fmtf("SQLite rejects the statement: %v — %s", err, text))
			if err != nil {
				continue
			}
			ph := q.Placeholders()
			if prep != nil {
				want := ph.Eval(val)
				if !want.IsInt() || int(want.Num().Int64()) != prep.NumInput {
					add(s.Fn, false, "R08.1", k+"|placeholder-count", pos, "", fmtf("internal cross-check: symbolic placeholder count %s disagrees with SQLite's count %d for %s", ph, prep.NumInput, text))
				}
			}
			if s.Kind == "prepare" {
				continue
			}
			// R08.2 arity
			add(s.Fn, ph.Equal(argLen), "R08.2", k+"|arity", pos,
				fmtf("placeholders = bound arguments = %s", ph),
				fmtf("statement has %s placeholders but %s arguments are bound (go-sqlite3 silently ignores surplus arguments and binds NULL for missing ones): %s", ph, argLen, q.String()))
			// R08.3/4 bounds
			c.sqlBounds(res, add, s, fr, k, pos, ph, argLen)
			// R08.7 scan arity
			if prep != nil && prep.Columns >= 0 && (s.Kind == "query" || s.Kind == "queryrow") {
				want := -1
				if s.Mapper != nil {
					if n, ok := sqlx.ScanArity(s.Mapper); ok {
						want = n
					}
				} else if s.ScalarRow {
					want = 1
				}
				if want >= 0 {
					add(s.Fn, want == prep.Columns, "R08.7", k+"|scan", pos,
						fmtf("%d result columns scanned into %d destinations", prep.Columns, want),
						fmtf("statement yields %d columns but the row mapper scans %d destinations: %s", prep.Columns, want, text))
				}
			}
		}
	}

	// ---- migrations in migrationList order ------------------------------------------
	migs := c.migrationRuns()
	if len(migs) == 0 {
		res.obs = append(res.obs, sqlOb{"R08.1", "anchor:migrationList", "", "migrationList (ordered list of schema migrations) not found: the schema cannot be built", false, nil})
	}
	sh := sqlx.NewShared(P)
	var walk func(fn *ssa.Function, fr *sqlx.Frame, stack map[*ssa.Function]bool, ctxName string)
	walk = func(fn *ssa.Function, fr *sqlx.Frame, stack map[*ssa.Function]bool, ctxName string) {
		if stack[fn] || len(stack) > 12 {
			return
		}
		stack[fn] = true
		defer delete(stack, fn)
		calls := engine.Calls(fn)
		sort.SliceStable(calls, func(i, j int) bool { return calls[i].Pos() < calls[j].Pos() })
		for _, cs := range calls {
			if _, isDefer := cs.Instr.(*ssa.Defer); isDefer {
				continue
			}
			if s := siteByCall[cs.Instr]; s != nil {
				visited[s] = true
				res.migSites++
				evalSite(s, fr, true, ctxName)
				continue
			}
			for _, callee := range P.Callees(cs) {
				if !P.IsOwn(callee) || len(callee.Blocks) == 0 {
					continue
				}
				rel := engine.RelPkg(P.OwnPkgPath(callee))
				if !strings.HasPrefix(rel, "internal/db_impl/sqlite3") {
					continue
				}
				if ix.Forwarders[callee] != nil || (callee.Origin() != nil && ix.Forwarders[callee.Origin()] != nil) {
					continue
				}
				sub := ctxName
				if callee.Parent() == nil {
					sub = ctxName + ">" + engine.ShortName(callee)
					if rn := engine.RecvNamed(callee); rn != nil {
						sub = ctxName + ">" + rn.Obj().Name() + "." + engine.ShortName(callee)
					}
				}
				walk(callee, fr.Bind(callee, cs.Instr), stack, sub)
			}
		}
	}
	for i, m := range migs {
		fr := sh.NewFrame(m)
		walk(m, fr, map[*ssa.Function]bool{}, fmtf("migration%d", i))
	}

	// ---- run-time statements against the final schema --------------------------------
	var rt []*sqlx.Site
	for _, s := range ix.Sites {
		if !visited[s] {
			rt = append(rt, s)
		}
	}
	// CREATE statements first (sample per-mailbox table)
	sort.SliceStable(rt, func(i, j int) bool { return false })
	isCreate := func(s *sqlx.Site) bool {
		if s.Query == nil {
			return false
		}
		fr := sqlx.NewShared(P).NewFrame(s.Fn)
		for _, q := range fr.EvalStr(s.Query) {
			if t, _, err := render(q); err == nil && strings.HasPrefix(strings.ToUpper(strings.TrimSpace(t)), "CREATE") {
				return true
			}
		}
		return false
	}
	var creates, others []*sqlx.Site
	for _, s := range rt {
		if isCreate(s) {
			creates = append(creates, s)
		} else {
			others = append(others, s)
		}
	}
	for _, s := range append(creates, others...) {
		fr := sqlx.NewShared(P).NewFrame(s.Fn)
		evalSite(s, fr, false, "")
	}
	return res
}

func createdTable(q string) string {
	f := strings.Fields(q)
	for i, w := range f {
		if strings.EqualFold(w, "TABLE") && i+1 < len(f) {
			n := f[i+1]
			if strings.EqualFold(n, "IF") && i+4 < len(f) {
				n = f[i+4]
			}
			n = strings.Trim(n, "`\"'(")
			if j := strings.Index(n, "("); j >= 0 {
				n = n[:j]
			}
			return strings.Trim(n, "`\"'")
		}
	}
	return ""
}

func normSQL(s string) string { return strings.Join(strings.Fields(s), " ") }

// sqlBounds: R08.3 (values bound inside a chunk loop derive from the chunk) and R08.4
// (placeholder count bounded below SQLite's variable limit).
func (c *Ctx) sqlBounds(res *sqlResult, add func(*ssa.Function, bool, string, string, string, string, string), s *sqlx.Site, fr *sqlx.Frame, k, pos string, ph, argLen sqlx.Poly) {
	atoms := map[string]bool{}
	for _, a := range ph.Atoms() {
		atoms[a] = true
	}
	for _, a := range argLen.Atoms() {
		atoms[a] = true
	}
	if len(atoms) == 0 {
		return
	}
	hasChunk := false
	var unbounded []string
	for a := range atoms {
		ai := fr.S.Atoms[a]
		switch {
		case ai == nil:
			unbounded = append(unbounded, a)
		case ai.Kind == "chunklen" && ai.ChunkSize > 0:
			hasChunk = true
		case ai.Kind == "flagsetlen":
			// table: flag-set sizes are not batch-size driven (exempt, one reason)
		default:
			unbounded = append(unbounded, a)
		}
	}
	if hasChunk {
		res.chunkSites++
	}
	sort.Strings(unbounded)
	add(s.Fn, len(unbounded) == 0, "R08.4", k+"|bounded", pos,
		"every batch-size-dependent quantity bound to the statement is a chunk length",
		fmtf("the number of bound variables depends on %s, which is not limited by xslices.Chunk: the statement exceeds SQLite's variable limit (%d) for large batches, or binds the un-chunked slice inside a chunk loop", strings.Join(unbounded, ", "), res.varLimit))
	if len(unbounded) == 0 {
		max := ph.Eval(func(a string) int64 {
			ai := fr.S.Atoms[a]
			if ai != nil && ai.Kind == "chunklen" {
				return ai.ChunkSize
			}
			return 16 // flag sets: assumed to hold at most 16 flags (system flags + a few keywords)
		})
		okMax := max.IsInt() && max.Num().Int64() <= int64(res.varLimit)
		add(s.Fn, okMax, "R08.3", k+"|limit", pos,
			fmtf("at most %s variables per statement (limit %d)", max.RatString(), res.varLimit),
			fmtf("a full chunk binds %s variables, above SQLite's limit of %d", max.RatString(), res.varLimit))
	}
}

// migrationRuns returns the Run methods of the elements of sqlite3.migrationList in order.
func (c *Ctx) migrationRuns() []*ssa.Function {
	pk := c.P.SSAPkg("internal/db_impl/sqlite3")
	if pk == nil {
		return nil
	}
	g, _ := pk.Members["migrationList"].(*ssa.Global)
	initFn := pk.Func("init")
	if g == nil || initFn == nil {
		return nil
	}
	var out []*ssa.Function
	for _, b := range initFn.Blocks {
		for _, in := range b.Instrs {
			st, ok := in.(*ssa.Store)
			if !ok || st.Addr != ssa.Value(g) {
				continue
			}
			elems, ok := sqlx.VarargElems(st.Val)
			if !ok {
				return nil
			}
			for _, e := range elems {
				mi, ok := e.(*ssa.MakeInterface)
				if !ok {
					return nil
				}
				t := mi.X.Type()
				ms := c.P.SSA.MethodSets.MethodSet(t)
				sel := ms.Lookup(nil, "Run")
				if sel == nil {
					// unexported lookup needs the package; Run is exported
					return nil
				}
				fn := c.P.SSA.MethodValue(sel)
				// unwrap the pointer-receiver wrapper to the declared method
				if fn != nil && fn.Synthetic != "" {
					if decl, ok := sel.Obj().(*types.Func); ok {
						if d := c.P.SSA.FuncValue(decl); d != nil {
							fn = d
						}
					}
				}
				if fn == nil {
					return nil
				}
				out = append(out, fn)
			}
		}
	}
	return out
}

// emit copies the engine's obligations into the run, optionally filtered by function set.
func (c *Ctx) emitSQL(res *sqlResult, rulePrefix string, rename map[string]string, keep func(o sqlOb) bool) int {
	n := 0
	for _, o := range res.obs {
		if keep != nil && !keep(o) {
			continue
		}
		rule := o.rule
		if r, ok := rename[rule]; ok {
			rule = r
		} else if rename != nil {
			continue
		}
		n++
		c.R.Check(o.ok, rule, o.key, o.pos, o.msg, o.msg)
	}
	_ = rulePrefix
	return n
}
