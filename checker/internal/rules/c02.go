package rules

import (
	"go/token"
	"go/types"
	"strings"

	"golang.org/x/tools/go/ssa"

	"verifchecker/internal/engine"
)

func init() { register("C02", c02) }

func isUpdateType(t types.Type) bool {
	if engine.IsNamed(t, "internal/state", "Update") {
		return true
	}
	if sl, ok := t.Underlying().(*types.Slice); ok && engine.IsNamed(sl.Elem(), "internal/state", "Update") {
		return true
	}
	return false
}

// guardedField checks that every access of a struct field happens while the lock at
// <same base>.<lockPath> is held (T-GUARDED).  exempt lists top-level function names.
func (c *Ctx) guardedField(rule, pkgRel, typ, field, lockPath string, exempt map[string]string) int {
	P, R := c.P, c.R
	fld := c.fieldOf(pkgRel, typ, field)
	if fld == nil {
		R.Fail(rule, "anchor:"+typ+"."+field, "", "field not found")
		return 0
	}
	n := 0
	for _, f := range c.productFuncs() {
		var held func(ssa.Instruction) map[string]bool
		for _, b := range f.Blocks {
			for _, in := range b.Instrs {
				fa, ok := in.(*ssa.FieldAddr)
				if !ok || fieldOfAddr(fa) != fld && !sameFieldByName(fa, pkgRel, typ, field) {
					continue
				}
				n++
				key := fmtf("%s|%s.%s", c.name(f), typ, field)
				if why, ok := exempt[engine.ShortName(topFn(f))]; ok {
					R.Pass(rule, key, P.Pos(fa.Pos()), "exempt: "+why)
					continue
				}
				if held == nil {
					held = engine.HeldAt(f)
				}
				base := engine.AccessPath(fa.X)
				want := base + "." + lockPath
				h := held(in)
				okHeld := base != "" && h[want]
				// a closure executed while the creator holds the lock (sort/filter callbacks)
				if !okHeld && f.Parent() != nil {
					okHeld = c.closureRunsUnderLock(f, lockPath)
				}
				// a lock held by every caller counts (helper methods called with the lock held)
				if !okHeld && f.Parent() == nil && base != "" && !strings.Contains(base, ".") {
					for pi, p := range f.Params {
						if p.Name() == base {
							okHeld = c.heldByAllCallers(f, pi, lockPath, 0)
						}
					}
				}
				R.Check(okHeld, rule, key, P.Pos(fa.Pos()), typ+"."+field+" accessed under "+lockPath,
					typ+"."+field+" is accessed without holding "+want+" (held: "+engine.HeldString(h)+"): concurrent sessions/updates race on it")
			}
		}
	}
	return n
}

// heldByAllCallers: every call site of f (at least one) holds <arg for param pi>.<lockPath>,
// directly or - for a caller that passes its own parameter on - through its callers.
func (c *Ctx) heldByAllCallers(f *ssa.Function, pi int, lockPath string, depth int) bool {
	if depth > 3 {
		return false
	}
	n := 0
	for _, cs := range c.P.CallersOf(f) {
		if !isProductPkg(engine.RelPkg(c.P.OwnPkgPath(cs.Fn))) {
			continue
		}
		if _, isGo := cs.Instr.(*ssa.Go); isGo {
			return false
		}
		n++
		arg := engine.ArgForParam(cs.Common(), f, pi)
		if arg == nil {
			return false
		}
		base := engine.AccessPath(arg)
		if base == "" {
			return false
		}
		if engine.HeldAt(cs.Fn)(cs.Instr)[base+"."+lockPath] {
			continue
		}
		if cs.Fn.Parent() != nil && c.closureRunsUnderLock(cs.Fn, lockPath) {
			continue
		}
		ok := false
		if cs.Fn.Parent() == nil && !strings.Contains(base, ".") {
			for qi, q := range cs.Fn.Params {
				if q.Name() == base {
					ok = c.heldByAllCallers(cs.Fn, qi, lockPath, depth+1)
				}
			}
		}
		if !ok {
			return false
		}
	}
	return n > 0
}

// sameFieldByName matches fields of instantiated generic types.
func sameFieldByName(fa *ssa.FieldAddr, pkgRel, typ, field string) bool {
	pt, ok := fa.X.Type().Underlying().(*types.Pointer)
	if !ok {
		return false
	}
	nt := engine.NamedOf(pt.Elem())
	if nt == nil || nt.Obj().Name() != typ || nt.Obj().Pkg() == nil || engine.RelPkg(nt.Obj().Pkg().Path()) != pkgRel {
		return false
	}
	fv := fieldOfAddr(fa)
	return fv != nil && fv.Name() == field
}

// closureRunsUnderLock: the closure is created and passed to a call (not go/defer) at a
// point of its parent where the lock (any base) is held.
func (c *Ctx) closureRunsUnderLock(cl *ssa.Function, lockPath string) bool {
	par := cl.Parent()
	held := engine.HeldAt(par)
	for _, b := range par.Blocks {
		for _, in := range b.Instrs {
			mc, ok := in.(*ssa.MakeClosure)
			if !ok || mc.Fn != cl {
				continue
			}
			for _, r := range *mc.Referrers() {
				call, ok := r.(*ssa.Call)
				if !ok {
					return false
				}
				any := false
				for k := range held(call) {
					if strings.HasSuffix(k, "."+lockPath) {
						any = true
					}
				}
				if !any {
					if par.Parent() != nil && c.closureRunsUnderLock(par, lockPath) {
						continue
					}
					return false
				}
			}
			return true
		}
	}
	return false
}

func c02(c *Ctx) {
	defer c02writesAreAnnounced(c)
	defer c.idleArmedAfterFullFlush("R02.10")
	P, R := c.P, c.R
	R.Explain("R02.1", "T-NODROP: no call result of type state.Update / []state.Update in internal/state and internal/backend is discarded (unused tuple component or value without uses), and a result taken from a tuple is consumed - appended, passed on, stored or returned - on every path from the call to a nil-error return of the function (paths on which the value was tested nil/empty excepted).")
	R.Explain("R02.2", "the commit wrappers (stateDBWrite, stateDBWriteResult, userDBWrite, userDBWriteResult) hand the updates returned by the transaction closure to the broadcast (QueueOrApplyStateUpdate / queueStateUpdate) on every success path, except when the update list is empty.")
	R.Explain("R02.3", "filter soundness: additions to a snapshot are deferred (queued targetedExists), so an Update.Filter that consults snapshot membership must do it through a pending-aware function (one that also scans State.res for *targetedExists of the same message); no Filter calls snapshot.hasMessage / State.HasMessage directly.")
	R.Explain("R02.4", "T-GUARDED + shape: QueuedChannel.items is accessed only under cond.L; the only stores are an append at the tail (Enqueue) and a re-slice from index 1 after taking element 0 (pop): FIFO, no loss.")
	R.Explain("R02.5", "the strict ascending insert (snapshot.appendMessage, which fails for a UID below the last one) is used only for responders that originate from the same state (dominated by originStateSet && originStateID == stateID); every other origin uses the out-of-order insert, because held-back responders can arrive behind newer messages.")

	// ---- R02.1 -----------------------------------------------------------------------
	n := 0
	for _, f := range c.funcsInPkg("internal/state", "internal/backend") {
		for _, cs := range engine.Calls(f) {
			call, ok := cs.Instr.(*ssa.Call)
			if !ok {
				continue
			}
			var idxs []int
			if tup, isTup := call.Type().(*types.Tuple); isTup {
				for i := 0; i < tup.Len(); i++ {
					if isUpdateType(tup.At(i).Type()) {
						idxs = append(idxs, i)
					}
				}
				for _, i := range idxs {
					n++
					used := false
					for _, r := range *call.Referrers() {
						if ex, isEx := r.(*ssa.Extract); isEx && ex.Index == i && ex.Referrers() != nil && len(nonDebug(*ex.Referrers())) > 0 {
							used = true
							if esc := updatesDroppedOnPath(f, ex); esc.IsValid() {
								R.Check(false, "R02.1", fmtf("%s|%s#%d|every path", c.name(f), calleeLabel(call), i), P.Pos(call.Pos()), "", "the state updates returned by "+calleeLabel(call)+" reach a success return ("+P.Pos(esc)+") on a path that neither forwards nor returns them: on that path other sessions are never told about the committed change")
							}
						}
					}
					R.Check(used, "R02.1", fmtf("%s|%s#%d", c.name(f), calleeLabel(call), i), P.Pos(call.Pos()), "returned updates are used", "the state updates returned by "+calleeLabel(call)+" are discarded: other sessions are never told about the committed change")
				}
			} else if isUpdateType(call.Type()) {
				n++
				used := call.Referrers() != nil && len(nonDebug(*call.Referrers())) > 0
				R.Check(used, "R02.1", fmtf("%s|%s", c.name(f), calleeLabel(call)), P.Pos(call.Pos()), "returned update is used", "the state update returned by "+calleeLabel(call)+" is discarded")
			}
		}
	}
	R.Min("R02.1", "calls returning state updates", n, 40)

	// ---- R02.2 -----------------------------------------------------------------------
	for _, name := range []string{"internal/state.stateDBWrite", "internal/state.stateDBWriteResult", "internal/backend.userDBWrite", "internal/backend.userDBWriteResult"} {
		f := c.fn("R02.2", name)
		if f == nil {
			continue
		}
		// the cell that receives the closure's updates
		var cell *ssa.Alloc
		for _, b := range f.Blocks {
			for _, in := range b.Instrs {
				if al, ok := in.(*ssa.Alloc); ok {
					if pt, ok := al.Type().Underlying().(*types.Pointer); ok && isUpdateType(pt.Elem()) {
						cell = al
					}
				}
			}
		}
		if cell == nil {
			// a wrapper may delegate to a sibling wrapper (judged itself), handing it a literal that forwards the
			// updates its own callback returned
			delegated := ""
			for _, cs := range engine.Calls(f) {
				sc := cs.Common().StaticCallee()
				if sc == nil || cs.Instr.Parent() != f {
					continue
				}
				if o := sc.Origin(); o != nil {
					sc = o
				}
				sib := false
				for _, nm := range []string{"stateDBWrite", "stateDBWriteResult", "userDBWrite", "userDBWriteResult"} {
					if engine.ShortName(sc) == nm && sc != f {
						sib = true
					}
				}
				if !sib {
					continue
				}
				for _, a := range cs.Common().Args {
					lit := engine.FuncValue(a)
					if lit == nil || lit.Parent() != f || len(lit.Blocks) == 0 {
						continue
					}
					fw := true
					for _, ret := range engine.Returns(lit) {
						if len(ret.Results) == 0 || !engine.AnyBackward(ret.Results[0], engine.FlowOpts{Loads: true}, func(v ssa.Value) bool {
							if ex, ok := v.(*ssa.Extract); ok && ex.Index == 0 {
								if call, ok := ex.Tuple.(*ssa.Call); ok {
									return engine.AccessPath(call.Call.Value) != "" || isParamLoad(call.Call.Value)
								}
							}
							return false
						}) {
							fw = false
						}
					}
					if fw {
						delegated = engine.ShortName(sc)
					}
				}
			}
			if delegated != "" {
				R.Check(true, "R02.2", name+"|broadcast-on-success", P.Pos(f.Pos()), "delegates to "+delegated+", forwarding the updates of its callback", "")
				continue
			}
			R.Fail("R02.2", name+"|updates-cell", P.Pos(f.Pos()), "no local []Update variable receives the transaction's updates")
			continue
		}
		// assigned from the callback's result inside a closure
		assigned := false
		for _, st := range engine.StoresTo(cell) {
			if ex, ok := st.Val.(*ssa.Extract); ok && ex.Index == 0 {
				if call, ok := ex.Tuple.(*ssa.Call); ok {
					if engine.AccessPath(call.Call.Value) != "" || isParamLoad(call.Call.Value) {
						assigned = true
					}
				}
			}
		}
		// broadcast calls (in f or its closures) fed from the cell
		var sinks []ssa.Instruction
		for _, g := range engine.WithClosures(f) {
			for _, cs := range engine.Calls(g) {
				cc := cs.Common()
				nm := ""
				if cc.IsInvoke() {
					nm = engine.MethodName(cc.Method)
				} else if sc := cc.StaticCallee(); sc != nil {
					nm = engine.ShortName(sc)
				}
				if nm != "QueueOrApplyStateUpdate" && nm != "queueStateUpdate" {
					// a helper of the package that broadcasts its []Update parameter on every path (empty list excepted)
					sc := cc.StaticCallee()
					if sc == nil || len(cc.Args) == 0 {
						continue
					}
					if idx, ok := broadcastsParam(sc); !ok || idx != len(cc.Args)-1 {
						continue
					}
				}
				last := cc.Args[len(cc.Args)-1]
				fromCell := engine.AnyBackward(last, engine.FlowOpts{Loads: true}, func(v ssa.Value) bool {
					if ld, ok := v.(*ssa.UnOp); ok {
						if ld.X == ssa.Value(cell) {
							return true
						}
						if fv, ok := ld.X.(*ssa.FreeVar); ok {
							for _, b := range engine.FreeVarBinding(fv) {
								if b == ssa.Value(cell) {
									return true
								}
							}
						}
					}
					return false
				})
				if fromCell {
					// locate the instruction in f that leads to it: the call itself (g==f) or the call taking the closure
					if g == f {
						sinks = append(sinks, cs.Instr)
					} else {
						top := g
						for top.Parent() != f && top.Parent() != nil {
							top = top.Parent()
						}
						for _, b := range f.Blocks {
							for _, in := range b.Instrs {
								if call, ok := in.(*ssa.Call); ok {
									for _, a := range call.Call.Args {
										if mc, ok := a.(*ssa.MakeClosure); ok && mc.Fn == top {
											sinks = append(sinks, call)
										}
									}
								}
							}
						}
					}
				}
			}
		}
		cut := map[ssa.Instruction]bool{}
		for _, s := range sinks {
			cut[s] = true
		}
		// empty-list edge
		skip := map[engine.Edge]bool{}
		for _, b := range f.Blocks {
			iff := engine.IfOf(b)
			if iff == nil {
				continue
			}
			if cmp, ok := iff.Cond.(*ssa.BinOp); ok {
				if call, ok := cmp.X.(*ssa.Call); ok {
					if bi, ok := call.Call.Value.(*ssa.Builtin); ok && bi.Name() == "len" {
						zero := false
						if k, ok := cmp.Y.(*ssa.Const); ok && k.Value != nil && k.Value.ExactString() == "0" {
							zero = true
						}
						if ld, ok := call.Call.Args[0].(*ssa.UnOp); ok && ld.X == ssa.Value(cell) && zero {
							switch cmp.Op.String() {
							case "!=", ">":
								skip[engine.Edge{From: b, Succ: 1}] = true
							case "==":
								skip[engine.Edge{From: b, Succ: 0}] = true
							}
						}
					}
				}
			}
		}
		bad := false
		for _, ret := range engine.Returns(f) {
			lr := engine.LastResult(ret)
			if !engine.IsNilConst(lr) {
				// `return err` where err was tested: the paths that took the nil edge of that test are success paths
				for _, b := range f.Blocks {
					iff := engine.IfOf(b)
					if iff == nil {
						continue
					}
					cmp, ok := iff.Cond.(*ssa.BinOp)
					if !ok || (cmp.Op != token.EQL && cmp.Op != token.NEQ) {
						continue
					}
					if !((cmp.X == lr && engine.IsNilConst(cmp.Y)) || (cmp.Y == lr && engine.IsNilConst(cmp.X))) {
						continue
					}
					nilIx := 0
					if cmp.Op == token.NEQ {
						nilIx = 1
					}
					if engine.ReachesAvoidingFrom(b.Succs[nilIx], 0, ret, cut, skip) {
						bad = true
					}
				}
				continue
			}
			if engine.ReachesAvoiding(f, ret, cut, skip) {
				bad = true
			}
		}
		R.Check(assigned && len(sinks) > 0 && !bad, "R02.2", name+"|broadcast-on-success", P.Pos(f.Pos()), "updates of a committed transaction are always broadcast",
			"a success path of "+name+" returns without handing the transaction's updates to the broadcast: committed changes never reach the other sessions")
	}

	c02filters(c)
	R.Explain("R02.6", "ownership (same rule as R01.5): FlagSets stored into a snapshot are private copies, so one session's flush cannot alter another session's view behind its back.")
	c.freshFlags("R02.6")

	// ---- R02.4 -----------------------------------------------------------------------
	nq := c.guardedField("R02.4", "async", "QueuedChannel", "items", "cond.L", map[string]string{"NewQueuedChannel": "constructor: the value is not shared yet"})
	R.Min("R02.4", "accesses of QueuedChannel.items", nq, 4)
	// shape of the stores
	for _, f := range c.productFuncs() {
		for _, b := range f.Blocks {
			for _, in := range b.Instrs {
				st, ok := in.(*ssa.Store)
				if !ok {
					continue
				}
				fa, ok := st.Addr.(*ssa.FieldAddr)
				if !ok || !sameFieldByName(fa, "async", "QueuedChannel", "items") {
					continue
				}
				key := c.name(f) + "|store items"
				switch v := st.Val.(type) {
				case *ssa.Call:
					_, isApp := engine.IsBuiltinCall(v, "append")
					okApp := false
					if isApp {
						if ld, ok := v.Call.Args[0].(*ssa.UnOp); ok {
							if fa2, ok := ld.X.(*ssa.FieldAddr); ok && sameFieldByName(fa2, "async", "QueuedChannel", "items") {
								okApp = true
							}
						}
					}
					R.Check(okApp, "R02.4", key, P.Pos(st.Pos()), "new items are appended at the tail of the existing queue", "the queue is not extended by append(q.items, ...): queued updates can be lost or reordered")
				case *ssa.Slice:
					okSl := false
					if k, ok := v.Low.(*ssa.Const); ok && k.Value != nil && k.Value.ExactString() == "1" && v.High == nil {
						okSl = true
					}
					R.Check(okSl, "R02.4", key, P.Pos(st.Pos()), "pop removes exactly the head element", "pop does not re-slice the queue as items[1:]: an update is skipped or delivered twice")
				case *ssa.MakeSlice:
					R.Pass("R02.4", key, P.Pos(st.Pos()), "constructor")
				default:
					R.Fail("R02.4", key, P.Pos(st.Pos()), "unexpected store to QueuedChannel.items")
				}
			}
		}
	}

	// ---- R02.5 -----------------------------------------------------------------------
	am := c.fn("R02.5", "internal/state.(*snapshot).appendMessage")
	if am != nil {
		k := 0
		for _, cs := range P.CallersOf(am) {
			if !isProductPkg(engine.RelPkg(P.OwnPkgPath(cs.Fn))) {
				continue
			}
			k++
			f := cs.Fn
			originID := c.fieldOf("internal/state", "targetedExists", "originStateID")
			originSet := c.fieldOf("internal/state", "targetedExists", "originStateSet")
			idOK, setOK := false, false
			for _, fact := range engine.FactsDominating(f, cs.Instr.Block(), P.IsOwn) {
				if !fact.Truth {
					continue
				}
				switch t := fact.Cond.(type) {
				case *ssa.BinOp:
					if t.Op.String() == "==" {
						for _, side := range []ssa.Value{t.X, t.Y} {
							if ld, ok := side.(*ssa.UnOp); ok && fieldAddrIs(ld.X, originID) {
								other := t.Y
								if side == t.Y {
									other = t.X
								}
								// the other side is the state id handed to handle()
								if p, isParam := fact.Resolve(other).(*ssa.Parameter); isParam && p.Parent() == f {
									idOK = true
								}
							}
						}
					}
				case *ssa.UnOp:
					if fieldAddrIs(t.X, originSet) {
						setOK = true
					}
				}
			}
			R.Check(idOK && setOK, "R02.5", c.name(f)+"|strict-insert", P.Pos(cs.Pos()), "strict ascending insert only for the originating state",
				"snapshot.appendMessage (which rejects a UID below the last one) is reachable for responders that do not originate from this state: a held-back EXISTS that arrives behind a newer message makes the flush fail and the message never appears")
		}
		R.Min("R02.5", "callers of snapshot.appendMessage", k, 1)
	}

	// ---- R02.7 -----------------------------------------------------------------------
	R.Explain("R02.7", "no responder is lost (T-MUST per iteration): in every loop over State.res that re-partitions the queue (the function assigns State.res), each iteration appends the current responder either to the popped list or to the list that stays queued; a `continue` that skips both drops an announcement (an EXPUNGE or EXISTS that never reaches this session, so its view never converges).")
	resFld2 := c.fieldOf("internal/state", "State", "res")
	loops := 0
	for _, f := range c.funcsInPkg("internal/state") {
		assigns := false
		for _, b := range f.Blocks {
			for _, in := range b.Instrs {
				if st, ok := in.(*ssa.Store); ok && fieldAddrIs(st.Addr, resFld2) {
					assigns = true
				}
			}
		}
		if !assigns {
			continue
		}
		for _, h := range engine.RangeLoopsOver(f, func(sv ssa.Value) bool {
			ld, ok := sv.(*ssa.UnOp)
			return ok && fieldAddrIs(ld.X, resFld2)
		}) {
			body := engine.LoopBody(h)
			if body == nil {
				continue
			}
			loops++
			// the element of this iteration: a load through IndexAddr in the loop body
			var elems []ssa.Value
			for b := range body {
				for _, in := range b.Instrs {
					if u, ok := in.(*ssa.UnOp); ok && u.Op == token.MUL {
						if _, isIdx := u.X.(*ssa.IndexAddr); isIdx {
							elems = append(elems, u)
						}
					}
				}
			}
			isElem := func(v ssa.Value) bool {
				for _, e := range elems {
					if v == e {
						return true
					}
					if mi, ok := v.(*ssa.MakeInterface); ok && mi.X == e {
						return true
					}
				}
				return false
			}
			cut := map[ssa.Instruction]bool{}
			for b := range body {
				for _, in := range b.Instrs {
					call, ok := in.(*ssa.Call)
					if !ok {
						continue
					}
					if bi, ok := call.Call.Value.(*ssa.Builtin); !ok || bi.Name() != "append" || len(call.Call.Args) != 2 {
						continue
					}
					if els, ok := variadicElems(call.Call.Args[1]); ok {
						for _, e := range els {
							if isElem(e) {
								cut[in] = true
							}
						}
					}
				}
			}
			// body entry: the successor of the header inside the loop
			var entry *ssa.BasicBlock
			for _, sblk := range h.Succs {
				if body[sblk] && sblk != h {
					entry = sblk
				}
			}
			lost := false
			if entry == nil || len(cut) == 0 {
				lost = true
			} else if len(h.Instrs) > 0 && engine.ReachesAvoidingFrom(entry, 0, h.Instrs[0], cut, nil) {
				lost = true
			}
			R.Check(!lost, "R02.7", c.name(f)+"|every-responder-kept-or-popped", P.Pos(h.Instrs[0].Pos()), "each iteration appends the responder to one of the two lists",
				"an iteration of the loop over State.res can end without appending the responder to the popped or to the remaining list: the announcement is dropped and this session never learns about the change")
		}
	}
	R.Min("R02.7", "loops that re-partition State.res", loops, 1)

	// ---- R02.8 -----------------------------------------------------------------------
	R.Explain("R02.8", "T-CALLERS: whether a state holds a message is asked of the snapshot alone (snapshot.hasMessage) only where the queued responders have already been applied - inside Responder.handle at flush time - and in the two State getters built on it; code that runs when a state update is filtered or applied must use State.hasOrWillHaveMessage, because the message's EXISTS may still be queued (a flag change dropped there never reaches the session).")
	hm := c.fn("R02.8", "internal/state.(*snapshot).hasMessage")
	if hm != nil {
		allowedCallers := []string{
			"internal/state.(*targetedExists).handle", "internal/state.(*expunge).handle", "internal/state.(*fetch).handle",
			"internal/state.(*State).HasMessage", "internal/state.(*State).hasOrWillHaveMessage", "internal/state.(*State).UpdateMessageRemoteID",
		}
		R.Table("R02.8 callers of snapshot.hasMessage", allowedCallers...)
		k := 0
		for _, cs := range P.CallersOf(hm) {
			if !isProductPkg(engine.RelPkg(P.OwnPkgPath(cs.Fn))) || cs.Common().StaticCallee() != hm {
				continue
			}
			k++
			R.Check(c.isAnchor(topFn(cs.Fn), allowedCallers...), "R02.8", c.name(cs.Fn)+"|snapshot.hasMessage", P.Pos(cs.Pos()), "asked at flush time or by a State getter", "the snapshot alone is asked whether the state holds the message in code that runs before the queued responders were applied: a message whose EXISTS is still pending is treated as absent and the change for it is dropped (this session never converges)")
		}
		R.Min("R02.8", "callers of snapshot.hasMessage", k, 5)
	}
	// the exported getter built on it inherits the restriction: inside internal/state nothing calls it (update
	// filters and Apply methods run before the queued EXISTS responders were applied)
	if g := c.fnOpt("internal/state.(*State).HasMessage"); g != nil {
		for _, cs := range P.CallersOf(g) {
			rel := engine.RelPkg(P.OwnPkgPath(cs.Fn))
			if rel != "internal/state" || cs.Common().StaticCallee() != g {
				continue
			}
			R.Check(false, "R02.8", c.name(cs.Fn)+"|State.HasMessage", P.Pos(cs.Pos()), "", "State.HasMessage (the snapshot alone) is consulted inside internal/state, where updates are filtered and applied before the queued responders: a message whose EXISTS is still pending is treated as absent and the change for it is dropped (use hasOrWillHaveMessage)")
		}
	}
}

func isParamLoad(v ssa.Value) bool {
	switch t := v.(type) {
	case *ssa.Parameter, *ssa.FreeVar:
		return true
	case *ssa.UnOp:
		return isParamLoad(t.X)
	case *ssa.Alloc:
		return true
	}
	return false
}

func nonDebug(rs []ssa.Instruction) []ssa.Instruction {
	var out []ssa.Instruction
	for _, r := range rs {
		if _, ok := r.(*ssa.DebugRef); !ok {
			out = append(out, r)
		}
	}
	return out
}

func calleeLabel(call *ssa.Call) string {
	if call.Call.IsInvoke() {
		return engine.MethodName(call.Call.Method)
	}
	if sc := call.Call.StaticCallee(); sc != nil {
		return engine.BaseName(sc)
	}
	return "func value"
}

func c02filters(c *Ctx) {
	P, R := c.P, c.R
	hasMsg := c.fnOpt("internal/state.(*snapshot).hasMessage")
	resFld := c.fieldOf("internal/state", "State", "res")
	// pending-aware membership functions: call snapshot.hasMessage AND scan State.res for *targetedExists
	aware := map[*ssa.Function]bool{}
	for _, f := range c.funcsInPkg("internal/state") {
		if f.Parent() != nil {
			continue
		}
		callsHas, readsRes := false, false
		for _, cs := range engine.Calls(f) {
			if cs.Common().StaticCallee() == hasMsg && hasMsg != nil {
				callsHas = true
			}
		}
		for _, b := range f.Blocks {
			for _, in := range b.Instrs {
				if fa, ok := in.(*ssa.FieldAddr); ok && fieldAddrIs(fa, resFld) {
					readsRes = true
				}
			}
		}
		if callsHas && readsRes && len(typeTests(f, "internal/state", "targetedExists")) > 0 {
			// the pending branch must be able to return true
			aware[f] = true
		}
	}
	var rows []string
	for f := range aware {
		rows = append(rows, c.name(f))
	}
	R.Table("R02.3 pending-aware membership functions (derived)", rows...)
	n := 0
	for _, f := range c.funcsInPkg("internal/state") {
		if engine.ShortName(f) != "Filter" || f.Signature.Recv() == nil {
			continue
		}
		if f.Signature.Params().Len() != 1 || !engine.IsNamed(f.Signature.Params().At(0).Type(), "internal/state", "State") {
			continue
		}
		n++
		bad := ""
		consults := false
		for _, cs := range engine.Calls(f) {
			sc := cs.Common().StaticCallee()
			if sc == nil {
				continue
			}
			switch {
			case sc == hasMsg || engine.ShortName(sc) == "HasMessage" || (engine.ShortName(sc) == "has" && engine.RecvNamed(sc) != nil && engine.RecvNamed(sc).Obj().Name() == "snapMsgList"):
				bad = c.name(sc)
				consults = true
			case aware[sc]:
				consults = true
			}
		}
		msg := "filter does not depend on snapshot membership"
		if consults {
			msg = "snapshot membership is consulted through a pending-aware function"
		}
		R.Check(bad == "", "R02.3", c.name(f)+"|membership", P.Pos(f.Pos()), msg,
			"this filter decides on "+bad+" alone, but a message can be pending in State.res (queued EXISTS): an update for such a message (e.g. its expunge) is dropped and the session keeps a message that no longer exists")
	}
	R.Min("R02.3", "Filter implementations", n, 5)
}

// broadcastsParam: fn hands its last parameter (a slice of state updates) to queueStateUpdate /
// QueueOrApplyStateUpdate on every path to a return, except along the edge on which the slice is empty.
func broadcastsParam(fn *ssa.Function) (int, bool) {
	if len(fn.Blocks) == 0 || fn.Parent() != nil || len(fn.Params) == 0 {
		return 0, false
	}
	idx := len(fn.Params) - 1
	p := fn.Params[idx]
	if _, isSlice := p.Type().Underlying().(*types.Slice); !isSlice {
		return 0, false
	}
	cut := map[ssa.Instruction]bool{}
	for _, cs := range engine.Calls(fn) {
		if cs.Instr.Parent() != fn {
			continue
		}
		cc := cs.Common()
		nm := ""
		if cc.IsInvoke() {
			nm = engine.MethodName(cc.Method)
		} else if sc := cc.StaticCallee(); sc != nil {
			nm = engine.ShortName(sc)
		}
		if (nm == "QueueOrApplyStateUpdate" || nm == "queueStateUpdate") && len(cc.Args) > 0 {
			if engine.AnyBackward(cc.Args[len(cc.Args)-1], engine.FlowOpts{}, func(v ssa.Value) bool { return v == ssa.Value(p) }) {
				cut[cs.Instr] = true
			}
		}
		// the broadcast made inside a function literal that is handed to a call of fn (the second Write transaction):
		// that call stands for the broadcast when every nil-error return of the literal passes it
		for _, a := range cc.Args {
			lit := engine.FuncValue(a)
			if lit == nil || lit.Parent() != fn || len(lit.Blocks) == 0 {
				continue
			}
			inner := map[ssa.Instruction]bool{}
			for _, ics := range engine.Calls(lit) {
				if ics.Instr.Parent() != lit {
					continue
				}
				icc := ics.Common()
				inm := ""
				if icc.IsInvoke() {
					inm = engine.MethodName(icc.Method)
				} else if sc := icc.StaticCallee(); sc != nil {
					inm = engine.ShortName(sc)
				}
				if (inm == "QueueOrApplyStateUpdate" || inm == "queueStateUpdate") && len(icc.Args) > 0 &&
					engine.AnyBackward(icc.Args[len(icc.Args)-1], engine.FlowOpts{Loads: true}, func(v ssa.Value) bool { return v == ssa.Value(p) }) {
					inner[ics.Instr] = true
				}
			}
			if len(inner) == 0 {
				continue
			}
			all := true
			for _, ret := range engine.Returns(lit) {
				if engine.ReachesAvoiding(lit, ret, inner, nil) {
					all = false
				}
			}
			if all {
				cut[cs.Instr] = true
			}
		}
	}
	if len(cut) == 0 {
		return 0, false
	}
	skip := map[engine.Edge]bool{}
	for _, b := range fn.Blocks {
		iff := engine.IfOf(b)
		if iff == nil {
			continue
		}
		cmp, ok := iff.Cond.(*ssa.BinOp)
		if !ok {
			continue
		}
		call, ok := cmp.X.(*ssa.Call)
		if !ok {
			continue
		}
		bi, ok := call.Call.Value.(*ssa.Builtin)
		isP := call.Call.Args[0] == ssa.Value(p)
		if ld, isLd := call.Call.Args[0].(*ssa.UnOp); isLd && !isP {
			// the parameter kept in a cell because a function literal captures it
			if al, isAl := ld.X.(*ssa.Alloc); isAl {
				if sts := engine.StoresTo(al); len(sts) == 1 && sts[0].Val == ssa.Value(p) {
					isP = true
				}
			}
		}
		if !ok || bi.Name() != "len" || !isP {
			continue
		}
		if k, ok := cmp.Y.(*ssa.Const); !ok || k.Value == nil || k.Value.ExactString() != "0" {
			continue
		}
		switch cmp.Op.String() {
		case "!=", ">":
			skip[engine.Edge{From: b, Succ: 1}] = true
		case "==":
			skip[engine.Edge{From: b, Succ: 0}] = true
		}
	}
	for _, ret := range engine.Returns(fn) {
		if engine.ReachesAvoiding(fn, ret, cut, skip) {
			return 0, false
		}
	}
	return idx, true
}

// c02writesAreAnnounced (R02.9): a change of mailbox content in the index has its announcement built next to it.
func c02writesAreAnnounced(c *Ctx) {
	P, R := c.P, c.R
	R.Explain("R02.9", "no silent index change: in gluon's server packages (db implementations excluded) every function that calls db.Transaction.RemoveMessagesFromMailbox also builds the EXPUNGE announcement (NewExpunge) for the other sessions, every function that calls db.Transaction.AddMessagesToMailbox builds the EXISTS announcement (newExists / newExistsStateUpdateWithExists), and every function that calls db.Transaction.DeleteMailboxWithRemoteID builds NewMailboxDeletedStateUpdate - in the function itself, one of its closures or a helper of the package it calls.  A direct transaction call elsewhere changes the authoritative mailbox without any session being told: their views never converge.")
	pairs := map[string][]string{
		"RemoveMessagesFromMailbox": {"NewExpunge"},
		"AddMessagesToMailbox":      {"newExists", "newExistsStateUpdateWithExists"},
		"DeleteMailboxWithRemoteID": {"NewMailboxDeletedStateUpdate"},
	}
	counts := map[string]int{}
	for _, f := range c.productFuncs() {
		rel := engine.RelPkg(P.OwnPkgPath(f))
		if strings.HasPrefix(rel, "internal/db_impl") || strings.HasPrefix(rel, "db") || strings.HasPrefix(rel, "connector") || strings.HasPrefix(rel, "tests") {
			continue
		}
		for _, cs := range engine.Calls(f) {
			cc := cs.Common()
			if !cc.IsInvoke() || !engine.IsNamed(cc.Value.Type(), "db", "Transaction") {
				continue
			}
			want, ok := pairs[engine.MethodName(cc.Method)]
			if !ok {
				continue
			}
			counts[engine.MethodName(cc.Method)]++
			top := topFn(f)
			found := false
			for _, g := range c.withPackageHelpers(top, engine.RelPkg(P.OwnPkgPath(top)), 1) {
				for _, cs2 := range engine.Calls(g) {
					if sc := cs2.Common().StaticCallee(); sc != nil {
						for _, w := range want {
							if engine.ShortName(sc) == w {
								found = true
							}
						}
					}
				}
			}
			R.Check(found, "R02.9", c.name(top)+"|tx."+engine.MethodName(cc.Method)+" announced", P.Pos(cs.Pos()), "the function builds "+strings.Join(want, " / "), "tx."+engine.MethodName(cc.Method)+" is called in a function that does not build the matching announcement ("+strings.Join(want, " / ")+"): the index changes without the sessions that have the mailbox selected being told")
		}
	}
	R.Min("R02.9", "tx.RemoveMessagesFromMailbox call sites", counts["RemoveMessagesFromMailbox"], 2)
	R.Min("R02.9", "tx.AddMessagesToMailbox call sites", counts["AddMessagesToMailbox"], 2)
	R.Min("R02.9", "tx.DeleteMailboxWithRemoteID call sites", counts["DeleteMailboxWithRemoteID"], 2)
}

// updatesDroppedOnPath: v (a state update or a list of them) has uses, but some path from its definition to a
// nil-error return of f passes none of them.  Returns the position of such a return.
func updatesDroppedOnPath(f *ssa.Function, v ssa.Value) token.Pos {
	def, ok := v.(ssa.Instruction)
	if !ok || v.Referrers() == nil {
		return token.NoPos
	}
	cut := map[ssa.Instruction]bool{}
	skip := map[engine.Edge]bool{}
	for _, r := range *v.Referrers() {
		switch t := r.(type) {
		case *ssa.DebugRef:
		case *ssa.BinOp:
			// v == nil / v != nil: not consuming a nil value is fine
			for _, r2 := range *t.Referrers() {
				if iff, ok := r2.(*ssa.If); ok && (engine.IsNilConst(t.X) || engine.IsNilConst(t.Y)) {
					nilIx := 0
					if t.Op == token.NEQ {
						nilIx = 1
					}
					skip[engine.Edge{From: iff.Block(), Succ: nilIx}] = true
				}
			}
		case *ssa.Call:
			if bi, isBi := t.Call.Value.(*ssa.Builtin); isBi && bi.Name() == "len" {
				for _, r2 := range *t.Referrers() {
					cmp, ok := r2.(*ssa.BinOp)
					if !ok {
						continue
					}
					k, isK := cmp.Y.(*ssa.Const)
					if !isK || k.Value == nil || k.Value.ExactString() != "0" {
						continue
					}
					for _, r3 := range *cmp.Referrers() {
						if iff, ok := r3.(*ssa.If); ok {
							switch cmp.Op {
							case token.NEQ, token.GTR:
								skip[engine.Edge{From: iff.Block(), Succ: 1}] = true
							case token.EQL:
								skip[engine.Edge{From: iff.Block(), Succ: 0}] = true
							}
						}
					}
				}
				continue
			}
			cut[t] = true
		default:
			cut[r] = true
		}
	}
	// obtained inside a loop: the value of this iteration must be consumed (appended, passed on, stored) before the
	// loop comes round again - merely flowing into the loop-carried variable means the next iteration overwrites it
	for _, h := range f.Blocks {
		body := engine.LoopBody(h)
		if body == nil || !body[def.Block()] || len(h.Instrs) == 0 {
			continue
		}
		loopCut := map[ssa.Instruction]bool{}
		for in := range cut {
			if _, isPhi := in.(*ssa.Phi); isPhi {
				continue
			}
			if _, isRet := in.(*ssa.Return); isRet {
				continue
			}
			loopCut[in] = true
		}
		if engine.ReachesAvoidingFrom(def.Block(), engine.InstrIndex(def)+1, h.Instrs[0], loopCut, skip) {
			return h.Instrs[0].Pos()
		}
	}
	if len(cut) == 0 {
		return token.NoPos
	}
	for _, ret := range engine.Returns(f) {
		lr := engine.LastResult(ret)
		if lr == nil || !engine.IsNilConst(lr) || lr.Type().String() != "error" {
			continue
		}
		if cut[ret] {
			continue
		}
		if engine.ReachesAvoidingFrom(def.Block(), engine.InstrIndex(def)+1, ret, cut, skip) {
			return ret.Pos()
		}
	}
	return token.NoPos
}
