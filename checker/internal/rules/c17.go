package rules

import (
	"go/types"
	"strings"

	"golang.org/x/tools/go/ssa"

	"verifchecker/internal/engine"
)

func init() { register("C17", c17) }

func isLimitCheck(cs engine.CallSite, names ...string) bool {
	sc := cs.Common().StaticCallee()
	if sc == nil || engine.RecvNamed(sc) == nil || engine.RecvNamed(sc).Obj().Name() != "IMAP" || !strings.HasSuffix(engine.PkgPathOf(sc), "/limits") {
		return false
	}
	for _, n := range names {
		if engine.ShortName(sc) == n {
			return true
		}
	}
	return false
}

// txOrigin: the db.Transaction value used by call cs, traced to the closure/function
// parameter it comes from.
func txOrigin(v ssa.Value) ssa.Value {
	for i := 0; i < 8 && v != nil; i++ {
		switch t := v.(type) {
		case *ssa.Parameter, *ssa.FreeVar:
			return v
		case *ssa.UnOp:
			if al, ok := t.X.(*ssa.Alloc); ok {
				if sts := engine.StoresTo(al); len(sts) == 1 {
					v = sts[0].Val
					continue
				}
			}
			v = t.X
		case *ssa.ChangeInterface:
			v = t.X
		case *ssa.MakeInterface:
			v = t.X
		default:
			return v
		}
	}
	return v
}

func c17(c *Ctx) {
	defer c.roomIsMeasuredAfterRemovals("R17.6")
	P, R := c.P, c.R
	R.Explain("R17.1", "check-before-insert in the same transaction with the same multiplicity (T-DOM): every transaction call that grows a limited quantity — mailboxes (CreateMailbox, CreateMailboxIfNotExists, GetOrCreateMailbox[Alt]) and messages/UIDs of a mailbox (AddMessagesToMailbox, CreateMessageAndAddToMailbox) — is dominated, in a function that received that transaction, by the matching limits.IMAP.Check* whose count argument comes from a read on the same transaction (GetMailboxCount / GetMailboxMessageCountAndUID); an insert inside a loop is covered only by a check inside that loop or by a check whose argument includes the batch size (len of the list being created). Exempt: the recovery-mailbox inserts (last resort of APPEND, see C20) and newUser's one-time creation of the recovery mailbox.")
	R.Explain("R17.2", "limit errors are returned from the transaction closure (rollback), never swallowed.")

	type growth struct {
		method string
		checks []string
		read   string
	}
	table := []growth{
		{"CreateMailbox", []string{"CheckMailBoxCount"}, "GetMailboxCount"},
		{"CreateMailboxIfNotExists", []string{"CheckMailBoxCount"}, "GetMailboxCount"},
		{"GetOrCreateMailbox", []string{"CheckMailBoxCount"}, "GetMailboxCount"},
		{"GetOrCreateMailboxAlt", []string{"CheckMailBoxCount"}, "GetMailboxCount"},
		{"AddMessagesToMailbox", []string{"CheckMailBoxMessageCount", "CheckUIDCount"}, "GetMailboxMessageCountAndUID"},
		{"CreateMessageAndAddToMailbox", []string{"CheckMailBoxMessageCount", "CheckUIDCount"}, "GetMailboxMessageCountAndUID"},
	}
	exempt := map[string]string{
		"actionCreateRecoveredMessage": "recovery mailbox insert: the last resort that keeps a rejected APPEND (C20); refusing it would lose the message",
		"newUser":                      "one-time creation of the recovery mailbox per user, not an operation of a client or connector",
	}
	var rows []string
	for _, g := range table {
		rows = append(rows, g.method+" requires "+strings.Join(g.checks, "+")+" fed from "+g.read)
	}
	for k, v := range exempt {
		rows = append(rows, "exempt "+k+": "+v)
	}
	R.Table("R17.1 growth calls and exemptions", rows...)

	n := 0
	for _, f := range c.funcsInPkg("internal/state", "internal/backend") {
		for _, cs := range engine.Calls(f) {
			cc := cs.Common()
			if !cc.IsInvoke() || !engine.IsNamed(cc.Value.Type(), "db", "Transaction") {
				continue
			}
			var g *growth
			for i := range table {
				if table[i].method == engine.MethodName(cc.Method) {
					g = &table[i]
				}
			}
			if g == nil {
				continue
			}
			n++
			key := fmtf("%s|tx.%s", c.name(f), g.method)
			if why, ok := exempt[engine.ShortName(topFn(f))]; ok {
				R.Pass("R17.1", key, P.Pos(cs.Pos()), "exempt: "+why)
				continue
			}
			ok, why := c.limitChecked(f, cs.Instr, txOrigin(cc.Value), g.checks, g.read, 0)
			R.Check(ok, "R17.1", key, P.Pos(cs.Pos()), "growth is preceded by the limit check in the same transaction", why+": the configured maximum can be exceeded (sequentially with batches/implicit parents, or by concurrent sessions that all pass an earlier check)")
		}
	}
	R.Min("R17.1", "limit-relevant insert sites", n, 8)

	// ---- R17.5 what is counted ---------------------------------------------------------------
	R.Explain("R17.5", "the quantities compared with the limits are the real ones: the statements behind the reads that feed the limit checks (GetMailboxCount, GetMailboxMessageCount - also used by GetMailboxMessageCountAndUID) count every row of the table (`SELECT COUNT(*) FROM <table>` without WHERE/JOIN/GROUP): rows that merely carry a flag (\\Deleted, hidden, ...) still occupy the mailbox.")
	resSQL := c.sqlAnalysis()
	nq := 0
	for _, st := range resSQL.stmts {
		if st.fn == nil || st.mig {
			continue
		}
		fnName := engine.ShortName(topFn(st.fn))
		if fnName != "GetMailboxCount" && fnName != "GetMailboxMessageCount" {
			continue
		}
		nq++
		up := strings.ToUpper(st.text)
		okq := strings.Contains(up, "COUNT(*)") && !strings.Contains(up, " WHERE ") && !strings.Contains(up, " JOIN ") && !strings.Contains(up, " GROUP ") && !strings.Contains(up, " LIMIT ")
		R.Check(okq, "R17.5", c.name(st.fn)+"|count statement", st.pos, "counts all rows", "the count that feeds the limit check is filtered ("+st.text+"): rows excluded by the filter do not count against the maximum, so the mailbox can hold more than the limit")
	}
	R.Min("R17.5", "count statements feeding limit checks", nq, 2)

	// ---- R17.4 the connector is told only about operations that fit ------------------------
	R.Explain("R17.4", "refusal before any remote effect: every call through the state's Connector that makes the remote side grow (CreateMailbox, CreateMessage, AddMessagesToMailbox, MoveMessagesFromMailbox) is dominated by the limit check for what it is about to add, in the same transaction; for a call inside a loop the check must stand before the loop and cover the whole batch (a per-iteration check lets the first iterations reach the connector before a later one is refused).  Otherwise a refused command leaves the remote changed, and the connector's echo later applies part of it.")
	remote := map[string]growth{
		"CreateMailbox":           {"CreateMailbox", []string{"CheckMailBoxCount"}, "GetMailboxCount"},
		"CreateMessage":           {"CreateMessage", []string{"CheckMailBoxMessageCount", "CheckUIDCount"}, "GetMailboxMessageCountAndUID"},
		"AddMessagesToMailbox":    {"AddMessagesToMailbox", []string{"CheckMailBoxMessageCount", "CheckUIDCount"}, "GetMailboxMessageCountAndUID"},
		"MoveMessagesFromMailbox": {"MoveMessagesFromMailbox", []string{"CheckMailBoxMessageCount", "CheckUIDCount"}, "GetMailboxMessageCountAndUID"},
	}
	nr := 0
	for _, f := range c.funcsInPkg("internal/state") {
		for _, cs := range engine.Calls(f) {
			cc := cs.Common()
			if !cc.IsInvoke() || !engine.IsNamed(cc.Value.Type(), "internal/state", "Connector") {
				continue
			}
			g, ok := remote[engine.MethodName(cc.Method)]
			if !ok {
				continue
			}
			// the transaction handed to the connector
			var txArg ssa.Value
			for _, a := range cc.Args {
				if engine.IsNamed(a.Type(), "db", "Transaction") {
					txArg = a
				}
			}
			if txArg == nil {
				continue
			}
			nr++
			key := fmtf("%s|remote.%s", c.name(f), g.method)
			if why, ok := exempt[engine.ShortName(topFn(f))]; ok {
				R.Pass("R17.4", key, P.Pos(cs.Pos()), "exempt: "+why)
				continue
			}
			c.strictLoop = true
			ok2, why := c.limitChecked(f, cs.Instr, txOrigin(txArg), g.checks, g.read, 0)
			if ok2 {
				// the function may itself be called once per element of a batch: then the caller needs the
				// check for the whole batch before its loop
				if p, isParam := txOrigin(txArg).(*ssa.Parameter); isParam {
					pi := engine.ParamIndex(f, p)
					for _, cs2 := range P.CallersOf(f) {
						if !isProductPkg(engine.RelPkg(P.OwnPkgPath(cs2.Fn))) || engine.Unwrap2(calleeOfSite(c, cs2)) != f {
							continue
						}
						inLoop := false
						for _, h := range cs2.Fn.Blocks {
							if body := engine.LoopBody(h); body != nil && body[cs2.Instr.Block()] {
								inLoop = true
							}
						}
						if !inLoop {
							continue
						}
						if _, ex := exempt[engine.ShortName(topFn(cs2.Fn))]; ex {
							continue
						}
						arg := engine.ArgForParam(cs2.Common(), f, pi)
						if okc, whyc := c.limitChecked(cs2.Fn, cs2.Instr, txOrigin(arg), g.checks, g.read, 0); !okc {
							ok2, why = false, "the check is made once per element ("+c.name(cs2.Fn)+" calls "+c.name(f)+" in a loop) and "+whyc
						}
					}
				}
			}
			c.strictLoop = false
			R.Check(ok2, "R17.4", key, P.Pos(cs.Pos()), "the connector is called only after the limits were checked for the whole operation", why+": a command that is then refused has already changed the remote side; the connector's echo later applies part of it (partial effect of a refused operation)")
		}
	}
	R.Min("R17.4", "growing connector calls in internal/state", nr, 5)

	// ---- R17.3 all-or-nothing: one operation, one growing transaction ---------------------
	R.Explain("R17.3", "all-or-nothing (structural part): a call that opens a write transaction (passes a func(ctx, db.Transaction) closure) whose closure can reach a limited insert is not inside a loop of its function — an operation that splits its inserts over several transactions commits the first ones before a later one is refused.")
	isGrowth := func(cs engine.CallSite) bool {
		cc := cs.Common()
		if !cc.IsInvoke() || !engine.IsNamed(cc.Value.Type(), "db", "Transaction") {
			return false
		}
		for i := range table {
			if table[i].method == engine.MethodName(cc.Method) {
				return true
			}
		}
		return false
	}
	reachesGrowth := func(root *ssa.Function) bool {
		for g := range P.Reachable([]*ssa.Function{root}, engine.ReachOpts{FollowClosures: true, OwnOnly: true}) {
			if !isProductPkg(engine.RelPkg(P.OwnPkgPath(g))) {
				continue
			}
			for _, cs := range engine.Calls(g) {
				if isGrowth(cs) {
					return true
				}
			}
		}
		return false
	}
	m := 0
	for _, f := range c.funcsInPkg("internal/state", "internal/backend", "internal/session") {
		var loopBlocks map[*ssa.BasicBlock]bool
		for _, cs := range engine.Calls(f) {
			var clo *ssa.Function
			for _, a := range cs.Common().Args {
				sig, ok := a.Type().Underlying().(*types.Signature)
				if !ok || sig.Params().Len() != 2 || !engine.IsNamed(sig.Params().At(1).Type(), "db", "Transaction") {
					continue
				}
				clo = engine.FuncValue(a)
			}
			if clo == nil || !reachesGrowth(clo) {
				continue
			}
			m++
			if loopBlocks == nil {
				loopBlocks = map[*ssa.BasicBlock]bool{}
				for _, h := range f.Blocks {
					for b := range engine.LoopBody(h) {
						loopBlocks[b] = true
					}
				}
			}
			key := fmtf("%s|write-tx(%s)", c.name(f), engine.ShortName(clo))
			R.Check(!loopBlocks[cs.Instr.Block()], "R17.3", key, P.Pos(cs.Pos()), "the growing write transaction is opened once, outside any loop",
				"a write transaction that inserts limited rows is opened inside a loop: earlier iterations are committed when a later one is refused (partial effect of a refused multi-message operation)")
		}
	}
	R.Min("R17.3", "write transactions that can grow a limited quantity", m, 8)

	// helpers that return nothing but the verdict of limit checks
	limitHelpers := map[*ssa.Function]bool{}
	for _, g := range c.funcsInPkg("internal/state", "internal/backend") {
		if g.Parent() != nil || g.Signature.Results().Len() != 1 || g.Signature.Results().At(0).Type().String() != "error" {
			continue
		}
		for _, cs := range engine.Calls(g) {
			if isLimitCheck(cs, "CheckMailBoxCount", "CheckMailBoxMessageCount", "CheckUIDCount", "CheckUIDValidity") {
				limitHelpers[g] = true
			}
		}
	}
	k := c.errorsPropagated("R17.2", []string{"internal/state", "internal/backend"}, func(cs engine.CallSite) (string, bool) {
		if isLimitCheck(cs, "CheckMailBoxCount", "CheckMailBoxMessageCount", "CheckUIDCount", "CheckUIDValidity") {
			return "limits." + engine.ShortName(cs.Common().StaticCallee()), true
		}
		// a helper of the package whose only result is the error of such checks (checkMailboxHasRoom, ...)
		if sc := cs.Common().StaticCallee(); sc != nil && limitHelpers[sc] {
			return engine.ShortName(sc), true
		}
		return "", false
	}, "a refused operation would go ahead anyway")
	R.Min("R17.2", "limit checks", k, 10)
}

// limitChecked: instruction `at` (in f, using transaction value tx) is dominated by every
// required check, fed from a read on the same transaction, with matching multiplicity;
// otherwise the obligation moves to every static caller of f that passes the transaction.
func (c *Ctx) limitChecked(f *ssa.Function, at ssa.Instruction, tx ssa.Value, checks []string, read string, depth int) (bool, string) {
	strictLoop := c.strictLoop
	missing := []string{}
	mismatch := ""
	for _, chk := range checks {
		found := false
		for _, cs := range engine.Calls(f) {
			if !isLimitCheck(cs, chk) || !engine.InstrDominates(cs.Instr, at) {
				continue
			}
			// its count argument comes from `read` on the same transaction
			fromRead := false
			for _, x := range arithLeaves(cs.Common().Args[1]) {
				if isReadOn(x, read, tx) {
					fromRead = true
				}
			}
			if !fromRead {
				continue
			}
			// multiplicity: if `at` is in a loop that does not contain the check, the check
			// must mention a batch size (a len(...) term in one of its arguments)
			okMult := true
			for _, h := range f.Blocks {
				body := engine.LoopBody(h)
				if body == nil || !body[at.Block()] {
					continue
				}
				if body[cs.Instr.Block()] {
					if strictLoop {
						okMult = false // a per-iteration check lets earlier iterations reach the connector before a later one is refused
					}
					continue
				}
				hasLen := false
				for _, a := range cs.Common().Args[1:] {
					for _, x := range arithLeaves(a) {
						if _, ok := engine.IsBuiltinCall(x, "len"); ok {
							hasLen = true
						}
					}
				}
				if !hasLen {
					okMult = false
				}
			}
			if okMult && depth == 0 {
				if ic, isCall := at.(ssa.CallInstruction); isCall {
					if why := sameMailboxAndBatch(f, cs, ic, read, tx); why != "" {
						mismatch = why
						okMult = false
					}
				}
			}
			if okMult {
				found = true
			}
		}
		if !found {
			// the check may live in a helper that is called first with the same transaction
			for _, cs := range engine.Calls(f) {
				g := cs.Common().StaticCallee()
				if g == nil || !isProductPkg(engine.RelPkg(c.P.OwnPkgPath(g))) || !engine.InstrDominates(cs.Instr, at) {
					continue
				}
				g = engine.Unwrap2(g)
				inLoopOnly := false
				for _, h := range f.Blocks {
					body := engine.LoopBody(h)
					if body != nil && body[at.Block()] && !body[cs.Instr.Block()] {
						inLoopOnly = true
					}
				}
				for pi, p := range g.Params {
					if !engine.IsNamed(p.Type(), "db", "Transaction") {
						continue
					}
					arg := engine.ArgForParam(cs.Common(), g, pi)
					if arg == nil || (txOrigin(arg) != tx && !(engine.AccessPath(arg) != "" && engine.AccessPath(arg) == engine.AccessPath(tx))) {
						continue
					}
					if c.helperChecks(g, p, chk, read) {
						if !inLoopOnly {
							found = true
						} else if bp := helperBatchParam(g, chk); bp >= 0 && bp < len(cs.Common().Args) {
							// the helper is called once before the loop: it must be told the size of the whole batch
							for _, x := range arithLeaves(engine.ArgForParam(cs.Common(), g, bp)) {
								if _, ok := engine.IsBuiltinCall(x, "len"); ok {
									found = true
								}
							}
						}
					}
				}
			}
		}
		if !found {
			// the check may live in a helper that is handed what was read here (fill.hasRoomFor(n, limits))
			for _, cs := range engine.Calls(f) {
				h := cs.Common().StaticCallee()
				if h == nil || len(h.Blocks) == 0 || !c.P.IsOwn(h) || !engine.InstrDominates(cs.Instr, at) {
					continue
				}
				fed := false
				for _, hc := range engine.Calls(h) {
					if hc.Instr.Parent() != h || !isLimitCheck(hc, chk) {
						continue
					}
					for _, x := range arithLeaves(hc.Common().Args[1]) {
						if ix := paramRootIndex(h, x); ix >= 0 && ix < len(cs.Common().Args) && c.readDerived(cs.Common().Args[ix], read, tx, 2) {
							fed = true
						}
					}
				}
				if !fed {
					continue
				}
				inLoopOnly := false
				for _, hb := range f.Blocks {
					body := engine.LoopBody(hb)
					if body != nil && body[at.Block()] && !body[cs.Instr.Block()] {
						inLoopOnly = true
					}
				}
				if !inLoopOnly {
					found = true
				} else if bp := helperBatchParamDirect(h, chk); bp >= 0 {
					if a := engine.ArgForParam(cs.Common(), h, bp); a != nil {
						for _, x := range arithLeaves(a) {
							if _, ok := engine.IsBuiltinCall(x, "len"); ok {
								found = true
							}
						}
					}
				}
			}
		}
		if !found {
			missing = append(missing, chk)
		}
	}
	if len(missing) == 0 {
		return true, ""
	}
	if mismatch != "" {
		return false, mismatch
	}
	if depth >= 3 {
		return false, "no " + strings.Join(missing, "/") + " on the transaction before this insert within 3 frames"
	}
	// move to the callers that hand the transaction in (tx must be a parameter of f)
	p, isParam := tx.(*ssa.Parameter)
	if !isParam && engine.AccessPath(tx) != "" && strings.Contains(engine.AccessPath(tx), ".") {
		// transaction held in a receiver field: the obligation stays in this function
		return false, "no dominating " + strings.Join(missing, "/") + " (with the batch size) fed from " + read + " on " + engine.AccessPath(tx) + " in " + c.name(f)
	}
	if !isParam {
		return false, "no dominating " + strings.Join(missing, "/") + " (with the batch size) fed from " + read + " on the same transaction in " + c.name(f)
	}
	pi := engine.ParamIndex(f, p)
	callers := c.P.CallersOf(f)
	cnt := 0
	for _, cs := range callers {
		if !isProductPkg(engine.RelPkg(c.P.OwnPkgPath(cs.Fn))) {
			continue
		}
		if engine.Unwrap2(calleeOfSite(c, cs)) != f {
			continue
		}
		cnt++
		arg := engine.ArgForParam(cs.Common(), f, pi)
		if engine.ShortName(topFn(cs.Fn)) == "actionCreateRecoveredMessage" {
			continue
		}
		if ok, why := c.limitChecked(cs.Fn, cs.Instr, txOrigin(arg), missing, read, depth+1); !ok {
			return false, why + " (reached through " + c.name(cs.Fn) + ")"
		}
	}
	if cnt == 0 {
		return false, "no dominating " + strings.Join(missing, "/") + " fed from " + read + " on the same transaction in " + c.name(f) + " and no caller passes the transaction"
	}
	return true, ""
}

func calleeOfSite(c *Ctx, cs engine.CallSite) *ssa.Function {
	if sc := cs.Common().StaticCallee(); sc != nil {
		return sc
	}
	for _, f := range c.P.Callees(cs) {
		return f
	}
	return nil
}

// isReadOn: x is (a component of) the result of tx.<read>(…) on the given transaction value.
func isReadOn(x ssa.Value, read string, tx ssa.Value) bool {
	call, ok := x.(*ssa.Call)
	if !ok || !call.Call.IsInvoke() || engine.MethodName(call.Call.Method) != read {
		return false
	}
	o := txOrigin(call.Call.Value)
	if o == tx {
		return true
	}
	// the transaction kept in a field of the receiver (DBIMAPStateWrite.tx): same access path
	pa, pb := engine.AccessPath(call.Call.Value), engine.AccessPath(tx)
	if pa == "" {
		pa = engine.AccessPath(o)
	}
	return pa != "" && pa == pb
}

// arithLeaves: the leaves of the integer expression v — through +,-,*, conversions, phis,
// tuple extraction and single-store local cells.
func arithLeaves(v ssa.Value) []ssa.Value {
	var out []ssa.Value
	seen := map[ssa.Value]bool{}
	var rec func(v ssa.Value, d int)
	rec = func(v ssa.Value, d int) {
		if v == nil || seen[v] || d > 12 {
			return
		}
		seen[v] = true
		switch t := v.(type) {
		case *ssa.BinOp:
			rec(t.X, d+1)
			rec(t.Y, d+1)
		case *ssa.Phi:
			for _, e := range t.Edges {
				rec(e, d+1)
			}
		case *ssa.Convert:
			rec(t.X, d+1)
		case *ssa.ChangeType:
			rec(t.X, d+1)
		case *ssa.Extract:
			rec(t.Tuple, d+1)
		case *ssa.UnOp:
			if al, ok := t.X.(*ssa.Alloc); ok {
				for _, st := range engine.StoresTo(al) {
					rec(st.Val, d+1)
				}
				return
			}
			out = append(out, v)
		default:
			out = append(out, v)
		}
	}
	rec(v, 0)
	return out
}

func sameVal(a, b ssa.Value) bool {
	if a == b {
		return true
	}
	pa, pb := engine.AccessPath(a), engine.AccessPath(b)
	return pa != "" && pa == pb
}

// sameMailboxAndBatch: for message growth, the check in the insert's own function must
// count the mailbox that is inserted into and be told the size of the inserted batch.
func sameMailboxAndBatch(f *ssa.Function, chk engine.CallSite, ins ssa.CallInstruction, read string, tx ssa.Value) string {
	ic := ins.Common()
	if read != "GetMailboxMessageCountAndUID" || !ic.IsInvoke() || !engine.IsNamed(ic.Value.Type(), "db", "Transaction") {
		return ""
	}
	// insert: (ctx, mailbox, list|req)
	insMbox := ic.Args[1]
	for _, x := range arithLeaves(chk.Common().Args[1]) {
		if call, ok := x.(*ssa.Call); ok && isReadOn(x, read, tx) {
			if !sameVal(call.Call.Args[1], insMbox) {
				return "the limit check counts mailbox " + valName(call.Call.Args[1]) + " but the insert goes into " + valName(insMbox)
			}
		}
	}
	want := chk.Common().Args[2]
	switch engine.MethodName(ic.Method) {
	case "AddMessagesToMailbox":
		list := ic.Args[2]
		for _, x := range arithLeaves(want) {
			if call, ok := engine.IsBuiltinCall(x, "len"); ok && sameVal(call.Call.Args[0], list) {
				return ""
			}
		}
		return "the limit check is not given len(" + valName(list) + "), the number of messages inserted"
	case "CreateMessageAndAddToMailbox":
		if k, ok := want.(*ssa.Const); ok && k.Int64() >= 1 {
			return ""
		}
		return "the limit check is not given the number of messages inserted (1)"
	}
	return ""
}

func valName(v ssa.Value) string {
	if p := engine.AccessPath(v); p != "" {
		return p
	}
	return v.Name()
}

// helperChecks: g performs limit check chk, fed from `read` on its transaction parameter, on
// every path to a nil-error return.
func (c *Ctx) helperChecks(g *ssa.Function, tx *ssa.Parameter, chk, read string) bool {
	if len(g.Blocks) == 0 {
		return false
	}
	cut := map[ssa.Instruction]bool{}
	for _, cs := range engine.Calls(g) {
		if cs.Instr.Parent() != g || !isLimitCheck(cs, chk) {
			continue
		}
		for _, x := range arithLeaves(cs.Common().Args[1]) {
			if isReadOn(x, read, tx) {
				cut[cs.Instr] = true
			}
		}
	}
	// the check may be made by a helper of g that is handed what g read (a struct filled from `read`, a method on it)
	for _, cs := range engine.Calls(g) {
		h := cs.Common().StaticCallee()
		if cs.Instr.Parent() != g || h == nil || h == g || len(h.Blocks) == 0 || !c.P.IsOwn(h) {
			continue
		}
		for _, hc := range engine.Calls(h) {
			if hc.Instr.Parent() != h || !isLimitCheck(hc, chk) {
				continue
			}
			for _, x := range arithLeaves(hc.Common().Args[1]) {
				ix := paramRootIndex(h, x)
				if ix < 0 || ix >= len(cs.Common().Args) {
					continue
				}
				if c.readDerived(cs.Common().Args[ix], read, tx, 2) {
					cut[cs.Instr] = true
				}
			}
		}
	}
	if len(cut) == 0 {
		return false
	}
	for _, ret := range engine.Returns(g) {
		lr := engine.LastResult(ret)
		if lr != nil && !engine.IsNilConst(lr) {
			continue
		}
		if engine.ReachesAvoiding(g, ret, cut, nil) {
			return false
		}
	}
	return true
}

// paramRootIndex: x is a parameter of h, or a field read of one (p.f, also through the cell a struct parameter is
// spilled into): the index of that parameter, else -1.
func paramRootIndex(h *ssa.Function, x ssa.Value) int {
	v := x
	for i := 0; i < 8; i++ {
		switch t := v.(type) {
		case *ssa.Parameter:
			if t.Parent() == h {
				return engine.ParamIndex(h, t)
			}
			return -1
		case *ssa.Field:
			v = t.X
		case *ssa.FieldAddr:
			v = t.X
		case *ssa.UnOp:
			v = t.X
		case *ssa.Alloc:
			sts := engine.StoresTo(t)
			if len(sts) != 1 {
				return -1
			}
			v = sts[0].Val
		default:
			return -1
		}
	}
	return -1
}

// readDerived: v is (a field of / an element of the result of) a call of `read` on tx, or of a helper of gluon that is
// handed tx and makes that call on it.
func (c *Ctx) readDerived(v ssa.Value, read string, tx ssa.Value, depth int) bool {
	for i := 0; i < 8; i++ {
		switch t := v.(type) {
		case *ssa.Extract:
			v = t.Tuple
			continue
		case *ssa.Field:
			v = t.X
			continue
		case *ssa.FieldAddr:
			v = t.X
			continue
		case *ssa.UnOp:
			if al, ok := t.X.(*ssa.Alloc); ok {
				if sts := engine.StoresTo(al); len(sts) == 1 {
					v = sts[0].Val
					continue
				}
			}
			v = t.X
			continue
		}
		break
	}
	if isReadOn(v, read, tx) {
		return true
	}
	if al, ok := v.(*ssa.Alloc); ok && depth > 0 && al.Referrers() != nil {
		// a struct filled in place: one of its fields is stored what was read
		for _, r := range *al.Referrers() {
			if fa, ok := r.(*ssa.FieldAddr); ok && fa.Referrers() != nil {
				for _, r2 := range *fa.Referrers() {
					if st, ok := r2.(*ssa.Store); ok && st.Addr == ssa.Value(fa) && c.readDerived(st.Val, read, tx, depth-1) {
						return true
					}
				}
			}
		}
		return false
	}
	call, ok := v.(*ssa.Call)
	if !ok || depth <= 0 {
		return false
	}
	r := call.Call.StaticCallee()
	if r == nil || len(r.Blocks) == 0 || !c.P.IsOwn(r) {
		return false
	}
	for i, a := range call.Call.Args {
		if txOrigin(a) != tx || i >= len(r.Params) {
			continue
		}
		for _, rc := range engine.Calls(r) {
			if rc.Instr.Parent() == r {
				if rv, isVal := rc.Instr.(*ssa.Call); isVal && isReadOn(rv, read, r.Params[i]) {
					return true
				}
			}
		}
	}
	return false
}

// helperBatchParam: index of the parameter of g that is the "how many more" argument of its limit check
// (-1 if it is not a parameter).
func helperBatchParam(g *ssa.Function, chk string) int {
	if ix := helperBatchParamDirect(g, chk); ix >= 0 {
		return ix
	}
	// the check sits one helper further down: follow the argument that becomes its batch parameter
	for _, cs := range engine.Calls(g) {
		h := cs.Common().StaticCallee()
		if cs.Instr.Parent() != g || h == nil || h == g || len(h.Blocks) == 0 {
			continue
		}
		bp := helperBatchParamDirect(h, chk)
		if bp < 0 {
			continue
		}
		a := engine.ArgForParam(cs.Common(), h, bp)
		if a == nil {
			continue
		}
		for _, x := range arithLeaves(a) {
			if p, ok := x.(*ssa.Parameter); ok && p.Parent() == g && isIntKind(p.Type()) {
				return engine.ParamIndex(g, p)
			}
		}
	}
	return -1
}

func helperBatchParamDirect(g *ssa.Function, chk string) int {
	for _, cs := range engine.Calls(g) {
		if cs.Instr.Parent() != g || !isLimitCheck(cs, chk) {
			continue
		}
		args := cs.Common().Args
		// Check*(recv, existing, new) / CheckMailBoxCount(recv, count)
		for _, a := range args[1:] {
			for _, x := range arithLeaves(a) {
				if p, ok := x.(*ssa.Parameter); ok && p.Parent() == g && isIntKind(p.Type()) {
					return engine.ParamIndex(g, p)
				}
			}
		}
	}
	return -1
}

// roomIsMeasuredAfterRemovals (R17.6): the pre-check counts the mailbox as the insert will find it.
func (c *Ctx) roomIsMeasuredAfterRemovals(rule string) {
	P, R := c.P, c.R
	R.Explain(rule, "operations that fit are accepted: in internal/state, once a function has measured the room of a mailbox (checkMailboxHasRoom, or a limits Check*MessageCount fed from GetMailboxMessageCountAndUID) it does not afterwards take messages out of that same mailbox (a *RemoveMessagesFromMailbox* call whose mailbox argument comes from the same parameter).  COPY / APPEND of a message that is already in the destination first removes the old entry and then adds the new one; measured before the removal, the replaced messages are counted twice and a command that fits into a mailbox at its limit is refused.")
	root := func(v ssa.Value) ssa.Value {
		for i := 0; i < 8; i++ {
			switch t := v.(type) {
			case *ssa.Field:
				v = t.X
			case *ssa.FieldAddr:
				v = t.X
			case *ssa.UnOp:
				v = t.X
			case *ssa.ChangeType:
				v = t.X
			case *ssa.Alloc:
				// a parameter spilled into a cell
				if sts := engine.StoresTo(t); len(sts) == 1 {
					v = sts[0].Val
				} else {
					return v
				}
			default:
				return v
			}
		}
		return v
	}
	mailboxArgs := func(cc *ssa.CallCommon) []ssa.Value {
		var out []ssa.Value
		for _, a := range cc.Args {
			if engine.IsNamed(a.Type(), "imap", "InternalMailboxID") || engine.IsNamed(a.Type(), "db", "MailboxIDPair") {
				out = append(out, root(a))
			}
		}
		return out
	}
	n := 0
	for _, f := range c.funcsInPkg("internal/state") {
		var checks, removers []engine.CallSite
		for _, cs := range engine.Calls(f) {
			if cs.Instr.Parent() != f {
				continue
			}
			cc := cs.Common()
			name := ""
			if sc := cc.StaticCallee(); sc != nil {
				name = engine.ShortName(sc)
			} else if cc.IsInvoke() {
				name = engine.MethodName(cc.Method)
			}
			switch {
			case name == "checkMailboxHasRoom":
				checks = append(checks, cs)
			case strings.Contains(name, "RemoveMessagesFromMailbox"):
				removers = append(removers, cs)
			}
		}
		if len(checks) == 0 || len(removers) == 0 {
			continue
		}
		for _, k := range checks {
			km := mailboxArgs(k.Common())
			for _, r := range removers {
				same := false
				for _, a := range mailboxArgs(r.Common()) {
					for _, b := range km {
						if a == b {
							same = true
						}
					}
				}
				if !same {
					continue
				}
				n++
				R.Check(!engine.InstrReaches(k.Instr, r.Instr), rule, c.name(f)+"|room measured after the removal", P.Pos(k.Pos()), "no removal from the measured mailbox can follow the measurement", "the room of the mailbox is measured ("+P.Pos(k.Pos())+") before messages are taken out of the same mailbox ("+P.Pos(r.Pos())+"): the messages that are about to be replaced are counted as well, and an operation that fits into a mailbox at its limit is refused")
			}
		}
	}
	R.Min(rule, "room checks in functions that also remove from the measured mailbox", n, 1)
}
