package rules

import (
	"fmt"
	"go/constant"
	"go/token"
	"sort"

	"golang.org/x/tools/go/ssa"

	"verifchecker/internal/engine"
)

// announcedSizeIsSumOfParts (R13.11): a size returned next to a concatenated reader is the length of what the reader yields.
func (c *Ctx) announcedSizeIsSumOfParts(rule string) {
	P, R := c.P, c.R
	R.Explain(rule, "RFC822.SIZE is the length of BODY[]: wherever gluon returns an io.MultiReader over byte slices (bytes.NewReader each) together with an int - rfc822.SetHeaderValueNoMemCopy, whose int is stored as the message size for APPEND, imports and connector updates - the int is, as a linear expression over the lengths of the slices (len(x[a:b]) read as b-a, len(x[a:]) as len(x)-a), exactly the sum of the lengths of the reader's parts.  A part that is written but not counted makes every later FETCH announce a size that is smaller than the literal it returns.")
	type atom struct {
		v     ssa.Value
		isLen bool
	}
	type lin struct {
		m map[atom]int64
		k int64
	}
	add := func(a, b lin, sign int64) lin {
		out := lin{m: map[atom]int64{}, k: a.k + sign*b.k}
		for x, n := range a.m {
			out.m[x] += n
		}
		for x, n := range b.m {
			out.m[x] += sign * n
		}
		for x, n := range out.m {
			if n == 0 {
				delete(out.m, x)
			}
		}
		return out
	}
	var linOf func(v ssa.Value, d int) lin
	var lenOf func(x ssa.Value, d int) lin
	linOf = func(v ssa.Value, d int) lin {
		if d > 12 {
			return lin{m: map[atom]int64{{v, false}: 1}}
		}
		switch t := v.(type) {
		case *ssa.Const:
			if t.Value != nil && t.Value.Kind() == constant.Int {
				if n, ok := constant.Int64Val(t.Value); ok {
					return lin{m: map[atom]int64{}, k: n}
				}
			}
		case *ssa.BinOp:
			if t.Op == token.ADD {
				return add(linOf(t.X, d+1), linOf(t.Y, d+1), 1)
			}
			if t.Op == token.SUB {
				return add(linOf(t.X, d+1), linOf(t.Y, d+1), -1)
			}
		case *ssa.Call:
			if _, ok := engine.IsBuiltinCall(t, "len"); ok {
				return lenOf(t.Call.Args[0], d+1)
			}
		case *ssa.Convert:
			return linOf(t.X, d+1)
		case *ssa.ChangeType:
			return linOf(t.X, d+1)
		}
		return lin{m: map[atom]int64{{v, false}: 1}}
	}
	lenOf = func(x ssa.Value, d int) lin {
		if sl, ok := x.(*ssa.Slice); ok && d <= 12 && sl.Max == nil {
			var hi, lo lin
			if sl.High != nil {
				hi = linOf(sl.High, d+1)
			} else {
				hi = lenOf(sl.X, d+1)
			}
			if sl.Low != nil {
				lo = linOf(sl.Low, d+1)
			} else {
				lo = lin{m: map[atom]int64{}}
			}
			return add(hi, lo, -1)
		}
		return lin{m: map[atom]int64{{x, true}: 1}}
	}
	show := func(l lin) string {
		var parts []string
		for a, n := range l.m {
			nm := a.v.Name()
			if a.isLen {
				nm = "len(" + nm + ")"
			}
			parts = append(parts, fmt.Sprintf("%+d*%s", n, nm))
		}
		sort.Strings(parts)
		return fmt.Sprintf("%v %+d", parts, l.k)
	}
	n := 0
	for _, f := range c.productFuncs() {
		ord := 0
		for _, ret := range engine.Returns(f) {
			var mr *ssa.Call
			var size ssa.Value
			for _, rv := range ret.Results {
				if call, ok := rv.(*ssa.Call); ok && call.Call.StaticCallee() != nil && call.Call.StaticCallee().String() == "io.MultiReader" {
					mr = call
				}
				if rv.Type().String() == "int" {
					size = rv
				}
			}
			if mr == nil || size == nil || len(mr.Call.Args) != 1 {
				continue
			}
			sl, ok := mr.Call.Args[0].(*ssa.Slice)
			if !ok {
				continue
			}
			arr, ok := sl.X.(*ssa.Alloc)
			if !ok {
				continue
			}
			sum := lin{m: map[atom]int64{}}
			known := true
			for _, e := range engine.ElemStores(arr) {
				v := e
				if mi, ok := v.(*ssa.MakeInterface); ok {
					v = mi.X
				}
				call, ok := v.(*ssa.Call)
				if !ok || call.Call.StaticCallee() == nil || call.Call.StaticCallee().String() != "bytes.NewReader" {
					known = false
					break
				}
				sum = add(sum, lenOf(call.Call.Args[0], 0), 1)
			}
			if !known {
				continue
			}
			n++
			ord++
			diff := add(linOf(size, 0), sum, -1)
			ok2 := len(diff.m) == 0 && diff.k == 0
			R.Check(ok2, rule, c.name(f)+fmt.Sprintf("|size = sum of the reader's parts|#%d", ord), P.Pos(ret.Pos()), "the returned size equals the total length of the parts", "the size returned with the reader differs from the total length of the reader's parts (size - parts = "+show(diff)+"): the stored RFC822.SIZE is not the length of the literal that is stored and fetched")
		}
	}
	R.Min(rule, "returns of a MultiReader over byte slices with a size", n, 1)
}
