package rules

import (
	"fmt"
	"go/constant"
	"go/token"
	"go/types"
	"math"
	"strings"
	"unicode"

	"golang.org/x/tools/go/ssa"

	"verifchecker/internal/engine"
)

func init() { register("C10", c10) }

func hasLetter(s string) bool {
	for _, r := range s {
		if unicode.IsLetter(r) {
			return true
		}
	}
	return false
}

// loweredString: every producer of the string value is a lower-casing operation
// (strings.ToLower, rfcparser.String.ToLower, a []byte built only from ByteToLower bytes)
// or a lower-case constant.  Parameters are followed to their callers.
func (c *Ctx) loweredString(v ssa.Value) (bool, string) {
	bad := ""
	ok := true
	// a field that was assigned just before in the same block (p.lastCmd = …; p.commands[p.lastCmd])
	if ld, isLd := v.(*ssa.UnOp); isLd {
		if fa, isFA := ld.X.(*ssa.FieldAddr); isFA {
			b := ld.Block()
			for j := engine.InstrIndex(ld) - 1; j >= 0; j-- {
				if st, isSt := b.Instrs[j].(*ssa.Store); isSt {
					if fa2, ok2 := st.Addr.(*ssa.FieldAddr); ok2 && fa2.Field == fa.Field && sameLoad(fa2.X, fa.X) {
						v = st.Val
						break
					}
				}
			}
		}
	}
	origins := c.P.Origins(v, engine.OriginOpts{MaxDepth: 30, Stop: func(x ssa.Value) bool {
		call, isCall := x.(*ssa.Call)
		if !isCall {
			if cv, isConv := x.(*ssa.Convert); isConv {
				// string([]byte) of lowered bytes
				if _, isSlice := cv.X.Type().Underlying().(*types.Slice); isSlice {
					return true
				}
			}
			return false
		}
		sc := call.Call.StaticCallee()
		return sc != nil && (engine.ShortName(sc) == "ToLower" || engine.ShortName(sc) == "ByteToLower")
	}})
	for _, o := range origins {
		switch {
		case o.Kind == "stop":
			if cv, isConv := o.V.(*ssa.Convert); isConv {
				if !loweredBytes(cv.X) {
					ok, bad = false, "a []byte that is not built from ByteToLower bytes only"
				}
			}
		case o.Kind == "const":
			if s, isS := engine.ConstString(o.V); isS && s != strings.ToLower(s) {
				ok, bad = false, "constant "+s
			}
		default:
			ok, bad = false, o.V.String()+" in "+parentNameRaw(o.V)
		}
	}
	if len(origins) == 0 {
		return false, "no producer found"
	}
	return ok, bad
}

func parentNameRaw(v ssa.Value) string {
	if v.Parent() == nil {
		return "?"
	}
	return engine.ShortName(v.Parent())
}

// loweredBytes: the slice is built by appending only ByteToLower results.
func loweredBytes(v ssa.Value) bool {
	ok, any := true, false
	engine.Backward(v, engine.FlowOpts{AppendBase: true, AppendElems: true}, func(x ssa.Value) bool {
		switch t := x.(type) {
		case *ssa.Call:
			if _, isApp := engine.IsBuiltinCall(t, "append"); isApp {
				return true
			}
			if sc := t.Call.StaticCallee(); sc != nil && engine.ShortName(sc) == "ByteToLower" {
				any = true
				return false
			}
			ok = false
			return false
		case *ssa.Const, *ssa.Phi, *ssa.Slice, *ssa.Alloc:
			return true
		default:
			if _, isByte := x.Type().Underlying().(*types.Basic); isByte {
				ok = false
			}
			return true
		}
	})
	return ok && any
}

func c10(c *Ctx) {
	defer c.recursionDepthPaired("R10.6")
	defer c.fixedDigitsUnconstrained("R10.7")
	defer c.keywordFlagsAreOpaque("R10.8")
	defer c.noLengthLimitsInTheParser("R10.9")
	defer c.lookAheadIsConsumedOnce("R10.10")
	defer c.parserDoesNotComputeWithSeqNums("R10.11")
	P, R := c.P, c.R
	R.Explain("R10.1", "case folding (flow): in imap/command every string comparison (==, !=, switch case) against a constant that contains a letter has a lower-case constant and a dynamic side all of whose producers are lower-casing operations (strings.ToLower, rfcparser.String.ToLower, bytes collected through ByteToLower), or uses strings.EqualFold; every command-registry lookup key is lowered; the case-sensitive Parser.ConsumeBytes is never called with a letter; byte comparisons against a letter constant compare a ByteToLower result.")
	R.Explain("R10.3", "T-EXHAUST: every type implementing command.Builder is registered in Parser.commands or UIDCommandParser.commands (or dispatched explicitly), registry keys are lower-case, and every command.Payload type has a case in the session dispatch (handleCommand / handleWithMailbox / handleUID / serve / command reader).")
	R.Explain("R10.4", "chunking independence: rfcparser.Scanner and command.InputCollector read their source only through ReadByte, ReadBytes and io.ReadFull — never through a bare Read whose short count could be mistaken for the full amount.")
	R.Explain("R10.5", "number range: the bound in ParseNumber/ParseNumberN is exactly 2^32-1 (every RFC 3501 number up to 4294967295 is accepted, nothing above it).")

	// ---- R10.1 -----------------------------------------------------------------------
	cmp, lk, cb := 0, 0, 0
	for _, f := range c.funcsInPkg("imap/command") {
		for _, b := range f.Blocks {
			for _, in := range b.Instrs {
				switch t := in.(type) {
				case *ssa.BinOp:
					if t.Op != token.EQL && t.Op != token.NEQ {
						continue
					}
					// string comparison with a letter constant
					if isStringType(t.X.Type()) {
						var k string
						var dyn ssa.Value
						if s, ok := engine.ConstString(t.Y); ok {
							k, dyn = s, t.X
						} else if s, ok := engine.ConstString(t.X); ok {
							k, dyn = s, t.Y
						} else {
							continue
						}
						if !hasLetter(k) {
							continue
						}
						if _, isConst := dyn.(*ssa.Const); isConst {
							continue
						}
						cmp++
						key := c.name(f) + "|cmp " + k
						if k != strings.ToLower(k) {
							R.Fail("R10.1", key, P.Pos(t.Pos()), "keyword constant "+k+" is not lower-case but is compared with ==: keywords are case-insensitive")
							continue
						}
						ok, bad := c.loweredString(dyn)
						R.Check(ok, "R10.1", key, P.Pos(t.Pos()), "keyword compared after lower-casing", "the text compared with \""+k+"\" is not lower-cased on every path ("+bad+"): the keyword is only recognised in one letter case")
					}
					// byte comparison with a letter
					if bt, isB := t.X.Type().Underlying().(*types.Basic); isB && bt.Kind() == types.Uint8 {
						var kv *ssa.Const
						var dyn ssa.Value
						if kc, ok := t.Y.(*ssa.Const); ok {
							kv, dyn = kc, t.X
						} else if kc, ok := t.X.(*ssa.Const); ok {
							kv, dyn = kc, t.Y
						}
						if kv == nil || kv.Value == nil || kv.Value.Kind() != constant.Int {
							continue
						}
						n, _ := constant.Int64Val(kv.Value)
						if !unicode.IsLetter(rune(n)) {
							continue
						}
						cmp++
						okB := false
						if call, isCall := dyn.(*ssa.Call); isCall {
							if sc := call.Call.StaticCallee(); sc != nil && engine.ShortName(sc) == "ByteToLower" {
								okB = unicode.IsLower(rune(n))
							}
						}
						R.Check(okB, "R10.1", fmtf("%s|cmp byte %q", c.name(f), rune(n)), P.Pos(t.Pos()), "byte compared after ByteToLower", "a token byte is compared with the letter "+string(rune(n))+" without ByteToLower: the keyword is case-sensitive")
					}
				case *ssa.Lookup:
					mt, isMap := t.X.Type().Underlying().(*types.Map)
					if !isMap || !isStringType(mt.Key()) || !t.CommaOk {
						continue
					}
					if !engine.IsNamed(mt.Elem(), "imap/command", "Builder") {
						// keyword tables (month names …)
						if _, isConstKey := t.Index.(*ssa.Const); isConstKey {
							continue
						}
					}
					lk++
					ok, bad := c.loweredString(t.Index)
					R.Check(ok, "R10.1", c.name(f)+"|lookup", P.Pos(t.Pos()), "table looked up with a lower-cased key", "a keyword table is indexed with text that is not lower-cased ("+bad+")")
				case *ssa.Call:
					sc := t.Call.StaticCallee()
					if sc == nil || engine.ShortName(sc) != "ConsumeBytes" || engine.RecvNamed(sc) == nil || engine.RecvNamed(sc).Obj().Name() != "Parser" {
						continue
					}
					cb++
					els, _ := variadicElems(t.Call.Args[1])
					letter := ""
					for _, e := range els {
						if kc, ok := e.(*ssa.Const); ok && kc.Value != nil && kc.Value.Kind() == constant.Int {
							n, _ := constant.Int64Val(kc.Value)
							if unicode.IsLetter(rune(n)) {
								letter += string(rune(n))
							}
						} else {
							letter += "?"
						}
					}
					R.Check(letter == "", "R10.1", c.name(f)+"|ConsumeBytes", P.Pos(t.Pos()), "case-sensitive ConsumeBytes used for non-letters only", "Parser.ConsumeBytes (case-sensitive) is used to match the letters \""+letter+"\": the keyword is rejected in any other letter case (use ConsumeBytesFold)")
				}
			}
		}
	}
	R.Min("R10.1", "keyword comparisons in imap/command", cmp, 60)
	R.Min("R10.1", "keyword table lookups", lk, 2)
	R.Stats["R10.1 ConsumeBytes call sites"] = cb

	c10exhaust(c)

	// ---- R10.4 -----------------------------------------------------------------------
	rd := 0
	for _, f := range c.funcsInPkg("rfcparser", "imap/command") {
		top := topFn(f)
		rn := engine.RecvNamed(top)
		if rn == nil || (rn.Obj().Name() != "Scanner" && rn.Obj().Name() != "InputCollector") {
			continue
		}
		for _, cs := range engine.Calls(f) {
			cc := cs.Common()
			if !cc.IsInvoke() {
				continue
			}
			if engine.MethodName(cc.Method) != "Read" && engine.MethodName(cc.Method) != "ReadByte" && engine.MethodName(cc.Method) != "ReadBytes" {
				continue
			}
			rd++
			if engine.MethodName(cc.Method) == "Read" {
				// InputCollector.Read forwards a Read (io.Reader contract): allowed only as `return source.Read(p)`-style forward whose n is used
				okFwd := engine.ShortName(top) == "Read"
				R.Check(okFwd, "R10.4", c.name(f)+"|bare-Read", P.Pos(cs.Pos()), "Read only forwarded by the collector's own Read", "the scanner/collector calls Read directly: a short read (TCP segment boundary) could be taken for the full amount, making the parse depend on how the bytes were split")
			} else {
				R.Pass("R10.4", c.name(f)+"|"+engine.MethodName(cc.Method), P.Pos(cs.Pos()), "byte-wise / delimiter read")
			}
		}
	}
	R.Min("R10.4", "source reads in Scanner / InputCollector", rd, 2)

	// ---- R10.5 -----------------------------------------------------------------------
	for _, name := range []string{"rfcparser.(*Parser).ParseNumber", "rfcparser.(*Parser).ParseNumberN"} {
		f := c.fn("R10.5", name)
		if f == nil {
			continue
		}
		le, edges := c.accumulatorBound(f)
		ok := edges > 0 && le(math.MaxUint32) && !le(math.MaxUint32-1)
		got := "not exactly 2^32-1"
		if edges == 0 {
			got = "not found"
		} else if !le(math.MaxUint32) {
			got = "missing or above 2^32-1"
		} else if le(math.MaxUint32 - 1) {
			got = "below 2^32-1"
		}
		R.Check(ok, "R10.5", name+"|bound-is-2^32-1", P.Pos(f.Pos()), "numbers up to 4294967295 are accepted, larger ones rejected", "the number bound in the accumulation loop is "+got+": valid RFC 3501 numbers (e.g. UID 1:4294967295) are rejected or invalid ones accepted")
	}
}

func loopOf(f *ssa.Function, b *ssa.BasicBlock) map[*ssa.BasicBlock]bool {
	for _, h := range f.Blocks {
		if body := engine.LoopBody(h); body != nil && body[b] {
			return body
		}
	}
	return nil
}

func c10exhaust(c *Ctx) {
	P, R := c.P, c.R
	bt := c.lookupType("imap/command", "Builder")
	pt := c.lookupType("imap/command", "Payload")
	if bt == nil || pt == nil {
		R.Fail("R10.3", "anchor:Builder/Payload", "", "command.Builder or command.Payload not found")
		return
	}
	// registered builder types: MakeInterface to Builder inside NewParser*/NewUIDCommandParser, plus explicit dispatch
	registered := map[string]bool{}
	keysLower := true
	for _, f := range c.funcsInPkg("imap/command") {
		for _, b := range f.Blocks {
			for _, in := range b.Instrs {
				switch t := in.(type) {
				case *ssa.MakeInterface:
					if engine.IsNamed(t.Type(), "imap/command", "Builder") {
						if nt := engine.NamedOf(t.X.Type()); nt != nil {
							registered[nt.Obj().Name()] = true
						}
					}
				case *ssa.MapUpdate:
					if mt, ok := t.Map.Type().Underlying().(*types.Map); ok && engine.IsNamed(mt.Elem(), "imap/command", "Builder") {
						if s, isS := engine.ConstString(t.Key); isS && s != strings.ToLower(s) {
							keysLower = false
						}
					}
				case *ssa.Call:
					// explicit dispatch: UIDExpungeCommandParser{}.FromParser(p)
					if sc := t.Call.StaticCallee(); sc != nil && engine.ShortName(sc) == "FromParser" && engine.RecvNamed(sc) != nil {
						registered[engine.RecvNamed(sc).Obj().Name()] = true
					}
				}
			}
		}
	}
	n := 0
	for _, nt := range c.implementersOf("imap/command", bt.Underlying().(*types.Interface)) {
		n++
		name := nt.Obj().Name()
		R.Check(registered[name], "R10.3", "builder|"+name, "", "builder "+name+" is registered", "command builder "+name+" implements Builder but is not registered in any command table: the command is answered 'unknown command'")
	}
	R.Min("R10.3", "command builders", n, 25)
	R.Check(keysLower, "R10.3", "registry-keys-lower-case", "", "registry keys are lower-case", "a command registry key contains an upper-case letter: lookups use lower-cased input and never find it")
	// payload dispatch: type assertions/switch cases in internal/session
	cases := map[string]bool{}
	for _, f := range c.funcsInPkg("internal/session") {
		for _, b := range f.Blocks {
			for _, in := range b.Instrs {
				if ta, ok := in.(*ssa.TypeAssert); ok {
					if nt := engine.NamedOf(ta.AssertedType); nt != nil && nt.Obj().Pkg() != nil && engine.RelPkg(nt.Obj().Pkg().Path()) == "imap/command" {
						cases[nt.Obj().Name()] = true
					}
				}
			}
		}
	}
	m := 0
	payloads := map[string]bool{}
	for _, f := range c.funcsInPkg("imap/command") {
		for _, b := range f.Blocks {
			for _, in := range b.Instrs {
				if mi, ok := in.(*ssa.MakeInterface); ok && engine.IsNamed(mi.Type(), "imap/command", "Payload") {
					if nt := engine.NamedOf(mi.X.Type()); nt != nil {
						payloads[nt.Obj().Name()] = true
					}
				}
			}
		}
	}
	for _, name := range sortedKeys(payloads) {
		m++
		R.Check(cases[name], "R10.3", "payload|"+name, "", "payload "+name+" is dispatched by the session", "command payload "+name+" has no case in the session's dispatch: a parsed command of this kind is answered 'bad command'")
	}
	R.Min("R10.3", "payload types", m, 28)
	c10uid(c)
	_ = P
}

// c10uid: sibling agreement between the UID command registry and session.handleUID.
func c10uid(c *Ctx) {
	P, R := c.P, c.R
	nu := c.fn("R10.3", "imap/command.NewUIDCommandParser")
	hu := c.fn("R10.3", "internal/session.(*Session).handleUID")
	if nu == nil || hu == nil {
		return
	}
	payloadOf := func(builder string) []string {
		var out []string
		for _, m := range c.methodsOf("imap/command", builder) {
			if engine.ShortName(m) != "FromParser" {
				continue
			}
			for _, f := range engine.WithClosures(m) {
				for _, b := range f.Blocks {
					for _, in := range b.Instrs {
						if mi, ok := in.(*ssa.MakeInterface); ok && engine.IsNamed(mi.Type(), "imap/command", "Payload") {
							if nt := engine.NamedOf(mi.X.Type()); nt != nil {
								out = append(out, nt.Obj().Name())
							}
						}
					}
				}
			}
		}
		return out
	}
	reg := map[string]bool{}
	for _, b := range nu.Blocks {
		for _, in := range b.Instrs {
			if mi, ok := in.(*ssa.MakeInterface); ok && engine.IsNamed(mi.Type(), "imap/command", "Builder") {
				if nt := engine.NamedOf(mi.X.Type()); nt != nil {
					for _, p := range payloadOf(nt.Obj().Name()) {
						reg[p] = true
					}
				}
			}
		}
	}
	cases := map[string]bool{}
	for _, b := range hu.Blocks {
		for _, in := range b.Instrs {
			if ta, ok := in.(*ssa.TypeAssert); ok {
				if nt := engine.NamedOf(ta.AssertedType); nt != nil {
					cases[nt.Obj().Name()] = true
				}
			}
		}
	}
	for _, k := range sortedKeys(cases) {
		R.Check(reg[k], "R10.3", "uid-registry|"+k, P.Pos(nu.Pos()), "UID "+k+" is parseable (registered) and dispatched", "session.handleUID handles UID "+k+" but no builder producing it is registered in the UID command table: 'UID "+strings.ToUpper(k)+" …' is answered as unknown command")
	}
	for _, k := range sortedKeys(reg) {
		R.Check(cases[k], "R10.3", "uid-dispatch|"+k, P.Pos(hu.Pos()), "registered UID command "+k+" has a dispatch case", "the UID command table produces "+k+" but session.handleUID has no case for it (panic 'bad command')")
	}
	R.Min("R10.3", "UID sub-commands", len(cases), 5)
}

// fixedDigitsUnconstrained (R10.7): the nDIGIT productions of RFC 3501's date-time grammar accept every digit string.
func (c *Ctx) fixedDigitsUnconstrained(rule string) {
	P, R := c.P, c.R
	R.Explain(rule, "nDIGIT productions carry no side condition: RFC 3501 writes zone = (\"+\"/\"-\") 4DIGIT, time = 2DIGIT \":\" 2DIGIT \":\" 2DIGIT, date-year = 4DIGIT, date-day-fixed = (SP DIGIT) / 2DIGIT - every digit string of the right width is syntactically valid.  In imap/command no branch whose condition depends on the value returned by Parser.ParseNumberN (directly or through a parse function that returns it) leads to an error return: the command parser never rejects a date or date-time for the value of its numeric fields (normalisation is time.Date's).  Which range would be right is not judged - any value-dependent rejection is reported.")
	numN := c.fnOpt("rfcparser.(*Parser).ParseNumberN")
	if numN == nil {
		R.Fail(rule, "anchor|rfcparser.(*Parser).ParseNumberN", "-", "anchor function ParseNumberN not found")
		return
	}
	funcs := c.funcsInPkg("imap/command")
	tainted := map[*ssa.Function]bool{numN: true}
	isErr := func(t types.Type) bool { return t.String() == "error" }
	var dep func(v ssa.Value, seen map[ssa.Value]bool) bool
	dep = func(v ssa.Value, seen map[ssa.Value]bool) bool {
		if v == nil || seen[v] {
			return false
		}
		seen[v] = true
		switch t := v.(type) {
		case *ssa.Call:
			if sc := t.Call.StaticCallee(); sc != nil && tainted[sc] && !isErr(t.Type()) {
				if _, isTuple := t.Type().(*types.Tuple); !isTuple {
					return true
				}
			}
			return false
		case *ssa.Extract:
			if call, ok := t.Tuple.(*ssa.Call); ok {
				if sc := call.Call.StaticCallee(); sc != nil && tainted[sc] && !isErr(t.Type()) {
					return true
				}
			}
			return false
		case *ssa.BinOp:
			return dep(t.X, seen) || dep(t.Y, seen)
		case *ssa.UnOp:
			if t.Op == token.MUL {
				if a, ok := t.X.(*ssa.Alloc); ok {
					for _, s := range engine.StoresTo(a) {
						if dep(s.Val, seen) {
							return true
						}
					}
				}
				return false
			}
			return dep(t.X, seen)
		case *ssa.Convert:
			return dep(t.X, seen)
		case *ssa.ChangeType:
			return dep(t.X, seen)
		case *ssa.Phi:
			for _, e := range t.Edges {
				if dep(e, seen) {
					return true
				}
			}
		}
		return false
	}
	// functions of imap/command that hand the number on
	for changed := true; changed; {
		changed = false
		for _, f := range funcs {
			if tainted[f] {
				continue
			}
			for _, ret := range engine.Returns(f) {
				for _, r := range ret.Results {
					if !isErr(r.Type()) && dep(r, map[ssa.Value]bool{}) {
						tainted[f] = true
						changed = true
					}
				}
			}
		}
	}
	uses, judged := 0, 0
	for _, f := range funcs {
		usesHere := false
		for _, cs := range engine.Calls(f) {
			if sc := cs.Common().StaticCallee(); sc != nil && tainted[sc] {
				usesHere = true
				uses++
			}
		}
		if !usesHere {
			continue
		}
		judged++
		bad := ""
		for _, b := range f.Blocks {
			ifi := engine.IfOf(b)
			if ifi == nil || !dep(ifi.Cond, map[ssa.Value]bool{}) {
				continue
			}
			for _, ret := range engine.Returns(f) {
				lr := engine.LastResult(ret)
				if lr == nil || !isErr(lr.Type()) || engine.IsNilConst(lr) {
					continue
				}
				// control dependence: the error return is inevitable from one successor but not from the branch itself
				inev := func(s *ssa.BasicBlock) bool {
					seen := map[*ssa.BasicBlock]bool{}
					ok := true
					var walk func(x *ssa.BasicBlock)
					walk = func(x *ssa.BasicBlock) {
						if seen[x] || !ok || x == ret.Block() {
							return
						}
						seen[x] = true
						if len(x.Succs) == 0 {
							ok = false
							return
						}
						for _, y := range x.Succs {
							walk(y)
						}
					}
					walk(s)
					return ok
				}
				if len(b.Succs) == 2 && inev(b.Succs[0]) != inev(b.Succs[1]) {
					bad = P.Pos(ifi.Cond.Pos()) + " -> error return " + P.Pos(ret.Pos())
				}
			}
		}
		R.Check(bad == "", rule, c.name(f)+"|no value-dependent rejection of nDIGIT fields", P.Pos(f.Pos()), "numeric fields are not range-checked by the parser", "a branch on the value of an nDIGIT field leads to an error ("+bad+"): a syntactically valid date/date-time is refused")
	}
	R.Stats["R10.7 nDIGIT field reads"] = uses
	R.Min(rule, "functions that read nDIGIT fields", judged, 5)
}

// keywordFlagsAreOpaque (R10.8): flag-keyword = atom - the parser has no opinion on the text of a keyword flag.
func (c *Ctx) keywordFlagsAreOpaque(rule string) {
	P, R := c.P, c.R
	R.Explain(rule, "flag-keyword = atom: in the flag parsers of imap/command (the functions that test for a `\\` token) an error return that depends on the text of the parsed atom (a comparison of ParseAtom's result, e.g. the refusal of \\Recent) is taken only on the edge on which the backslash was matched; on the other edge the atom is a keyword flag and is accepted whatever it spells (a keyword named `recent`, `seen`, ... is legal).")
	n := 0
	for _, f := range c.funcsInPkg("imap/command") {
		// the backslash test
		var bsIfs []*ssa.BasicBlock
		for _, b := range f.Blocks {
			iff := engine.IfOf(b)
			if iff == nil {
				continue
			}
			ex, ok := iff.Cond.(*ssa.Extract)
			if !ok || ex.Index != 0 {
				continue
			}
			call, ok := ex.Tuple.(*ssa.Call)
			if !ok || call.Call.StaticCallee() == nil || engine.BaseName(call.Call.StaticCallee()) != "Matches" || len(call.Call.Args) < 2 {
				continue
			}
			if k, ok := call.Call.Args[1].(*ssa.Const); ok && k.Value != nil {
				if tn := tokenTypeName(c, k); tn == "TokenTypeBackslash" {
					bsIfs = append(bsIfs, b)
				}
			}
		}
		if len(bsIfs) == 0 {
			continue
		}
		// values derived from ParseAtom's text
		var dep func(v ssa.Value, seen map[ssa.Value]bool) bool
		dep = func(v ssa.Value, seen map[ssa.Value]bool) bool {
			if v == nil || seen[v] {
				return false
			}
			seen[v] = true
			switch t := v.(type) {
			case *ssa.Extract:
				if call, ok := t.Tuple.(*ssa.Call); ok && t.Index == 0 {
					if sc := call.Call.StaticCallee(); sc != nil && engine.BaseName(sc) == "ParseAtom" {
						return true
					}
				}
				return dep(t.Tuple, seen)
			case *ssa.Call:
				for _, a := range t.Call.Args {
					if dep(a, seen) {
						return true
					}
				}
			case *ssa.BinOp:
				return dep(t.X, seen) || dep(t.Y, seen)
			case *ssa.UnOp:
				return dep(t.X, seen)
			case *ssa.Phi:
				for _, e := range t.Edges {
					if dep(e, seen) {
						return true
					}
				}
			case *ssa.Convert:
				return dep(t.X, seen)
			case *ssa.ChangeType:
				return dep(t.X, seen)
			}
			return false
		}
		n++
		bad := ""
		for _, b := range f.Blocks {
			iff := engine.IfOf(b)
			if iff == nil || !dep(iff.Cond, map[ssa.Value]bool{}) {
				continue
			}
			// is an error return control-dependent on this branch?
			rejects := false
			for _, ret := range engine.Returns(f) {
				lr := engine.LastResult(ret)
				if lr == nil || engine.IsNilConst(lr) || lr.Type().String() != "error" {
					continue
				}
				inev := func(s *ssa.BasicBlock) bool {
					seen := map[*ssa.BasicBlock]bool{}
					ok := true
					var walk func(x *ssa.BasicBlock)
					walk = func(x *ssa.BasicBlock) {
						if seen[x] || !ok || x == ret.Block() {
							return
						}
						seen[x] = true
						if len(x.Succs) == 0 {
							ok = false
							return
						}
						for _, y := range x.Succs {
							walk(y)
						}
					}
					walk(s)
					return ok
				}
				if len(b.Succs) == 2 && inev(b.Succs[0]) != inev(b.Succs[1]) {
					rejects = true
				}
			}
			if !rejects {
				continue
			}
			onBackslash := false
			for _, bs := range bsIfs {
				if engine.EdgeDominates(bs, 0, b) {
					onBackslash = true
				}
			}
			if !onBackslash {
				bad = P.Pos(iff.Cond.Pos())
			}
		}
		R.Check(bad == "", rule, c.name(f)+"|no rejection of keyword flags by name", P.Pos(f.Pos()), "text-dependent rejections only after a matched backslash", "a rejection that depends on the atom's text ("+bad+") is not confined to the backslash edge: a keyword flag with that spelling makes the whole command fail")
	}
	R.Min(rule, "flag parsers (functions testing for a backslash token)", n, 1)
}

// tokenTypeName resolves a rfcparser.TokenType constant value to its declared name.
func tokenTypeName(c *Ctx, k *ssa.Const) string {
	nt, ok := k.Type().(*types.Named)
	if !ok || nt.Obj().Name() != "TokenType" || nt.Obj().Pkg() == nil {
		return ""
	}
	sc := nt.Obj().Pkg().Scope()
	for _, name := range sc.Names() {
		if cst, ok := sc.Lookup(name).(*types.Const); ok && types.Identical(cst.Type(), nt) && constant.Compare(cst.Val(), token.EQL, k.Value) {
			return name
		}
	}
	return ""
}

// noLengthLimitsInTheParser (R10.9): the grammar has no length limits, so the parser has none.
func (c *Ctx) noLengthLimitsInTheParser(rule string) {
	P, R := c.P, c.R
	R.Explain(rule, "no argument is refused for its length: in imap/command no error return is control-dependent on a comparison of len(<parsed string or list>) with a constant >= 2 (emptiness tests are fine).  RFC 3501's grammar puts no length on atoms, strings, lists or the fields of ID; size caps that protect the server live in the literal reader (C11), not in the command grammar.  A cap written into a production - even one taken from an RFC's advice to clients - turns a boundary case into BAD (an ID field name of exactly 30 octets with `>=`); the rule reports any such cap, whatever its constant.")
	n := 0
	for _, f := range c.funcsInPkg("imap/command") {
		bad := ""
		for _, b := range f.Blocks {
			iff := engine.IfOf(b)
			if iff == nil {
				continue
			}
			// does the condition compare a len(...) with a constant >= 2 ?
			isLenLimit := false
			seen := map[ssa.Value]bool{}
			var walk func(v ssa.Value, d int)
			walk = func(v ssa.Value, d int) {
				if v == nil || seen[v] || d > 6 {
					return
				}
				seen[v] = true
				switch t := v.(type) {
				case *ssa.BinOp:
					switch t.Op {
					case token.LSS, token.LEQ, token.GTR, token.GEQ, token.EQL, token.NEQ:
						for _, pair := range [][2]ssa.Value{{t.X, t.Y}, {t.Y, t.X}} {
							if call, ok := pair[0].(*ssa.Call); ok {
								if bi, ok := call.Call.Value.(*ssa.Builtin); ok && bi.Name() == "len" {
									if k, ok := pair[1].(*ssa.Const); ok && k.Value != nil && k.Value.Kind() == constant.Int && k.Int64() >= 2 {
										isLenLimit = true
									}
								}
							}
						}
					default:
						walk(t.X, d+1)
						walk(t.Y, d+1)
					}
				case *ssa.UnOp:
					walk(t.X, d+1)
				case *ssa.Phi:
					for _, e := range t.Edges {
						walk(e, d+1)
					}
				}
			}
			walk(iff.Cond, 0)
			if !isLenLimit {
				continue
			}
			for _, ret := range engine.Returns(f) {
				lr := engine.LastResult(ret)
				if lr == nil || lr.Type().String() != "error" || engine.IsNilConst(lr) {
					continue
				}
				if controlDependent(b, ret.Block()) {
					bad = P.Pos(iff.Cond.Pos())
				}
			}
		}
		if bad != "" {
			n++
			R.Check(false, rule, c.name(f)+"|no length cap", bad, "", "a parsed argument is refused because of its length ("+bad+"): a syntactically valid command is answered BAD")
		}
	}
	R.Check(true, rule, "imap/command|scanned", "-", fmt.Sprintf("%d functions scanned, %d with a length cap", len(c.funcsInPkg("imap/command")), n), "")
}

// controlDependent: target is inevitable from exactly one successor of the branch in b.
func controlDependent(b, target *ssa.BasicBlock) bool {
	if len(b.Succs) != 2 {
		return false
	}
	inev := func(s *ssa.BasicBlock) bool {
		seen := map[*ssa.BasicBlock]bool{}
		ok := true
		var walk func(x *ssa.BasicBlock)
		walk = func(x *ssa.BasicBlock) {
			if seen[x] || !ok || x == target {
				return
			}
			seen[x] = true
			if len(x.Succs) == 0 {
				ok = false
				return
			}
			for _, y := range x.Succs {
				walk(y)
			}
		}
		walk(s)
		return ok
	}
	return inev(b.Succs[0]) != inev(b.Succs[1])
}

// lookAheadIsConsumedOnce (R10.10): the bytes of a literal are taken from the stream in one piece per look-ahead.
func (c *Ctx) lookAheadIsConsumedOnce(rule string) {
	P, R := c.P, c.R
	R.Explain(rule, "a literal arrives as written: rfcparser.Scanner.ConsumeBytes puts the scanner's look-ahead byte in front of what it reads (found by its body: it stores the field currentByte into dst[0]), so it is right only for the first read after a token was scanned.  Wherever it is called, no second execution of a ConsumeBytes call can follow the first without a call that advances the scanner (one that reaches Scanner.advance) in between - in particular the call does not sit in a loop that reads a literal block by block.  A second read starts with the stale look-ahead byte and takes one byte too few: the literal is shifted, its tail stays in the stream and is parsed as command text.")
	var target *ssa.Function
	for _, f := range c.funcsInPkg("rfcparser") {
		if rn := engine.RecvNamed(f); rn == nil || rn.Obj().Name() != "Scanner" || engine.ShortName(f) != "ConsumeBytes" {
			continue
		}
		target = f
	}
	if target == nil {
		R.Fail(rule, "anchor|rfcparser.(*Scanner).ConsumeBytes", "-", "rfcparser.(*Scanner).ConsumeBytes not found")
		return
	}
	// does it really prepend the look-ahead?
	prepends := false
	for _, b := range target.Blocks {
		for _, in := range b.Instrs {
			if st, ok := in.(*ssa.Store); ok {
				if _, isIx := st.Addr.(*ssa.IndexAddr); isIx {
					if ld, ok := st.Val.(*ssa.UnOp); ok {
						if fa, ok := ld.X.(*ssa.FieldAddr); ok && fieldOfAddr(fa) != nil && fieldOfAddr(fa).Name() == "currentByte" {
							prepends = true
						}
					}
				}
			}
		}
	}
	if !prepends {
		R.Check(true, rule, "rfcparser.(*Scanner).ConsumeBytes|does not prepend the look-ahead", P.Pos(target.Pos()), "nothing to judge", "")
		return
	}
	advances := func(cs engine.CallSite) bool {
		sc := cs.Common().StaticCallee()
		return sc != nil && engine.ShortName(sc) == "advance" && engine.RecvNamed(sc) != nil && engine.RecvNamed(sc).Obj().Name() == "Scanner"
	}
	n := 0
	for _, f := range c.productFuncs() {
		var sites []ssa.Instruction
		adv := map[ssa.Instruction]bool{}
		for _, cs := range engine.Calls(f) {
			if cs.Instr.Parent() != f {
				continue
			}
			sc := cs.Common().StaticCallee()
			if sc == target {
				sites = append(sites, cs.Instr)
				continue
			}
			if sc != nil && len(sc.Blocks) > 0 && P.IsOwn(sc) && (advances(cs) || callsIn(sc, advances)) {
				adv[cs.Instr] = true
			}
		}
		for _, k1 := range sites {
			n++
			bad := ""
			for _, k2 := range sites {
				if engine.ReachesAvoidingFrom(k1.Block(), engine.InstrIndex(k1)+1, k2, adv, nil) {
					bad = P.Pos(k2.Pos())
				}
			}
			R.Check(bad == "", rule, c.name(f)+"|ConsumeBytes once per look-ahead", P.Pos(k1.Pos()), "no second read without an advance of the scanner in between", "after this read of literal bytes another Scanner.ConsumeBytes ("+bad+") can run without the scanner having been advanced: it starts with the stale look-ahead byte and reads one byte too few - literals larger than one block are shifted and their tail is parsed as command text")
		}
	}
	R.Min(rule, "call sites of Scanner.ConsumeBytes", n, 1)
}
