package rules

import (
	"sort"
	"strings"
	"verifchecker/internal/engine"

	"golang.org/x/tools/go/ssa"
)

func init() { register("C11", c11) }

// recEntry describes how a recursion cycle is bounded when it has no depth guard.
type recEntry struct {
	member      string // one member identifies the cycle
	bytesPerLvl int    // minimal input bytes needed for one more level
	capBytes    int64  // cap of the input that drives it (0: unbounded)
	boundedBy   string // member of another cycle whose guard bounds the structure walked here
	reason      string
}

const goMaxStack = 1_000_000_000 // runtime: goroutine stack exceeds 1000000000-byte limit -> fatal

var recTable = []recEntry{
	{member: "rfc822.(*Section).load", bytesPerLvl: 29, capBytes: 30 << 20, reason: "one level per embedded message/rfc822 part: needs at least a 'Content-Type:message/rfc822' header line and a blank line (29 bytes); message size is capped by the 30 MiB literal limit"},
	{member: "rfc822.(*Section).Walk", bytesPerLvl: 29, capBytes: 30 << 20, reason: "walks the MIME tree; depth = nesting of multipart/message parts, each needs >= 29 bytes of headers/boundary"},
	{member: "rfc822.(*Section).Part", bytesPerLvl: 29, capBytes: 30 << 20, reason: "descends the MIME tree along a section path; stops where the tree ends"},
	{member: "imap.structure", bytesPerLvl: 29, capBytes: 30 << 20, reason: "BODYSTRUCTURE builder recursing over the MIME tree"},
	{member: "imap/command.(SearchKeyList).String", boundedBy: "imap/command.parseSearchKey", reason: "prints the search-key tree built by parseSearchKey"},
	{member: "imap/command.(SearchKeyList).SanitizedString", boundedBy: "imap/command.parseSearchKey", reason: "prints the search-key tree built by parseSearchKey"},
	{member: "imap/command.(UID).String", boundedBy: "registry", reason: "UID wraps exactly one non-UID command (the UID registry does not contain the UID builder)"},
	{member: "imap/command.(UID).SanitizedString", boundedBy: "registry", reason: "as above"},
	{member: "imap/command.(*UIDCommandParser).FromParser", boundedBy: "registry", reason: "dispatches through UIDCommandParser.commands, which does not contain the UID builder itself: not a real cycle (call-graph over-approximation of the Builder interface)"},
}

func (c *Ctx) boundedRecursion(rule string, pkgs []string, framePkgs []string, minCycles int) {
	P, R := c.P, c.R
	R.Explain(rule, "bounded recursion (T-REC): every cycle of the call graph inside the packages that parse attacker-controlled input must be cut by a depth guard (a counter field compared with a constant, error on exceed, whose nil edge dominates the recursive calls); otherwise the cycle must be listed with the minimal input bytes one more level costs and the cap of that input, and frame bytes per turn (from the compiler, go build -gcflags=-S) x (cap / bytes per level) must stay below the 1 GB goroutine stack limit, whose overflow is fatal for the process. Unlisted unguarded cycles are violations.")
	comps := c.recursionCycles(pkgs...)
	guards := c.depthGuards()
	var gnames []string
	for g := range guards {
		gnames = append(gnames, c.name(g))
	}
	sort.Strings(gnames)
	R.Table(rule+" depth-guard functions (derived)", gnames...)
	var rows []string
	for _, e := range recTable {
		rows = append(rows, e.member+": "+e.reason)
	}
	R.Table(rule+" unguarded cycles accepted with a bound", rows...)
	frames, ferr := c.frameSizes(framePkgs...)
	guardedCycle := map[string]bool{}
	type pending struct {
		comp []*ssa.Function
		e    recEntry
	}
	var later []pending
	for _, comp := range comps {
		key := c.cycleName(comp)
		gm := c.guardedMembers(comp, guards)
		pos := P.Pos(comp[0].Pos())
		if len(gm) > 0 && c.acyclicWithout(comp, gm) {
			for _, f := range comp {
				guardedCycle[c.name(f)] = true
			}
			R.Pass(rule, "cycle|"+key, pos, "every cycle passes a depth guard")
			continue
		}
		var ent *recEntry
		for i := range recTable {
			for _, f := range comp {
				if c.name(f) == recTable[i].member {
					ent = &recTable[i]
				}
			}
		}
		if ent == nil {
			R.Fail(rule, "cycle|"+key, pos, "recursion over attacker-controlled input without a depth guard and without a listed bound: nesting depth is limited only by the input size, and exceeding the 1 GB goroutine stack kills the whole server")
			continue
		}
		if ent.boundedBy != "" {
			later = append(later, pending{comp, *ent})
			continue
		}
		if ferr != nil {
			R.Fail(rule, "cycle|"+key, pos, "frame sizes unavailable: "+ferr.Error())
			continue
		}
		total := 0
		missing := ""
		for _, f := range comp {
			if f.Parent() != nil {
				continue
			}
			sz, ok := frames[symbolOf(c.name(f))]
			if !ok {
				missing = c.name(f)
			}
			total += sz
		}
		if missing != "" {
			R.Fail(rule, "cycle|"+key, pos, "no frame size reported by the compiler for "+missing)
			continue
		}
		levels := ent.capBytes / int64(ent.bytesPerLvl)
		need := levels * int64(total)
		R.Check(need < goMaxStack, rule, "cycle|"+key, pos,
			fmtf("unguarded, but bounded: %d bytes of frames per level x at most %d levels (%d-byte cap / %d bytes per level) = %d MB < 1000 MB", total, levels, ent.capBytes, ent.bytesPerLvl, need>>20),
			fmtf("unguarded recursion can need %d MB of stack (%d bytes per level x %d levels): above the 1 GB limit, the process dies", need>>20, total, levels))
	}
	for _, pnd := range later {
		key := c.cycleName(pnd.comp)
		pos := P.Pos(pnd.comp[0].Pos())
		switch pnd.e.boundedBy {
		case "registry":
			ok := c.uidRegistryExcludesUID()
			R.Check(ok, rule, "cycle|"+key, pos, "not a real cycle: the UID command registry does not contain the UID builder", "the UID command registry contains the UID builder: UID UID UID ... recurses without bound")
		default:
			R.Check(guardedCycle[pnd.e.boundedBy], rule, "cycle|"+key, pos, "walks a tree whose depth is bounded by the guard of "+pnd.e.boundedBy, "walks a tree built by "+pnd.e.boundedBy+", whose recursion is not depth-guarded")
		}
	}
	R.Min(rule, "recursion cycles in the parsing packages", len(comps), minCycles)
}

// uidRegistryExcludesUID: no value stored into UIDCommandParser.commands is the UID builder.
func (c *Ctx) uidRegistryExcludesUID() bool {
	f := c.fnOpt("imap/command.NewUIDCommandParser")
	if f == nil {
		for _, g := range c.funcsInPkg("imap/command") {
			if strings.Contains(engine.ShortName(g), "UIDCommandParser") && strings.HasPrefix(engine.ShortName(g), "New") {
				f = g
			}
		}
	}
	if f == nil {
		return false
	}
	for _, b := range f.Blocks {
		for _, in := range b.Instrs {
			if mi, ok := in.(*ssa.MakeInterface); ok {
				if strings.Contains(mi.X.Type().String(), "UIDCommandParser") {
					return false
				}
			}
		}
	}
	return true
}

func c11(c *Ctx) {
	c.eofTermination("R11.1", "imap/command", "rfcparser")
	c.boundedRecursion("R11.2", []string{"imap/command", "rfcparser", "internal/session", "liner"}, []string{"imap/command", "rfcparser"}, 6)
	c.literalBounds("R11.3")
	c.readerErrorPath("R11.5")
	c.taggedResponsesNotDropped("R11.6")
	c.recursionDepthPaired("R11.7")
	c.boundedAccumulation("R11.8")
	c.parseErrorsKeepTheTag("R11.9")
	c.nilEncodingIsRefused("R11.10")
	c.headerOffsetsInRange("R11.11")
	c.noNegativeIndex("R11.12")
	c.mailboxNamesAreValidated("R11.13")
	c.payloadOnlyAfterErrorCheck("R11.14")
}
