package rules

import (
	"go/types"
	"strings"

	"golang.org/x/tools/go/ssa"

	"verifchecker/internal/engine"
)

// isSQLMethod: call is (*sql.T).name
func isSQLMethod(cc *ssa.CallCommon, typ string, names ...string) bool {
	sc := cc.StaticCallee()
	if sc == nil || sc.Pkg == nil || sc.Pkg.Pkg.Path() != "database/sql" {
		return false
	}
	rn := engine.RecvNamed(sc)
	if rn == nil || rn.Obj().Name() != typ {
		return false
	}
	for _, n := range names {
		if engine.ShortName(sc) == n {
			return true
		}
	}
	return false
}

// txTypestate (R07.4 / R08.5): every function that begins a *sql.Tx finishes it exactly
// once on every path, commits only when the operation returned nil, rolls back in the
// panic path, and does not let the transaction escape.
func (c *Ctx) txTypestate(rule string) {
	P, R := c.P, c.R
	R.Explain(rule, "typestate of *sql.Tx: in every function calling (*sql.DB).BeginTx, each path from the successful Begin to a return performs exactly one Commit or Rollback; Commit is dominated by the nil edge of the operation's error; a deferred recover handler rolls back; the *sql.Tx is only used as receiver, handed to the operation callback or captured by that handler.")
	n := 0
	for _, f := range c.productFuncs() {
		for _, cs := range engine.Calls(f) {
			if !isSQLMethod(cs.Common(), "DB", "BeginTx", "Begin") {
				continue
			}
			n++
			begin := cs.Instr.(*ssa.Call)
			key := c.name(f) + "|BeginTx"
			var tx ssa.Value
			for _, r := range *begin.Referrers() {
				if ex, ok := r.(*ssa.Extract); ok && ex.Index == 0 {
					tx = ex
				}
			}
			if tx == nil {
				R.Fail(rule, key, P.Pos(begin.Pos()), "transaction value of BeginTx not found")
				continue
			}
			// tx may live in a cell (captured by the deferred handler): uses are loads of it
			var cell *ssa.Alloc
			for _, r := range *tx.Referrers() {
				if st, ok := r.(*ssa.Store); ok && st.Val == tx {
					if al, ok := st.Addr.(*ssa.Alloc); ok && len(engine.StoresTo(al)) == 1 {
						cell = al
					}
				}
			}
			isTx := func(v ssa.Value) bool {
				if v == tx {
					return true
				}
				if ld, ok := v.(*ssa.UnOp); ok && cell != nil && ld.X == ssa.Value(cell) {
					return true
				}
				return false
			}
			// finishers in f itself
			fin := map[ssa.Instruction]bool{}
			var commits []*ssa.Call
			for _, cs2 := range engine.Calls(f) {
				if isSQLMethod(cs2.Common(), "Tx", "Commit", "Rollback") && isTx(cs2.Common().Args[0]) {
					fin[cs2.Instr] = true
					if engine.ShortName(cs2.Common().StaticCallee()) == "Commit" {
						commits = append(commits, cs2.Instr.(*ssa.Call))
					}
				}
			}
			// a helper that is handed the transaction and finishes it on every path counts as finisher
			for _, cs2 := range engine.Calls(f) {
				g := cs2.Common().StaticCallee()
				if g == nil || !P.IsOwn(g) || len(g.Blocks) == 0 || cs2.Instr.Parent() != f {
					continue
				}
				for i, a := range cs2.Common().Args {
					if !isTx(a) || i >= len(g.Params) {
						continue
					}
					switch txFinisherKind(g, g.Params[i]) {
					case "Rollback":
						fin[cs2.Instr] = true
					case "Commit", "mixed":
						fin[cs2.Instr] = true
						if call, ok := cs2.Instr.(*ssa.Call); ok {
							commits = append(commits, call)
						}
					}
				}
			}
			// success edge of Begin: the block where err == nil
			// (a) every return reachable from a use of tx passes a finisher
			okAll := true
			// start after the error check: find If on begin's err
			var startBlocks []*ssa.BasicBlock
			for _, r := range *begin.Referrers() {
				if ex, ok := r.(*ssa.Extract); ok && ex.Index == 1 {
					for _, r2 := range *ex.Referrers() {
						if bin, ok := r2.(*ssa.BinOp); ok {
							for _, r3 := range *bin.Referrers() {
								if iff, ok := r3.(*ssa.If); ok {
									ix := 1
									if bin.Op.String() == "==" {
										ix = 0
									}
									startBlocks = append(startBlocks, iff.Block().Succs[ix])
								}
							}
						}
					}
				}
			}
			if len(startBlocks) == 0 {
				R.Fail(rule, key+"|begin-error-checked", P.Pos(begin.Pos()), "the error of BeginTx is not checked")
				continue
			}
			for _, sb := range startBlocks {
				for _, ret := range engine.Returns(f) {
					if engine.ReachesAvoidingFrom(sb, 0, ret, fin, nil) {
						okAll = false
						R.Fail(rule, key+"|finish-on-every-path", P.Pos(ret.Pos()), "a path from the successful BeginTx reaches this return without Commit or Rollback: the transaction (and the database lock it holds) leaks, or its effects stay pending")
					}
				}
			}
			if okAll {
				R.Pass(rule, key+"|finish-on-every-path", P.Pos(begin.Pos()), "every path after BeginTx commits or rolls back")
			}
			// (b) at most one finisher per path
			twice := false
			for a := range fin {
				for b := range fin {
					if a != b && engine.InstrReaches(a, b) {
						twice = true
					}
				}
			}
			R.Check(!twice, rule, key+"|finish-once", P.Pos(begin.Pos()), "no path finishes the transaction twice", "a path performs two of Commit/Rollback on the same transaction")
			// (c) Commit only on the nil edge of the operation error
			for _, cm := range commits {
				ok := false
				for _, b := range f.Blocks {
					iff := engine.IfOf(b)
					if iff == nil {
						continue
					}
					bin, isBin := iff.Cond.(*ssa.BinOp)
					if !isBin || !(engine.IsNilConst(bin.Y) || engine.IsNilConst(bin.X)) {
						continue
					}
					other := bin.X
					if engine.IsNilConst(bin.X) {
						other = bin.Y
					}
					// other must be the error result of a call that received tx
					call, isCall := other.(*ssa.Call)
					if !isCall {
						continue
					}
					gotTx := false
					for _, a := range call.Call.Args {
						if isTx(a) {
							gotTx = true
						}
					}
					if !gotTx {
						continue
					}
					nilIx := 1
					if bin.Op.String() == "==" {
						nilIx = 0
					}
					if engine.EdgeDominates(b, nilIx, cm.Block()) {
						ok = true
					}
				}
				R.Check(ok, rule, key+"|commit-on-nil-only", P.Pos(cm.Pos()), "Commit is reached only when the operation returned nil", "Commit is not dominated by the nil edge of the operation's error: an erroring transaction would leave a trace")
			}
			R.Check(len(commits) > 0, rule, key+"|has-commit", P.Pos(begin.Pos()), "transaction is committed on success", "no Commit on the transaction")
			// (d) escape: uses of tx
			esc := ""
			hasRecoverRollback := false
			uses := append([]ssa.Instruction{}, *tx.Referrers()...)
			if cell != nil {
				for _, r := range *cell.Referrers() {
					if ld, ok := r.(*ssa.UnOp); ok {
						uses = append(uses, *ld.Referrers()...)
					}
				}
			}
			for _, r := range uses {
				switch t := r.(type) {
				case *ssa.Call:
					if fin[t] {
						continue
					}
					// passed to the operation callback (dynamic call of a parameter) is fine
					if _, isParam := t.Call.Value.(*ssa.Parameter); isParam && !t.Call.IsInvoke() {
						continue
					}
					esc = "passed to " + t.Call.Value.String()
				case *ssa.MakeClosure:
					cl := t.Fn.(*ssa.Function)
					// the deferred handler: recover + rollback on the non-nil edge
					hasRec := false
					for _, cs3 := range engine.Calls(cl) {
						if b, ok := cs3.Common().Value.(*ssa.Builtin); ok && b.Name() == "recover" {
							hasRec = true
						}
					}
					rb := false
					for _, cs3 := range engine.Calls(cl) {
						if isSQLMethod(cs3.Common(), "Tx", "Rollback") {
							rb = true
						}
						if isSQLMethod(cs3.Common(), "Tx", "Commit") {
							esc = "committed inside closure " + c.name(cl)
						}
					}
					if hasRec && rb {
						hasRecoverRollback = true
					} else if !hasRec {
						esc = "captured by closure " + c.name(cl)
					}
				case *ssa.Store:
					if t.Val == tx {
						if al, ok := t.Addr.(*ssa.Alloc); ok {
							// captured variable cell: inspect closures using it
							for _, r2 := range *al.Referrers() {
								if mc, ok := r2.(*ssa.MakeClosure); ok {
									cl := mc.Fn.(*ssa.Function)
									hasRec, rb := false, false
									for _, cs3 := range engine.Calls(cl) {
										if b, ok := cs3.Common().Value.(*ssa.Builtin); ok && b.Name() == "recover" {
											hasRec = true
										}
										if isSQLMethod(cs3.Common(), "Tx", "Rollback") {
											rb = true
										}
									}
									if hasRec && rb {
										hasRecoverRollback = true
									}
								}
							}
							continue
						}
						esc = "stored to " + t.Addr.String()
					}
				case *ssa.Return:
					esc = "returned"
				case *ssa.MakeInterface, *ssa.DebugRef:
				default:
				}
			}
			R.Check(esc == "", rule, key+"|no-escape", P.Pos(begin.Pos()), "the *sql.Tx stays inside the wrapper", "the *sql.Tx escapes the wrapper ("+esc+"): its commit/rollback can no longer be accounted for")
			R.Check(hasRecoverRollback, rule, key+"|rollback-on-panic", P.Pos(begin.Pos()), "a deferred recover handler rolls the transaction back", "no deferred recover handler rolls the transaction back: a panic inside the operation leaves the transaction open")
		}
	}
	R.Min(rule, "functions beginning a transaction", n, 1)
}

// tracerAgreement (R08.6): tracers forward to the identically named method, arguments in order.
func (c *Ctx) tracerAgreement(rule string) {
	P, R := c.P, c.R
	R.Explain(rule, "sibling agreement: every method of utils.ReadTracer / utils.WriteTracer calls the identically named method of the wrapped db.ReadOnly / db.Transaction exactly once, with its own parameters in order, and returns that call's results in order; every method of db.ReadOnly / db.Transaction is implemented by readOps / writeOps in package sqlite3.")
	n := 0
	for _, tn := range []string{"ReadTracer", "WriteTracer"} {
		for _, m := range c.methodsOf("internal/db_impl/sqlite3/utils", tn) {
			if len(m.Blocks) == 0 || m.Synthetic != "" {
				continue
			}
			n++
			key := c.name(m)
			var fwd []*ssa.Call
			for _, cs := range engine.Calls(m) {
				cc := cs.Common()
				if cc.IsInvoke() && cc.Method.Name() == m.Name() {
					if call, ok := cs.Instr.(*ssa.Call); ok {
						fwd = append(fwd, call)
					}
				}
			}
			if len(fwd) != 1 {
				R.Fail(rule, key, P.Pos(m.Pos()), fmtf("tracer method forwards to the same-named method %d times (want exactly 1)", len(fwd)))
				continue
			}
			call := fwd[0]
			ok := len(call.Call.Args) == len(m.Params)-1
			if ok {
				for i, a := range call.Call.Args {
					if a != ssa.Value(m.Params[i+1]) {
						ok = false
					}
				}
			}
			if !ok {
				R.Fail(rule, key, P.Pos(call.Pos()), "tracer does not pass its own parameters, in order, to the wrapped method")
				continue
			}
			// results
			resOK := true
			for _, ret := range engine.Returns(m) {
				switch len(ret.Results) {
				case 0:
				case 1:
					if ret.Results[0] != ssa.Value(call) {
						resOK = false
					}
				default:
					for i, rv := range ret.Results {
						ex, isEx := rv.(*ssa.Extract)
						if !isEx || ex.Tuple != ssa.Value(call) || ex.Index != i {
							resOK = false
						}
					}
				}
			}
			R.Check(resOK, rule, key, P.Pos(call.Pos()), "forwards parameters and results unchanged", "tracer does not return the wrapped method's results in order")
		}
	}
	R.Min(rule, "tracer methods", n, 60)
	// interface coverage
	for _, pair := range [][2]string{{"ReadOnly", "readOps"}, {"Transaction", "writeOps"}} {
		it := c.lookupType("db", pair[0])
		impl := c.lookupType("internal/db_impl/sqlite3", pair[1])
		if it == nil || impl == nil {
			R.Fail(rule, "anchor:"+pair[0], "", "db."+pair[0]+" or sqlite3."+pair[1]+" not found")
			continue
		}
		iface, _ := it.Underlying().(*types.Interface)
		ms := types.NewMethodSet(impl)
		missing := []string{}
		for i := 0; i < iface.NumMethods(); i++ {
			if ms.Lookup(impl.Obj().Pkg(), iface.Method(i).Name()) == nil {
				missing = append(missing, iface.Method(i).Name())
			}
		}
		R.Check(len(missing) == 0, rule, "implements|"+pair[0], "", fmtf("%s implements all %d methods of db.%s", pair[1], iface.NumMethods(), pair[0]), "missing: "+strings.Join(missing, ","))
	}
}

// rowsErr (R08.8): after a rows.Next() loop the iteration error is checked.
func (c *Ctx) rowsErr(rule string) {
	P, R := c.P, c.R
	R.Explain(rule, "typestate of *sql.Rows: every function that iterates with rows.Next() calls rows.Err() on every path from the loop to a nil-error return (otherwise a read failing part-way is reported as a complete, shorter result).")
	n := 0
	for _, f := range c.productFuncs() {
		var nexts []*ssa.Call
		cut := map[ssa.Instruction]bool{}
		for _, cs := range engine.Calls(f) {
			if isSQLMethod(cs.Common(), "Rows", "Next") {
				if call, ok := cs.Instr.(*ssa.Call); ok {
					nexts = append(nexts, call)
				}
			}
			if isSQLMethod(cs.Common(), "Rows", "Err") {
				cut[cs.Instr] = true
			}
		}
		for _, nx := range nexts {
			n++
			key := c.name(f) + "|rows.Next"
			bad := ""
			for _, ret := range engine.Returns(f) {
				if len(ret.Results) == 0 {
					continue
				}
				last := engine.LastResult(ret)
				if !engine.IsNilConst(last) {
					continue
				}
				if engine.ReachesAvoidingFrom(nx.Block(), engine.InstrIndex(nx)+1, ret, cut, nil) {
					bad = P.Pos(ret.Pos())
				}
			}
			R.Check(bad == "", rule, key, P.Pos(nx.Pos()), "rows.Err() is consulted before reporting success", "the loop over rows.Next() can end in a nil-error return ("+bad+") without rows.Err() being checked: a query that fails part-way (I/O error, cancelled context) yields a silently truncated result")
		}
	}
	R.Min(rule, "rows.Next loops", n, 2)
}

// txFinisherKind: g finishes the transaction given as parameter p exactly once on every path
// to a return (and does nothing else with it but call its methods): "Rollback", "Commit",
// "mixed", or "" if it is not such a helper.
func txFinisherKind(g *ssa.Function, p *ssa.Parameter) string {
	fin := map[ssa.Instruction]bool{}
	kinds := map[string]bool{}
	for _, cs := range engine.Calls(g) {
		if cs.Instr.Parent() != g {
			continue
		}
		if isSQLMethod(cs.Common(), "Tx", "Commit", "Rollback") && cs.Common().Args[0] == ssa.Value(p) {
			fin[cs.Instr] = true
			kinds[engine.ShortName(cs.Common().StaticCallee())] = true
		}
	}
	if len(fin) == 0 {
		return ""
	}
	for _, r := range *p.Referrers() {
		ci, ok := r.(ssa.CallInstruction)
		if !ok {
			if _, dbg := r.(*ssa.DebugRef); dbg {
				continue
			}
			return ""
		}
		if sc := ci.Common().StaticCallee(); sc == nil || len(ci.Common().Args) == 0 || ci.Common().Args[0] != ssa.Value(p) {
			return ""
		}
	}
	for _, ret := range engine.Returns(g) {
		if engine.ReachesAvoiding(g, ret, fin, nil) {
			return ""
		}
	}
	for a := range fin {
		for b := range fin {
			if a != b && engine.InstrReaches(a, b) {
				return ""
			}
		}
	}
	switch {
	case kinds["Commit"] && kinds["Rollback"]:
		return "mixed"
	case kinds["Commit"]:
		return "Commit"
	}
	return "Rollback"
}

// chunkAliasing (R08.9): a chunk handed out by xslices.Chunk is a view into the chunked slice.
func (c *Ctx) chunkAliasing(rule string) {
	P, R := c.P, c.R
	R.Explain(rule, "chunk discipline, aliasing part: the sub-slices returned by xslices.Chunk share the backing array of the chunked slice and all but the last have spare capacity, so append(chunk, x) overwrites the first element of the next chunk (that element is then bound as the wrong value / skipped by the statement).  No append has a Chunk element as its destination; arguments are added to a copy (MapSliceToAny(chunk), a fresh slice).")
	isChunkCall := func(v ssa.Value) bool {
		call, ok := v.(*ssa.Call)
		if !ok {
			return false
		}
		sc := call.Call.StaticCallee()
		return sc != nil && engine.BaseName(sc) == "Chunk" && strings.Contains(engine.PkgPathOf(sc), "xslices")
	}
	fromChunk := func(v ssa.Value) bool {
		return engine.AnyBackward(v, engine.FlowOpts{Loads: true}, func(x ssa.Value) bool {
			u, ok := x.(*ssa.UnOp)
			if !ok {
				return false
			}
			ia, ok := u.X.(*ssa.IndexAddr)
			if !ok {
				return false
			}
			return engine.AnyBackward(ia.X, engine.FlowOpts{Loads: true}, isChunkCall)
		})
	}
	chunks, appends := 0, 0
	for _, f := range c.productFuncs() {
		uses := false
		for _, cs := range engine.Calls(f) {
			if call, ok := cs.Instr.(*ssa.Call); ok && isChunkCall(call) {
				uses = true
				chunks++
			}
		}
		if !uses {
			continue
		}
		for _, cs := range engine.Calls(f) {
			bi, ok := cs.Common().Value.(*ssa.Builtin)
			if !ok || bi.Name() != "append" || len(cs.Common().Args) == 0 {
				continue
			}
			appends++
			R.Check(!fromChunk(cs.Common().Args[0]), rule, c.name(f)+"|append-destination", P.Pos(cs.Pos()), "append does not write into a chunk view", "append's destination is an element of xslices.Chunk(...): it has spare capacity inside the chunked slice, so the appended value overwrites the first element of the next chunk - ids at every multiple of the chunk size are bound wrongly or skipped")
		}
	}
	R.Min(rule, "functions using xslices.Chunk", chunks, 10)
	_ = appends
}

// foreignKeysOnEveryConnection (R08.10).
func (c *Ctx) foreignKeysOnEveryConnection(rule string) {
	P, R := c.P, c.R
	R.Explain(rule, "referential actions are enforced on every pooled connection: the data source name given to sql.Open for the sqlite3 driver enables foreign keys (`_fk=1` / `_foreign_keys=…`).  A `PRAGMA foreign_keys = ON` executed through *sql.DB configures only the one connection it happens to run on; statements that later run on another connection of the pool would skip ON DELETE CASCADE / REFERENCES checks, leaving rows of deleted messages and mailboxes behind.")
	n := 0
	for _, f := range c.productFuncs() {
		for _, cs := range engine.Calls(f) {
			sc := cs.Common().StaticCallee()
			if sc == nil || engine.ShortName(sc) != "Open" || engine.PkgPathOf(sc) != "database/sql" || len(cs.Common().Args) != 2 {
				continue
			}
			if drv, ok := engine.ConstString(cs.Common().Args[0]); !ok || !strings.Contains(drv, "sqlite") {
				continue
			}
			n++
			var consts []string
			seen := map[ssa.Value]bool{}
			var walk func(v ssa.Value, d int)
			walk = func(v ssa.Value, d int) {
				if v == nil || seen[v] || d > 12 {
					return
				}
				seen[v] = true
				switch t := v.(type) {
				case *ssa.Const:
					if s, ok := engine.ConstString(t); ok {
						consts = append(consts, s)
					}
				case *ssa.BinOp:
					walk(t.X, d+1)
					walk(t.Y, d+1)
				case *ssa.Phi:
					for _, e := range t.Edges {
						walk(e, d+1)
					}
				case *ssa.Call:
					if g := t.Call.StaticCallee(); g != nil {
						if len(g.Blocks) > 0 && P.IsOwn(g) {
							for _, r := range engine.Returns(g) {
								if len(r.Results) > 0 {
									walk(engine.ResultOf(r, 0), d+1)
								}
							}
						} else {
							for _, a := range t.Call.Args {
								walk(a, d+1)
							}
						}
					}
				case *ssa.UnOp:
					if al, ok := t.X.(*ssa.Alloc); ok {
						for _, st := range engine.StoresTo(al) {
							walk(st.Val, d+1)
						}
					}
				case *ssa.MakeInterface:
					walk(t.X, d+1)
				}
			}
			walk(cs.Common().Args[1], 0)
			on := false
			for _, s := range consts {
				ls := strings.ToLower(s)
				for _, key := range []string{"_fk=1", "_fk=true", "_fk=on", "_fk=yes", "_foreign_keys=1", "_foreign_keys=true", "_foreign_keys=on", "_foreign_keys=yes"} {
					if strings.Contains(ls, key) {
						on = true
					}
				}
			}
			R.Check(on, rule, c.name(f)+"|sql.Open DSN", P.Pos(cs.Pos()), "the DSN enables foreign keys for every connection of the pool", "the data source name does not enable foreign keys: only the connection that happened to run the PRAGMA enforces them, statements on other pooled connections leave orphan rows (flags, mailbox membership) behind deleted messages/mailboxes")
		}
	}
	R.Min(rule, "sql.Open calls for sqlite", n, 1)
}
