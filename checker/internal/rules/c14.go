package rules

import (
	"go/constant"
	"go/token"
	"go/types"
	"strings"

	"golang.org/x/tools/go/ssa"

	"verifchecker/internal/engine"
)

func init() { register("C14", c14) }

func c14(c *Ctx) {
	defer c14superiors(c)
	defer c14inferiors(c)
	defer c14remoteDeleteClearsSubscription(c)
	defer c14prefixGuardsNotTooStrict(c)
	defer c14existingHidesDeletedSubscription(c)
	defer c.mailboxNamesAreValidated("R14.11")
	defer c.exactNoChangeTests("R14.12")
	defer c14deletedSubscriptionMaskedByName(c)
	P, R := c.P, c.R
	R.Explain("R14.1", "pattern injection (T-SOURCE): every operand of regexp.Compile/MustCompile in the server packages is built only from constants and regexp.QuoteMeta results (string concatenation, fmt.Sprintf, strings.ReplaceAll of such parts); a raw configuration or client string in a pattern can make MustCompile panic or change the match.")
	R.Explain("R14.2", "protection guards (T-DOM): handleCreate/handleDelete refuse INBOX (case-insensitively) before calling the state; the recovery mailbox guards of R20.3.")
	R.Explain("R14.3", "schema: mailboxes_v2.name and mailboxes_v2.remote_id are UNIQUE (names are unique, checked on the schema SQLite builds from the migrations).")
	R.Explain("R14.4", "T-SOURCE: every mailbox-name argument the session hands to the state API (Create, Delete, Rename, Select, Examine, Mailbox, AppendOnlyMailbox, Subscribe, Unsubscribe, List reference and pattern, Copy, Move) originates from Session.decodeMailboxName (modified UTF-7 decoding + INBOX canonicalisation).")
	R.Explain("R14.5", "hierarchy bookkeeping: State.Rename does not use a non-anchored substring replacement (strings.Replace/ReplaceAll) on mailbox names — inferiors are renamed by replacing the old name as a prefix only; getMatches matches every mailbox together with all its superiors on every path (names that exist only as parents are listed as \\Noselect).")

	// ---- R14.1 -----------------------------------------------------------------------
	n := 0
	for _, f := range c.productFuncs() {
		for _, cs := range engine.Calls(f) {
			sc := cs.Common().StaticCallee()
			if sc == nil || engine.PkgPathOf(sc) != "regexp" || !(engine.ShortName(sc) == "Compile" || engine.ShortName(sc) == "MustCompile" || engine.ShortName(sc) == "MatchString") {
				continue
			}
			n++
			ok, bad := quotedPattern(cs.Common().Args[0])
			R.Check(ok, "R14.1", c.name(f)+"|"+engine.ShortName(sc), P.Pos(cs.Pos()), "pattern is built from constants and QuoteMeta'd parts only",
				"the regular expression contains "+bad+" without regexp.QuoteMeta: a delimiter or name holding a regexp metacharacter (\\, [, ...) makes MustCompile panic or alters the match")
		}
	}
	R.Min("R14.1", "regexp compilation sites", n, 1)

	// ---- R14.2 -----------------------------------------------------------------------
	inbox, _ := c.constStringOf("imap", "Inbox")
	for _, h := range []struct{ fn, callee string }{{"handleCreate", "Create"}, {"handleDelete", "Delete"}} {
		f := c.fn("R14.2", "internal/session.(*Session)."+h.fn)
		if f == nil {
			continue
		}
		var protect []ssa.Instruction
		var nameVal ssa.Value
		for _, cs := range engine.Calls(f) {
			if sc := cs.Common().StaticCallee(); sc != nil && engine.ShortName(sc) == h.callee && engine.RecvNamed(sc) != nil && engine.RecvNamed(sc).Obj().Name() == "State" {
				protect = append(protect, cs.Instr)
				nameVal = cs.Common().Args[2]
			}
		}
		ok := false
		if nameVal != nil {
			for _, b := range f.Blocks {
				iff := engine.IfOf(b)
				if iff == nil {
					continue
				}
				call, isCall := iff.Cond.(*ssa.Call)
				if !isCall || call.Call.StaticCallee() == nil || engine.ShortName(call.Call.StaticCallee()) != "EqualFold" {
					continue
				}
				a0, a1 := call.Call.Args[0], call.Call.Args[1]
				s0, k0 := engine.ConstString(a0)
				s1, k1 := engine.ConstString(a1)
				if !((a0 == nameVal && k1 && strings.EqualFold(s1, inbox)) || (a1 == nameVal && k0 && strings.EqualFold(s0, inbox))) {
					continue
				}
				all := true
				for _, p := range protect {
					if !engine.EdgeDominates(b, 1, p.Block()) {
						all = false
					}
				}
				if all {
					ok = true
				}
			}
		}
		R.Check(ok && len(protect) > 0, "R14.2", c.name(f)+"|INBOX-guard", P.Pos(f.Pos()), "INBOX (any letter case) is refused before State."+h.callee, h.fn+" does not refuse INBOX case-insensitively before calling State."+h.callee)
	}
	c.recoveryNameGuards("R14.2")

	// ---- R14.3 -----------------------------------------------------------------------
	res := c.sqlAnalysis()
	uniq := res.db.UniqueColumns("mailboxes_v2")
	for _, col := range []string{"name", "remote_id"} {
		R.Check(uniq[col], "R14.3", "schema|mailboxes_v2."+col+"|unique", "", "mailboxes_v2."+col+" is UNIQUE", "mailboxes_v2."+col+" is not UNIQUE in the schema built from the migrations: two mailboxes could share a name / remote id")
	}

	// ---- R14.4 -----------------------------------------------------------------------
	nameParams := map[string][]int{ // method -> indices (into Args incl. receiver and ctx) of mailbox-name parameters
		"Create": {2}, "Delete": {2}, "Rename": {2, 3}, "Select": {2}, "Examine": {2}, "Mailbox": {2}, "AppendOnlyMailbox": {2},
		"Subscribe": {2}, "Unsubscribe": {2}, "List": {2, 3}, "Copy": {3}, "Move": {3},
	}
	k := 0
	for _, f := range c.funcsInPkg("internal/session") {
		for _, cs := range engine.Calls(f) {
			sc := cs.Common().StaticCallee()
			if sc == nil || engine.RecvNamed(sc) == nil {
				continue
			}
			rn := engine.RecvNamed(sc).Obj().Name()
			if rn != "State" && rn != "Mailbox" {
				continue
			}
			idxs, ok := nameParams[engine.ShortName(sc)]
			if !ok {
				continue
			}
			for _, ix := range idxs {
				if ix >= len(cs.Common().Args) || !isStringType(cs.Common().Args[ix].Type()) {
					continue
				}
				k++
				okAll, bad := true, ""
				for _, o := range P.Origins(cs.Common().Args[ix], engine.OriginOpts{Stop: func(v ssa.Value) bool {
					if call, ok := v.(*ssa.Call); ok {
						if s2 := call.Call.StaticCallee(); s2 != nil && engine.ShortName(s2) == "decodeMailboxName" {
							return true
						}
					}
					return false
				}}) {
					if o.Kind == "stop" {
						continue
					}
					if o.Kind == "const" {
						continue
					}
					okAll, bad = false, o.V.String()
				}
				R.Check(okAll, "R14.4", fmtf("%s|%s.%s#%d", c.name(f), rn, engine.ShortName(sc), ix), P.Pos(cs.Pos()), "mailbox name argument passed through decodeMailboxName",
					"the mailbox-name argument of "+rn+"."+engine.ShortName(sc)+" ("+bad+") reaches the state without Session.decodeMailboxName: non-ASCII names (modified UTF-7) and INBOX in other letter case are not resolved")
			}
		}
	}
	R.Min("R14.4", "mailbox-name arguments handed to the state API", k, 12)

	// ---- R14.5 -----------------------------------------------------------------------
	if rn := c.fn("R14.5", "internal/state.(*State).Rename"); rn != nil {
		bad := ""
		for _, f := range engine.WithClosures(rn) {
			for _, cs := range engine.Calls(f) {
				if sc := cs.Common().StaticCallee(); sc != nil && engine.PkgPathOf(sc) == "strings" && (engine.ShortName(sc) == "Replace" || engine.ShortName(sc) == "ReplaceAll") {
					bad = P.Pos(cs.Pos())
				}
			}
		}
		R.Check(bad == "", "R14.5", c.name(rn)+"|prefix-only", P.Pos(rn.Pos()), "no non-anchored substring replacement on mailbox names", "State.Rename rewrites a mailbox name with strings.Replace/ReplaceAll ("+bad+"): every later occurrence of the old name inside an inferior's path is rewritten too, not only the prefix")
	}
	if gm := c.fn("R14.5", "internal/state.getMatches"); gm != nil {
		// the loop that calls match(): ranged slice must include listSuperiors(...) on every path
		ok := false
		why := "no loop over the mailbox's superiors that calls match()"
		for _, h := range engine.RangeLoopsOver(gm, func(s ssa.Value) bool { return true }) {
			body := engine.LoopBody(h)
			callsMatch := false
			for b := range body {
				for _, in := range b.Instrs {
					if call, isCall := in.(*ssa.Call); isCall {
						if sc := call.Call.StaticCallee(); sc != nil && engine.ShortName(sc) == "match" {
							callsMatch = true
						}
					}
				}
			}
			if !callsMatch {
				continue
			}
			// the ranged slice
			iff := engine.IfOf(h)
			cmp := iff.Cond.(*ssa.BinOp)
			lenCall := cmp.Y.(*ssa.Call)
			S := lenCall.Call.Args[0]
			srcs := valueSources(S)
			all := len(srcs) > 0
			for _, s := range srcs {
				hasSup := engine.AnyBackward(s, engine.FlowOpts{AppendBase: true, AppendElems: true}, func(x ssa.Value) bool {
					if call, isCall := x.(*ssa.Call); isCall {
						if sc := call.Call.StaticCallee(); sc != nil && engine.ShortName(sc) == "listSuperiors" {
							return true
						}
					}
					return false
				})
				if !hasSup {
					all = false
				}
			}
			if all {
				ok = true
			} else {
				why = "on some path the names matched for a mailbox do not include its superiors (listSuperiors): names that exist only as parents are not returned for those LIST patterns"
			}
		}
		R.Check(ok, "R14.5", c.name(gm)+"|superiors-always-matched", P.Pos(gm.Pos()), "every mailbox is matched together with all its superiors", why)
	}
}

// quotedPattern: the value is composed of constants and QuoteMeta results only.
func quotedPattern(v ssa.Value) (bool, string) {
	ok := true
	bad := ""
	seen := map[ssa.Value]bool{}
	depth := 0
	var walk func(x ssa.Value)
	walk = func(x ssa.Value) {
		if x == nil || seen[x] || !ok {
			return
		}
		seen[x] = true
		switch t := x.(type) {
		case *ssa.Const:
		case *ssa.BinOp:
			walk(t.X)
			walk(t.Y)
		case *ssa.Phi:
			for _, e := range t.Edges {
				walk(e)
			}
		case *ssa.MakeInterface:
			walk(t.X)
		case *ssa.ChangeType:
			walk(t.X)
		case *ssa.Call:
			sc := t.Call.StaticCallee()
			if sc == nil {
				ok, bad = false, "the result of a dynamic call"
				return
			}
			switch {
			case engine.ShortName(sc) == "QuoteMeta" && engine.PkgPathOf(sc) == "regexp":
				return
			case engine.ShortName(sc) == "Sprintf" && engine.PkgPathOf(sc) == "fmt":
				walk(t.Call.Args[0])
				if sl, isSl := t.Call.Args[1].(*ssa.Slice); isSl {
					if al, isAl := sl.X.(*ssa.Alloc); isAl {
						for _, e := range engine.ElemStores(al) {
							walk(e)
						}
						return
					}
				}
				if !engine.IsNilConst(t.Call.Args[1]) {
					ok, bad = false, "fmt.Sprintf operands that cannot be enumerated"
				}
			case (engine.ShortName(sc) == "ReplaceAll" || engine.ShortName(sc) == "Replace" || engine.ShortName(sc) == "Join" || engine.ShortName(sc) == "TrimSpace" || engine.ShortName(sc) == "TrimSuffix" || engine.ShortName(sc) == "TrimPrefix") && engine.PkgPathOf(sc) == "strings":
				for _, a := range t.Call.Args {
					if isStringType(a.Type()) {
						walk(a)
					}
				}
			default:
				// a gluon helper that builds (part of) the pattern: all it can return must qualify
				if len(sc.Blocks) > 0 && strings.HasPrefix(engine.PkgPathOf(sc), "github.com/ProtonMail/gluon") && len(engine.Returns(sc)) > 0 && depth < 3 {
					depth++
					for _, r := range engine.Returns(sc) {
						if len(r.Results) > 0 {
							walk(engine.ResultOf(r, 0))
						}
					}
					depth--
					return
				}
				ok, bad = false, "the result of "+engine.ShortName(sc)+"()"
			}
		case *ssa.Parameter:
			ok, bad = false, "parameter "+t.Name()+" of "+engine.ShortName(t.Parent())
		case *ssa.UnOp:
			if al, isAl := t.X.(*ssa.Alloc); isAl {
				for _, st := range engine.StoresTo(al) {
					walk(st.Val)
				}
				return
			}
			ok, bad = false, "a loaded value ("+t.X.String()+")"
		default:
			ok, bad = false, x.String()
		}
	}
	walk(v)
	return ok, bad
}

// c14superiors (R14.6): CREATE and RENAME look at every superior of the new name.
func c14superiors(c *Ctx) {
	R := c.R
	R.Explain("R14.6", "hierarchy repair is complete: the loops of State.Create and State.Rename (and of the helpers of the package they call) over listSuperiors(name) test every superior (no break): deleting a mailbox with inferiors removes only that mailbox, so a missing ancestor can sit above an existing one and must still be re-created, otherwise it stays \\Noselect after CREATE of a deeper name.")
	n := 0
	for _, name := range []string{"internal/state.(*State).Create", "internal/state.(*State).Rename"} {
		f := c.fn("R14.6", name)
		if f == nil {
			continue
		}
		for _, g := range c.withPackageHelpers(f, "internal/state", 2) {
			n += c.exhaustiveLoopsOver("R14.6", g, "listSuperiors(name)", func(x ssa.Value) bool {
				call, ok := x.(*ssa.Call)
				return ok && call.Call.StaticCallee() != nil && engine.ShortName(call.Call.StaticCallee()) == "listSuperiors"
			}, "a missing superior above an existing one is not re-created and stays \\Noselect")
		}
	}
	R.Min("R14.6", "loops over listSuperiors in Create/Rename", n, 2)
}

// c14inferiors (R14.7): "inferior of" is the inverse of "superior of".
func c14inferiors(c *Ctx) {
	P, R := c.P, c.R
	R.Explain("R14.7", "one definition of the hierarchy: listInferiors selects a name either because the parent is among listSuperiors(name) or because the name has the prefix parent+delimiter; any looser test (substring, suffix) makes RENAME/DELETE of a mailbox touch unrelated mailboxes whose name merely contains the parent's name.")
	f := c.fn("R14.7", "internal/state.listInferiors")
	if f == nil {
		return
	}
	n := 0
	// predicates: bool closures of listInferiors and bool helpers of the package it (or a closure) calls
	var preds []*ssa.Function
	seenP := map[*ssa.Function]bool{f: true}
	isPred := func(g *ssa.Function) bool {
		return g != nil && len(g.Blocks) > 0 && g.Signature.Results().Len() == 1 && isBoolType(g.Signature.Results().At(0).Type())
	}
	for _, g := range engine.WithClosures(f) {
		if g != f && isPred(g) && !seenP[g] {
			seenP[g] = true
			preds = append(preds, g)
		}
		for _, cs := range engine.Calls(g) {
			if sc := cs.Common().StaticCallee(); sc != nil && isPred(sc) && !seenP[sc] && strings.HasSuffix(engine.PkgPathOf(sc), "internal/state") {
				seenP[sc] = true
				preds = append(preds, sc)
			}
		}
	}
	fromSuperiors := func(v ssa.Value) bool {
		return engine.AnyBackward(v, engine.FlowOpts{Loads: true}, func(x ssa.Value) bool {
			call, ok := x.(*ssa.Call)
			return ok && call.Call.StaticCallee() != nil && engine.ShortName(call.Call.StaticCallee()) == "listSuperiors"
		})
	}
	elemOfSuperiors := func(v ssa.Value) bool {
		u, ok := v.(*ssa.UnOp)
		if !ok || u.Op != token.MUL {
			return false
		}
		ia, ok := u.X.(*ssa.IndexAddr)
		return ok && fromSuperiors(ia.X)
	}
	for _, g := range preds {
		for _, ret := range engine.Returns(g) {
			v := engine.ResultOf(ret, 0)
			if k, isConst := v.(*ssa.Const); isConst {
				if k.Value == nil || k.Value.Kind() != constant.Bool || !constant.BoolVal(k.Value) {
					continue // `return false`
				}
				// `return true`: only where an element of listSuperiors(name) equals the parent
				n++
				ok := false
				for _, d := range g.Blocks {
					iff := engine.IfOf(d)
					if iff == nil {
						continue
					}
					bo, isBo := iff.Cond.(*ssa.BinOp)
					if !isBo || (bo.Op != token.EQL && bo.Op != token.NEQ) {
						continue
					}
					edge := 0
					if bo.Op == token.NEQ {
						edge = 1
					}
					if !engine.EdgeDominates(d, edge, ret.Block()) && !(d.Succs[edge] == ret.Block() && len(ret.Block().Preds) == 1) {
						continue
					}
					_, xParam := bo.X.(*ssa.Parameter)
					_, yParam := bo.Y.(*ssa.Parameter)
					if (elemOfSuperiors(bo.X) && yParam) || (elemOfSuperiors(bo.Y) && xParam) {
						ok = true
					}
				}
				R.Check(ok, "R14.7", c.name(g)+"|inferior test", P.Pos(ret.Pos()), "membership in listSuperiors(name) or prefix parent+delimiter", "listInferiors selects names by a test that is neither `parent in listSuperiors(name)` nor `HasPrefix(name, parent+delimiter)`: mailboxes that are not below the parent are renamed/deleted along with it")
				continue
			}
			n++
			ok := false
			if call, isCall := v.(*ssa.Call); isCall && call.Call.StaticCallee() != nil {
				sc := call.Call.StaticCallee()
				switch {
				case engine.BaseName(sc) == "Contains" && strings.Contains(engine.PkgPathOf(sc), "slices") && len(call.Call.Args) == 2:
					// slices.Contains(listSuperiors(name, …), parent)
					if fromSuperiors(call.Call.Args[0]) {
						ok = true
					}
				case engine.ShortName(sc) == "HasPrefix" && engine.PkgPathOf(sc) == "strings" && len(call.Call.Args) == 2:
					// strings.HasPrefix(name, parent+delimiter)
					if _, isParam := call.Call.Args[0].(*ssa.Parameter); isParam {
						if engine.AnyBackward(call.Call.Args[1], engine.FlowOpts{Loads: true}, func(x ssa.Value) bool {
							bo, isBo := x.(*ssa.BinOp)
							return isBo && bo.Op == token.ADD
						}) {
							ok = true
						}
					}
				case seenP[sc] && sc != g:
					ok = true // delegates to another predicate that is judged itself
				}
			}
			R.Check(ok, "R14.7", c.name(g)+"|inferior test", P.Pos(ret.Pos()), "membership in listSuperiors(name) or prefix parent+delimiter", "listInferiors selects names by a test that is neither `parent in listSuperiors(name)` nor `HasPrefix(name, parent+delimiter)`: mailboxes that are not below the parent are renamed/deleted along with it")
		}
	}
	R.Min("R14.7", "inferior predicates", n, 1)
}

func isBoolType(t types.Type) bool {
	b, ok := t.Underlying().(*types.Basic)
	return ok && b.Kind() == types.Bool
}

// c14remoteDeleteClearsSubscription (R14.8): a mailbox deleted by the connector leaves no phantom subscription behind.
func c14remoteDeleteClearsSubscription(c *Ctx) {
	P, R := c.P, c.R
	R.Explain("R14.8", "a name the connector deleted is gone from LSUB as well: in the transaction of user.applyMailboxDeleted every nil-error return that follows tx.DeleteMailboxWithRemoteID passes tx.RemoveDeletedSubscriptionWithName for that mailbox, unconditionally - the deleted_subscriptions table is keyed by name, so a row left by an earlier mailbox of the same name would otherwise keep being listed as \\Noselect although the name neither exists nor is subscribed.")
	f := c.fn("R14.8", "internal/backend.(*user).applyMailboxDeleted")
	if f == nil {
		return
	}
	n := 0
	for _, g := range engine.WithClosures(f) {
		var dels []ssa.Instruction
		cut := c.mustCallInstrs(g, func(cc *ssa.CallCommon) bool {
			return cc.IsInvoke() && engine.MethodName(cc.Method) == "RemoveDeletedSubscriptionWithName"
		}, 2)
		for _, cs := range engine.Calls(g) {
			cc := cs.Common()
			if cc.IsInvoke() && cs.Instr.Parent() == g && engine.MethodName(cc.Method) == "DeleteMailboxWithRemoteID" {
				dels = append(dels, cs.Instr)
			}
		}
		for _, d := range dels {
			n++
			bad := ""
			for _, ret := range engine.Returns(g) {
				lr := engine.LastResult(ret)
				if lr == nil || !engine.IsNilConst(lr) {
					continue
				}
				if engine.ReachesAvoidingFrom(d.Block(), engine.InstrIndex(d)+1, ret, cut, nil) {
					bad = P.Pos(ret.Pos())
				}
			}
			R.Check(bad == "", "R14.8", c.name(g)+"|deleted subscription cleared", P.Pos(d.Pos()), "every success path clears the deleted subscription of the name", "after tx.DeleteMailboxWithRemoteID a success return ("+bad+") is reachable without tx.RemoveDeletedSubscriptionWithName: a stale deleted-subscription row of that name keeps the deleted mailbox in LSUB")
		}
	}
	R.Min("R14.8", "mailbox deletions in applyMailboxDeleted", n, 1)
}

// c14prefixGuardsNotTooStrict (R14.9): a prefix test covers the name that consists of the prefix alone.
func c14prefixGuardsNotTooStrict(c *Ctx) {
	P, R := c.P, c.R
	R.Explain("R14.9", "INBOX is case-insensitive also as `inbox/`: wherever the name-handling code (internal/session, internal/state) compares a prefix x[:k] of a mailbox name with strings.EqualFold / HasPrefix-style tests, the conditions dominating the slice do not entail len(x) >= k+1 - the guard a prefix slice needs is len(x) >= k; a strict guard silently excludes the name that is exactly the prefix (`inbox/` is then not canonicalised to `INBOX/`, and CREATE makes a second `inbox`).")
	n := 0
	for _, f := range c.funcsInPkg("internal/session", "internal/state") {
		for _, b := range f.Blocks {
			for _, in := range b.Instrs {
				sl, ok := in.(*ssa.Slice)
				if !ok || sl.High == nil || !isStringType(sl.X.Type()) {
					continue
				}
				if sl.Low != nil {
					if k, isK := sl.Low.(*ssa.Const); !isK || k.Int64() != 0 {
						continue
					}
				}
				// used by a case-insensitive / prefix comparison
				cmp := false
				if sl.Referrers() != nil {
					for _, r := range *sl.Referrers() {
						if call, ok := r.(*ssa.Call); ok && call.Call.StaticCallee() != nil && engine.PkgPathOf(call.Call.StaticCallee()) == "strings" {
							switch call.Call.StaticCallee().Name() {
							case "EqualFold", "HasPrefix", "ToLower", "ToUpper":
								cmp = true
							}
						}
						if bo, ok := r.(*ssa.BinOp); ok && (bo.Op == token.EQL || bo.Op == token.NEQ) {
							cmp = true
						}
					}
				}
				if !cmp {
					continue
				}
				n++
				// facts entail High + 1 <= len(X) ?
				env := &engine.LinEnv{Fn: f, PathVersion: engine.PathVersions(f)}
				hi := env.Lin(sl.High).AddScaled(engine.NewLin(1), 1)
				var lenX engine.Lin
				found := false
				for _, bb := range f.Blocks {
					for _, i2 := range bb.Instrs {
						if call, ok := i2.(*ssa.Call); ok {
							if bi, ok := call.Call.Value.(*ssa.Builtin); ok && bi.Name() == "len" && call.Call.Args[0] == sl.X {
								lenX = env.Lin(call)
								found = true
							}
						}
					}
				}
				tooStrict := found && engine.Entails(env.FactsAt(b), hi, lenX)
				R.Check(!tooStrict, "R14.9", c.name(f)+"|prefix "+valExpr(sl.X, 0)+"[:"+valExpr(sl.High, 0)+"]", P.Pos(sl.Pos()), "the guard admits len == prefix length", "the prefix test is guarded by a condition that requires the name to be longer than the prefix: the name that consists of the prefix alone (e.g. `inbox/`) is not recognised")
			}
		}
	}
	R.Stats["R14.9 prefix slices compared"] = n
}

// c14existingHidesDeletedSubscription (R14.10): a mailbox that exists is never listed from the deleted-subscription table.
func c14existingHidesDeletedSubscription(c *Ctx) {
	P, R := c.P, c.R
	R.Explain("R14.10", "LSUB shows a deleted-but-subscribed name only while no mailbox with that remote id exists: in State.List the loop over the existing mailboxes removes each mailbox's remote id from the map of deleted subscriptions on every iteration (the builtin delete is passed on every path from the body's entry back to the loop head) - also for mailboxes that are then skipped because they are not subscribed.  Otherwise a restored, unsubscribed mailbox keeps being listed by LSUB as \\Noselect and UNSUBSCRIBE cannot clear it.")
	f := c.fn("R14.10", "internal/state.(*State).List")
	if f == nil {
		return
	}
	n := 0
	for _, g := range engine.WithClosures(f) {
		for _, h := range g.Blocks {
			body := engine.LoopBody(h)
			if body == nil || len(h.Instrs) == 0 {
				continue
			}
			cut := map[ssa.Instruction]bool{}
			for b := range body {
				for _, in := range b.Instrs {
					call, ok := in.(*ssa.Call)
					if !ok {
						continue
					}
					if bi, ok := call.Call.Value.(*ssa.Builtin); ok && bi.Name() == "delete" && len(call.Call.Args) > 0 {
						if mt, ok := call.Call.Args[0].Type().Underlying().(*types.Map); ok && strings.Contains(mt.Elem().String(), "DeletedSubscription") {
							cut[call] = true
						}
					}
				}
			}
			if len(cut) == 0 {
				continue
			}
			n++
			bad := false
			for _, s := range h.Succs {
				if body[s] && s != h && engine.ReachesAvoidingFrom(s, 0, h.Instrs[0], cut, nil) {
					bad = true
				}
			}
			R.Check(!bad, "R14.10", c.name(f)+"|every existing mailbox hides its deleted subscription", P.Pos(firstPosOf(h)), "the delete is passed in every iteration", "an iteration of the loop over the existing mailboxes can skip the removal from the deleted-subscription map: an existing (unsubscribed) mailbox is then also reported by LSUB from the stale entry")
		}
	}
	R.Min("R14.10", "loops removing existing mailboxes from the deleted subscriptions", n, 1)
}
