package rules

func init() { register("C08", c08) }

func c08(c *Ctx) {
	R := c.R
	R.Explain("R08.1", "every statement handed to a QueryWrapper/StmtWrapper/database-sql call is extracted symbolically (constants, fmt.Sprintf, GenSQLIn, Repeat/Join, table-name helpers, parameters bound per call site), instantiated with sample batch sizes and parsed by SQLite against the schema obtained by executing only the DDL of the migrations in migrationList order.")
	R.Explain("R08.2", "placeholder count (polynomial over len(.) atoms) = length of the bound argument slice (polynomial built from append chains, range loops, MapSliceToAny).")
	R.Explain("R08.3", "a full chunk stays below SQLITE_LIMIT_VARIABLE_NUMBER.")
	R.Explain("R08.4", "every batch-size-dependent quantity bound to a statement is the length of an xslices.Chunk chunk (never the un-chunked slice).")
	R.Explain("R08.7", "number of Scan destinations of the row mapper = number of result columns SQLite reports.")
	res := c.sqlAnalysis()
	c.emitSQL(res, "", map[string]string{"R08.1": "R08.1", "R08.2": "R08.2", "R08.3": "R08.3", "R08.4": "R08.4", "R08.7": "R08.7"}, nil)
	R.Stats["statement site evaluations"] = res.sites
	R.Stats["of which in migrations"] = res.migSites
	R.Stats["sites whose size depends on a chunk"] = res.chunkSites
	R.Table("sample statements (symbolic form)", res.samples...)
	R.Table("schema tables after migrations", res.db.Tables()...)
	c.txTypestate("R08.5")
	c.tracerAgreement("R08.6")
	c.rowsErr("R08.8")
	c.chunkAliasing("R08.9")
	c.foreignKeysOnEveryConnection("R08.10")
	R.Min("R08.1", "statement site evaluations", res.sites, 100)
	R.Min("R08.3", "chunk-dependent statement sites", res.chunkSites, 12)
}
