package rules

import (
	"regexp"
	"sort"
	"strings"

	"golang.org/x/tools/go/ssa"

	"verifchecker/internal/engine"
)

func init() { register("C08", c08) }

func c08(c *Ctx) {
	R := c.R
	R.Explain("R08.1", "every statement handed to a QueryWrapper/StmtWrapper/database-sql call is extracted symbolically (constants, fmt.Sprintf, GenSQLIn, Repeat/Join, table-name helpers, parameters bound per call site), instantiated with sample batch sizes and parsed by SQLite against the schema obtained by executing only the DDL of the migrations in migrationList order.")
	R.Explain("R08.2", "placeholder count (polynomial over len(.) atoms) = length of the bound argument slice (polynomial built from append chains, range loops, MapSliceToAny).")
	R.Explain("R08.3", "a full chunk stays below SQLITE_LIMIT_VARIABLE_NUMBER.")
	R.Explain("R08.4", "every batch-size-dependent quantity bound to a statement is the length of an xslices.Chunk chunk (never the un-chunked slice).")
	R.Explain("R08.7", "number of Scan destinations of the row mapper = number of result columns SQLite reports.")
	res := c.sqlAnalysis()
	c.emitSQL(res, "", map[string]string{"R08.1": "R08.1", "R08.2": "R08.2", "R08.3": "R08.3", "R08.4": "R08.4", "R08.7": "R08.7"}, nil)
	R.Stats["statement site evaluations"] = res.sites
	R.Stats["of which in migrations"] = res.migSites
	R.Stats["sites whose size depends on a chunk"] = res.chunkSites
	R.Table("sample statements (symbolic form)", res.samples...)
	R.Table("schema tables after migrations", res.db.Tables()...)
	c.txTypestate("R08.5")
	c.tracerAgreement("R08.6")
	c.rowsErr("R08.8")
	c.chunkAliasing("R08.9")
	c.foreignKeysOnEveryConnection("R08.10")
	c.conflictClausesLossless("R08.11", res)
	c.batchLoopsSucceedOnlyAtTheEnd("R08.12")
	R.Min("R08.1", "statement site evaluations", res.sites, 100)
	R.Min("R08.3", "chunk-dependent statement sites", res.chunkSites, 12)
}

var conflictInsertRe = regexp.MustCompile("(?is)^\\s*(INSERT\\s+OR\\s+(IGNORE|REPLACE)|REPLACE)\\s+INTO\\s+[`\"]?([A-Za-z0-9_]+)[`\"]?\\s*\\(([^)]*)\\)")
var onConflictRe = regexp.MustCompile("(?is)\\bON\\s+CONFLICT\\b")

// conflictClausesLossless (R08.11): a statement that swallows a uniqueness conflict may only do so
// where the conflicting row is necessarily identical to the one being inserted.
func (c *Ctx) conflictClausesLossless(rule string, res *sqlResult) {
	R := c.R
	R.Explain(rule, "conflict clauses lose nothing: every INSERT OR IGNORE / OR REPLACE statement names exactly the columns of one uniqueness constraint of its table (primary key or unique index), and no other uniqueness constraint of the table lies inside the inserted columns — so a swallowed conflict means the stored row already equals the inserted one (set semantics, as in the relational model).  On a table with a non-key column, OR IGNORE silently keeps the old value and OR REPLACE silently deletes the old row (and, with foreign keys, its dependants), neither of which the model's insert does.  ON CONFLICT clauses are not used.  Statements of the one-time schema migrations are outside this rule (they are not operations of the db interface).")
	n := 0
	seen := map[string]bool{}
	for _, st := range res.stmts {
		if st.mig {
			continue // one-time schema migrations copy rows out of the previous schema; they are not operations of the db interface
		}
		if onConflictRe.MatchString(st.text) {
			key := c.name(st.fn) + "|ON CONFLICT"
			if !seen[key] {
				seen[key] = true
				R.Check(false, rule, key, st.pos, "", "statement uses an ON CONFLICT clause, which this rule does not judge: "+trunc(st.text, 120))
			}
			continue
		}
		m := conflictInsertRe.FindStringSubmatch(st.text)
		if m == nil {
			continue
		}
		table := m[3]
		var cols []string
		for _, col := range strings.Split(m[4], ",") {
			cols = append(cols, strings.Trim(strings.TrimSpace(col), "`\""))
		}
		sort.Strings(cols)
		key := c.name(st.fn) + "|" + strings.ToUpper(strings.Join(strings.Fields(m[1]), " ")) + " " + table + "(" + strings.Join(cols, ",") + ")"
		if seen[key] {
			continue
		}
		seen[key] = true
		n++
		colset := map[string]bool{}
		for _, x := range cols {
			colset[x] = true
		}
		exact := false
		why := ""
		for _, k := range res.db.UniqueKeys(table) {
			inside := true
			for _, x := range k {
				if !colset[x] {
					inside = false
				}
			}
			if !inside {
				continue
			}
			if len(k) == len(cols) {
				exact = true
			} else {
				why = "uniqueness constraint (" + strings.Join(k, ",") + ") is narrower than the inserted columns: a conflict on it discards or replaces differing values of the other columns"
			}
		}
		if why == "" && !exact {
			why = "the inserted columns are not the columns of a uniqueness constraint of " + table
		}
		R.Check(why == "", rule, key, st.pos, "inserted columns = one uniqueness constraint", why)
	}
	R.Min(rule, "conflict-swallowing statements judged", n, 4)
}

func trunc(s string, n int) string {
	if len(s) > n {
		return s[:n] + "..."
	}
	return s
}

// batchLoopsSucceedOnlyAtTheEnd (R08.12): a write over several statement batches reports success only after the last one.
func (c *Ctx) batchLoopsSucceedOnlyAtTheEnd(rule string) {
	P, R := c.P, c.R
	R.Explain(rule, "any batch size: in the sqlite3 package a loop over the chunks of xslices.Chunk (one statement batch per iteration) cannot be left early into a success - from an edge that leaves the loop body other than through the loop condition no return of the nil error (nil constant, or a phi with a nil edge taken after the exit) is reachable.  A `return nil` inside the loop (meant as `continue`) silently drops every later batch: for more elements than the batching limit only the first chunks are written while the call reports success.")
	n := 0
	for _, f := range c.funcsInPkg("internal/db_impl/sqlite3", "internal/db_impl/sqlite3/v1", "internal/db_impl/sqlite3/v2", "internal/db_impl/sqlite3/v3") {
		for _, h := range f.Blocks {
			body := engine.LoopBody(h)
			if body == nil {
				continue
			}
			overChunks := false
			for b := range body {
				for _, in := range b.Instrs {
					if ia, ok := in.(*ssa.IndexAddr); ok && engine.AnyBackward(ia.X, engine.FlowOpts{Loads: true}, func(x ssa.Value) bool {
						call, ok := x.(*ssa.Call)
						return ok && call.Call.StaticCallee() != nil && engine.BaseName(call.Call.StaticCallee()) == "Chunk"
					}) {
						overChunks = true
					}
				}
			}
			if !overChunks {
				continue
			}
			n++
			bad := earlyExitSuccess(P, f, h, body)
			R.Check(bad == "", rule, c.name(f)+"|chunk loop", P.Pos(firstPosOf(h)), "no success after an early exit of the batch loop", "the loop over the statement batches can be left early into a nil-error return ("+bad+"): the remaining batches are never written although the operation reports success")
		}
	}
	R.Min(rule, "loops over xslices.Chunk batches", n, 10)
}

// earlyExitSuccess: a return of the nil error is reachable from an edge that leaves the loop body elsewhere than at
// the loop header.  Returns the position of such a return ("" if none).
func earlyExitSuccess(P *engine.Prog, f *ssa.Function, h *ssa.BasicBlock, body map[*ssa.BasicBlock]bool) string {
	bad := ""
	for b := range body {
		if b == h {
			continue
		}
		for _, s := range b.Succs {
			if body[s] {
				continue
			}
			reach := engine.BlocksReachableFrom(s)
			for _, ret := range engine.Returns(f) {
				if !reach[ret.Block()] {
					continue
				}
				lr := engine.LastResult(ret)
				if lr == nil || lr.Type().String() != "error" {
					continue
				}
				if engine.IsNilConst(lr) {
					bad = P.Pos(ret.Pos())
				}
				if phi, ok := lr.(*ssa.Phi); ok {
					for i, e := range phi.Edges {
						pred := phi.Block().Preds[i]
						if engine.IsNilConst(e) && (reach[pred] || pred == s) && !body[pred] {
							bad = P.Pos(ret.Pos())
						}
					}
				}
			}
		}
	}
	return bad
}
