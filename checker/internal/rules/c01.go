package rules

import (
	"go/token"
	"go/types"
	"sort"
	"strings"

	"golang.org/x/tools/go/ssa"

	"verifchecker/internal/engine"
)

func init() { register("C01", c01) }

var flagSetFresh = map[string]bool{"Clone": true, "Add": true, "Remove": true, "AddFlagSet": true, "RemoveFlagSet": true, "Set": true, "Toggle": true,
	"NewFlagSet": true, "NewFlagSetFromSlice": true, "NewFlagSetWithCapacity": true, "GetFlagSet": true}
var flagSetInPlace = map[string]bool{"AddToSelf": true, "SetOnSelf": true, "RemoveFromSelf": true, "AddFlagSetToSelf": true, "RemoveFlagSetFromSelf": true, "add": true, "remove": true}

func isFlagSetMethod(sc *ssa.Function) bool {
	rn := engine.RecvNamed(sc)
	return rn != nil && rn.Obj().Name() == "FlagSet"
}

func topName(f *ssa.Function) string { return engine.ShortName(topFn(f)) }

func c01(c *Ctx) {
	defer c01announceInOrder(c)
	defer c01expungeIsBarrier(c)
	defer c01idleStartsEmpty(c)
	defer c01queueClearedOnSwitch(c)
	P, R := c.P, c.R
	R.Explain("R01.1", "T-WRITERS: the snapshot's message list (snapMsgList.msg/idx, snapMsg.ID/UID/flags/toExpunge) is written only by newMsgList, snapMsgList.insert/insertOutOfOrder/remove/update and snapshot.setMessageFlags; in-place FlagSet mutators on a snapshot's flags occur only in Mailbox.Fetch's \\Seen branch, where the same iteration appends ItemFlags(msg.flags) to the FETCH it sends; the snapshot-level mutators are called only from the three responders' handle methods and State.UpdateMessageRemoteID; State.snap is assigned only by Select/Examine/close/NewState.")
	R.Explain("R01.2", "T-MUST inside each Responder.handle: every nil-error return that follows a snapshot mutation returns a non-empty response built by the matching constructor (Exists/Expunge/Fetch) unless it is on the true edge of an enumerated silencer (contexts.IsClose, fetch.asSilent, FlagSet.Equals).")
	R.Explain("R01.3", "every response produced by Responder.handle is forwarded: flushResponses appends the whole slice to what it returns, PushResponder sends every element to idleCh unconditionally, session.flush sends every element to the response channel.")
	R.Explain("R01.4", "handleSelectedCommand: every return after handleWithMailbox passes through flush, and the tagged response is sent after it.")
	R.Explain("R01.5", "ownership: every FlagSet stored into a snapshot message is a fresh copy (Clone/Add/Remove/AddFlagSet/RemoveFlagSet/NewFlagSet/GetFlagSet result) and never a map shared with an update/responder object that other snapshots or messages also receive (exception: exists.flags, handed un-copied to the single target state).")
	R.Explain("R01.6", "no deferred call in the session/state packages receives, as an argument evaluated at defer time, a slice/map value of a variable that is re-assigned afterwards (the deferred call would act on the stale value, e.g. drop buffered IDLE responses).")

	// ---- R01.1 writers ----------------------------------------------------------------
	allowW := map[string]bool{"newMsgList": true, "insert": true, "insertOutOfOrder": true, "remove": true, "update": true, "setMessageFlags": true}
	guarded := map[*types.Var]string{}
	for _, fn := range []string{"msg", "idx"} {
		if f := c.fieldOf("internal/state", "snapMsgList", fn); f != nil {
			guarded[f] = "snapMsgList." + fn
		}
	}
	for _, fn := range []string{"ID", "UID", "flags", "toExpunge"} {
		if f := c.fieldOf("internal/state", "snapMsg", fn); f != nil {
			guarded[f] = "snapMsg." + fn
		}
	}
	snapFld := c.fieldOf("internal/state", "State", "snap")
	flagsFld := c.fieldOf("internal/state", "snapMsg", "flags")
	writes, inplace := 0, 0
	for _, f := range c.productFuncs() {
		rel := engine.RelPkg(P.OwnPkgPath(f))
		if rel != "internal/state" {
			continue
		}
		for _, b := range f.Blocks {
			for _, in := range b.Instrs {
				switch t := in.(type) {
				case *ssa.Store:
					fa, ok := t.Addr.(*ssa.FieldAddr)
					if !ok {
						continue
					}
					fv := fieldOfAddr(fa)
					if al, isAl := fa.X.(*ssa.Alloc); isAl && localOnly(al) {
						continue // a scratch value (search key) that never becomes part of the list
					}
					if name, isG := guarded[fv]; isG {
						// sub-field stores (snapMsg.ID.RemoteID) have the guarded field as X: handled below
						writes++
						R.Check(allowW[topName(f)], "R01.1", c.name(f)+"|store "+name, P.Pos(t.Pos()), "snapshot list written by a list mutator", "the session's snapshot ("+name+") is written outside the list mutators: the view can change without an announcement")
					} else if inner, ok := fa.X.(*ssa.FieldAddr); ok {
						if name, isG := guarded[fieldOfAddr(inner)]; isG {
							writes++
							R.Check(allowW[topName(f)], "R01.1", c.name(f)+"|store "+name+".*", P.Pos(t.Pos()), "snapshot list written by a list mutator", "the session's snapshot ("+name+") is written outside the list mutators")
						}
					}
					if fv == snapFld && fv != nil {
						tn := topName(f)
						R.Check(tn == "Select" || tn == "Examine" || tn == "close" || tn == "NewState" || c.onlyCalledFrom(topFn(f), 1, "internal/state.(*State).Select", "internal/state.(*State).Examine"), "R01.1", c.name(f)+"|store State.snap", P.Pos(t.Pos()), "State.snap assigned by Select/Examine/close", "State.snap is replaced outside Select/Examine/close: the selected view changes without the client being told")
					}
				case *ssa.MapUpdate:
					if ld, ok := t.Map.(*ssa.UnOp); ok {
						if fa, ok := ld.X.(*ssa.FieldAddr); ok {
							if name, isG := guarded[fieldOfAddr(fa)]; isG {
								writes++
								R.Check(allowW[topName(f)], "R01.1", c.name(f)+"|mapupdate "+name, P.Pos(t.Pos()), "snapshot index written by a list mutator", "the snapshot index is written outside the list mutators")
							}
						}
					}
				case *ssa.Call:
					sc := t.Call.StaticCallee()
					if bi, ok := t.Call.Value.(*ssa.Builtin); ok && bi.Name() == "delete" {
						if ld, ok := t.Call.Args[0].(*ssa.UnOp); ok {
							if fa, ok := ld.X.(*ssa.FieldAddr); ok {
								if name, isG := guarded[fieldOfAddr(fa)]; isG {
									writes++
									R.Check(allowW[topName(f)], "R01.1", c.name(f)+"|delete "+name, P.Pos(t.Pos()), "snapshot index written by a list mutator", "the snapshot index is modified outside the list mutators")
								}
							}
						}
					}
					if sc != nil && isFlagSetMethod(sc) && flagSetInPlace[engine.ShortName(sc)] && len(t.Call.Args) > 0 {
						// receiver loaded from snapMsg.flags?
						if ld, ok := t.Call.Args[0].(*ssa.UnOp); ok {
							if fa, ok := ld.X.(*ssa.FieldAddr); ok && fieldOfAddr(fa) == flagsFld {
								inplace++
								okx := topName(f) == "Fetch" && c.seenAnnounced(t)
								R.Check(okx, "R01.1", c.name(f)+"|in-place "+engine.ShortName(sc), P.Pos(t.Pos()),
									"in-place flag change is announced by ItemFlags in the same FETCH response",
									"a snapshot message's flags are changed in place ("+engine.ShortName(sc)+") without the same path adding ItemFlags(msg.flags) to the response it sends: the client's view of the flags goes stale")
							}
						}
					}
				}
			}
		}
	}
	R.Min("R01.1", "writes to snapshot list fields", writes, 8)
	R.Min("R01.1", "in-place flag mutations on snapshot flags", inplace, 1)

	// callers of the snapshot-level mutators
	mutators := map[string]map[string]bool{
		"internal/state.(*snapshot).appendMessage":               {"internal/state.(*targetedExists).handle": true},
		"internal/state.(*snapshot).appendMessageFromOtherState": {"internal/state.(*targetedExists).handle": true},
		"internal/state.(*snapshot).expungeMessage":              {"internal/state.(*expunge).handle": true},
		"internal/state.(*snapshot).setMessageFlags":             {"internal/state.(*fetch).handle": true},
		"internal/state.(*snapshot).updateMessageRemoteID":       {"internal/state.(*State).UpdateMessageRemoteID": true},
		"internal/state.(*snapMsgList).insert":                   {"internal/state.(*snapshot).appendMessage": true, "internal/state.newSnapshot": true},
		"internal/state.(*snapMsgList).insertOutOfOrder":         {"internal/state.(*snapshot).appendMessageFromOtherState": true},
		"internal/state.(*snapMsgList).remove":                   {"internal/state.(*snapshot).expungeMessage": true},
		"internal/state.(*snapMsgList).update":                   {"internal/state.(*snapshot).updateMessageRemoteID": true},
	}
	var mrows []string
	mutFns := map[*ssa.Function]bool{}
	for m, allowed := range mutators {
		mf := c.fn("R01.1", m)
		if mf == nil {
			continue
		}
		mutFns[mf] = true
		var as []string
		for a := range allowed {
			as = append(as, a)
		}
		sort.Strings(as)
		mrows = append(mrows, m+" <- "+strings.Join(as, ", "))
		for _, cs := range P.CallersOf(mf) {
			if !isProductPkg(engine.RelPkg(P.OwnPkgPath(cs.Fn))) {
				continue
			}
			R.Check(allowed[c.name(topFn(cs.Fn))], "R01.1", "callers|"+m+"<-"+c.name(cs.Fn), P.Pos(cs.Pos()), "snapshot mutator called from its responder", "snapshot mutator "+m+" is called from "+c.name(cs.Fn)+": the view changes outside a responder, so no untagged response announces it")
		}
	}
	sort.Strings(mrows)
	R.Table("R01.1 snapshot mutators and their only callers", mrows...)

	c01handles(c)
	c01forward(c)
	c01fresh(c)
	c01defer(c)
}

// seenAnnounced: after the in-place mutation `call`, every path to the channel send of the
// FETCH response passes an append of response.ItemFlags(<same flags>) to the items.
func (c *Ctx) seenAnnounced(call *ssa.Call) bool {
	f := call.Parent()
	cut := map[ssa.Instruction]bool{}
	for _, cs := range engine.Calls(f) {
		if sc := cs.Common().StaticCallee(); sc != nil && engine.ShortName(sc) == "ItemFlags" {
			// must be dominated by the mutation (same branch) — any ItemFlags after the call
			if engine.InstrReaches(call, cs.Instr) && call.Block().Dominates(cs.Instr.Block()) {
				cut[cs.Instr] = true
			}
		}
	}
	if len(cut) == 0 {
		return false
	}
	for _, b := range f.Blocks {
		for _, in := range b.Instrs {
			if snd, ok := in.(*ssa.Send); ok {
				if engine.InstrReaches(call, snd) && engine.ReachesAvoidingFrom(call.Block(), engine.InstrIndex(call)+1, snd, cut, nil) {
					return false
				}
			}
		}
	}
	return true
}

func c01handles(c *Ctx) {
	P, R := c.P, c.R
	type h struct{ fn, ctor string }
	hs := []h{{"internal/state.(*expunge).handle", "Expunge"}, {"internal/state.(*targetedExists).handle", "Exists"}, {"internal/state.(*fetch).handle", "Fetch"}}
	silent := c.fieldOf("internal/state", "fetch", "asSilent")
	for _, x := range hs {
		f := c.fn("R01.2", x.fn)
		if f == nil {
			continue
		}
		var muts []ssa.Instruction
		for _, cs := range engine.Calls(f) {
			if sc := cs.Common().StaticCallee(); sc != nil && engine.RecvNamed(sc) != nil && engine.RecvNamed(sc).Obj().Name() == "snapshot" {
				switch engine.ShortName(sc) {
				case "appendMessage", "appendMessageFromOtherState", "expungeMessage", "setMessageFlags":
					muts = append(muts, cs.Instr)
				}
			}
		}
		R.Check(len(muts) > 0, "R01.2", x.fn+"|mutates", P.Pos(f.Pos()), "handle applies its change to the snapshot", "handle no longer mutates the snapshot")
		// silencer true-edges
		silEdges := func(b *ssa.BasicBlock) bool {
			for _, blk := range f.Blocks {
				iff := engine.IfOf(blk)
				if iff == nil {
					continue
				}
				isSil := false
				switch t := iff.Cond.(type) {
				case *ssa.Call:
					if sc := t.Call.StaticCallee(); sc != nil && (engine.ShortName(sc) == "IsClose" || (engine.ShortName(sc) == "Equals" && isFlagSetMethod(sc))) {
						isSil = true
					}
				case *ssa.UnOp:
					if fieldAddrIs(t.X, silent) {
						isSil = true
					}
				}
				if isSil && engine.EdgeDominates(blk, 0, b) {
					return true
				}
			}
			return false
		}
		for _, ret := range engine.Returns(f) {
			if len(ret.Results) != 3 || !engine.IsNilConst(engine.ResultOf(ret, 2)) {
				continue
			}
			after := false
			for _, m := range muts {
				if engine.InstrReaches(m, ret) {
					after = true
				}
			}
			if !after {
				continue
			}
			res := engine.ResultOf(ret, 0)
			key := x.fn + "|return-after-mutation"
			if engine.IsNilConst(res) {
				R.Check(silEdges(ret.Block()), "R01.2", key, P.Pos(ret.Pos()), "silent return is on the true edge of an enumerated silencer",
					"the snapshot was changed but this path returns no response and is not guarded by CLOSE / .SILENT / unchanged-flags: the client is never told about the change")
				continue
			}
			// built from the matching constructor
			ctorOK := false
			engine.Backward(res, engine.FlowOpts{AppendBase: true, AppendElems: true, Loads: true}, func(v ssa.Value) bool {
				if call, ok := v.(*ssa.Call); ok {
					cur := call
					for i := 0; i < 5 && cur != nil; i++ {
						if sc := cur.Call.StaticCallee(); sc != nil && sc.Pkg != nil && engine.RelPkg(sc.Pkg.Pkg.Path()) == "internal/response" && engine.ShortName(sc) == x.ctor {
							ctorOK = true
						}
						if len(cur.Call.Args) == 0 {
							break
						}
						next, _ := cur.Call.Args[0].(*ssa.Call)
						cur = next
					}
				}
				return true
			})
			R.Check(ctorOK, "R01.2", key, P.Pos(ret.Pos()), "response built by response."+x.ctor, "after mutating the snapshot the responder does not return a response built by response."+x.ctor)
		}
	}
}

func c01forward(c *Ctx) {
	P, R := c.P, c.R
	// flushResponses: handle's responses appended wholesale to the returned slice
	if fr := c.fn("R01.3", "internal/state.(*State).flushResponses"); fr != nil {
		ok := false
		mergeOpts := engine.FlowOpts{AppendBase: true, Calls: func(cl *ssa.Call) []ssa.Value {
			if sc := cl.Call.StaticCallee(); sc != nil && engine.ShortName(sc) == "Merge" {
				return cl.Call.Args
			}
			return nil
		}}
		// reachesResult: on a nil-error return of g, which result (index) is built from value v
		reachesResult := func(g *ssa.Function, v ssa.Value) int {
			for _, ret := range engine.Returns(g) {
				if !engine.IsNilConst(engine.LastResult(ret)) {
					continue
				}
				for i := 0; i < len(ret.Results)-1; i++ {
					if engine.AnyBackward(engine.ResultOf(ret, i), mergeOpts, func(x ssa.Value) bool { return x == v }) {
						return i
					}
				}
			}
			return -1
		}
		for _, g := range c.withPackageHelpers(fr, "internal/state", 1) {
			if g.Parent() != nil {
				continue
			}
			for _, cs := range engine.Calls(g) {
				cc := cs.Common()
				if !(cc.IsInvoke() && engine.MethodName(cc.Method) == "handle") || cs.Instr.Parent() != g {
					continue
				}
				call := cs.Instr.(*ssa.Call)
				var res ssa.Value
				for _, r := range *call.Referrers() {
					if ex, isEx := r.(*ssa.Extract); isEx && ex.Index == 0 {
						res = ex
					}
				}
				if res == nil {
					continue
				}
				for _, r := range *res.Referrers() {
					app, isApp := r.(*ssa.Call)
					if !isApp {
						continue
					}
					if _, is := engine.IsBuiltinCall(app, "append"); !is || len(app.Call.Args) != 2 || app.Call.Args[1] != res {
						continue
					}
					idx := reachesResult(g, app)
					if idx < 0 {
						continue
					}
					if g == fr {
						ok = true
						continue
					}
					// the helper's result must in turn reach what flushResponses returns
					for _, cs2 := range engine.Calls(fr) {
						if cs2.Common().StaticCallee() != g || cs2.Instr.Parent() != fr {
							continue
						}
						c2, isCall := cs2.Instr.(*ssa.Call)
						if !isCall {
							continue
						}
						for _, r2 := range *c2.Referrers() {
							if ex, isEx := r2.(*ssa.Extract); isEx && ex.Index == idx && reachesResult(fr, ex) == 0 {
								ok = true
							}
						}
					}
				}
			}
		}
		R.Check(ok, "R01.3", "flushResponses|forwards-all", P.Pos(fr.Pos()), "all responses of every handled responder are returned (through response.Merge)", "flushResponses does not append every response returned by Responder.handle to what it returns")
	}
	// range-and-send loops
	for _, name := range []string{"internal/state.(*State).PushResponder", "internal/session.flush"} {
		f := c.fn("R01.3", name)
		if f == nil {
			continue
		}
		ok := false
		// the loop may live in a helper of the package that the function calls for every responder
		var loops []*ssa.BasicBlock
		for _, g := range c.withPackageHelpers(f, engine.RelPkg(P.OwnPkgPath(f)), 1) {
			loops = append(loops, engine.RangeLoopsOver(g, func(s ssa.Value) bool {
				sl, isSl := s.Type().Underlying().(*types.Slice)
				return isSl && engine.IsNamed(sl.Elem(), "internal/response", "Response")
			})...)
		}
		for _, h := range loops {
			body := engine.LoopBody(h)
			for b := range body {
				for _, in := range b.Instrs {
					if snd, isSnd := in.(*ssa.Send); isSnd {
						// unconditional in the body: the send's block is the unique body successor of the header
						if len(h.Succs) > 0 && h.Succs[0] == snd.Block() {
							ok = true
						}
					}
				}
			}
		}
		R.Check(ok, "R01.3", name+"|sends-every-element", P.Pos(f.Pos()), "every response is sent, unconditionally, in order", name+" does not send every response of the slice unconditionally: an announcement can be dropped while the snapshot already changed")
	}
	// R01.4
	hs := c.fn("R01.4", "internal/session.(*Session).handleSelectedCommand")
	if hs == nil {
		return
	}
	pf := c.permitFuncs("R01.4")
	for _, f := range engine.WithClosures(hs) {
		var hw *ssa.Call
		cut := map[ssa.Instruction]bool{}
		for _, cs := range engine.Calls(f) {
			if sc := cs.Common().StaticCallee(); sc != nil {
				if engine.ShortName(sc) == "handleWithMailbox" {
					hw, _ = cs.Instr.(*ssa.Call)
				}
				if _, isPF := pf[sc]; isPF {
					cut[cs.Instr] = true
				}
			}
		}
		if hw == nil {
			continue
		}
		bad := false
		for _, ret := range engine.Returns(f) {
			if engine.ReachesAvoidingFrom(hw.Block(), engine.InstrIndex(hw)+1, ret, cut, nil) {
				bad = true
			}
		}
		sendBefore := false
		for _, b := range f.Blocks {
			for _, in := range b.Instrs {
				if snd, ok := in.(*ssa.Send); ok {
					if engine.ReachesAvoidingFrom(hw.Block(), engine.InstrIndex(hw)+1, snd, cut, nil) {
						sendBefore = true
					}
				}
			}
		}
		R.Check(!bad, "R01.4", c.name(f)+"|flush-after-every-command", P.Pos(hw.Pos()), "every selected-state command, failed or not, is followed by a flush of pending responders", "a path returns from the selected-state dispatch without flushing: snapshot changes applied by the command are not announced before its completion")
		R.Check(!sendBefore, "R01.4", c.name(f)+"|tagged-after-flush", P.Pos(hw.Pos()), "the tagged response is sent after the flush", "the tagged response can be sent before the pending untagged responses")
	}
}

func c01fresh(c *Ctx) { c.freshFlags("R01.5") }

func (c *Ctx) freshFlags(rule string) {
	P, R := c.P, c.R
	flagsFld := c.fieldOf("internal/state", "snapMsg", "flags")
	existsFlags := c.fieldOf("internal/state", "exists", "flags")
	n := 0
	for _, f := range c.funcsInPkg("internal/state") {
		for _, b := range f.Blocks {
			for _, in := range b.Instrs {
				st, ok := in.(*ssa.Store)
				if !ok {
					continue
				}
				fa, ok := st.Addr.(*ssa.FieldAddr)
				if !ok || fieldOfAddr(fa) != flagsFld {
					continue
				}
				n++
				okAll, bad := true, ""
				for _, o := range P.Origins(st.Val, engine.OriginOpts{Stop: func(v ssa.Value) bool {
					if call, ok := v.(*ssa.Call); ok {
						if sc := call.Call.StaticCallee(); sc != nil && flagSetFresh[engine.ShortName(sc)] {
							return true
						}
					}
					return false
				}}) {
					switch {
					case o.Kind == "stop":
					case o.Kind == "field":
						if ld, ok := o.V.(*ssa.UnOp); ok {
							if fa2, ok := ld.X.(*ssa.FieldAddr); ok && fieldOfAddr(fa2) == existsFlags {
								continue
							}
						}
						okAll, bad = false, "field "+fieldNameOf(o.V)+" in "+parentName(c, o.V)
					case o.Kind == "const":
					default:
						okAll, bad = false, o.V.String()+" in "+parentName(c, o.V)
					}
				}
				R.Check(okAll, rule, c.name(f)+"|store snapMsg.flags", P.Pos(st.Pos()), "flags stored in the snapshot are a private copy",
					"a FlagSet that is not a fresh copy ("+bad+") is stored into the snapshot: the map is shared with other messages/sessions, so a later in-place change (\\Seen on FETCH, per-mailbox \\Deleted) silently alters flags the client was never told about")
			}
		}
	}
	R.Min(rule, "stores to snapMsg.flags", n, 3)
}

func c01defer(c *Ctx) {
	P, R := c.P, c.R
	n := 0
	for _, f := range c.funcsInPkg("internal/session", "internal/state", "internal/backend") {
		for _, b := range f.Blocks {
			for _, in := range b.Instrs {
				d, ok := in.(*ssa.Defer)
				if !ok {
					continue
				}
				n++
				if _, isClosure := d.Call.Value.(*ssa.MakeClosure); isClosure {
					continue
				}
				for _, a := range d.Call.Args {
					switch a.Type().Underlying().(type) {
					case *types.Slice, *types.Map:
					default:
						continue
					}
					// later versions of the same variable: a is the base of an append, or an edge of a phi
					stale := false
					if a.Referrers() != nil {
						for _, r := range *a.Referrers() {
							switch t := r.(type) {
							case *ssa.Phi:
								stale = true
							case *ssa.Call:
								if _, isApp := engine.IsBuiltinCall(t, "append"); isApp && len(t.Call.Args) > 0 && t.Call.Args[0] == a {
									stale = true
								}
							}
						}
					}
					R.Check(!stale, "R01.6", c.name(f)+"|defer-arg", P.Pos(d.Pos()), "deferred call's argument is not re-assigned later",
						"the argument of this deferred call is evaluated now, but the variable is re-assigned later (append / loop): at function exit the deferred call sees the stale value (e.g. buffered responses are dropped)")
				}
			}
		}
	}
	R.Min("R01.6", "defer statements examined", n, 20)
}

// localOnly: the allocated struct is only used through field addresses and as a call
// argument; it is never stored, appended, put in a map, returned or converted.
func localOnly(al *ssa.Alloc) bool {
	for _, r := range *al.Referrers() {
		switch t := r.(type) {
		case *ssa.FieldAddr, *ssa.DebugRef:
		case *ssa.Call:
			if _, isApp := engine.IsBuiltinCall(t, "append"); isApp {
				return false
			}
		case *ssa.UnOp:
		default:
			return false
		}
	}
	return true
}

// c01announceInOrder (R01.7): a released EXISTS is never older than one that is still held back.
func c01announceInOrder(c *Ctx) {
	P, R := c.P, c.R
	R.Explain("R01.7", "new messages are announced in ascending UID order: in State.popResponders, under permitExpunge=false, a *targetedExists may be released (appended to the popped list) only if no *targetedExists has been held back earlier in the same pass - the release is dominated by the empty-test of the set that the hold-back edge adds to.  Otherwise the held one is later inserted in the middle of the snapshot and the sequence numbers the client knows shift without any announcement.")
	pop := c.fn("R01.7", "internal/state.(*State).popResponders")
	if pop == nil {
		return
	}
	pop, _, _ = holdBackFunction(pop) // popResponders itself, or the method it dispatches to when permitExpunge is false
	resFld := c.fieldOf("internal/state", "State", "res")
	// remainder chain: appends whose result ends in the store to State.res; popped chain: appends whose result is returned
	flowsTo := func(call *ssa.Call, sink func(ssa.Instruction) bool) bool {
		seen := map[ssa.Value]bool{}
		var walk func(v ssa.Value) bool
		walk = func(v ssa.Value) bool {
			if seen[v] {
				return false
			}
			seen[v] = true
			refs := v.Referrers()
			if refs == nil {
				return false
			}
			for _, r := range *refs {
				if sink(r) {
					return true
				}
				switch t := r.(type) {
				case *ssa.Phi:
					if walk(t) {
						return true
					}
				case *ssa.Call:
					if _, isApp := engine.IsBuiltinCall(t, "append"); isApp && t.Call.Args[0] == v && walk(t) {
						return true
					}
				case *ssa.Store:
					if al, ok := t.Addr.(*ssa.Alloc); ok {
						for _, rr := range *al.Referrers() {
							if ld, ok := rr.(*ssa.UnOp); ok && walk(ld) {
								return true
							}
						}
					}
				}
			}
			return false
		}
		return walk(call)
	}
	toRes := func(in ssa.Instruction) bool {
		st, ok := in.(*ssa.Store)
		return ok && fieldAddrIs(st.Addr, resFld)
	}
	toRet := func(in ssa.Instruction) bool { _, ok := in.(*ssa.Return); return ok }
	n := 0
	for _, t := range typeTests(pop, "internal/state", "targetedExists") {
		var holds, releases []*ssa.Call
		for _, b := range pop.Blocks {
			if !engine.EdgeDominates(t.ifb, 0, b) {
				continue
			}
			for _, in := range b.Instrs {
				call, ok := in.(*ssa.Call)
				if !ok {
					continue
				}
				if _, isApp := engine.IsBuiltinCall(call, "append"); !isApp {
					continue
				}
				switch {
				case flowsTo(call, toRes):
					holds = append(holds, call)
				case flowsTo(call, toRet):
					releases = append(releases, call)
				}
			}
		}
		if len(holds) == 0 || len(releases) == 0 {
			continue
		}
		n++
		// the set(s) that record a hold: receivers of Add calls in the hold blocks
		var sets []ssa.Value
		for _, h := range holds {
			for _, in := range h.Block().Instrs {
				if call, ok := in.(*ssa.Call); ok {
					if sc := call.Call.StaticCallee(); sc != nil && engine.BaseName(sc) == "Add" && len(call.Call.Args) > 0 {
						sets = append(sets, call.Call.Args[0])
					}
				}
			}
		}
		for _, rel := range releases {
			ok := false
			for _, fact := range engine.FactsDominating(pop, rel.Block(), P.IsOwn) {
				bin, isBin := fact.Cond.(*ssa.BinOp)
				if !isBin {
					continue
				}
				lenOf := func(v ssa.Value) ssa.Value {
					if call, ok := engine.IsBuiltinCall(v, "len"); ok {
						return call.Call.Args[0]
					}
					return nil
				}
				k0 := func(v ssa.Value) bool {
					k, ok := v.(*ssa.Const)
					return ok && k.Value != nil && k.Value.ExactString() == "0"
				}
				var set ssa.Value
				empty := false
				switch {
				case bin.Op == token.GTR && k0(bin.Y):
					set, empty = lenOf(bin.X), !fact.Truth
				case bin.Op == token.EQL && k0(bin.Y):
					set, empty = lenOf(bin.X), fact.Truth
				case bin.Op == token.NEQ && k0(bin.Y):
					set, empty = lenOf(bin.X), !fact.Truth
				}
				if set == nil || !empty {
					continue
				}
				for _, s := range sets {
					if sameLoad(s, set) || s == set {
						ok = true
					}
				}
			}
			R.Check(ok, "R01.7", c.name(pop)+"|exists-released-only-if-none-held", P.Pos(rel.Pos()), "release is guarded by the emptiness of the held set", "a *targetedExists can be released although an earlier one is being held back in the same pass: the held message is later inserted before it, shifting sequence numbers the client already knows")
		}
	}
	R.Min("R01.7", "targetedExists hold/release decisions", n, 1)
}

// c01expungeIsBarrier (R01.8): merging of untagged responses never reaches across an EXPUNGE.
func c01expungeIsBarrier(c *Ctx) {
	P, R := c.P, c.R
	R.Explain("R01.8", "an EXPUNGE is a barrier for response merging: sequence numbers before and after it name different messages, so no canSkip method of internal/response may let a response skip over an *expunge - every `return true` of a canSkip is dominated by the ok edge of a type assertion of `other` to a response type other than *expunge.")
	n := 0
	for _, f := range c.funcsInPkg("internal/response") {
		if engine.ShortName(f) != "canSkip" || len(f.Params) != 2 {
			continue
		}
		for _, ret := range engine.Returns(f) {
			v := engine.ResultOf(ret, 0)
			if k, ok := v.(*ssa.Const); ok {
				if bv, isB := engine.ConstBool(k); isB && !bv {
					continue
				}
			}
			n++
			ok, why := false, "a response can be skipped without `other` having been identified as a non-EXPUNGE response"
			for _, b := range f.Blocks {
				for _, in := range b.Instrs {
					ta, isTA := in.(*ssa.TypeAssert)
					if !isTA || !ta.CommaOk || ta.X != ssa.Value(f.Params[1]) {
						continue
					}
					nt := engine.NamedOf(ta.AssertedType)
					if nt == nil {
						continue
					}
					// facts: the ok component of this assertion is true at the return
					for _, fact := range engine.FactsDominating(f, ret.Block(), P.IsOwn) {
						ex, isEx := fact.Cond.(*ssa.Extract)
						if !isEx || ex.Tuple != ssa.Value(ta) || ex.Index != 1 || !fact.Truth {
							continue
						}
						if nt.Obj().Name() == "expunge" {
							why = "canSkip answers true for an *expunge"
							ok = false
						} else if why != "canSkip answers true for an *expunge" {
							ok = true
						}
					}
				}
			}
			R.Check(ok, "R01.8", c.name(f)+"|skip", P.Pos(ret.Pos()), "skips only over a non-EXPUNGE response", why+": a FETCH/EXISTS merged across an EXPUNGE is attributed to the message that had that sequence number before the removal - the client's view of flags or count differs from what the server answers")
		}
	}
	R.Min("R01.8", "possibly-true returns of canSkip methods", n, 6)
}

// c01idleStartsEmpty (R01.9): live pushing starts with an empty queue.
func c01idleStartsEmpty(c *Ctx) { c.idleArmedAfterFullFlush("R01.9") }

// idleArmedAfterFullFlush is shared by R01.9 and the IDLE part of R05.4.
func (c *Ctx) idleArmedAfterFullFlush(rule string) {
	P, R := c.P, c.R
	R.Explain(map[bool]string{true: rule, false: rule + " (IDLE)"}[rule == "R01.9"], "nothing is queued when live pushing starts: every store that arms State.idleCh (a non-nil channel) is dominated by a flush of the responder queue that holds nothing back (flushResponses / a flush-like function with the constant true for permitExpunge) on its nil-error edge.  While idleCh is set, PushResponder applies and announces responders immediately; anything still queued from before - a held-back EXPUNGE and the EXISTS of its re-add - is overtaken by them and later inserted into the middle of the view the client has built.")
	idleFld := c.fieldOf("internal/state", "State", "idleCh")
	pf := c.permitFuncs(rule)
	n := 0
	for _, f := range c.funcsInPkg("internal/state") {
		for _, b := range f.Blocks {
			for _, in := range b.Instrs {
				st, ok := in.(*ssa.Store)
				if !ok || !fieldAddrIs(st.Addr, idleFld) || engine.IsNilConst(st.Val) {
					continue
				}
				n++
				ok2 := false
				for _, cs := range engine.Calls(f) {
					if cs.Instr.Parent() != f {
						continue
					}
					full := false
					for _, callee := range P.Callees(cs) {
						if idx, isFlush := pf[callee]; isFlush {
							if resolvePermit(engine.ArgForParam(cs.Common(), callee, idx), f, pf, triNone) == triTrue {
								full = true
							}
						}
					}
					if !full {
						continue
					}
					call, isCall := cs.Instr.(*ssa.Call)
					if !isCall {
						continue
					}
					// nil-error edge of this flush dominates the store
					for _, r := range *call.Referrers() {
						ex, isEx := r.(*ssa.Extract)
						if !isEx || ex.Type().String() != "error" {
							continue
						}
						for _, r2 := range *ex.Referrers() {
							bin, isBin := r2.(*ssa.BinOp)
							if !isBin {
								continue
							}
							for _, r3 := range *bin.Referrers() {
								if iff, isIf := r3.(*ssa.If); isIf {
									nilIx := 1
									if bin.Op == token.EQL {
										nilIx = 0
									}
									if engine.EdgeDominates(iff.Block(), nilIx, b) {
										ok2 = true
									}
								}
							}
						}
					}
				}
				R.Check(ok2, rule, c.name(f)+"|arm idleCh", P.Pos(st.Pos()), "dominated by a successful flush with permitExpunge=true", "State.idleCh is armed without a preceding successful flush that holds nothing back: responders still queued are overtaken by the ones pushed live during IDLE")
			}
		}
	}
	R.Min(rule, "stores arming State.idleCh", n, 1)
}

// c01queueClearedOnSwitch (R01.10): responders queued for the old mailbox never meet the new snapshot.
func c01queueClearedOnSwitch(c *Ctx) {
	P, R := c.P, c.R
	R.Explain("R01.10", "a new snapshot starts with an empty queue: every path to a store that installs a new snapshot in State.snap passes, after the last point at which the old snapshot could still be set, a reset of the responder queue (a store of nil/empty to State.res, directly or through State.close) - or comes along the edge on which State.snap was nil.  EXISTS / EXPUNGE / FETCH responders still queued for the previous mailbox would otherwise be replayed against the new mailbox's snapshot at the next flush: phantom messages, bogus EXPUNGEs, shifted sequence numbers.")
	snapFld := c.fieldOf("internal/state", "State", "snap")
	resFld := c.fieldOf("internal/state", "State", "res")
	// resetsOf: the instructions of g that reset the queue (a nil store to State.res, or a call of a function of the
	// package every return of which is preceded by a reset unless State.snap was nil), and the "snapshot was nil" edges of g
	var resetsOf func(g *ssa.Function, d int) (map[ssa.Instruction]bool, map[engine.Edge]bool)
	mustReset := map[*ssa.Function]int{} // 0 unknown, 1 yes, 2 no
	resetsOf = func(g *ssa.Function, d int) (map[ssa.Instruction]bool, map[engine.Edge]bool) {
		cut := map[ssa.Instruction]bool{}
		skip := map[engine.Edge]bool{}
		for _, bb := range g.Blocks {
			for _, i2 := range bb.Instrs {
				if s2, ok := i2.(*ssa.Store); ok && fieldAddrIs(s2.Addr, resFld) && engine.IsNilConst(s2.Val) {
					cut[s2] = true
				}
			}
			iff := engine.IfOf(bb)
			if iff == nil {
				continue
			}
			bin, ok := iff.Cond.(*ssa.BinOp)
			if !ok || (bin.Op != token.EQL && bin.Op != token.NEQ) {
				continue
			}
			var other ssa.Value
			if engine.IsNilConst(bin.Y) {
				other = bin.X
			} else if engine.IsNilConst(bin.X) {
				other = bin.Y
			}
			if ld, ok := other.(*ssa.UnOp); ok && fieldAddrIs(ld.X, snapFld) {
				nilIx := 0
				if bin.Op == token.NEQ {
					nilIx = 1
				}
				skip[engine.Edge{From: bb, Succ: nilIx}] = true
			}
		}
		if d < 2 {
			for _, cs := range engine.Calls(g) {
				h := cs.Common().StaticCallee()
				if h == nil || h == g || len(h.Blocks) == 0 || h.Parent() != nil || cs.Instr.Parent() != g || !strings.HasSuffix(engine.PkgPathOf(h), "internal/state") {
					continue
				}
				if mustReset[h] == 0 {
					mustReset[h] = 2
					hc, hs := resetsOf(h, d+1)
					if len(hc) > 0 {
						all := true
						for _, r := range engine.Returns(h) {
							if lr := engine.LastResult(r); lr != nil && lr.Type().String() == "error" && !engine.IsNilConst(lr) {
								continue // a failing helper: the caller does not go on to install a snapshot
							}
							if engine.ReachesAvoiding(h, r, hc, hs) {
								all = false
							}
						}
						if all {
							mustReset[h] = 1
						}
					}
				}
				if mustReset[h] == 1 {
					cut[cs.Instr] = true
				}
			}
		}
		return cut, skip
	}
	n := 0
	for _, f := range c.funcsInPkg("internal/state") {
		if f.Parent() != nil {
			continue
		}
		for _, b := range f.Blocks {
			for _, in := range b.Instrs {
				st, ok := in.(*ssa.Store)
				if !ok || !fieldAddrIs(st.Addr, snapFld) || engine.IsNilConst(st.Val) {
					continue
				}
				if c.isAnchor(f, "internal/state.NewState") {
					continue
				}
				n++
				cut, skip := resetsOf(f, 0)
				bad := engine.ReachesAvoidingFrom(f.Blocks[0], 0, st, cut, skip)
				R.Check(!bad, "R01.10", c.name(c.ownerFn(f))+"|queue reset before new snapshot", P.Pos(st.Pos()), "State.res is reset (or State.snap was nil) on every path", "a new snapshot is installed on a path that neither resets State.res nor comes from State.snap == nil: responders queued for the previous mailbox are applied to the new one")
			}
		}
	}
	R.Min("R01.10", "snapshot installations", n, 1)
}
