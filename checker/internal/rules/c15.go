package rules

import (
	"fmt"
	"go/constant"
	"go/token"
	"go/types"
	"sort"
	"strings"

	"golang.org/x/tools/go/ssa"

	"verifchecker/internal/engine"
)

func init() { register("C15", c15) }

// descrCtx binds the parameters of a closure factory to the arguments of the call being analysed.
var descrCtx = map[*ssa.Parameter]ssa.Value{}

// searchClosure resolves the op argument of newBuildSearchOpResult: a closure literal, or the
// result of a factory function of the package that returns one closure; for a factory the
// parameter bindings are returned so that descr can name the captured values.
func searchClosure(v ssa.Value) (*ssa.Function, map[*ssa.Parameter]ssa.Value) {
	if fn := engine.FuncValue(v); fn != nil {
		return fn, nil
	}
	call, ok := v.(*ssa.Call)
	if !ok {
		return nil, nil
	}
	g := call.Call.StaticCallee()
	if g == nil || len(g.Blocks) == 0 {
		return nil, nil
	}
	var clo *ssa.Function
	for _, r := range engine.Returns(g) {
		if len(r.Results) != 1 {
			return nil, nil
		}
		fn := engine.FuncValue(engine.ResultOf(r, 0))
		if fn == nil || (clo != nil && clo != fn) {
			return nil, nil
		}
		clo = fn
	}
	if clo == nil {
		return nil, nil
	}
	ctx := map[*ssa.Parameter]ssa.Value{}
	for i, p := range g.Params {
		if i < len(call.Call.Args) {
			ctx[p] = call.Call.Args[i]
		}
	}
	return clo, ctx
}

// ---- expression descriptors ------------------------------------------------------------

// descr renders a value of a search closure as an expression over the closure parameter
// (s.…), the builder's key parameter (key.…) and constants; free variables are resolved to
// what the builder stored in the captured cell.
func descr(v ssa.Value, d int) string {
	if d > 14 || v == nil {
		return "?"
	}
	switch t := v.(type) {
	case *ssa.Const:
		if t.Value == nil {
			return "nil"
		}
		if t.Value.Kind() == constant.String {
			return fmt.Sprintf("%q", constant.StringVal(t.Value))
		}
		return t.Value.ExactString()
	case *ssa.Parameter:
		if a, ok := descrCtx[t]; ok {
			return descr(a, d+1) // parameter of a closure factory: the argument the builder passed
		}
		return t.Name()
	case *ssa.FreeVar:
		// captured cell: the value(s) stored into it by the parent
		var outs []string
		for _, b := range engine.FreeVarBinding(t) {
			outs = append(outs, "&"+descr(b, d+1))
		}
		if len(outs) == 1 {
			return outs[0]
		}
		return "fv:" + t.Name()
	case *ssa.Alloc:
		sts := engine.StoresTo(t)
		if len(sts) == 1 {
			return descr(sts[0].Val, d+1)
		}
		return "cell:" + t.Comment
	case *ssa.UnOp:
		switch t.Op {
		case token.MUL:
			inner := descr(t.X, d+1)
			return strings.TrimPrefix(inner, "&")
		case token.NOT:
			return "!" + descr(t.X, d+1)
		}
		return t.Op.String() + descr(t.X, d+1)
	case *ssa.FieldAddr:
		st := t.X.Type().Underlying().(*types.Pointer).Elem().Underlying().(*types.Struct)
		if st.Field(t.Field).Embedded() {
			return "&" + strings.TrimPrefix(descr(t.X, d+1), "&")
		}
		return "&" + strings.TrimPrefix(descr(t.X, d+1), "&") + "." + st.Field(t.Field).Name()
	case *ssa.IndexAddr:
		return "&" + strings.TrimPrefix(descr(t.X, d+1), "&") + "[i]"
	case *ssa.Field:
		st := t.X.Type().Underlying().(*types.Struct)
		if st.Field(t.Field).Embedded() {
			return descr(t.X, d+1)
		}
		return descr(t.X, d+1) + "." + st.Field(t.Field).Name()
	case *ssa.Extract:
		// a (value, error) helper of internal/state with one success return: describe what it returns,
		// with its parameters bound to the arguments (the helper is transparent to the key's meaning)
		if call, ok := t.Tuple.(*ssa.Call); ok && d < 10 {
			if sc := call.Call.StaticCallee(); sc != nil && len(sc.Blocks) > 0 && sc.Parent() == nil && strings.HasSuffix(engine.PkgPathOf(sc), "internal/state") && !strings.HasPrefix(engine.BaseName(sc), "buildSearchOp") {
				var succ *ssa.Return
				n := 0
				for _, r := range engine.Returns(sc) {
					if lr := engine.LastResult(r); lr != nil && engine.IsNilConst(lr) && len(r.Results) > t.Index {
						succ = r
						n++
					}
				}
				if n == 1 && types.Identical(sc.Signature.Results().At(sc.Signature.Results().Len()-1).Type(), types.Universe.Lookup("error").Type()) {
					saved := map[*ssa.Parameter]ssa.Value{}
					had := map[*ssa.Parameter]bool{}
					for i, p := range sc.Params {
						if i < len(call.Call.Args) {
							if old, ok := descrCtx[p]; ok {
								saved[p], had[p] = old, true
							}
							descrCtx[p] = call.Call.Args[i]
						}
					}
					out := descr(succ.Results[t.Index], d+1)
					for i, p := range sc.Params {
						if i < len(call.Call.Args) {
							if had[p] {
								descrCtx[p] = saved[p]
							} else {
								delete(descrCtx, p)
							}
						}
					}
					return out
				}
			}
		}
		return descr(t.Tuple, d+1) + "#" + fmt.Sprint(t.Index)
	case *ssa.Convert:
		return "conv(" + descr(t.X, d+1) + ")"
	case *ssa.ChangeType:
		return descr(t.X, d+1)
	case *ssa.MakeInterface:
		return descr(t.X, d+1)
	case *ssa.BinOp:
		return "(" + descr(t.X, d+1) + " " + t.Op.String() + " " + descr(t.Y, d+1) + ")"
	case *ssa.Call:
		cc := t.Common()
		var args []string
		name := ""
		if cc.IsInvoke() {
			name = engine.MethodName(cc.Method)
			args = append(args, descr(cc.Value, d+1))
		} else if sc := cc.StaticCallee(); sc != nil {
			name = engine.BaseName(sc)
			if sc.Signature.Recv() == nil && sc.Pkg != nil && engine.RelPkg(sc.Pkg.Pkg.Path()) == sc.Pkg.Pkg.Path() {
				name = sc.Pkg.Pkg.Name() + "." + name
			}
		} else if bi, ok := cc.Value.(*ssa.Builtin); ok {
			name = bi.Name()
		} else {
			name = "call[" + descr(cc.Value, d+1) + "]"
		}
		for _, a := range cc.Args {
			args = append(args, descr(a, d+1))
		}
		return name + "(" + strings.Join(args, ", ") + ")"
	case *ssa.Phi:
		return "phi:" + t.Comment
	case *ssa.Slice:
		return descr(t.X, d+1) + "[:]"
	}
	return v.Name()
}

// ---- boolean function of a loop-free closure ---------------------------------------------

type boolFn struct {
	atoms  []string        // distinct atom descriptors, sorted
	table  map[string]bool // assignment (bits in atoms order) -> result on the success return
	unsupp string          // why the closure cannot be evaluated
}

// evalClosure computes, for every assignment of its boolean atoms, what the closure returns
// on its nil-error return, assuming the errors of the calls it makes are nil.
func evalClosure(f *ssa.Function) boolFn {
	res := boolFn{table: map[string]bool{}}
	atomSet := map[string]bool{}
	type outcome struct {
		val     bool
		ok      bool
		newAtom string
		unsupp  string
	}
	var run func(assign map[string]bool) outcome
	run = func(assign map[string]bool) outcome {
		entered := map[*ssa.BasicBlock]*ssa.BasicBlock{}
		var eval func(v ssa.Value, d int) (bool, string, string) // value, missing atom, unsupported
		atom := func(name string) (bool, string, string) {
			if val, ok := assign[name]; ok {
				return val, "", ""
			}
			return false, name, ""
		}
		eval = func(v ssa.Value, d int) (bool, string, string) {
			if d > 40 {
				return false, "", "expression too deep"
			}
			switch t := v.(type) {
			case *ssa.Const:
				if t.Value != nil && t.Value.Kind() == constant.Bool {
					return constant.BoolVal(t.Value), "", ""
				}
			case *ssa.UnOp:
				if t.Op == token.NOT {
					x, m, u := eval(t.X, d+1)
					return !x, m, u
				}
			case *ssa.Phi:
				from := entered[t.Block()]
				for i, p := range t.Block().Preds {
					if p == from {
						return eval(t.Edges[i], d+1)
					}
				}
				return false, "", "phi without a path"
			case *ssa.BinOp:
				if t.Op == token.EQL || t.Op == token.NEQ {
					if isErrorType(t.X.Type()) && (engine.IsNilConst(t.Y) || engine.IsNilConst(t.X)) {
						return t.Op == token.EQL, "", "" // the calls it makes succeed
					}
				}
				switch t.Op {
				case token.LSS, token.GTR, token.LEQ, token.GEQ, token.EQL, token.NEQ:
					return atom(descr(t, 0))
				}
			case *ssa.Call:
				if b, ok := t.Type().Underlying().(*types.Basic); ok && b.Kind() == types.Bool {
					return atom(descr(t, 0))
				}
			case *ssa.Extract:
				if call, ok := t.Tuple.(*ssa.Call); ok && t.Index == 0 {
					return atom(descr(call, 0))
				}
			}
			return false, "", "unsupported value " + v.String()
		}
		b := f.Blocks[0]
		var prev *ssa.BasicBlock
		for steps := 0; steps < 200; steps++ {
			if _, again := entered[b]; again {
				return outcome{unsupp: "the closure has a loop"}
			}
			entered[b] = prev
			last := b.Instrs[len(b.Instrs)-1]
			switch t := last.(type) {
			case *ssa.Return:
				if len(t.Results) != 2 {
					return outcome{unsupp: "unexpected result arity"}
				}
				if !engine.IsNilConst(engine.ResultOf(t, 1)) {
					return outcome{unsupp: "reaches an error return although every call succeeds"}
				}
				v, m, u := eval(engine.ResultOf(t, 0), 0)
				if u != "" {
					return outcome{unsupp: u}
				}
				if m != "" {
					return outcome{newAtom: m}
				}
				return outcome{val: v, ok: true}
			case *ssa.If:
				v, m, u := eval(t.Cond, 0)
				if u != "" {
					return outcome{unsupp: u}
				}
				if m != "" {
					return outcome{newAtom: m}
				}
				prev = b
				if v {
					b = b.Succs[0]
				} else {
					b = b.Succs[1]
				}
			case *ssa.Jump:
				prev = b
				b = b.Succs[0]
			default:
				return outcome{unsupp: "unexpected terminator"}
			}
		}
		return outcome{unsupp: "too many steps"}
	}
	// discover atoms and fill the table
	var explore func(assign map[string]bool)
	explore = func(assign map[string]bool) {
		if res.unsupp != "" || len(assign) > 6 {
			if len(assign) > 6 {
				res.unsupp = "more than 6 boolean atoms"
			}
			return
		}
		o := run(assign)
		switch {
		case o.unsupp != "":
			res.unsupp = o.unsupp
		case o.newAtom != "":
			atomSet[o.newAtom] = true
			for _, val := range []bool{false, true} {
				a2 := map[string]bool{}
				for k, v := range assign {
					a2[k] = v
				}
				a2[o.newAtom] = val
				explore(a2)
			}
		default:
			var ks []string
			for k := range assign {
				ks = append(ks, k)
			}
			sort.Strings(ks)
			key := ""
			for _, k := range ks {
				key += fmt.Sprintf("%s=%v;", k, assign[k])
			}
			res.table[key] = o.val
		}
	}
	explore(map[string]bool{})
	for k := range atomSet {
		res.atoms = append(res.atoms, k)
	}
	sort.Strings(res.atoms)
	return res
}

// render: a canonical text of the boolean function: the sorted list of rows.
func (b boolFn) render(canon func(string) string) string {
	var rows []string
	for k, v := range b.table {
		parts := strings.Split(strings.TrimSuffix(k, ";"), ";")
		var cp []string
		for _, p := range parts {
			if p == "" {
				continue
			}
			i := strings.LastIndex(p, "=")
			cp = append(cp, canon(p[:i])+"="+p[i+1:])
		}
		sort.Strings(cp)
		rows = append(rows, strings.Join(cp, ",")+"->"+fmt.Sprint(v))
	}
	sort.Strings(rows)
	return strings.Join(rows, " | ")
}

// expected truth tables, written the same way, over canonical atom names.
func tt(atoms []string, f func(a map[string]bool) bool) string {
	var rows []string
	n := len(atoms)
	for m := 0; m < 1<<n; m++ {
		a := map[string]bool{}
		var cp []string
		for i, at := range atoms {
			a[at] = m&(1<<i) != 0
			cp = append(cp, at+"="+fmt.Sprint(a[at]))
		}
		sort.Strings(cp)
		rows = append(rows, strings.Join(cp, ",")+"->"+fmt.Sprint(f(a)))
	}
	sort.Strings(rows)
	return strings.Join(rows, " | ")
}

func c15(c *Ctx) {
	defer c15intervalLoops(c)
	defer c.searchResultKind("R15.6")
	defer c.searchReadsByIDAlone("R15.7")
	defer c.searchAnswersComeFromSearch("R15.8")
	P, R := c.P, c.R
	R.Explain("R15.1", "exhaustiveness and agreement of the key tables: the type switch of buildSearchOp has a case for every concrete type implementing command.SearchKey; every case calls the builder for that key; handleSearchKey (and the sequence-set / list / NOT / OR productions) allocates every such type, and each keyword constant that guards an allocation is the lower-cased name of the type it allocates.")
	R.Explain("R15.2", "declared needs: the searchData fields a key's closure reads are populated — buildSearchData fills a field only under a needs* flag, so the options given to newBuildSearchOpResult must set the flag of every field the closure reads (derived from buildSearchData and the options' apply methods, not listed by hand); an option that enables a field computed from another (header from literal) also enables that one; composite builders merge the needs of every child they evaluate.")
	R.Explain("R15.3", "order / duplicates / data race: the closure Search hands to parallel.DoContext writes the shared result slice only at its own index i; the result is produced by filtering that index-ordered slice.")
	R.Explain("R15.4", "meaning of the loop-free keys (RFC 3501 6.4.4), decided by evaluating each closure's boolean function over its atoms (calls and comparisons; errors assumed nil) and comparing with the specification table: flag keys and their UN- forms, NEW/OLD, KEYWORD/UNKEYWORD (lower-cased keyword), NOT (complement of the child), OR (union of both children), the header keys (the named header field, positive), LARGER/SMALLER and the date keys (operand roles); UID / sequence-set keys test s.message.UID / s.message.Seq respectively. AND over a list, substring semantics and date arithmetic are not decided.")

	bso := c.fn("R15.1", "internal/state.buildSearchOp")
	hsk := c.fn("R15.1", "imap/command.handleSearchKey")
	if bso == nil || hsk == nil {
		return
	}
	// concrete SearchKey types
	skIface := c.lookupType("imap/command", "SearchKey")
	var keyTypes []*types.Named
	if skIface != nil {
		scope := skIface.Obj().Pkg().Scope()
		for _, n := range scope.Names() {
			tn, ok := scope.Lookup(n).(*types.TypeName)
			if !ok {
				continue
			}
			nt, ok := tn.Type().(*types.Named)
			if !ok || types.IsInterface(nt) {
				continue
			}
			if types.Implements(types.NewPointer(nt), skIface.Underlying().(*types.Interface)) || types.Implements(nt, skIface.Underlying().(*types.Interface)) {
				if strings.HasPrefix(n, "SearchKey") {
					keyTypes = append(keyTypes, nt)
				}
			}
		}
	}
	R.Min("R15.1", "concrete SearchKey types", len(keyTypes), 30)

	// type switch cases of buildSearchOp: TypeAssert(commaok) chain -> callee
	caseCallee := map[string]*ssa.Function{}
	caseFedKey := map[string]bool{} // the builder called in the case receives the asserted key (or a field of it)
	for _, b := range bso.Blocks {
		for _, in := range b.Instrs {
			ta, ok := in.(*ssa.TypeAssert)
			if !ok {
				continue
			}
			nt := engine.NamedOf(ta.AssertedType)
			if nt == nil {
				continue
			}
			// the block taken when the assertion holds
			var okBlock *ssa.BasicBlock
			if iff := engine.IfOf(b); iff != nil {
				okBlock = b.Succs[0]
			}
			if okBlock == nil {
				continue
			}
			var fromKey func(v ssa.Value, d int) bool
			fromKey = func(v ssa.Value, d int) bool {
				if d > 4 {
					return false
				}
				switch t := v.(type) {
				case *ssa.TypeAssert:
					return t == ta
				case *ssa.Extract:
					return t.Tuple == ssa.Value(ta) && t.Index == 0
				case *ssa.UnOp:
					if fa, ok := t.X.(*ssa.FieldAddr); ok {
						return fromKey(fa.X, d+1)
					}
				case *ssa.Field:
					return fromKey(t.X, d+1)
				case *ssa.ChangeType:
					return fromKey(t.X, d+1)
				case *ssa.MakeInterface:
					return fromKey(t.X, d+1)
				}
				return false
			}
			for _, cs := range callsInBlockClosure(okBlock) {
				sc := cs.Common().StaticCallee()
				if sc == nil || !strings.HasPrefix(engine.ShortName(sc), "buildSearchOp") {
					continue
				}
				caseCallee[nt.Obj().Name()] = sc
				for _, a := range cs.Common().Args {
					if fromKey(a, 0) {
						caseFedKey[nt.Obj().Name()] = true
					}
				}
			}
		}
	}
	for _, nt := range keyTypes {
		name := nt.Obj().Name()
		key := "buildSearchOp|case " + name
		callee := caseCallee[name]
		want := "buildSearchOp" + strings.TrimPrefix(name, "SearchKey")
		// the builder is the one for this key: it is handed the asserted key value itself (the type checker then
		// guarantees it is a builder for that key type) or one of its fields, or follows the naming convention
		ok := callee != nil && (caseFedKey[name] || strings.EqualFold(engine.ShortName(callee), want))
		got := "no case"
		if callee != nil {
			got = "calls " + engine.ShortName(callee)
		}
		R.Check(ok, "R15.1", key, P.Pos(bso.Pos()), "case present and dispatches to "+want, "the type switch of buildSearchOp has "+got+" for "+name+": the key is answered 'bad search keyword' or evaluated as a different key")
	}
	// allocations in the search parser
	allocBy := map[string][]*ssa.Alloc{}
	for _, f := range c.funcsInPkg("imap/command") {
		for _, b := range f.Blocks {
			for _, in := range b.Instrs {
				if al, ok := in.(*ssa.Alloc); ok && al.Heap {
					if nt := engine.NamedOf(al.Type()); nt != nil && strings.HasPrefix(nt.Obj().Name(), "SearchKey") {
						allocBy[nt.Obj().Name()] = append(allocBy[nt.Obj().Name()], al)
					}
				}
			}
		}
	}
	for _, nt := range keyTypes {
		name := nt.Obj().Name()
		R.Check(len(allocBy[name]) > 0, "R15.1", "search parser|constructs "+name, P.Pos(hsk.Pos()), "the parser can produce the key", "no production of the SEARCH parser constructs "+name+": the key cannot be requested")
	}
	// keyword constant <-> allocated type (in handleSearchKey)
	nk := 0
	for _, b := range hsk.Blocks {
		for _, in := range b.Instrs {
			al, ok := in.(*ssa.Alloc)
			if !ok || !al.Heap {
				continue
			}
			nt := engine.NamedOf(al.Type())
			if nt == nil || !strings.HasPrefix(nt.Obj().Name(), "SearchKey") {
				continue
			}
			// keyword comparisons whose true edge dominates this block
			var kws []string
			for _, d := range hsk.Blocks {
				iff := engine.IfOf(d)
				if iff == nil {
					continue
				}
				cmp, ok := iff.Cond.(*ssa.BinOp)
				if !ok || cmp.Op != token.EQL {
					continue
				}
				s, ok := engine.ConstString(cmp.Y)
				if !ok {
					continue
				}
				if engine.EdgeDominates(d, 0, b) {
					kws = append(kws, s)
				}
			}
			if len(kws) == 0 {
				continue
			}
			nk++
			want := strings.ToLower(strings.TrimPrefix(nt.Obj().Name(), "SearchKey"))
			R.Check(len(kws) == 1 && kws[0] == want, "R15.1", "handleSearchKey|keyword "+want, P.Pos(al.Pos()), "keyword constant names the allocated key type", fmtf("keyword %q constructs %s: the client's key is evaluated as a different key", strings.Join(kws, ","), nt.Obj().Name()))
		}
	}
	R.Min("R15.1", "keyword-guarded key allocations", nk, 30)

	// ---- R15.2 ------------------------------------------------------------------------
	bsd := c.fn("R15.2", "internal/state.buildSearchData")
	nbr := c.fn("R15.2", "internal/state.newBuildSearchOpResult")
	if bsd == nil || nbr == nil {
		return
	}
	// field of searchData -> flag of buildSearchOpResult that guards its population
	requires := map[string]string{}
	readsUnder := map[string]map[string]bool{} // flag -> searchData fields read inside its block
	for _, b := range bsd.Blocks {
		iff := engine.IfOf(b)
		if iff == nil {
			continue
		}
		flag := ""
		if u, ok := iff.Cond.(*ssa.UnOp); ok {
			if fa, ok := u.X.(*ssa.FieldAddr); ok && engine.IsNamed(fa.X.Type(), "internal/state", "buildSearchOpResult") {
				flag = fieldOfAddr(fa).Name()
			}
		}
		if flag == "" {
			continue
		}
		readsUnder[flag] = map[string]bool{}
		for _, g := range engine.WithClosures(bsd) {
			for _, bb := range g.Blocks {
				inRegion := false
				if g == bsd {
					inRegion = engine.EdgeDominates(b, 0, bb)
				} else {
					// closure created inside the guarded region
					for _, x := range bsd.Blocks {
						for _, in := range x.Instrs {
							if mc, ok := in.(*ssa.MakeClosure); ok && mc.Fn == g && engine.EdgeDominates(b, 0, x) {
								inRegion = true
							}
						}
					}
				}
				if !inRegion {
					continue
				}
				for _, in := range bb.Instrs {
					switch t := in.(type) {
					case *ssa.Store:
						if top := searchDataField(t.Addr); top != "" {
							requires[top] = flag
						}
					case *ssa.UnOp:
						if t.Op == token.MUL {
							if top := searchDataField(t.X); top != "" {
								readsUnder[flag][top] = true
							}
						}
					}
				}
			}
		}
	}
	var rows []string
	for k, v := range requires {
		rows = append(rows, "searchData."+k+" is filled only if "+v)
	}
	R.Table("R15.2 field -> flag (derived from buildSearchData)", rows...)
	R.Min("R15.2", "guarded searchData fields", len(requires), 3)
	// option constructor -> flags set by its apply method
	optFlags := func(ctor *ssa.Function) map[string]bool {
		out := map[string]bool{}
		for _, ret := range engine.Returns(ctor) {
			v := engine.ResultOf(ret, 0)
			mi, ok := v.(*ssa.MakeInterface)
			if !ok {
				continue
			}
			t := mi.X.Type()
			ms := c.P.SSA.MethodSets.MethodSet(t)
			sel := ms.Lookup(ctor.Pkg.Pkg, "apply")
			if sel == nil {
				continue
			}
			ap := engine.Unwrap2(c.P.SSA.MethodValue(sel))
			if ap == nil {
				continue
			}
			for _, b := range ap.Blocks {
				for _, in := range b.Instrs {
					if st, ok := in.(*ssa.Store); ok {
						if fa, ok := st.Addr.(*ssa.FieldAddr); ok && engine.IsNamed(fa.X.Type(), "internal/state", "buildSearchOpResult") {
							if k, ok := st.Val.(*ssa.Const); ok && k.Value != nil && k.Value.Kind() == constant.Bool && constant.BoolVal(k.Value) {
								out[fieldOfAddr(fa).Name()] = true
							}
						}
					}
				}
			}
		}
		return out
	}
	nb := 0
	for _, f := range c.funcsInPkg("internal/state") {
		if !strings.HasPrefix(engine.ShortName(f), "buildSearchOp") || f.Parent() != nil {
			continue
		}
		for _, cs := range engine.Calls(f) {
			if cs.Common().StaticCallee() != nbr {
				continue
			}
			nb++
			key := c.name(f) + "|needs"
			// the closure
			var clo *ssa.Function
			if fv, _ := searchClosure(cs.Common().Args[0]); fv != nil {
				clo = fv
			} else {
				// assigned later: store of a closure into the result's op field
				for _, b := range f.Blocks {
					for _, in := range b.Instrs {
						if st, ok := in.(*ssa.Store); ok {
							if fa, ok := st.Addr.(*ssa.FieldAddr); ok && fieldOfAddr(fa).Name() == "op" {
								clo = engine.FuncValue(st.Val)
							}
						}
					}
				}
			}
			if clo == nil {
				R.Fail("R15.2", key, P.Pos(cs.Pos()), "the search closure of this builder cannot be identified")
				continue
			}
			enabled := map[string]bool{}
			for _, a := range sprintfArgs(cs.Common(), 1) {
				if call, ok := stripIface(a).(*ssa.Call); ok && call.Call.StaticCallee() != nil {
					for fl := range optFlags(call.Call.StaticCallee()) {
						enabled[fl] = true
					}
				} else if a != nil {
					R.Fail("R15.2", key, P.Pos(cs.Pos()), "an option of newBuildSearchOpResult is not a direct needs*() call")
				}
			}
			// option closure consistency: flag enabled => flags of the fields read under it enabled
			var missing []string
			for fl := range enabled {
				for fld := range readsUnder[fl] {
					if rq := requires[fld]; rq != "" && !enabled[rq] {
						missing = append(missing, fmtf("%s (needed to compute what %s enables)", rq, fl))
					}
				}
			}
			reads := map[string]bool{}
			for _, g := range engine.WithClosures(clo) {
				for _, b := range g.Blocks {
					for _, in := range b.Instrs {
						if u, ok := in.(*ssa.UnOp); ok && u.Op == token.MUL {
							if top := searchDataField(u.X); top != "" {
								reads[top] = true
							}
						}
					}
				}
			}
			for fld := range reads {
				if rq := requires[fld]; rq != "" && !enabled[rq] {
					missing = append(missing, fmtf("%s (the closure reads searchData.%s)", rq, fld))
				}
			}
			sort.Strings(missing)
			R.Check(len(missing) == 0, "R15.2", key, P.Pos(cs.Pos()), "every searchData field the closure reads is enabled by the declared options", "the builder does not declare "+strings.Join(missing, ", ")+": the closure evaluates the key on an empty/zero field (nil header dereference or wrong answer)")
		}
		// composite builders: every child result is merged into the returned result
		for _, cs := range engine.Calls(f) {
			sc := cs.Common().StaticCallee()
			if sc == nil || !strings.HasPrefix(engine.ShortName(sc), "buildSearchOp") || sc == nbr || cs.Instr.Parent() != f {
				continue
			}
			call, ok := cs.Instr.(*ssa.Call)
			if !ok {
				continue
			}
			// forwarding (`return buildSearchOpX(...)`) needs no merge
			forwarded := true
			for _, r := range *call.Referrers() {
				switch t := r.(type) {
				case *ssa.Return:
				case *ssa.Extract:
					for _, rr := range *t.Referrers() {
						if _, isRet := rr.(*ssa.Return); !isRet {
							forwarded = false
						}
					}
				default:
					forwarded = false
				}
			}
			if forwarded {
				continue
			}
			var child ssa.Value
			for _, r := range *call.Referrers() {
				if ex, ok := r.(*ssa.Extract); ok && ex.Index == 0 {
					child = ex
				}
			}
			childName := "?"
			if len(cs.Common().Args) > 1 {
				childName = descr(cs.Common().Args[1], 0)
			}
			key := fmtf("%s|merge child %s", c.name(f), childName)
			if child == nil {
				R.Fail("R15.2", key, P.Pos(cs.Pos()), "child result not used")
				continue
			}
			cut := map[ssa.Instruction]bool{}
			for _, ms := range engine.Calls(f) {
				if m := ms.Common().StaticCallee(); m != nil && engine.ShortName(m) == "merge" && len(ms.Common().Args) == 2 && sameOrCell(ms.Common().Args[1], child) {
					cut[ms.Instr] = true
				}
			}
			bad := ""
			for _, ret := range engine.Returns(f) {
				if lr := engine.LastResult(ret); lr == nil || !engine.IsNilConst(lr) {
					continue
				}
				if engine.InstrReaches(cs.Instr, ret) && engine.ReachesAvoidingFrom(cs.Instr.Block(), engine.InstrIndex(cs.Instr)+1, ret, cut, nil) {
					bad = P.Pos(ret.Pos())
				}
			}
			R.Check(bad == "", "R15.2", key, P.Pos(cs.Pos()), "the child's needs are merged on every success path", "a success return ("+bad+") is reached without result.merge(child) for this child: data the child key reads is not loaded (nil header / empty literal) when the other operands do not need it")
		}
	}
	R.Min("R15.2", "search closures with declared needs", nb, 36)

	// ---- R15.3 ------------------------------------------------------------------------
	search := c.fn("R15.3", "internal/state.(*Mailbox).Search")
	if search != nil {
		np := 0
		for _, cs := range engine.Calls(search) {
			sc := cs.Common().StaticCallee()
			if sc == nil || engine.BaseName(sc) != "DoContext" {
				continue
			}
			clo := engine.FuncValue(cs.Common().Args[len(cs.Common().Args)-1])
			if clo == nil {
				continue
			}
			np++
			key := c.name(search) + "|parallel closure writes"
			bad := ""
			idx := clo.Params[len(clo.Params)-1]
			for _, g := range engine.WithClosures(clo) {
				for _, b := range g.Blocks {
					for _, in := range b.Instrs {
						st, ok := in.(*ssa.Store)
						if !ok {
							continue
						}
						switch a := st.Addr.(type) {
						case *ssa.IndexAddr:
							if a.Index != ssa.Value(idx) {
								bad = "writes a shared slice at an index other than its own i (" + P.Pos(st.Pos()) + ")"
							}
						case *ssa.Alloc:
							// local
						case *ssa.FreeVar:
							bad = "assigns a captured variable (" + P.Pos(st.Pos()) + ")"
						case *ssa.FieldAddr:
							if _, isAlloc := a.X.(*ssa.Alloc); !isAlloc {
								bad = "writes a shared structure (" + P.Pos(st.Pos()) + ")"
							}
						default:
							if _, isLocal := st.Addr.(*ssa.Alloc); !isLocal {
								bad = "writes through " + st.Addr.String() + " (" + P.Pos(st.Pos()) + ")"
							}
						}
					}
				}
				for _, cs2 := range engine.Calls(g) {
					if bi, ok := cs2.Common().Value.(*ssa.Builtin); ok && bi.Name() == "append" {
						// append to a captured slice
						if u, ok := cs2.Common().Args[0].(*ssa.UnOp); ok {
							if _, isFV := u.X.(*ssa.FreeVar); isFV {
								bad = "appends to a captured slice (" + P.Pos(cs2.Pos()) + ")"
							}
						}
					}
				}
			}
			R.Check(bad == "", "R15.3", key, P.Pos(cs.Pos()), "each worker writes result[i] only", "the parallel SEARCH worker "+bad+": results out of order / duplicated / racy")
			// the returned value is a Filter of that slice
			okRet := false
			for _, ret := range engine.Returns(search) {
				if lr := engine.LastResult(ret); lr != nil && engine.IsNilConst(lr) {
					if call, ok := engine.ResultOf(ret, 0).(*ssa.Call); ok && call.Call.StaticCallee() != nil && engine.BaseName(call.Call.StaticCallee()) == "Filter" {
						okRet = true
					}
				}
			}
			R.Check(okRet, "R15.3", c.name(search)+"|result is the index-ordered slice filtered", P.Pos(search.Pos()), "success return yields xslices.Filter(result)", "Search no longer returns the filtered index-ordered slice: order/duplicates are not guaranteed by construction")
		}
		R.Min("R15.3", "parallel evaluation sites", np, 1)
	}

	// ---- R15.4 ------------------------------------------------------------------------
	flagConst := func(name string) string { return `"\\` + name + `"` }
	flagAtom := func(arg string) string { return "flag:" + arg }
	canon := func(a string) string {
		// s.message.flags.ContainsUnchecked(X)
		if strings.HasPrefix(a, "ContainsUnchecked(s.message.flags, ") {
			return flagAtom(strings.TrimSuffix(strings.TrimPrefix(a, "ContainsUnchecked(s.message.flags, "), ")"))
		}
		// child op call:  call[<childexpr>.op](s)
		if strings.HasPrefix(a, "call[") && strings.HasSuffix(a, ".op](s)") {
			inner := strings.TrimSuffix(strings.TrimPrefix(a, "call["), ".op](s)")
			// inner: buildSearchOp(m, key.KeyN, decoder)#0
			if i := strings.Index(inner, "key."); i >= 0 && strings.HasPrefix(inner, "buildSearchOp(") {
				rest := inner[i+4:]
				if j := strings.IndexAny(rest, ",)"); j >= 0 {
					return "child:" + rest[:j]
				}
			}
			return "child?:" + inner
		}
		if strings.HasPrefix(a, "strings.Contains(") || strings.HasPrefix(a, "bytes.Contains(") {
			if i := strings.Index(a, `Get(s.header, `); i >= 0 {
				rest := a[i+len(`Get(s.header, `):]
				if j := strings.Index(rest, ")"); j >= 0 {
					hay := a[:i]
					needleHasKey := strings.Contains(a[i+j:], "key.Value")
					if strings.Contains(hay, "Contains(") && needleHasKey && !strings.Contains(hay, "key.Value") {
						return "hdr:" + rest[:j]
					}
				}
			}
		}
		if strings.HasPrefix(a, "(") && strings.HasSuffix(a, ")") {
			return "cmp:" + a
		}
		for _, m := range []string{"Before", "After", "Equal"} {
			if strings.HasPrefix(a, m+"(") {
				src := "?"
				body := strings.TrimSuffix(strings.TrimPrefix(a, m+"("), ")")
				parts := splitTop(body)
				if len(parts) == 2 {
					role := func(p string) string {
						switch {
						case strings.Contains(p, "key.Value"):
							return "key"
						case strings.Contains(p, "s.dbMessage.date"):
							return "db"
						case strings.Contains(p, `Get(s.header, "Date")`):
							return "hdrdate"
						}
						return "?"
					}
					src = role(parts[0]) + "," + role(parts[1])
				}
				return m + ":" + src
			}
		}
		return a
	}
	type spec struct {
		atoms []string
		f     func(a map[string]bool) bool
	}
	one := func(at string, pos bool) spec {
		return spec{[]string{at}, func(a map[string]bool) bool { return a[at] == pos }}
	}
	specs := map[string]spec{
		"SearchKeyAll":        {nil, func(map[string]bool) bool { return true }},
		"SearchKeyAnswered":   one(flagAtom(flagConst("answered")), true),
		"SearchKeyDeleted":    one(flagAtom(flagConst("deleted")), true),
		"SearchKeyDraft":      one(flagAtom(flagConst("draft")), true),
		"SearchKeyFlagged":    one(flagAtom(flagConst("flagged")), true),
		"SearchKeySeen":       one(flagAtom(flagConst("seen")), true),
		"SearchKeyRecent":     one(flagAtom(flagConst("recent")), true),
		"SearchKeyUnanswered": one(flagAtom(flagConst("answered")), false),
		"SearchKeyUndeleted":  one(flagAtom(flagConst("deleted")), false),
		"SearchKeyUndraft":    one(flagAtom(flagConst("draft")), false),
		"SearchKeyUnflagged":  one(flagAtom(flagConst("flagged")), false),
		"SearchKeyUnseen":     one(flagAtom(flagConst("seen")), false),
		"SearchKeyOld":        one(flagAtom(flagConst("recent")), false),
		"SearchKeyNew": {[]string{flagAtom(flagConst("recent")), flagAtom(flagConst("seen"))}, func(a map[string]bool) bool {
			return a[flagAtom(flagConst("recent"))] && !a[flagAtom(flagConst("seen"))]
		}},
		"SearchKeyKeyword":   one(flagAtom("strings.ToLower(key.Value)"), true),
		"SearchKeyUnkeyword": one(flagAtom("strings.ToLower(key.Value)"), false),
		"SearchKeyNot":       one("child:Key", false),
		"SearchKeyOr": {[]string{"child:Key1", "child:Key2"}, func(a map[string]bool) bool {
			return a["child:Key1"] || a["child:Key2"]
		}},
		"SearchKeyBCC":        one(`hdr:"Bcc"`, true),
		"SearchKeyCC":         one(`hdr:"Cc"`, true),
		"SearchKeyFrom":       one(`hdr:"From"`, true),
		"SearchKeyTo":         one(`hdr:"To"`, true),
		"SearchKeySubject":    one(`hdr:"Subject"`, true),
		"SearchKeyHeader":     one(`hdr:key.Field`, true),
		"SearchKeyLarger":     one("cmp:(s.dbMessage.size > key.Value)", true),
		"SearchKeySmaller":    one("cmp:(s.dbMessage.size < key.Value)", true),
		"SearchKeyBefore":     one("Before:db,key", true),
		"SearchKeySentBefore": one("Before:hdrdate,key", true),
		"SearchKeySince": {[]string{"After:db,key", "Equal:db,key"}, func(a map[string]bool) bool {
			return a["After:db,key"] || a["Equal:db,key"]
		}},
		"SearchKeySentSince": {[]string{"After:hdrdate,key", "Equal:hdrdate,key"}, func(a map[string]bool) bool {
			return a["After:hdrdate,key"] || a["Equal:hdrdate,key"]
		}},
	}
	symmetric := map[string]string{"Equal:key,db": "Equal:db,key", "Equal:key,hdrdate": "Equal:hdrdate,key",
		"cmp:(key.Value < s.dbMessage.size)": "cmp:(s.dbMessage.size > key.Value)", "cmp:(key.Value > s.dbMessage.size)": "cmp:(s.dbMessage.size < key.Value)",
		"After:key,db": "BeforeSwapped", "Before:key,db": "AfterSwapped"}
	// a key whose Value is lower-cased by every production of the parser needs no ToLower in the closure
	lowerAtParser := map[string]bool{}
	for name, allocs := range allocBy {
		all := len(allocs) > 0
		for _, al := range allocs {
			stored := false
			for _, r := range *al.Referrers() {
				fa, ok := r.(*ssa.FieldAddr)
				if !ok || fieldOfAddr(fa).Name() != "Value" {
					continue
				}
				for _, st := range engine.StoresTo(fa) {
					stored = true
					call, isCall := st.Val.(*ssa.Call)
					if !isCall || call.Call.StaticCallee() == nil || call.Call.StaticCallee().String() != "strings.ToLower" {
						all = false
					}
				}
			}
			if !stored {
				all = false
			}
		}
		lowerAtParser[name] = all
	}
	curKey := ""
	canon2 := func(a string) string {
		x := canon(a)
		if x == "flag:key.Value" && lowerAtParser[curKey] {
			x = "flag:strings.ToLower(key.Value)"
		}
		if y, ok := symmetric[x]; ok {
			return y
		}
		return x
	}
	specs["SearchKeyOn"] = one("Equal:db,key", true)
	specs["SearchKeySentOn"] = one("Equal:hdrdate,key", true)
	ns := 0
	var specNames []string
	for k := range specs {
		specNames = append(specNames, k)
	}
	sort.Strings(specNames)
	for _, tn := range specNames {
		sp := specs[tn]
		builder := caseCallee[tn]
		key := "meaning of " + tn
		if builder == nil {
			R.Fail("R15.4", key, P.Pos(bso.Pos()), "no builder dispatched for "+tn)
			continue
		}
		var clo *ssa.Function
		var ctx map[*ssa.Parameter]ssa.Value
		for _, cs := range engine.Calls(builder) {
			if cs.Common().StaticCallee() == nbr {
				clo, ctx = searchClosure(cs.Common().Args[0])
			}
		}
		if clo == nil {
			R.Fail("R15.4", key, P.Pos(builder.Pos()), "the search closure of "+engine.ShortName(builder)+" cannot be identified")
			continue
		}
		ns++
		curKey = tn
		descrCtx = ctx
		if descrCtx == nil {
			descrCtx = map[*ssa.Parameter]ssa.Value{}
		}
		bf := evalClosure(clo)
		descrCtx = map[*ssa.Parameter]ssa.Value{}
		if bf.unsupp != "" {
			R.Fail("R15.4", key, P.Pos(clo.Pos()), "the closure's boolean function cannot be evaluated ("+bf.unsupp+"): undecided")
			continue
		}
		got := bf.render(canon2)
		want := tt(sp.atoms, sp.f)
		// a short-circuit evaluation produces partial rows; expand want the same way: compare by evaluating spec on each got row
		ok := true
		why := ""
		gotAtoms := map[string]bool{}
		for _, a := range bf.atoms {
			gotAtoms[canon2(a)] = true
		}
		for _, a := range sp.atoms {
			if !gotAtoms[a] {
				ok = false
				why = "the closure does not test " + a
			}
		}
		for a := range gotAtoms {
			found := false
			for _, b := range sp.atoms {
				if a == b {
					found = true
				}
			}
			if !found {
				ok = false
				why = "the closure tests " + a + ", which is not part of the key's definition (" + strings.Join(sp.atoms, ", ") + ")"
			}
		}
		if ok {
			for row, val := range bf.table {
				a := map[string]bool{}
				for _, p := range strings.Split(strings.TrimSuffix(row, ";"), ";") {
					if p == "" {
						continue
					}
					i := strings.LastIndex(p, "=")
					a[canon2(p[:i])] = p[i+1:] == "true"
				}
				// unspecified atoms (short-circuit): both completions must agree with val
				var free []string
				for _, at := range sp.atoms {
					if _, has := a[at]; !has {
						free = append(free, at)
					}
				}
				for m := 0; m < 1<<len(free); m++ {
					for i, at := range free {
						a[at] = m&(1<<i) != 0
					}
					if sp.f(a) != val {
						ok = false
						why = fmtf("for %v the closure answers %v", a, val)
					}
				}
			}
		}
		R.Check(ok, "R15.4", key, P.Pos(clo.Pos()), "closure computes "+want, why+"; computed: "+got+"; specified: "+want+" — SEARCH returns messages that do not satisfy the key (or misses some)")
	}
	R.Min("R15.4", "keys with a specified boolean function", ns, 30)
	// UID / sequence-set keys test the right field
	for tn, fld := range map[string]string{"SearchKeyUID": "s.message.UID", "SearchKeySeqSet": "s.message.Seq"} {
		builder := caseCallee[tn]
		if builder == nil {
			continue
		}
		var clo *ssa.Function
		for _, cs := range engine.Calls(builder) {
			if cs.Common().StaticCallee() == nbr {
				clo, _ = searchClosure(cs.Common().Args[0])
			}
		}
		key := "meaning of " + tn
		if clo == nil {
			R.Fail("R15.4", key, P.Pos(builder.Pos()), "closure not found")
			continue
		}
		good, seen := true, 0
		why := ""
		for _, cs := range engine.Calls(clo) {
			sc := cs.Common().StaticCallee()
			if sc == nil || engine.ShortName(sc) != "contains" || len(cs.Common().Args) != 2 {
				continue
			}
			seen++
			if got := descr(cs.Common().Args[1], 0); got != fld {
				good = false
				why = "contains() is asked about " + got
			}
			// `true` is returned exactly on the contains-true edge
			if call, ok := cs.Instr.(*ssa.Call); ok {
				for _, r := range *call.Referrers() {
					iff, ok := r.(*ssa.If)
					if !ok {
						good, why = false, "contains() result does not directly decide a branch"
						continue
					}
					for _, ret := range engine.Returns(clo) {
						k, isConst := engine.ResultOf(ret, 0).(*ssa.Const)
						if !isConst || k.Value == nil {
							good, why = false, "non-constant result"
							continue
						}
						onTrue := engine.EdgeDominates(iff.Block(), 0, ret.Block())
						if constant.BoolVal(k.Value) != onTrue {
							good, why = false, "the result is "+k.Value.String()+" on the wrong edge of contains()"
						}
					}
				}
			}
		}
		R.Check(good && seen == 1, "R15.4", key, P.Pos(clo.Pos()), "true exactly when an interval contains "+fld, why+": the key matches by the wrong number space or with inverted polarity")
	}
}

// searchDataField: top-level field of searchData addressed by v ("" if v is not within a searchData).
func searchDataField(v ssa.Value) string {
	for i := 0; i < 4; i++ {
		fa, ok := v.(*ssa.FieldAddr)
		if !ok {
			return ""
		}
		if engine.IsNamed(fa.X.Type(), "internal/state", "searchData") {
			return fieldOfAddr(fa).Name()
		}
		v = fa.X
	}
	return ""
}

func sameOrCell(a, b ssa.Value) bool {
	if a == b {
		return true
	}
	// a = load of a cell in which b was stored
	if u, ok := a.(*ssa.UnOp); ok && u.Op == token.MUL {
		for _, st := range engine.StoresTo(u.X) {
			if st.Val == b {
				return true
			}
		}
	}
	return false
}

func callsInBlockClosure(b *ssa.BasicBlock) []engine.CallSite {
	var out []engine.CallSite
	seen := map[*ssa.BasicBlock]bool{}
	var walk func(x *ssa.BasicBlock, d int)
	walk = func(x *ssa.BasicBlock, d int) {
		if seen[x] || d > 3 {
			return
		}
		seen[x] = true
		for _, in := range x.Instrs {
			if ci, ok := in.(ssa.CallInstruction); ok {
				out = append(out, engine.CallSite{Fn: x.Parent(), Instr: ci})
			}
		}
		if len(x.Succs) == 1 {
			walk(x.Succs[0], d+1)
		}
	}
	walk(b, 0)
	return out
}

// splitTop splits "a, b" at top-level commas.
func splitTop(s string) []string {
	var out []string
	depth, start := 0, 0
	inStr := false
	for i := 0; i < len(s); i++ {
		switch s[i] {
		case '"':
			if i == 0 || s[i-1] != '\\' {
				inStr = !inStr
			}
		case '(', '[':
			if !inStr {
				depth++
			}
		case ')', ']':
			if !inStr {
				depth--
			}
		case ',':
			if !inStr && depth == 0 {
				out = append(out, strings.TrimSpace(s[start:i]))
				start = i + 1
			}
		}
	}
	out = append(out, strings.TrimSpace(s[start:]))
	return out
}

// c15intervalLoops (R15.5 = R16.4 for the search closures).
func c15intervalLoops(c *Ctx) {
	R := c.R
	R.Explain("R15.5", "UID / sequence-set search keys accept the set in any order: the loops of the search closures over the resolved []UIDInterval / []SeqInterval are left only by exhaustion or return (no break on an ordering assumption).")
	n := 0
	for _, f := range c.funcsInPkg("internal/state") {
		if top := topFn(f); !strings.HasPrefix(engine.ShortName(top), "buildSearchOp") {
			continue
		}
		for _, h := range engine.RangeLoopsOver(f, func(s ssa.Value) bool { return isIntervalSlice(s.Type(), "SeqInterval", "UIDInterval") }) {
			n++
			bad := loopEarlyExit(c.P, h, engine.LoopBody(h))
			R.Check(bad == "", "R15.5", c.name(f)+"|interval-loop", c.P.Pos(firstPosOf(h)), "left only by exhaustion or return", "the loop over the set's intervals can be left early ("+bad+"): members written later in the set are ignored, SEARCH misses messages when the set is not ascending")
		}
	}
	R.Min("R15.5", "interval loops in search closures", n, 2)
}
