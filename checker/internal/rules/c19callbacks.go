package rules

import (
	"go/types"
	"sort"

	"golang.org/x/tools/go/ssa"

	"verifchecker/internal/engine"
)

// noReentryIntoTheDatabase (R19.14): what runs inside a database wrapper does not enter the database client again.
func (c *Ctx) noReentryIntoTheDatabase(rule string) {
	P, R := c.P, c.R
	R.Explain(rule, "no self-deadlock on the database lock: the database client runs a read under the user's RWMutex read lock and a write under its write lock (the Read / Write methods of the types implementing db.Client).  A function literal that runs inside such a wrapper (recognised by its db.ReadOnly / db.Transaction parameter; internal/state and internal/backend) must not reach - through any call resolved by the call graph, callbacks handed in by the session included - one of those Read / Write methods again: a second RLock of a sync.RWMutex blocks for ever as soon as a writer waits between the two, a Lock inside an RLock always does.  This is the self edge the lock-order graph of R19.3 leaves out.  Running the callback of Select / Examine (which asks the mailbox for its flags, UIDNEXT, ... - each a read of its own) inside the read that built the snapshot stalls the session, the writer and every session behind the writer.")
	var iface *types.Interface
	if pk := P.Pkg("db"); pk != nil {
		if o := pk.Types.Scope().Lookup("Client"); o != nil {
			iface, _ = o.Type().Underlying().(*types.Interface)
		}
	}
	if iface == nil {
		R.Fail(rule, "anchor|db.Client", "-", "interface db.Client not found")
		return
	}
	targets := map[*ssa.Function]bool{}
	for _, f := range c.reprFuncs() {
		if f.Parent() != nil || f.Signature.Recv() == nil || (f.Name() != "Read" && f.Name() != "Write") {
			continue
		}
		rt := f.Signature.Recv().Type()
		if types.Implements(rt, iface) || types.Implements(types.NewPointer(rt), iface) {
			targets[f] = true
		}
	}
	R.Min(rule, "Read / Write methods of db.Client implementations", len(targets), 2)
	isDBHandle := func(t types.Type) bool {
		return engine.IsNamed(t, "db", "ReadOnly") || engine.IsNamed(t, "db", "Transaction")
	}
	n := 0
	for _, f := range c.funcsInPkg("internal/state", "internal/backend") {
		if f.Parent() == nil {
			continue
		}
		takes := false
		for i := 0; i < f.Signature.Params().Len(); i++ {
			if isDBHandle(f.Signature.Params().At(i).Type()) {
				takes = true
			}
		}
		if !takes {
			continue
		}
		n++
		reach := P.Reachable([]*ssa.Function{f}, engine.ReachOpts{OwnOnly: true})
		var hits []string
		for t := range targets {
			if _, ok := reach[t]; ok && t != f {
				hits = append(hits, P.PathTo(reach, t))
			}
		}
		sort.Strings(hits)
		bad := ""
		if len(hits) > 0 {
			bad = hits[0]
		}
		if bad != "" || f.Parent().Parent() == nil {
			R.Check(bad == "", rule, c.name(f)+"|no re-entry into the database client", P.Pos(f.Pos()), "nothing reachable from the literal enters db.Client.Read / Write", "code that runs inside a database wrapper can enter the database client again ("+bad+"): the second acquisition of the user's database lock blocks as soon as a writer is waiting - the session, the writer and every session behind it stop")
		}
	}
	R.Min(rule, "function literals running inside a database wrapper", n, 30)
}
