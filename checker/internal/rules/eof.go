package rules

import (
	"go/types"
	"sort"
	"strings"

	"golang.org/x/tools/go/ssa"

	"verifchecker/internal/absint"
	"verifchecker/internal/engine"
)

// eofTermination implements T-EOF for the given packages.
func (c *Ctx) eofTermination(rule string, pkgs ...string) {
	P, R := c.P, c.R
	R.Explain(rule, "termination at end of input (T-EOF): the parser code is interpreted abstractly under the single assumption that the scanner is at end of input (Scanner.ScanToken yields the EOF token for ever, so currentToken/previousToken are EOF); token-class predicates, Check/Matches/Consume and their wrappers are interpreted from their own SSA with the predicate actually passed at each call site. A loop is reported iff it contains a cycle on which every branch is decided by that assumption and leads back into the cycle — it provably spins (and, when it appends per turn, grows without bound) on a stream that ends there. Loops whose continuation depends on anything else are not judged.")
	tokFields := map[*types.Var]bool{}
	for _, n := range []string{"currentToken", "previousToken"} {
		if f := c.fieldOf("rfcparser", "Parser", n); f != nil {
			tokFields[f] = true
		}
	}
	ttype := c.fieldOf("rfcparser", "Token", "TType")
	scan := c.fn(rule, "rfcparser.(*Scanner).ScanToken")
	if len(tokFields) != 2 || ttype == nil || scan == nil {
		R.Fail(rule, "anchor:parser-state", "", "rfcparser.Parser.currentToken/previousToken, Token.TType or Scanner.ScanToken not found")
		return
	}
	// ScanToken must map every read error to the EOF token (EOF is absorbing)
	eofConst := int64(0)
	if o, ok := c.P.Pkg("rfcparser").Types.Scope().Lookup("TokenTypeEOF").(*types.Const); ok {
		if v, exact := constantInt(o); exact {
			eofConst = v
		}
	}
	own := map[string]bool{}
	for _, p := range pkgs {
		own[p] = true
	}
	own["rfcparser"] = true
	cfg := absint.Config{
		IsTokenField: func(f *types.Var) bool { return tokFields[f] },
		TTypeField:   func(f *types.Var) bool { return f == ttype },
		IsScanToken:  func(fn *ssa.Function) bool { return fn == scan },
		IsHavoc: func(fn *ssa.Function) bool {
			return engine.ShortName(fn) == "RestoreState"
		},
		Own: func(fn *ssa.Function) bool {
			return own[engine.RelPkg(P.OwnPkgPath(fn))]
		},
		EOF: eofConst,
		Resolve: func(site ssa.CallInstruction, caller *ssa.Function) []*ssa.Function {
			return P.Callees(engine.CallSite{Fn: caller, Instr: site})
		},
	}
	it := absint.New(cfg)
	var fns []*ssa.Function
	for _, f := range c.P.Funcs {
		if f.Parent() != nil {
			continue
		}
		if own[engine.RelPkg(P.OwnPkgPath(f))] {
			fns = append(fns, f)
		}
	}
	for _, f := range fns {
		it.Eval(f, nil)
	}
	R.Stats[rule+" abstract evaluations (function × binding)"] = it.Evals
	// one obligation per loop
	spinByFn := map[*ssa.Function][]*absint.Spin{}
	for _, s := range it.Spins {
		spinByFn[s.Fn] = append(spinByFn[s.Fn], s)
	}
	loops := 0
	var all []*ssa.Function
	for _, f := range c.P.Funcs {
		if own[engine.RelPkg(P.OwnPkgPath(f))] {
			all = append(all, f)
		}
	}
	for _, f := range all {
		n := 0
		for _, b := range f.Blocks {
			body := engine.LoopBody(b)
			if body == nil {
				continue
			}
			loops++
			n++
			key := fmtf("%s|loop", c.name(f))
			var hit *absint.Spin
			for _, s := range spinByFn[f] {
				if body[s.Header] {
					hit = s
				}
			}
			if hit == nil {
				R.Pass(rule, key, P.Pos(firstPosOf(b)), "no cycle of this loop is forced by the end-of-input assumption")
			} else {
				R.FailPath(rule, key, P.Pos(hit.Pos), "at end of input this loop never exits: every branch on a cycle through it is decided by 'current token = EOF' and leads back into the cycle (the token test that should stop it accepts EOF) — a stream cut here makes the session spin"+growNote(f, body), strings.Join(hit.Chain, " -> "))
			}
		}
	}
	// spins in functions outside the loop enumeration (should not happen)
	var extra []string
	for f := range spinByFn {
		if !own[engine.RelPkg(P.OwnPkgPath(f))] {
			extra = append(extra, c.name(f))
		}
	}
	sort.Strings(extra)
	for _, e := range extra {
		R.Fail(rule, e+"|loop", "", "spin at end of input")
	}
	R.Min(rule, "loops in the parser packages", loops, 15)
}

func growNote(f *ssa.Function, body map[*ssa.BasicBlock]bool) string {
	for b := range body {
		for _, in := range b.Instrs {
			if call, ok := in.(*ssa.Call); ok {
				if _, isApp := engine.IsBuiltinCall(call, "append"); isApp {
					return " and allocate without bound (it appends on every turn)"
				}
			}
		}
	}
	return ""
}
