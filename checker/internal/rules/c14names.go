package rules

import (
	"go/types"

	"golang.org/x/tools/go/ssa"

	"verifchecker/internal/engine"
)

// c14deletedSubscriptionMaskedByName (R14.13): a name that exists again is not reported as a deleted subscription.
func c14deletedSubscriptionMaskedByName(c *Ctx) {
	P, R := c.P, c.R
	R.Explain("R14.13", "\\Noselect only for names that do not exist: a mailbox created again under the name of a deleted, still subscribed one gets a new remote id, so the removal by remote id (R14.10) does not mask the old deleted subscription.  In State.List (helpers of the package included) every place that turns a deleted subscription into a listed name (a store of DeletedSubscription.Name into the entry that is appended to the matches) is dominated by the not-found outcome of a comma-ok lookup of that very name in a map filled with the names of the existing mailboxes.  Without it `CREATE Work`, `DELETE Work`, `CREATE Work` makes LSUB report the existing, selectable mailbox as `(\\Noselect)`.")
	f := c.fn("R14.13", "internal/state.(*State).List")
	if f == nil {
		return
	}
	isNameOf := func(v ssa.Value, typ string) (ssa.Value, bool) {
		ld, ok := v.(*ssa.UnOp)
		if !ok {
			return nil, false
		}
		fa, ok := ld.X.(*ssa.FieldAddr)
		if !ok || fieldOfAddr(fa) == nil || fieldOfAddr(fa).Name() != "Name" {
			return nil, false
		}
		pt, ok := fa.X.Type().Underlying().(*types.Pointer)
		if !ok || !engine.IsNamed(pt.Elem(), "db", typ) {
			return nil, false
		}
		return fa.X, true
	}
	n := 0
	nameSets := map[ssa.Value]bool{}
	// isNameSet: the map is filled with names of existing mailboxes - here, or (a helper's parameter) at every call site
	var isNameSet func(m ssa.Value, depth int) bool
	isNameSet = func(m ssa.Value, depth int) bool {
		if nameSets[m] {
			return true
		}
		if ld, ok := m.(*ssa.UnOp); ok {
			if al, ok := ld.X.(*ssa.Alloc); ok {
				for _, st := range engine.StoresTo(al) {
					if isNameSet(st.Val, depth) {
						return true
					}
				}
			}
		}
		p, ok := m.(*ssa.Parameter)
		if !ok || depth <= 0 {
			return false
		}
		ix := engine.ParamIndex(p.Parent(), p)
		callers := P.CallersOf(p.Parent())
		if ix < 0 || len(callers) == 0 {
			return false
		}
		for _, cs := range callers {
			if ix >= len(cs.Common().Args) || !isNameSet(cs.Common().Args[ix], depth-1) {
				return false
			}
		}
		return true
	}
	helpers := c.withPackageHelpers(f, "internal/state", 1)
	for _, g := range helpers {
		// maps filled with names of existing mailboxes
		for _, b := range g.Blocks {
			for _, in := range b.Instrs {
				if mu, ok := in.(*ssa.MapUpdate); ok {
					if _, isName := isNameOf(mu.Key, "MailboxWithAttr"); isName {
						nameSets[mu.Map] = true
					} else if _, isName := isNameOf(mu.Key, "Mailbox"); isName {
						nameSets[mu.Map] = true
					}
				}
			}
		}
	}
	for _, g := range helpers {
		for _, b := range g.Blocks {
			for _, in := range b.Instrs {
				st, ok := in.(*ssa.Store)
				if !ok {
					continue
				}
				sub, isSubName := isNameOf(st.Val, "DeletedSubscription")
				if !isSubName {
					continue
				}
				if fa, ok := st.Addr.(*ssa.FieldAddr); !ok || !engine.IsNamed(fa.X.Type(), "internal/state", "matchMailbox") {
					continue
				}
				n++
				guarded := false
				for _, b2 := range g.Blocks {
					for _, in2 := range b2.Instrs {
						lk, ok := in2.(*ssa.Lookup)
						if !ok || !lk.CommaOk || !isNameSet(lk.X, 2) {
							continue
						}
						if s2, isName := isNameOf(lk.Index, "DeletedSubscription"); !isName || s2 != sub {
							continue
						}
						for _, r := range *lk.Referrers() {
							ex, ok := r.(*ssa.Extract)
							if !ok || ex.Index != 1 || ex.Referrers() == nil {
								continue
							}
							for _, r2 := range *ex.Referrers() {
								var iff *ssa.If
								notFound := 1
								switch t := r2.(type) {
								case *ssa.If:
									iff = t
								case *ssa.UnOp:
									if t.Referrers() != nil {
										for _, r3 := range *t.Referrers() {
											if i3, ok := r3.(*ssa.If); ok {
												iff, notFound = i3, 0
											}
										}
									}
								}
								if iff != nil && engine.EdgeDominates(iff.Block(), notFound, b) {
									guarded = true
								}
							}
						}
					}
				}
				R.Check(guarded, "R14.13", c.name(c.ownerFn(g))+"|deleted subscription listed only if the name does not exist", P.Pos(st.Pos()), "dominated by the not-found outcome of a lookup of the name among the existing mailboxes", "a deleted subscription is listed without checking that no existing mailbox carries its name: after DELETE and CREATE of the same name LSUB reports the existing mailbox as \\Noselect")
			}
		}
	}
	R.Min("R14.13", "places that list a deleted subscription", n, 1)
}
