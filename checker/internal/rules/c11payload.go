package rules

import (
	"go/token"
	"go/types"

	"golang.org/x/tools/go/ssa"

	"verifchecker/internal/engine"
)

// payloadOnlyAfterErrorCheck (R11.14): a command that came with an error has no payload to call.
func (c *Ctx) payloadOnlyAfterErrorCheck(rule string) {
	P, R := c.P, c.R
	R.Explain(rule, "a line that does not parse cannot take the process down: the parser hands back a Command whose Payload is nil together with the error (the tag is kept for the BAD).  In internal/session every method call on such a payload - directly, or through the methods of command.Command that call it (found by their bodies: String, SanitizedString) - on a Command that was obtained together with an error (result of a (Command, error) call, or the command field of a commandResult) is dominated by the nil outcome of a test of that companion error.  Type switches and comma-ok assertions on the payload are safe and not judged.  A call on the nil payload is a nil-pointer panic in the session goroutine; gluon's default panic handler does not recover, so one malformed line ends every session.")
	isCommand := func(t types.Type) bool {
		if p, ok := t.(*types.Pointer); ok {
			t = p.Elem()
		}
		return engine.IsNamed(t, "imap/command", "Command")
	}
	// methods of Command that invoke on the Payload field
	danger := map[*ssa.Function]bool{}
	for _, f := range c.funcsInPkg("imap/command") {
		if f.Signature.Recv() == nil || !isCommand(f.Signature.Recv().Type()) {
			continue
		}
		for _, cs := range engine.Calls(f) {
			cc := cs.Common()
			if cc.IsInvoke() && engine.IsNamed(cc.Value.Type(), "imap/command", "Payload") {
				danger[f] = true
			}
		}
	}
	R.Min(rule, "methods of command.Command that call the payload", len(danger), 1)
	// strip spills: a value receiver kept in a cell
	var unspill func(v ssa.Value, d int) []ssa.Value
	unspill = func(v ssa.Value, d int) []ssa.Value {
		if d > 4 {
			return []ssa.Value{v}
		}
		if u, ok := v.(*ssa.UnOp); ok && u.Op == token.MUL {
			if a, ok := u.X.(*ssa.Alloc); ok {
				var out []ssa.Value
				for _, st := range engine.StoresTo(a) {
					out = append(out, unspill(st.Val, d+1)...)
				}
				if len(out) > 0 {
					return out
				}
			}
		}
		if a, ok := v.(*ssa.Alloc); ok { // address of a spilled receiver
			var out []ssa.Value
			for _, st := range engine.StoresTo(a) {
				out = append(out, unspill(st.Val, d+1)...)
			}
			if len(out) > 0 {
				return out
			}
		}
		return []ssa.Value{v}
	}
	// companion errors of a Command value
	companions := func(v ssa.Value) (errs []ssa.Value, judged bool) {
		switch t := v.(type) {
		case *ssa.Extract:
			call, ok := t.Tuple.(*ssa.Call)
			if !ok {
				return nil, false
			}
			res := call.Call.Signature().Results()
			for i := 0; i < res.Len(); i++ {
				if res.At(i).Type().String() == "error" {
					for _, r := range *call.Referrers() {
						if ex, ok := r.(*ssa.Extract); ok && ex.Index == i {
							errs = append(errs, ex)
						}
					}
					return errs, true
				}
			}
		case *ssa.UnOp:
			// load of &base.command with base a commandResult kept in memory: the companions are the loads of &base.err
			fa, ok := t.X.(*ssa.FieldAddr)
			if !ok || t.Op != token.MUL {
				return nil, false
			}
			pt, ok := fa.X.Type().Underlying().(*types.Pointer)
			if !ok || !engine.IsNamed(pt.Elem(), "internal/session", "commandResult") {
				return nil, false
			}
			for _, r := range *fa.X.Referrers() {
				if fa2, ok := r.(*ssa.FieldAddr); ok && fa2.Type().(*types.Pointer).Elem().String() == "error" {
					for _, r2 := range *fa2.Referrers() {
						if ld, ok := r2.(*ssa.UnOp); ok && ld.Op == token.MUL {
							errs = append(errs, ld)
						}
					}
				}
			}
			// a copy whose error is never looked at (`cmd = res` made after res.err was tested) has no companion here: not judged
			return errs, len(errs) > 0
		case *ssa.Field:
			if !engine.IsNamed(t.X.Type(), "internal/session", "commandResult") {
				return nil, false
			}
			for _, r := range *t.X.Referrers() {
				if f2, ok := r.(*ssa.Field); ok && f2.Type().String() == "error" {
					errs = append(errs, f2)
				}
			}
			return errs, true
		}
		return nil, false
	}
	guarded := func(f *ssa.Function, errs []ssa.Value, use ssa.Instruction) bool {
		for _, b := range f.Blocks {
			iff := engine.IfOf(b)
			if iff == nil {
				continue
			}
			cond, neg := engine.StripNot(iff.Cond)
			bo, ok := cond.(*ssa.BinOp)
			if !ok || (bo.Op != token.NEQ && bo.Op != token.EQL) {
				continue
			}
			var other ssa.Value
			hit := false
			for _, e := range errs {
				if bo.X == e {
					other, hit = bo.Y, true
				} else if bo.Y == e {
					other, hit = bo.X, true
				}
			}
			if !hit || !engine.IsNilConst(other) {
				continue
			}
			nilEdge := 1 // err != nil: false edge
			if bo.Op == token.EQL {
				nilEdge = 0
			}
			if neg {
				nilEdge = 1 - nilEdge
			}
			if engine.EdgeDominates(b, nilEdge, use.Block()) {
				return true
			}
		}
		return false
	}
	n := 0
	for _, f := range c.funcsInPkg("internal/session") {
		for _, cs := range engine.Calls(f) {
			if cs.Instr.Parent() != f {
				continue
			}
			cc := cs.Common()
			var cmdVals []ssa.Value
			what := ""
			if sc := cc.StaticCallee(); sc != nil && danger[sc] && len(cc.Args) > 0 {
				cmdVals = unspill(cc.Args[0], 0)
				what = engine.ShortName(sc)
			} else if cc.IsInvoke() && engine.IsNamed(cc.Value.Type(), "imap/command", "Payload") {
				for _, pv := range unspill(cc.Value, 0) {
					if fld, ok := pv.(*ssa.Field); ok && isCommand(fld.X.Type()) {
						cmdVals = append(cmdVals, unspill(fld.X, 0)...)
					}
				}
				what = "Payload." + engine.MethodName(cc.Method)
			}
			for _, cv := range cmdVals {
				errs, judged := companions(cv)
				if !judged {
					continue
				}
				n++
				R.Check(guarded(f, errs, cs.Instr), rule, c.name(f)+"|"+what+" after the error check", P.Pos(cs.Pos()), "dominated by the nil outcome of the companion error", "the payload of a command is called ("+what+") on a path on which the error that came with the command has not been found nil: for a line that does not parse the payload is nil and the call panics, which ends the whole server")
			}
		}
	}
	R.Min(rule, "payload calls on commands that came with an error", n, 1)
}
