// Package rules holds one file per property.  A rule is data (tables of anchors, idioms,
// exceptions) plus a little glue over the engine queries.
package rules

import (
	"sort"

	"golang.org/x/tools/go/ssa"

	"verifchecker/internal/engine"
	"verifchecker/internal/report"
)

// Ctx is what a property evaluation gets.
type Ctx struct {
	P    *engine.Prog
	R    *report.Run
	Tier string

	guardDepth int // recursion guard of nameGuard

	anchorsSeen map[string]bool

	strictLoop bool // limitChecked: a check inside the loop of the guarded call does not count
	// VerifDir is /verif (fixtures, mutants).
	VerifDir string

	sql       *sqlResult
	prodFuncs []*ssa.Function
	allRepr   []*ssa.Function
}

type PropFunc func(c *Ctx)

var registry = map[string]PropFunc{}

func register(id string, f PropFunc) { registry[id] = f }

func Lookup(id string) PropFunc { return registry[id] }

func IDs() []string {
	var out []string
	for k := range registry {
		out = append(out, k)
	}
	sort.Strings(out)
	return out
}
