package rules

import (
	"go/constant"
	"go/token"
	"go/types"
	"strings"

	"golang.org/x/tools/go/ssa"

	"verifchecker/internal/engine"
)

func init() { register("C20", c20) }

// constStringOf returns the value of a package-level string constant.
func (c *Ctx) constStringOf(pkgRel, name string) (string, bool) {
	pk := c.P.Pkg(pkgRel)
	if pk == nil {
		return "", false
	}
	o, ok := pk.Types.Scope().Lookup(name).(*types.Const)
	if !ok || o.Val().Kind() != constant.String {
		return "", false
	}
	return constant.StringVal(o.Val()), true
}

// nameGuard checks that in function f the string parameter `param` is compared
// (case-insensitively) with one of the protected names, that the matching edge returns a
// non-nil error, and that the non-matching edge dominates every instruction in `protect`.
func (c *Ctx) nameGuard(f *ssa.Function, param string, names []string, protect []ssa.Instruction) (bool, string) {
	var p *ssa.Parameter
	for _, x := range f.Params {
		if x.Name() == param {
			p = x
		}
	}
	if p == nil {
		return false, "parameter " + param + " not found"
	}
	fromParam := func(v ssa.Value) bool {
		return engine.AnyBackward(v, engine.FlowOpts{Loads: true, Calls: func(call *ssa.Call) []ssa.Value {
			if sc := call.Call.StaticCallee(); sc != nil && (engine.ShortName(sc) == "ToLower" || engine.ShortName(sc) == "ToUpper" || engine.ShortName(sc) == "TrimSpace") {
				return call.Call.Args
			}
			return nil
		}}, func(x ssa.Value) bool { return x == ssa.Value(p) })
	}
	isName := func(v ssa.Value) bool {
		s, ok := engine.ConstString(v)
		if !ok {
			return false
		}
		for _, n := range names {
			if strings.EqualFold(s, n) {
				return true
			}
		}
		return false
	}
	var guards []*ssa.BasicBlock
	for _, b := range f.Blocks {
		iff := engine.IfOf(b)
		if iff == nil {
			continue
		}
		call, ok := iff.Cond.(*ssa.Call)
		if !ok {
			continue
		}
		sc := call.Call.StaticCallee()
		if sc == nil {
			continue
		}
		// direct test, or a predicate of this code base that returns such a test of its parameter
		var nameTest func(call *ssa.Call, from func(ssa.Value) bool, depth int) bool
		nameTest = func(call *ssa.Call, from func(ssa.Value) bool, depth int) bool {
			sc := call.Call.StaticCallee()
			if sc == nil {
				return false
			}
			if (engine.ShortName(sc) == "EqualFold" || engine.ShortName(sc) == "HasPrefix") && len(call.Call.Args) == 2 && engine.PkgPathOf(sc) == "strings" {
				a0, a1 := call.Call.Args[0], call.Call.Args[1]
				if !((from(a0) && isName(a1)) || (from(a1) && isName(a0))) {
					return false
				}
				if engine.ShortName(sc) == "HasPrefix" {
					// HasPrefix must be on a case-folded value
					return engine.AnyBackward(a0, engine.FlowOpts{Loads: true}, func(x ssa.Value) bool {
						if cl, ok := x.(*ssa.Call); ok {
							if s2 := cl.Call.StaticCallee(); s2 != nil && (engine.ShortName(s2) == "ToLower" || engine.ShortName(s2) == "ToUpper") {
								return true
							}
						}
						return false
					})
				}
				return true
			}
			if depth >= 2 || len(sc.Blocks) == 0 || !c.P.IsOwn(sc) {
				return false
			}
			// predicate g(…param…) bool: every return value is such a test of the corresponding parameter
			var gp *ssa.Parameter
			for i, a := range call.Call.Args {
				if i < len(sc.Params) && from(a) {
					gp = sc.Params[i]
				}
			}
			if gp == nil {
				return false
			}
			fromG := func(v ssa.Value) bool {
				return engine.AnyBackward(v, engine.FlowOpts{Loads: true, Calls: func(call *ssa.Call) []ssa.Value {
					if s3 := call.Call.StaticCallee(); s3 != nil && (engine.ShortName(s3) == "ToLower" || engine.ShortName(s3) == "ToUpper" || engine.ShortName(s3) == "TrimSpace") {
						return call.Call.Args
					}
					return nil
				}}, func(x ssa.Value) bool { return x == ssa.Value(gp) })
			}
			rets := engine.Returns(sc)
			if len(rets) == 0 {
				return false
			}
			for _, r := range rets {
				if len(r.Results) != 1 {
					return false
				}
				inner, ok := engine.ResultOf(r, 0).(*ssa.Call)
				if !ok || !nameTest(inner, fromG, depth+1) {
					return false
				}
			}
			return true
		}
		if !nameTest(call, fromParam, 0) {
			continue
		}
		// matching edge returns a non-nil error
		ok2 := false
		for blk := range engine.BlocksReachableFrom(b.Succs[0]) {
			if !(blk == b.Succs[0] || engine.EdgeDominates(b, 0, blk)) {
				continue
			}
			if len(blk.Instrs) > 0 {
				if ret, isRet := blk.Instrs[len(blk.Instrs)-1].(*ssa.Return); isRet {
					if lr := engine.LastResult(ret); lr != nil && !engine.IsNilConst(lr) {
						ok2 = true
					}
				}
			}
		}
		if ok2 {
			guards = append(guards, b)
		}
	}
	// the test may live in a validating helper: `if err := g(…param…); err != nil { return …err }` where every
	// nil-error return of g is covered by such a guard on the corresponding parameter of g
	type edgeGuard struct {
		b   *ssa.BasicBlock
		idx int
	}
	var helperGuards []edgeGuard
	if c.guardDepth < 2 {
		for _, b := range f.Blocks {
			iff := engine.IfOf(b)
			if iff == nil {
				continue
			}
			cmp, ok := iff.Cond.(*ssa.BinOp)
			if !ok || (cmp.Op != token.NEQ && cmp.Op != token.EQL) || !(engine.IsNilConst(cmp.Y) || engine.IsNilConst(cmp.X)) {
				continue
			}
			errV := cmp.X
			if engine.IsNilConst(cmp.X) {
				errV = cmp.Y
			}
			var call *ssa.Call
			switch t := errV.(type) {
			case *ssa.Call:
				call = t
			case *ssa.Extract:
				call, _ = t.Tuple.(*ssa.Call)
			}
			if call == nil {
				continue
			}
			g := call.Call.StaticCallee()
			if g == nil || len(g.Blocks) == 0 || !c.P.IsOwn(g) {
				continue
			}
			gp := ""
			for i, a := range call.Call.Args {
				if i < len(g.Params) && fromParam(a) {
					gp = g.Params[i].Name()
				}
			}
			if gp == "" {
				continue
			}
			var nilRets []ssa.Instruction
			for _, r := range engine.Returns(g) {
				if lr := engine.LastResult(r); lr != nil && engine.IsNilConst(lr) {
					nilRets = append(nilRets, r)
				}
			}
			if len(nilRets) == 0 {
				continue
			}
			c.guardDepth++
			okg, _ := c.nameGuard(g, gp, names, nilRets)
			c.guardDepth--
			if !okg {
				continue
			}
			nilIdx := 1
			if cmp.Op == token.EQL {
				nilIdx = 0
			}
			// the error edge must return a non-nil error
			refuses := false
			for blk := range engine.BlocksReachableFrom(b.Succs[1-nilIdx]) {
				if !(blk == b.Succs[1-nilIdx] || engine.EdgeDominates(b, 1-nilIdx, blk)) || len(blk.Instrs) == 0 {
					continue
				}
				if ret, isRet := blk.Instrs[len(blk.Instrs)-1].(*ssa.Return); isRet {
					if lr := engine.LastResult(ret); lr != nil && !engine.IsNilConst(lr) {
						refuses = true
					}
				}
			}
			if refuses {
				helperGuards = append(helperGuards, edgeGuard{b, nilIdx})
			}
		}
	}
	if len(guards) == 0 && len(helperGuards) == 0 {
		return false, "no case-insensitive comparison of " + param + " with the protected name that refuses the operation"
	}
	for _, in := range protect {
		covered := false
		for _, g := range guards {
			if g.Succs[1].Dominates(in.Block()) || engine.EdgeDominates(g, 1, in.Block()) {
				covered = true
			}
			// short-circuit `a || b`: the instruction is dominated by the false edge of the last test of the chain
		}
		for _, hg := range helperGuards {
			if engine.EdgeDominates(hg.b, hg.idx, in.Block()) {
				covered = true
			}
		}
		if !covered {
			return false, "the operation at " + c.P.Pos(in.Pos()) + " is reachable without passing the guard on " + param
		}
	}
	return true, ""
}

// commitSites: calls through which f changes or reads the database / hands out the mailbox.
func commitSites(f *ssa.Function) []ssa.Instruction {
	var out []ssa.Instruction
	for _, cs := range engine.Calls(f) {
		if sc := cs.Common().StaticCallee(); sc != nil {
			switch engine.BaseName(sc) {
			case "stateDBWrite", "stateDBWriteResult", "stateDBReadResult", "stateDBRead":
				out = append(out, cs.Instr)
			}
		}
	}
	return out
}

func (c *Ctx) recoveryNameGuards(rule string) {
	P, R := c.P, c.R
	R.Explain(rule, "protection of the recovery mailbox (T-DOM): State.Create/Delete/Rename(old and new)/AppendOnlyMailbox and Mailbox.Copy/Move compare the client-supplied mailbox name case-insensitively with the recovery mailbox name, refuse with an error on a match, and that test dominates every database access of the method.")
	n1, ok1 := c.constStringOf("internal/ids", "GluonRecoveryMailboxName")
	n2, _ := c.constStringOf("internal/ids", "GluonRecoveryMailboxNameLowerCase")
	if !ok1 {
		R.Fail(rule, "anchor:ids.GluonRecoveryMailboxName", "", "constant not found")
		return
	}
	names := []string{n1, n2}
	table := []struct{ fn, param string }{
		{"internal/state.(*State).Create", "name"},
		{"internal/state.(*State).Delete", "name"},
		{"internal/state.(*State).Rename", "oldName"},
		{"internal/state.(*State).Rename", "newName"},
		{"internal/state.(*State).AppendOnlyMailbox", "name"},
		{"internal/state.(*Mailbox).Copy", "name"},
		{"internal/state.(*Mailbox).Move", "name"},
	}
	for _, t := range table {
		f := c.fn(rule, t.fn)
		if f == nil {
			continue
		}
		ok, why := c.nameGuard(f, t.param, names, commitSites(f))
		R.Check(ok, rule, t.fn+"|"+t.param, P.Pos(f.Pos()), "recovery mailbox name is refused before any database access", why+": a client could create/rename/delete/append to/copy into the 'Recovered Messages' mailbox")
	}
}

func c20(c *Ctx) {
	defer c20hashCoversBodies(c)
	defer c20eraseVisitsAll(c)
	defer c20copyOutHandlesEveryMessage(c)
	defer c20listedWhileNonEmpty(c)
	P, R := c.P, c.R
	R.Explain("R20.1", "T-MUST: in Mailbox.Append every path on which AppendRegular returned an error reaches the transaction that calls actionCreateRecoveredMessage, except on the true edge of errors.Is(err, connector.ErrMessageSizeExceedsLimits).")
	R.Explain("R20.2", "T-CALLERS: AppendRegular is called only by Mailbox.Append; handleAppend appends only through AppendOnlyMailbox.Append and sends the APPENDUID OK only on the nil edge with the UID Append returned.")
	R.Explain("R20.4", "T-PAIR: every removal of messages from the recovery mailbox is accompanied by MessageHashesMap.Erase of the same id slice (otherwise a later APPEND of the same bytes is treated as a known duplicate and dropped).")
	R.Explain("R20.5", "hashing is best-effort: no return of actionCreateRecoveredMessage is caused by the error of MessageHashesMap.Insert (a message whose dedup hash cannot be computed must still be kept); the only early exit after Insert is the known-duplicate edge (err == nil && alreadyKnown).")

	app := c.fn("R20.1", "internal/state.(*Mailbox).Append")
	reg := c.fn("R20.1", "internal/state.(*Mailbox).AppendRegular")
	if app != nil && reg != nil {
		var regCall *ssa.Call
		for _, cs := range engine.Calls(app) {
			if cs.Common().StaticCallee() == reg {
				regCall, _ = cs.Instr.(*ssa.Call)
			}
		}
		if regCall == nil {
			R.Fail("R20.1", c.name(app)+"|calls-AppendRegular", P.Pos(app.Pos()), "Mailbox.Append does not call AppendRegular")
		} else {
			// recovery instruction: call taking a closure that calls actionCreateRecoveredMessage
			cut := recoveryCalls(app, 0)
			// error edge of AppendRegular
			var errBlk *ssa.BasicBlock
			for _, r := range *regCall.Referrers() {
				if ex, ok := r.(*ssa.Extract); ok && ex.Index == 1 {
					for _, r2 := range *ex.Referrers() {
						if bin, ok := r2.(*ssa.BinOp); ok && engine.IsNilConst(bin.Y) {
							for _, r3 := range *bin.Referrers() {
								if iff, ok := r3.(*ssa.If); ok {
									ix := 0
									if bin.Op.String() == "==" {
										ix = 1
									}
									errBlk = iff.Block().Succs[ix]
								}
							}
						}
					}
				}
			}
			// allowed skip: true edge of errors.Is(err, ErrMessageSizeExceedsLimits)
			skip := map[engine.Edge]bool{}
			for _, b := range app.Blocks {
				iff := engine.IfOf(b)
				if iff == nil {
					continue
				}
				if call, ok := iff.Cond.(*ssa.Call); ok {
					if sc := call.Call.StaticCallee(); sc != nil && engine.ShortName(sc) == "Is" && len(call.Call.Args) == 2 {
						if ld, ok := call.Call.Args[1].(*ssa.UnOp); ok {
							if g, ok := ld.X.(*ssa.Global); ok && g.Name() == "ErrMessageSizeExceedsLimits" {
								skip[engine.Edge{From: b, Succ: 0}] = true
							}
						}
					}
				}
			}
			bad := errBlk == nil || len(cut) == 0
			if !bad {
				for _, ret := range engine.Returns(app) {
					if engine.ReachesAvoidingFrom(errBlk, 0, ret, cut, skip) {
						bad = true
					}
				}
			}
			R.Check(!bad, "R20.1", c.name(app)+"|failed-append-is-recovered", P.Pos(regCall.Pos()), "every failed AppendRegular (except size-limit) reaches the recovery transaction", "a path on which AppendRegular failed returns without attempting actionCreateRecoveredMessage: the client's message is silently lost")
			R.Check(len(skip) == 1, "R20.1", c.name(app)+"|only-size-limit-skips", P.Pos(app.Pos()), "only ErrMessageSizeExceedsLimits bypasses recovery", "the set of errors that bypass recovery is not exactly {ErrMessageSizeExceedsLimits}")
		}
		// R20.2 callers
		for _, cs := range P.CallersOf(reg) {
			if !isProductPkg(engine.RelPkg(P.OwnPkgPath(cs.Fn))) {
				continue
			}
			R.Check(topFn(cs.Fn) == app, "R20.2", "callers|AppendRegular<-"+c.name(cs.Fn), P.Pos(cs.Pos()), "AppendRegular called from Mailbox.Append", "AppendRegular is called from "+c.name(cs.Fn)+", bypassing the recovery fallback of Mailbox.Append")
		}
	}
	if ha := c.fn("R20.2", "internal/session.(*Session).handleAppend"); ha != nil {
		n := 0
		for _, f := range engine.WithClosures(ha) {
			for _, cs := range engine.Calls(f) {
				cc := cs.Common()
				if cc.IsInvoke() && engine.MethodName(cc.Method) == "Append" && engine.IsNamed(cc.Value.Type(), "internal/state", "AppendOnlyMailbox") {
					n++
					call := cs.Instr.(*ssa.Call)
					// the APPENDUID item uses the returned uid and is on the nil edge
					okUID := false
					for _, cs2 := range engine.Calls(f) {
						if sc := cs2.Common().StaticCallee(); sc != nil && engine.ShortName(sc) == "ItemAppendUID" {
							if ex, ok := cs2.Common().Args[1].(*ssa.Extract); ok && ex.Tuple == ssa.Value(call) && ex.Index == 0 {
								// dominated by err == nil edge
								for _, r := range *call.Referrers() {
									if e1, ok := r.(*ssa.Extract); ok && e1.Index == 1 {
										for _, r2 := range *e1.Referrers() {
											if bin, ok := r2.(*ssa.BinOp); ok {
												for _, r3 := range *bin.Referrers() {
													if iff, ok := r3.(*ssa.If); ok {
														nilIx := 1
														if bin.Op.String() == "==" {
															nilIx = 0
														}
														if engine.EdgeDominates(iff.Block(), nilIx, cs2.Instr.Block()) {
															okUID = true
														}
													}
												}
											}
										}
									}
								}
							}
						}
					}
					R.Check(okUID, "R20.2", c.name(f)+"|APPENDUID", P.Pos(call.Pos()), "OK [APPENDUID] is built on the nil edge from the UID Append returned", "the APPEND completion is not built from Append's own result on its nil-error edge")
				}
				if sc := cc.StaticCallee(); sc != nil && (engine.ShortName(sc) == "AppendRegular" || engine.ShortName(sc) == "actionCreateMessage") {
					R.Fail("R20.2", c.name(f)+"|direct-append", P.Pos(cs.Pos()), "handleAppend bypasses AppendOnlyMailbox.Append")
				}
			}
		}
		R.Min("R20.2", "Append calls in handleAppend", n, 1)
	}

	c.recoveryNameGuards("R20.3")

	// ---- R20.4 -----------------------------------------------------------------------
	pairs := 0
	for _, f := range c.funcsInPkg("internal/state") {
		for _, cs := range engine.Calls(f) {
			sc := cs.Common().StaticCallee()
			if sc == nil || engine.ShortName(sc) != "RemoveMessagesFromMailbox" || sc.Signature.Recv() != nil {
				continue
			}
			// package-level state.RemoveMessagesFromMailbox(ctx, tx, mboxID, ids)
			args := cs.Common().Args
			if len(args) != 4 {
				continue
			}
			mbox, idsArg := args[2], args[3]
			// is the mailbox (possibly) the recovery mailbox?  direct: GetRecoveryMailboxID().InternalID ; or guarded comparison
			isRecovery := false
			for _, o := range P.Origins(mbox, engine.OriginOpts{MaxDepth: 6}) {
				if _, m, ok := invokeName(o.V); ok && m == "GetRecoveryMailboxID" {
					isRecovery = true
				}
			}
			recoveryBranch := false
			if !isRecovery {
				// inside the else-branch of `mboxID.InternalID != recovery id`
				for _, b := range f.Blocks {
					iff := engine.IfOf(b)
					if iff == nil {
						continue
					}
					if bin, ok := iff.Cond.(*ssa.BinOp); ok && (bin.Op.String() == "!=" || bin.Op.String() == "==") {
						for _, side := range []ssa.Value{bin.X, bin.Y} {
							for _, o := range P.Origins(side, engine.OriginOpts{MaxDepth: 6}) {
								if _, m, ok := invokeName(o.V); ok && m == "GetRecoveryMailboxID" {
									recoveryBranch = true
								}
							}
						}
					}
				}
			}
			// a mailbox handed in by the caller may be the recovery mailbox as well (EXPUNGE / CLOSE work on whatever is selected)
			fromParam := false
			{
				v := mbox
				for i := 0; i < 8 && !fromParam; i++ {
					switch t := v.(type) {
					case *ssa.Field:
						v = t.X
					case *ssa.FieldAddr:
						v = t.X
					case *ssa.UnOp:
						v = t.X
					case *ssa.Alloc:
						if sts := engine.StoresTo(t); len(sts) == 1 {
							v = sts[0].Val
						} else {
							i = 8
						}
					case *ssa.Parameter:
						fromParam = true
					default:
						i = 8
					}
				}
			}
			if !isRecovery && !recoveryBranch && !fromParam {
				continue
			}
			pairs++
			// an Erase call with the same ids value in the same function (for the branch form: on the recovery edge)
			ok := false
			for _, cs2 := range engine.Calls(f) {
				sc2 := cs2.Common().StaticCallee()
				if sc2 == nil || engine.ShortName(sc2) != "Erase" || engine.RecvNamed(sc2) == nil || engine.RecvNamed(sc2).Obj().Name() != "MessageHashesMap" {
					continue
				}
				if len(cs2.Common().Args) == 2 && cs2.Common().Args[1] == idsArg {
					ok = true
				}
			}
			R.Check(ok, "R20.4", c.name(f)+"|remove-from-recovery", P.Pos(cs.Pos()), "removal from the recovery mailbox erases the same ids from the dedup map",
				"messages are removed from the recovery mailbox without MessageHashesMap.Erase of the same id slice: their content hash stays registered, so the next rejected APPEND of the same bytes is dropped as a 'known' duplicate although nothing holds it any more")
		}
	}
	R.Min("R20.4", "removals from the recovery mailbox", pairs, 2)

	// ---- R20.5 -----------------------------------------------------------------------
	if cr := c.fn("R20.5", "internal/state.(*State).actionCreateRecoveredMessage"); cr != nil {
		var ins *ssa.Call
		for _, cs := range engine.Calls(cr) {
			if sc := cs.Common().StaticCallee(); sc != nil && engine.ShortName(sc) == "Insert" && engine.RecvNamed(sc) != nil && engine.RecvNamed(sc).Obj().Name() == "MessageHashesMap" {
				ins, _ = cs.Instr.(*ssa.Call)
			}
		}
		if ins == nil {
			R.Fail("R20.5", c.name(cr)+"|Insert", P.Pos(cr.Pos()), "actionCreateRecoveredMessage does not register the message hash (dedup 'once per distinct message' is gone)")
		} else {
			bad := false
			for _, r := range *ins.Referrers() {
				ex, ok := r.(*ssa.Extract)
				if !ok || ex.Index != 1 {
					continue
				}
				for _, r2 := range *ex.Referrers() {
					switch t := r2.(type) {
					case *ssa.Return:
						bad = true
					case *ssa.BinOp:
						for _, r3 := range *t.Referrers() {
							iff, ok := r3.(*ssa.If)
							if !ok {
								continue
							}
							errIx := 0
							if t.Op.String() == "==" {
								errIx = 1
							}
							// a return dominated by the error edge
							for _, ret := range engine.Returns(cr) {
								if engine.EdgeDominates(iff.Block(), errIx, ret.Block()) {
									bad = true
								}
							}
						}
					}
				}
			}
			R.Check(!bad, "R20.5", c.name(cr)+"|hash-error-does-not-abort", P.Pos(ins.Pos()), "a hashing failure does not abort the recovery", "a failure of MessageHashesMap.Insert (message hash cannot be computed) makes actionCreateRecoveredMessage return: the rejected APPEND is then kept nowhere")
			// insert precedes the row insert
			for _, cs := range engine.Calls(cr) {
				if cs.Common().IsInvoke() && engine.MethodName(cs.Common().Method) == "CreateMessageAndAddToMailbox" {
					R.Check(engine.InstrDominates(ins, cs.Instr), "R20.5", c.name(cr)+"|dedup-before-insert", P.Pos(cs.Pos()), "the dedup check precedes the row insert", "the message row is inserted before the dedup check")
				}
			}
		}
	}
}

// recoveryCalls: the instructions of f that attempt the recovery insert: a call that is handed a
// closure calling actionCreateRecoveredMessage, or a call of a gluon helper in which every path to a
// return passes such an instruction (two frames).
func recoveryCalls(f *ssa.Function, depth int) map[ssa.Instruction]bool {
	cut := map[ssa.Instruction]bool{}
	for _, cs := range engine.Calls(f) {
		if cs.Instr.Parent() != f {
			continue
		}
		for _, a := range cs.Common().Args {
			if fn := engine.FuncValue(a); fn != nil && fn.Parent() != nil {
				for _, cs2 := range engine.Calls(fn) {
					if sc := cs2.Common().StaticCallee(); sc != nil && engine.ShortName(sc) == "actionCreateRecoveredMessage" {
						cut[cs.Instr] = true
					}
				}
			}
		}
		if g := cs.Common().StaticCallee(); g != nil && depth < 2 && len(g.Blocks) > 0 && strings.HasPrefix(engine.PkgPathOf(g), "github.com/ProtonMail/gluon/internal/state") {
			inner := recoveryCalls(g, depth+1)
			if len(inner) > 0 {
				must := true
				for _, r := range engine.Returns(g) {
					if engine.ReachesAvoiding(g, r, inner, nil) {
						must = false
					}
				}
				if must {
					cut[cs.Instr] = true
				}
			}
		}
	}
	return cut
}

// c20hashCoversBodies (R20.6): the dedup hash of a rejected message covers every leaf body.
func c20hashCoversBodies(c *Ctx) {
	P, R := c.P, c.R
	R.Explain("R20.6", "the duplicate test cannot confuse two different messages by construction of the hash: in rfc822.GetMessageHash the walk over the MIME tree hashes the body of every leaf part - each nil-error return of the walk callback is preceded by hashBody(section.Body()) except on the edge where the section has children.  A leaf that is skipped (for instance because its content type does not parse) makes two messages that differ only there collide, and the second rejected APPEND is dropped as a 'known duplicate'.")
	f := c.fn("R20.6", "rfc822.GetMessageHash")
	if f == nil {
		return
	}
	n := 0
	for _, cl := range engine.WithClosures(f)[1:] {
		cut := map[ssa.Instruction]bool{}
		for _, cs := range engine.Calls(cl) {
			if sc := cs.Common().StaticCallee(); sc != nil && engine.ShortName(sc) == "hashBody" && cs.Instr.Parent() == cl {
				cut[cs.Instr] = true
			}
		}
		if len(cut) == 0 {
			continue
		}
		n++
		// the has-children edge
		skip := map[engine.Edge]bool{}
		for _, b := range cl.Blocks {
			iff := engine.IfOf(b)
			if iff == nil {
				continue
			}
			bin, ok := iff.Cond.(*ssa.BinOp)
			if !ok {
				continue
			}
			isLenChildren := func(v ssa.Value) bool {
				call, ok := engine.IsBuiltinCall(v, "len")
				if !ok {
					return false
				}
				return engine.AnyBackward(call.Call.Args[0], engine.FlowOpts{Loads: true}, func(x ssa.Value) bool {
					if ex, ok := x.(*ssa.Extract); ok {
						if cc, ok := ex.Tuple.(*ssa.Call); ok && cc.Call.StaticCallee() != nil && engine.ShortName(cc.Call.StaticCallee()) == "Children" {
							return true
						}
					}
					return false
				})
			}
			switch {
			case bin.Op == token.GTR && isLenChildren(bin.X):
				skip[engine.Edge{From: b, Succ: 0}] = true
			case bin.Op == token.NEQ && isLenChildren(bin.X):
				skip[engine.Edge{From: b, Succ: 0}] = true
			case bin.Op == token.EQL && isLenChildren(bin.X):
				skip[engine.Edge{From: b, Succ: 1}] = true
			}
		}
		bad := ""
		for _, ret := range engine.Returns(cl) {
			if lr := engine.LastResult(ret); lr == nil || !engine.IsNilConst(lr) {
				continue
			}
			if engine.ReachesAvoiding(cl, ret, cut, skip) {
				bad = P.Pos(ret.Pos())
			}
		}
		R.Check(bad == "", "R20.6", c.name(cl)+"|every-leaf-body-hashed", P.Pos(cl.Pos()), "every leaf part contributes its body to the hash", "the walk callback can return nil for a leaf part ("+bad+") without hashing its body: two rejected messages that differ only in that part get the same hash and the second one is dropped as a known duplicate (message lost)")
	}
	R.Min("R20.6", "walk callbacks that hash bodies", n, 1)
}

// c20eraseVisitsAll (R20.7): forgetting the hashes of removed messages handles every id it is given.
func c20eraseVisitsAll(c *Ctx) {
	P, R := c.P, c.R
	R.Explain("R20.7", "once per distinct message - and again after it left: MessageHashesMap.Erase (no error result) leaves its loop over the ids only by exhaustion - no break and no return inside the loop - and every iteration deletes the id's entry.  An early exit keeps the hashes of the remaining ids; a later rejected APPEND of the same bytes is then taken for a known duplicate and dropped although the message is in neither mailbox.")
	f := c.fn("R20.7", "internal/utils.(*MessageHashesMap).Erase")
	if f == nil {
		return
	}
	ids := f.Params[len(f.Params)-1]
	n := 0
	for _, h := range f.Blocks {
		body := engine.LoopBody(h)
		if body == nil {
			continue
		}
		reads := false
		for b := range body {
			for _, in := range b.Instrs {
				if ia, ok := in.(*ssa.IndexAddr); ok && engine.AnyBackward(ia.X, engine.FlowOpts{Loads: true}, func(x ssa.Value) bool { return x == ssa.Value(ids) }) {
					reads = true
				}
			}
		}
		if !reads {
			continue
		}
		n++
		bad := ""
		for b := range body {
			if b == h {
				continue
			}
			for _, s := range b.Succs {
				if !body[s] {
					bad = P.Pos(firstPosOf(s))
					if bad == "?" || bad == "" {
						bad = P.Pos(firstPosOf(b))
					}
				}
			}
		}
		R.Check(bad == "", "R20.7", c.name(f)+"|loop over ids", P.Pos(firstPosOf(h)), "left only by exhaustion", "the loop over the ids can be left before all ids were handled ("+bad+"): the hashes of the remaining ids stay recorded and a later APPEND of those bytes is dropped as a duplicate")
		// every iteration deletes from idToHash: a delete(map, id) builtin call post-dominates the body entry... approximated: present in the body
		del := false
		for b := range body {
			for _, in := range b.Instrs {
				if call, ok := in.(*ssa.Call); ok {
					if bi, ok := call.Call.Value.(*ssa.Builtin); ok && bi.Name() == "delete" {
						del = true
					}
				}
			}
		}
		R.Check(del, "R20.7", c.name(f)+"|loop deletes", P.Pos(firstPosOf(h)), "the loop deletes map entries", "the loop over the ids no longer deletes anything")
	}
	R.Min("R20.7", "loops over the ids in Erase", n, 1)
}

// c20copyOutHandlesEveryMessage (R20.8): every message named in a copy or move out of the recovery mailbox arrives.
func c20copyOutHandlesEveryMessage(c *Ctx) {
	P, R := c.P, c.R
	R.Explain("R20.8", "recovered messages can be moved or copied out: in actionCopyMessagesOutOfRecoveryMailbox / actionMoveMessagesOutOfRecoveryMailbox the id that actionImportRecoveredMessage returns for a message is consumed (appended to the list that is then added to the destination) on every path of the loop iteration that does not fail - whatever the import reported about duplicates.  An iteration that skips the append answers OK for a message that never reaches the destination mailbox.")
	n := 0
	for _, name := range []string{"internal/state.(*State).actionCopyMessagesOutOfRecoveryMailbox", "internal/state.(*State).actionMoveMessagesOutOfRecoveryMailbox"} {
		top := c.fn("R20.8", name)
		if top == nil {
			continue
		}
		for _, f := range c.withPackageHelpers(top, "internal/state", 1) {
			for _, cs := range engine.Calls(f) {
				sc := cs.Common().StaticCallee()
				if sc == nil || engine.ShortName(sc) != "actionImportRecoveredMessage" {
					continue
				}
				call, ok := cs.Instr.(*ssa.Call)
				if !ok || call.Referrers() == nil {
					continue
				}
				for _, r := range *call.Referrers() {
					ex, ok := r.(*ssa.Extract)
					if !ok || !engine.IsNamed(ex.Type(), "db", "MessageIDPair") {
						continue
					}
					n++
					esc := updatesDroppedOnPath(f, ex)
					R.Check(!esc.IsValid(), "R20.8", c.name(top)+"|imported id consumed", P.Pos(call.Pos()), "the imported id is appended on every non-failing path of the iteration", "the id of an imported recovered message can be dropped ("+P.Pos(esc)+"): the command answers OK although that message is not added to the destination")
				}
			}
		}
	}
	R.Min("R20.8", "imports in copy/move out of the recovery mailbox", n, 2)
}

// c20listedWhileNonEmpty (R20.9): the recovery mailbox is listed by its message count.
func c20listedWhileNonEmpty(c *Ctx) {
	P, R := c.P, c.R
	R.Explain("R20.9", "listed exactly while it is non-empty: in State.List every index read made with the recovery mailbox's id (State.user.GetRecoveryMailboxID()) is db.ReadOnly.GetMailboxMessageCount - the quantity that decides whether `Recovered Messages` is hidden is the number of messages it holds, not the number of recent, unseen or otherwise flagged ones (which drops to zero as soon as a client has looked at the mailbox).")
	f := c.fn("R20.9", "internal/state.(*State).List")
	if f == nil {
		return
	}
	n := 0
	for _, g := range c.withPackageHelpers(f, "internal/state", 1) {
		for _, cs := range engine.Calls(g) {
			cc := cs.Common()
			if !cc.IsInvoke() || !(engine.IsNamed(cc.Value.Type(), "db", "ReadOnly") || engine.IsNamed(cc.Value.Type(), "db", "Transaction")) {
				continue
			}
			usesRecoveryID := false
			var fromRecovery func(v ssa.Value, depth int) bool
			fromRecovery = func(v ssa.Value, depth int) bool {
				return engine.AnyBackward(v, engine.FlowOpts{Loads: true}, func(x ssa.Value) bool {
					if call, ok := x.(*ssa.Call); ok {
						if call.Call.IsInvoke() && engine.MethodName(call.Call.Method) == "GetRecoveryMailboxID" {
							return true
						}
						if sc := call.Call.StaticCallee(); sc != nil && engine.BaseName(sc) == "GetRecoveryMailboxID" {
							return true
						}
					}
					if fld, ok := x.(*ssa.Field); ok {
						if call, ok := fld.X.(*ssa.Call); ok && call.Call.IsInvoke() && engine.MethodName(call.Call.Method) == "GetRecoveryMailboxID" {
							return true
						}
					}
					// the id handed to a helper of List: what the call sites pass
					if p, ok := x.(*ssa.Parameter); ok && depth > 0 && p.Parent() != f && p.Parent().Parent() == nil {
						ix := engine.ParamIndex(p.Parent(), p)
						callers := P.CallersOf(p.Parent())
						all := ix >= 0 && len(callers) > 0
						for _, site := range callers {
							if ix >= len(site.Common().Args) || !fromRecovery(site.Common().Args[ix], depth-1) {
								all = false
							}
						}
						return all
					}
					return false
				})
			}
			for _, a := range cc.Args {
				if fromRecovery(a, 2) {
					usesRecoveryID = true
				}
			}
			if !usesRecoveryID {
				continue
			}
			n++
			R.Check(engine.MethodName(cc.Method) == "GetMailboxMessageCount", "R20.9", c.name(c.ownerFn(g))+"|read for the recovery mailbox", P.Pos(cs.Pos()), "GetMailboxMessageCount", "State.List decides about the recovery mailbox from "+engine.MethodName(cc.Method)+" instead of its message count: a non-empty recovery mailbox can disappear from LIST")
		}
	}
	R.Min("R20.9", "index reads for the recovery mailbox in State.List", n, 1)
}
