package rules

import (
	"go/token"
	"go/types"
	"strconv"
	"strings"

	"golang.org/x/tools/go/ssa"

	"verifchecker/internal/engine"
)

// literalBounds (R11.3): every make([]byte, n) whose size comes from the number parser is
// dominated by an upper bound against a constant and, when the buffer is indexed
// unconditionally by the consumer, by a lower bound n >= 1.
func (c *Ctx) literalBounds(rule string) {
	// functions that hand on a number parsed from the client (ParseNumber family and own wrappers around it)
	numberFuncs := map[*ssa.Function]bool{}
	for _, g := range c.productFuncs() {
		switch engine.ShortName(g) {
		case "ParseNumber", "ParseNZNumber", "ParseNumberN":
			numberFuncs[g] = true
		}
	}
	for changed := true; changed; {
		changed = false
		for _, g := range c.productFuncs() {
			if numberFuncs[g] {
				continue
			}
			for _, ret := range engine.Returns(g) {
				for _, r := range ret.Results {
					if b, ok := r.Type().Underlying().(*types.Basic); !ok || b.Info()&types.IsInteger == 0 {
						continue
					}
					engine.Backward(r, engine.FlowOpts{}, func(x ssa.Value) bool {
						if call, ok := x.(*ssa.Call); ok {
							if sc := call.Call.StaticCallee(); sc != nil && numberFuncs[sc] && !numberFuncs[g] {
								numberFuncs[g] = true
								changed = true
							}
						}
						return true
					})
				}
			}
		}
	}
	P, R := c.P, c.R
	R.Explain(rule, "allocation cap (T-DOM): every make whose size flows from ParseNumber in the parsing packages is dominated by a comparison with a constant upper bound (error on exceed, <= 64 MiB) and by a lower bound that excludes 0 (Scanner.ConsumeBytes writes dst[0] unconditionally).")
	n := 0
	for _, f := range c.funcsInPkg("rfcparser", "imap/command") {
		for _, b := range f.Blocks {
			for _, in := range b.Instrs {
				ms, ok := in.(*ssa.MakeSlice)
				if !ok {
					continue
				}
				// where the size is judged: here, or - when it is a parameter of an unexported helper - at every call site
				type site struct {
					fn  *ssa.Function
					blk *ssa.BasicBlock
					v   ssa.Value
				}
				sites := []site{{f, ms.Block(), ms.Len}}
				var par *ssa.Parameter
				engine.Backward(ms.Len, engine.FlowOpts{}, func(x ssa.Value) bool {
					if pp, ok := x.(*ssa.Parameter); ok && pp.Parent() == f {
						par = pp
					}
					return true
				})
				if par != nil && f.Parent() == nil && f.Object() != nil && !f.Object().Exported() {
					ix := engine.ParamIndex(f, par)
					if callers := P.CallersOf(f); ix >= 0 && len(callers) > 0 {
						sites = nil
						for _, cs := range callers {
							if ix < len(cs.Common().Args) {
								sites = append(sites, site{cs.Fn, cs.Instr.Block(), cs.Common().Args[ix]})
							}
						}
					}
				}
				for _, st := range sites {
					fromNumber := false
					var num ssa.Value
					engine.Backward(st.v, engine.FlowOpts{}, func(x ssa.Value) bool {
						if call, ok := x.(*ssa.Call); ok {
							if sc := call.Call.StaticCallee(); sc != nil && numberFuncs[sc] {
								fromNumber = true
							}
						}
						if ex, ok := x.(*ssa.Extract); ok {
							num = ex
						}
						return true
					})
					if !fromNumber {
						continue
					}
					n++
					key := c.name(st.fn) + "|make-from-number"
					// bounds proved from the conditions that dominate the allocation - in this function or in a
					// validating helper whose nil-error edge dominates it (linear-inequality entailment)
					sizeVal := num
					if sizeVal == nil {
						sizeVal = st.v
					}
					upper := engine.EntailedAt(st.fn, st.blk, sizeVal, 64<<20, true, P.IsOwn)
					lower := engine.EntailedAt(st.fn, st.blk, sizeVal, 1, false, P.IsOwn)
					R.Check(upper, rule, key+"|upper-bound", P.Pos(ms.Pos()), "allocation size from the client is capped by a constant", "a buffer whose size is a number sent by the client is allocated without a dominating upper bound: one command can make the server allocate gigabytes")
					R.Check(lower, rule, key+"|lower-bound", P.Pos(ms.Pos()), "zero-length literals are rejected before the buffer is filled", "a literal of size 0 reaches make([]byte, 0) and Scanner.ConsumeBytes, which writes dst[0] unconditionally: index out of range panic in the reader goroutine kills the process")
				}
			}
		}
	}
	R.Min(rule, "allocations sized by a parsed number", n, 1)
}

func sameValueThroughConv(a, b ssa.Value) bool {
	for i := 0; i < 3; i++ {
		if a == b {
			return true
		}
		if cv, ok := a.(*ssa.Convert); ok {
			a = cv.X
			continue
		}
		if cv, ok := a.(*ssa.ChangeType); ok {
			a = cv.X
			continue
		}
		break
	}
	return a == b
}

// readerErrorPath (R11.5): after a parse error the rest of the line is consumed before the
// next command is read, the error is answered BAD with the line's tag, and consecutive
// errors are counted against a constant limit.
func (c *Ctx) readerErrorPath(rule string) {
	P, R := c.P, c.R
	R.Explain(rule, "error recovery of the command reader: on every path from a failed Parser.Parse() to the hand-over of the result (channel send) the reader calls ConsumeInvalidInput (resynchronise on the next line); Session.serve answers a failed line with response.Bad carrying the failed command's tag, increments Session.errorCount, compares it with a constant and resets it on success.")
	rd := c.fn(rule, "internal/session.(*Session).startCommandReader")
	if rd != nil {
		found := false
		for _, f := range engine.WithClosures(rd) {
			var parse *ssa.Call
			cut := map[ssa.Instruction]bool{}
			var sends []ssa.Instruction
			for _, b := range f.Blocks {
				for _, in := range b.Instrs {
					switch t := in.(type) {
					case *ssa.Call:
						if sc := t.Call.StaticCallee(); sc != nil {
							if engine.ShortName(sc) == "Parse" && engine.RecvNamed(sc) != nil && engine.RecvNamed(sc).Obj().Name() == "Parser" {
								parse = t
							}
							if engine.ShortName(sc) == "ConsumeInvalidInput" {
								cut[t] = true
							}
						}
					case *ssa.Select:
						sends = append(sends, t)
					case *ssa.Send:
						sends = append(sends, t)
					}
				}
			}
			if parse == nil {
				continue
			}
			found = true
			// error edge of Parse
			var errBlock *ssa.BasicBlock
			for _, r := range *parse.Referrers() {
				ex, ok := r.(*ssa.Extract)
				if !ok || ex.Index != 1 {
					continue
				}
				for _, r2 := range *ex.Referrers() {
					if bin, ok := r2.(*ssa.BinOp); ok {
						for _, r3 := range *bin.Referrers() {
							if iff, ok := r3.(*ssa.If); ok {
								ix := 0
								if bin.Op == token.EQL {
									ix = 1
								}
								errBlock = iff.Block().Succs[ix]
							}
						}
					}
				}
			}
			if errBlock == nil {
				R.Fail(rule, c.name(f)+"|parse-error-edge", P.Pos(parse.Pos()), "the error of Parser.Parse() is not tested")
				continue
			}
			// the resynchronisation may live in a helper of the session package that reports whether the reader can carry
			// on (bool) or failed (error): every return of it that did not pass ConsumeInvalidInput says "stop"; then the
			// "carry on" edge of the test of its result is a resynchronised edge
			cutEdges := map[engine.Edge]bool{}
			helperResync := 0
			for _, cs := range engine.Calls(f) {
				h := cs.Common().StaticCallee()
				hcall, isCall := cs.Instr.(*ssa.Call)
				if cs.Instr.Parent() != f || h == nil || !isCall || len(h.Blocks) == 0 || h.Parent() != nil || engine.RelPkg(P.OwnPkgPath(h)) != "internal/session" || h.Signature.Results().Len() != 1 {
					continue
				}
				inner := map[ssa.Instruction]bool{}
				for _, ics := range engine.Calls(h) {
					if sc := ics.Common().StaticCallee(); sc != nil && ics.Instr.Parent() == h && engine.ShortName(sc) == "ConsumeInvalidInput" {
						inner[ics.Instr] = true
					}
				}
				if len(inner) == 0 {
					continue
				}
				isBool := h.Signature.Results().At(0).Type().String() == "bool"
				isErr := h.Signature.Results().At(0).Type().String() == "error"
				okHelper := isBool || isErr
				for _, ret := range engine.Returns(h) {
					if !engine.ReachesAvoiding(h, ret, inner, nil) {
						continue
					}
					rv := ret.Results[0]
					if isBool {
						if bv, isK := engine.ConstBool(rv); !isK || bv {
							okHelper = false
						}
					} else if isErr && engine.IsNilConst(rv) {
						okHelper = false
					}
				}
				if !okHelper || hcall.Referrers() == nil {
					continue
				}
				for _, b := range f.Blocks {
					iff := engine.IfOf(b)
					if iff == nil {
						continue
					}
					cond, neg := engine.StripNot(iff.Cond)
					if isBool && cond == ssa.Value(hcall) {
						carryOn := 0
						if neg {
							carryOn = 1
						}
						cutEdges[engine.Edge{From: b, Succ: carryOn}] = true
						helperResync++
					}
					if bo, ok := cond.(*ssa.BinOp); ok && isErr && (bo.Op == token.NEQ || bo.Op == token.EQL) && ((bo.X == ssa.Value(hcall) && engine.IsNilConst(bo.Y)) || (bo.Y == ssa.Value(hcall) && engine.IsNilConst(bo.X))) {
						carryOn := 1
						if bo.Op == token.EQL {
							carryOn = 0
						}
						if neg {
							carryOn = 1 - carryOn
						}
						cutEdges[engine.Edge{From: b, Succ: carryOn}] = true
						helperResync++
					}
				}
			}
			bad := false
			for _, s := range sends {
				if engine.ReachesAvoidingFrom(errBlock, 0, s, cut, cutEdges) {
					bad = true
				}
			}
			R.Check(!bad && len(cut)+helperResync > 0 && len(sends) > 0, rule, c.name(f)+"|resync-before-handover", P.Pos(parse.Pos()),
				"a failed line is consumed up to its end before the error is handed to the session loop",
				"after a parse error the reader can hand the result on (or read the next command) without consuming the rest of the offending line: the remainder of the line is parsed as further commands and answered with extra completion results")
		}
		R.Check(found, rule, c.name(rd)+"|calls-Parse", P.Pos(rd.Pos()), "reader parses commands with command.Parser.Parse", "reader does not call Parser.Parse")
	}
	sv := c.fn(rule, "internal/session.(*Session).serve")
	if sv == nil {
		return
	}
	errFld := c.fieldOf("internal/session", "Session", "errorCount")
	var badCalls []*ssa.Call
	incr, reset, limit := false, false, false
	// serve and the Session methods it calls (two frames): the error handling may live in a helper
	scope := []*ssa.Function{sv}
	seenF := map[*ssa.Function]bool{sv: true}
	for d, frontier := 0, []*ssa.Function{sv}; d < 2; d++ {
		var next []*ssa.Function
		for _, g := range frontier {
			for _, cs := range engine.Calls(g) {
				sc := cs.Common().StaticCallee()
				if sc == nil || seenF[sc] || len(sc.Blocks) == 0 {
					continue
				}
				if rn := engine.RecvNamed(sc); rn == nil || rn.Obj().Name() != "Session" {
					continue
				}
				seenF[sc] = true
				scope = append(scope, sc)
				next = append(next, sc)
			}
		}
		frontier = next
	}
	var allBlocks []*ssa.BasicBlock
	for _, g := range scope {
		allBlocks = append(allBlocks, g.Blocks...)
	}
	for _, b := range allBlocks {
		for _, in := range b.Instrs {
			switch t := in.(type) {
			case *ssa.Call:
				if isTaggedCall(t, "Bad") {
					badCalls = append(badCalls, t)
				}
			case *ssa.Store:
				if fieldAddrIs(t.Addr, errFld) {
					if add, ok := t.Val.(*ssa.BinOp); ok && add.Op == token.ADD {
						incr = true
					}
					if k, ok := t.Val.(*ssa.Const); ok && k.Value != nil && k.Value.ExactString() == "0" {
						reset = true
					}
				}
			case *ssa.If:
				if cmp, ok := t.Cond.(*ssa.BinOp); ok && (cmp.Op == token.GEQ || cmp.Op == token.GTR || cmp.Op == token.LSS || cmp.Op == token.LEQ) {
					if _, isK := cmp.Y.(*ssa.Const); isK {
						// compared value derives from errorCount
						if engine.AnyBackward(cmp.X, engine.FlowOpts{}, func(x ssa.Value) bool {
							if ld, ok := x.(*ssa.UnOp); ok && fieldAddrIs(ld.X, errFld) {
								return true
							}
							if bo, ok := x.(*ssa.BinOp); ok {
								if ld, ok := bo.X.(*ssa.UnOp); ok && fieldAddrIs(ld.X, errFld) {
									return true
								}
							}
							return false
						}) {
							// one edge of the comparison leads straight to a return (the session / the helper ends there)
							for ei := 0; ei < 2; ei++ {
								ts := t.Block().Succs[ei]
								for blk := range engine.BlocksReachableFrom(ts) {
									if len(blk.Instrs) > 0 {
										if _, ok := blk.Instrs[len(blk.Instrs)-1].(*ssa.Return); ok && engine.EdgeDominates(t.Block(), ei, blk) {
											limit = true
										}
									}
								}
							}
						}
					}
				}
			}
		}
	}
	tagOK := false
	for _, bc := range badCalls {
		// the tag argument comes from res.command.Tag
		for _, o := range P.Origins(bc.Call.Args[0], engine.OriginOpts{}) {
			if o.Kind == "field" || o.Kind == "other" {
				if fieldNameOf(o.V) == "Tag" {
					tagOK = true
				}
			}
		}
		els := tagElems(bc.Call.Args[0])
		for _, e := range els {
			if fieldNameOf(e) == "Tag" {
				tagOK = true
			}
		}
	}
	R.Check(len(badCalls) > 0 && tagOK, rule, c.name(sv)+"|BAD-with-line-tag", P.Pos(sv.Pos()), "a failed line is answered BAD with the tag parsed from that line", "the session loop does not answer a failed command line with response.Bad(<that line's tag>)")
	R.Check(incr && limit, rule, c.name(sv)+"|error-limit", P.Pos(sv.Pos()), "consecutive errors are counted against a constant and end the session", "consecutive protocol errors are not counted against a limit: a client can keep the session busy with garbage for ever")
	R.Check(reset, rule, c.name(sv)+"|error-count-reset", P.Pos(sv.Pos()), "the error count is reset by a well-formed command", "errorCount is never reset: a long-lived session is closed after a handful of unrelated typos")
}

func fieldNameOf(v ssa.Value) string {
	switch t := v.(type) {
	case *ssa.UnOp:
		if fa, ok := t.X.(*ssa.FieldAddr); ok {
			if fv := fieldOfAddr(fa); fv != nil {
				return fv.Name()
			}
		}
	case *ssa.Field:
		if fv := fieldOfField(t); fv != nil {
			return fv.Name()
		}
	}
	return ""
}

// tagElems: elements of the variadic tag slice.
func tagElems(v ssa.Value) []ssa.Value {
	sl, ok := v.(*ssa.Slice)
	if !ok {
		return nil
	}
	al, ok := sl.X.(*ssa.Alloc)
	if !ok {
		return nil
	}
	return engine.ElemStores(al)
}

// taggedResponsesNotDropped (R11.6): a tagged response that travels as an `error` must end
// in a consumer that sends it.
func (c *Ctx) taggedResponsesNotDropped(rule string) {
	P, R := c.P, c.R
	R.Explain(rule, "T-NODROP for completion results: a tagged response (response.Ok/No/Bad(tag)) returned as an error value is acceptable only if every caller returns it further or hands it to response.FromError (handleOther, which sends it); a caller that merely logs it drops the command's only completion result.")
	respErr := func(f *ssa.Function) []*ssa.Return {
		var out []*ssa.Return
		if f.Signature.Results().Len() == 0 {
			return nil
		}
		last := f.Signature.Results().At(f.Signature.Results().Len() - 1).Type()
		if !types.Identical(last, types.Universe.Lookup("error").Type()) {
			return nil
		}
		for _, ret := range engine.Returns(f) {
			lr := engine.LastResult(ret)
			if lr == nil {
				continue
			}
			if engine.AnyBackward(lr, engine.FlowOpts{}, func(x ssa.Value) bool {
				call, ok := x.(*ssa.Call)
				if !ok {
					return false
				}
				// chain: response.No(tag).WithError(...) -> walk receiver chain
				for i := 0; i < 6 && call != nil; i++ {
					// only builder calls that yield a response object (not Send, whose result is an I/O error)
					if nt := engine.NamedOf(call.Type()); nt == nil || nt.Obj().Pkg() == nil || engine.RelPkg(nt.Obj().Pkg().Path()) != "internal/response" {
						return false
					}
					if isTaggedCall(call, "Ok", "No", "Bad") {
						return true
					}
					if len(call.Call.Args) == 0 {
						return false
					}
					next, _ := call.Call.Args[0].(*ssa.Call)
					call = next
				}
				return false
			}) {
				out = append(out, ret)
			}
		}
		return out
	}
	n := 0
	for _, f := range c.funcsInPkg("internal/session") {
		rets := respErr(f)
		if len(rets) == 0 {
			continue
		}
		n++
		ok, where := c.errorConsumed(f, map[*ssa.Function]bool{}, 0)
		R.Check(ok, rule, c.name(f)+"|response-as-error", P.Pos(rets[0].Pos()), "the response returned as error reaches response.FromError on every caller chain",
			"this function returns a tagged response as an error, but a caller ("+where+") neither returns it nor passes it to response.FromError: the command line gets no completion result")
	}
	R.Min(rule, "functions returning a response as error", n, 3)
}

// errorConsumed: every caller of f propagates f's error result or feeds it to FromError.
func (c *Ctx) errorConsumed(f *ssa.Function, seen map[*ssa.Function]bool, depth int) (bool, string) {
	if seen[f] || depth > 8 {
		return true, ""
	}
	seen[f] = true
	callers := c.P.CallersOf(f)
	if len(callers) == 0 {
		// a closure handed to a higher-order function: treat its creator as the caller
		if f.Parent() != nil {
			return c.closureErrorConsumed(f, seen, depth)
		}
		return false, "no caller found for " + c.name(f)
	}
	for _, cs := range callers {
		call, ok := cs.Instr.(*ssa.Call)
		if !ok {
			return false, c.name(cs.Fn) + " (go/defer)"
		}
		okUse, why := c.errorUseOK(call, cs.Fn, seen, depth)
		if !okUse {
			return false, why
		}
	}
	return true, ""
}

func (c *Ctx) closureErrorConsumed(cl *ssa.Function, seen map[*ssa.Function]bool, depth int) (bool, string) {
	par := cl.Parent()
	for _, b := range par.Blocks {
		for _, in := range b.Instrs {
			mc, ok := in.(*ssa.MakeClosure)
			if !ok || mc.Fn != cl {
				continue
			}
			for _, r := range *mc.Referrers() {
				call, ok := r.(*ssa.Call)
				if !ok {
					continue
				}
				// the higher-order callee returns the callback's error (State.Selected etc.): require the
				// call's error result to be consumed in par
				okUse, why := c.errorUseOK(call, par, seen, depth)
				if !okUse {
					return false, why
				}
			}
		}
	}
	return true, ""
}

// errorUseOK: the error result of call (last result) in function g is returned (then g's
// callers are checked) or passed to response.FromError.
func (c *Ctx) errorUseOK(call *ssa.Call, g *ssa.Function, seen map[*ssa.Function]bool, depth int) (bool, string) {
	var errVal ssa.Value = call
	if tup, ok := call.Type().(*types.Tuple); ok {
		errVal = nil
		for _, r := range *call.Referrers() {
			if ex, ok := r.(*ssa.Extract); ok && ex.Index == tup.Len()-1 {
				errVal = ex
			}
		}
		if errVal == nil {
			return false, c.name(g) + " discards the error"
		}
	}
	consumed, returned := false, false
	var walk func(v ssa.Value, d int)
	visited := map[ssa.Value]bool{}
	walk = func(v ssa.Value, d int) {
		if v == nil || visited[v] || d > 6 || v.Referrers() == nil {
			return
		}
		visited[v] = true
		for _, r := range *v.Referrers() {
			switch t := r.(type) {
			case *ssa.Return:
				returned = true
			case *ssa.Call:
				if sc := t.Call.StaticCallee(); sc != nil && engine.ShortName(sc) == "FromError" {
					consumed = true
				}
				// fmt.Errorf("%w") wrapping keeps the response reachable through errors.As
				if sc := t.Call.StaticCallee(); sc != nil && engine.ShortName(sc) == "Errorf" {
					walk(t, d+1)
				}
			case *ssa.Phi:
				walk(t, d+1)
			case *ssa.MakeInterface:
				walk(t, d+1)
			case *ssa.Store:
				// result spill / captured variable
				if al, ok := t.Addr.(*ssa.Alloc); ok {
					for _, r2 := range *al.Referrers() {
						if ld, ok := r2.(*ssa.UnOp); ok {
							walk(ld, d+1)
						}
					}
				}
				if fv, ok := t.Addr.(*ssa.FreeVar); ok {
					_ = fv
					returned = true // assigned to a captured result of the enclosing function: handled by its callers
				}
			case *ssa.Slice, *ssa.IndexAddr:
			}
		}
	}
	walk(errVal, 0)
	if consumed {
		return true, ""
	}
	if returned {
		return c.errorConsumed(g, seen, depth+1)
	}
	return false, c.name(g) + " at " + c.P.Pos(call.Pos())
}

// recursionDepthPaired: every EnterRecursion is undone by LeaveRecursion on every path.
func (c *Ctx) recursionDepthPaired(rule string) {
	P, R := c.P, c.R
	R.Explain(rule, "T-PAIR for the parser's nesting counter: in every function that calls Parser.EnterRecursion, each path from the successful Enter to a return - error returns included - passes LeaveRecursion (deferred or explicit).  The parser object lives as long as the connection, so a level that is not given back on an error path is lost for the rest of the session and, after enough refused commands, valid nested commands are answered BAD.")
	n := 0
	for _, f := range c.productFuncs() {
		for _, cs := range engine.Calls(f) {
			sc := cs.Common().StaticCallee()
			if sc == nil || engine.ShortName(sc) != "EnterRecursion" || cs.Instr.Parent() != f {
				continue
			}
			call, ok := cs.Instr.(*ssa.Call)
			if !ok {
				continue
			}
			n++
			key := c.name(f) + "|EnterRecursion"
			// success edge of Enter
			var start *ssa.BasicBlock
			for _, r := range *call.Referrers() {
				if bin, ok := r.(*ssa.BinOp); ok && (engine.IsNilConst(bin.Y) || engine.IsNilConst(bin.X)) {
					for _, r2 := range *bin.Referrers() {
						if iff, ok := r2.(*ssa.If); ok {
							ix := 1
							if bin.Op == token.EQL {
								ix = 0
							}
							start = iff.Block().Succs[ix]
						}
					}
				}
			}
			if start == nil {
				R.Fail(rule, key, P.Pos(call.Pos()), "the error of EnterRecursion is not checked")
				continue
			}
			cut := map[ssa.Instruction]bool{}
			for _, cs2 := range engine.Calls(f) {
				if sc2 := cs2.Common().StaticCallee(); sc2 != nil && engine.ShortName(sc2) == "LeaveRecursion" && cs2.Instr.Parent() == f {
					cut[cs2.Instr] = true
				}
			}
			bad := ""
			for _, ret := range engine.Returns(f) {
				if engine.ReachesAvoidingFrom(start, 0, ret, cut, nil) {
					bad = P.Pos(ret.Pos())
				}
			}
			R.Check(len(cut) > 0 && bad == "", rule, key, P.Pos(call.Pos()), "every path after a successful EnterRecursion leaves it again", "a return ("+bad+") is reachable after a successful EnterRecursion without LeaveRecursion: the nesting level leaks for the lifetime of the connection's parser and later valid commands are refused as 'nesting too deep'")
		}
	}
	R.Min(rule, "EnterRecursion call sites", n, 2)
}

// parseErrorsKeepTheTag (R11.9): once the tag of a line is known, a refusal of the line carries it.
func (c *Ctx) parseErrorsKeepTheTag(rule string) {
	P, R := c.P, c.R
	R.Explain(rule, "every complete line is answered with its own tag: in command.(*Parser).Parse (and the helpers of the package it is split into) every error return that lies after the successful parse of the tag returns a Command whose Tag field has been assigned on every path to that return - directly, copied from a Command for which that holds, received as a parameter for which it holds at every call site, or returned by a helper all of whose relevant returns satisfy it; the DONE continuation (tag text `done`) deliberately has no tag.  The session answers a failed line with response.Bad(<that Command's Tag>), so an error return of the empty Command after the tag is known makes the server answer an untagged BAD and the client never sees the completion of its command.")
	parse := c.fn(rule, "imap/command.(*Parser).Parse")
	if parse == nil {
		return
	}
	tagFld := c.fieldOf("imap/command", "Command", "Tag")
	unit := c.withPackageHelpers(parse, "imap/command", 2)
	// the function of the unit that parses the tag, and the nil-error edge of that parse
	var g *ssa.Function
	var tagIf *ssa.BasicBlock
	tagNilIx := 0
	for _, f := range unit {
		if f.Parent() != nil {
			continue
		}
		for _, cs := range engine.Calls(f) {
			sc := cs.Common().StaticCallee()
			if sc == nil || engine.ShortName(sc) != "parseTag" || cs.Instr.Parent() != f {
				continue
			}
			if blk, ix := nilErrorEdgeOf(cs.Instr); blk != nil {
				g, tagIf, tagNilIx = f, blk, ix
			}
		}
	}
	if g == nil || tagFld == nil {
		R.Fail(rule, c.name(parse)+"|tag parse", P.Pos(parse.Pos()), "neither Parse nor a helper it calls parses the tag through parseTag with an error test: the rule cannot be evaluated")
		return
	}
	// paths through the DONE edge carry no tag by design
	doneSkip := func(f *ssa.Function) map[engine.Edge]bool {
		out := map[engine.Edge]bool{}
		for _, b := range f.Blocks {
			iff := engine.IfOf(b)
			if iff == nil {
				continue
			}
			cond, neg := engine.StripNot(iff.Cond)
			bin, ok := cond.(*ssa.BinOp)
			if !ok || (bin.Op != token.EQL && bin.Op != token.NEQ) {
				continue
			}
			isDone := false
			for _, x := range []ssa.Value{bin.X, bin.Y} {
				if s, ok := engine.ConstString(x); ok && s == "done" {
					isDone = true
				}
			}
			if !isDone {
				continue
			}
			ix := 0
			if (bin.Op == token.NEQ) != neg {
				ix = 1
			}
			out[engine.Edge{From: b, Succ: ix}] = true
		}
		return out
	}
	startOf := func(f *ssa.Function) *ssa.BasicBlock {
		if f == g {
			return tagIf.Succs[tagNilIx]
		}
		return f.Blocks[0]
	}
	var tagKnown func(fn *ssa.Function, v ssa.Value, at ssa.Instruction, d int) bool
	// returnsKnown: every return of h of the given kind (error / success) that can follow the tag parse returns a known Command
	returnsKnown := func(h *ssa.Function, wantErr bool, d int) bool {
		any := false
		for _, ret := range engine.Returns(h) {
			lr := engine.LastResult(ret)
			if lr == nil || len(ret.Results) < 2 {
				continue
			}
			isErr := !engine.IsNilConst(lr)
			if isErr != wantErr {
				continue
			}
			if h == g && !engine.EdgeDominates(tagIf, tagNilIx, ret.Block()) {
				continue // before the tag is known
			}
			any = true
			if !tagKnown(h, engine.ResultOf(ret, 0), ret, d+1) {
				return false
			}
		}
		return any
	}
	tagKnown = func(fn *ssa.Function, v ssa.Value, at ssa.Instruction, d int) bool {
		if d > 5 || v == nil {
			return false
		}
		switch t := v.(type) {
		case *ssa.Parameter:
			idx := -1
			for i, q := range fn.Params {
				if q == t {
					idx = i
				}
			}
			callers := c.P.CallersOf(fn)
			if idx < 0 || len(callers) == 0 {
				return false
			}
			for _, cs := range callers {
				if cs.Common().IsInvoke() || idx >= len(cs.Common().Args) || !tagKnown(cs.Fn, cs.Common().Args[idx], cs.Instr, d+1) {
					return false
				}
			}
			return true
		case *ssa.Extract:
			call, ok := t.Tuple.(*ssa.Call)
			if !ok || t.Index != 0 {
				return false
			}
			h := call.Call.StaticCallee()
			if h == nil || len(h.Blocks) == 0 || !P.IsOwn(h) || h == fn {
				return false
			}
			if blk, ix := nilErrorEdgeOf(call); blk != nil && engine.EdgeDominates(blk, ix, at.Block()) {
				return returnsKnown(h, false, d) // used after the helper succeeded
			}
			// forwarded together with the helper's error, or used on both outcomes
			return returnsKnown(h, true, d) && (returnsKnown(h, false, d) || forwardedWithError(at, call))
		case *ssa.UnOp:
			if t.Op != token.MUL {
				return false
			}
			a, ok := t.X.(*ssa.Alloc)
			if !ok {
				return false
			}
			cut := map[ssa.Instruction]bool{}
			for _, b := range fn.Blocks {
				for _, in := range b.Instrs {
					st, ok := in.(*ssa.Store)
					if !ok {
						continue
					}
					if st.Addr == ssa.Value(a) {
						if tagKnown(fn, st.Val, st, d+1) {
							cut[st] = true
						}
						continue
					}
					fa, ok := st.Addr.(*ssa.FieldAddr)
					if !ok || fa.X != ssa.Value(a) || fieldOfAddr(fa) != tagFld {
						continue
					}
					switch src := st.Val.(type) {
					case *ssa.UnOp:
						if fa2, ok := src.X.(*ssa.FieldAddr); ok && src.Op == token.MUL && fieldOfAddr(fa2) == tagFld {
							if a2, ok := fa2.X.(*ssa.Alloc); ok && !tagKnown(fn, &ssa.UnOp{Op: token.MUL, X: a2}, st, d+1) {
								continue
							}
						}
					case *ssa.Field:
						if fieldOfField(src) == tagFld && !tagKnown(fn, src.X, st, d+1) {
							continue
						}
					}
					cut[st] = true
				}
			}
			if len(cut) == 0 {
				return false
			}
			return !engine.ReachesAvoidingFrom(startOf(fn), 0, at, cut, doneSkip(fn))
		}
		return false
	}
	n := 0
	judge := func(f *ssa.Function, ret *ssa.Return) {
		n++
		ok := tagKnown(f, engine.ResultOf(ret, 0), ret, 0)
		R.Check(ok, rule, c.name(f)+"|error return#"+strconv.Itoa(n)+" keeps the tag", P.Pos(ret.Pos()), "the returned Command's Tag was assigned", "an error return after the tag was parsed hands back a Command without the tag: the line is answered with an untagged BAD")
	}
	// inside the tag-parsing function: every error return after the tag edge
	for _, ret := range engine.Returns(g) {
		lr := engine.LastResult(ret)
		if lr == nil || engine.IsNilConst(lr) || len(ret.Results) < 2 || !engine.EdgeDominates(tagIf, tagNilIx, ret.Block()) {
			continue
		}
		judge(g, ret)
	}
	// up the call chain to Parse: error returns after the helper that parsed the tag has succeeded
	cur := g
	for depth := 0; cur != parse && depth < 3; depth++ {
		var caller *ssa.Function
		var callInstr ssa.Instruction
		for _, cs := range c.P.CallersOf(cur) {
			for _, u := range unit {
				if u == cs.Fn {
					caller, callInstr = cs.Fn, cs.Instr
				}
			}
		}
		if caller == nil {
			R.Fail(rule, c.name(cur)+"|call chain", P.Pos(cur.Pos()), "the helper that parses the tag is not called from Parse: the rule cannot be evaluated")
			return
		}
		blk, ix := nilErrorEdgeOf(callInstr)
		for _, ret := range engine.Returns(caller) {
			lr := engine.LastResult(ret)
			if lr == nil || engine.IsNilConst(lr) || len(ret.Results) < 2 {
				continue
			}
			if blk != nil && engine.EdgeDominates(blk, ix, ret.Block()) {
				judge(caller, ret) // the tag is known here
			}
		}
		cur = caller
	}
	R.Min(rule, "error returns after the tag is known", n, 1)
}

// nilErrorEdgeOf returns the branch (block, successor index) taken when the error result of call is nil.
func nilErrorEdgeOf(call ssa.Instruction) (*ssa.BasicBlock, int) {
	v, ok := call.(ssa.Value)
	if !ok || v.Referrers() == nil {
		return nil, 0
	}
	var errs []ssa.Value
	if v.Type().String() == "error" {
		errs = append(errs, v)
	}
	for _, r := range *v.Referrers() {
		if ex, ok := r.(*ssa.Extract); ok && ex.Type().String() == "error" {
			errs = append(errs, ex)
		}
	}
	for _, e := range errs {
		for _, r2 := range *e.Referrers() {
			bin, ok := r2.(*ssa.BinOp)
			if !ok || (bin.Op != token.EQL && bin.Op != token.NEQ) {
				continue
			}
			for _, r3 := range *bin.Referrers() {
				if iff, ok := r3.(*ssa.If); ok {
					if bin.Op == token.EQL {
						return iff.Block(), 0
					}
					return iff.Block(), 1
				}
			}
		}
	}
	return nil, 0
}

// forwardedWithError: `at` is a return that hands on both results of call unchanged.
func forwardedWithError(at ssa.Instruction, call *ssa.Call) bool {
	ret, ok := at.(*ssa.Return)
	if !ok || len(ret.Results) < 2 {
		return false
	}
	e0, ok0 := ret.Results[0].(*ssa.Extract)
	e1, ok1 := ret.Results[len(ret.Results)-1].(*ssa.Extract)
	return ok0 && ok1 && e0.Tuple == ssa.Value(call) && e1.Tuple == ssa.Value(call)
}

// nilEncodingIsRefused (R11.10): an IANA charset without implementation is (nil, nil), not an error.
func (c *Ctx) nilEncodingIsRefused(rule string) {
	P, R := c.P, c.R
	R.Explain(rule, "a client-chosen charset cannot crash the server: (*ianaindex.Index).Encoding returns (nil, nil) for charsets IANA lists but golang.org/x/text does not implement (UTF-7, UTF-32, ...); every use of its first result is dominated by the non-nil edge of a nil test of that result (the error test alone is not enough) - otherwise SEARCH CHARSET UTF-7 dereferences nil in the handler and the panic ends the process for all sessions.")
	n := 0
	for _, f := range c.productFuncs() {
		for _, cs := range engine.Calls(f) {
			sc := cs.Common().StaticCallee()
			if sc == nil || sc.Name() != "Encoding" || !strings.Contains(engine.PkgPathOf(sc), "ianaindex") {
				continue
			}
			call, ok := cs.Instr.(*ssa.Call)
			if !ok {
				continue
			}
			var enc *ssa.Extract
			for _, r := range *call.Referrers() {
				if ex, ok := r.(*ssa.Extract); ok && ex.Index == 0 {
					enc = ex
				}
			}
			if enc == nil {
				continue
			}
			n++
			// non-nil edges
			type edge struct {
				b  *ssa.BasicBlock
				ix int
			}
			var nonNil []edge
			var uses []ssa.Instruction
			for _, r := range *enc.Referrers() {
				switch t := r.(type) {
				case *ssa.DebugRef:
				case *ssa.BinOp:
					if (t.Op == token.EQL || t.Op == token.NEQ) && (engine.IsNilConst(t.X) || engine.IsNilConst(t.Y)) {
						for _, r2 := range *t.Referrers() {
							if iff, ok := r2.(*ssa.If); ok {
								ix := 0
								if t.Op == token.EQL {
									ix = 1
								}
								nonNil = append(nonNil, edge{iff.Block(), ix})
							}
						}
						continue
					}
					uses = append(uses, r)
				default:
					uses = append(uses, r)
				}
			}
			bad := ""
			for _, u := range uses {
				ok := false
				for _, e := range nonNil {
					if engine.EdgeDominates(e.b, e.ix, u.Block()) {
						ok = true
					}
				}
				// `err != nil || enc == nil` short-circuits: the use is dominated by the false edge of the merged test
				if !ok {
					for _, e := range nonNil {
						// the non-nil successor leads (only) to the use's dominators
						if engine.BlocksReachableFrom(e.b.Succs[e.ix])[u.Block()] && !engine.BlocksReachableFrom(e.b.Succs[1-e.ix])[u.Block()] {
							ok = true
						}
					}
				}
				if !ok {
					bad = P.Pos(u.Pos())
				}
			}
			R.Check(bad == "" && len(uses) > 0, rule, c.name(f)+"|ianaindex Encoding result", P.Pos(call.Pos()), "every use follows a non-nil test", "the encoding returned by ianaindex is used ("+bad+") without a nil test: a charset without implementation dereferences nil and the panic takes the server down")
		}
	}
	R.Min(rule, "lookups of a client-named charset", n, 1)
}

// mailboxNamesAreValidated (R11.13): no mailbox name reaches the server without having passed the UTF-7 decoder.
func (c *Ctx) mailboxNamesAreValidated(rule string) {
	P, R := c.P, c.R
	R.Explain(rule, "raw bytes in a mailbox name are refused, not processed: every string Session.decodeMailboxName returns without an error is the result of the modified-UTF-7 decoder's String method ((*encoding.Decoder).String) - the decoder is also the only validation of the bytes of a name (it rejects everything outside 0x20-0x7E).  A short cut that hands back the undecoded name lets invalid UTF-8 reach the LIST pattern, where regexp.MustCompile panics in the command goroutine and ends the process.")
	f := c.fn(rule, "internal/session.(*Session).decodeMailboxName")
	if f == nil {
		return
	}
	n := 0
	for _, ret := range engine.Returns(f) {
		if len(ret.Results) != 2 {
			continue
		}
		n++
		ok := true
		var leaves func(v ssa.Value, seen map[ssa.Value]bool)
		leaves = func(v ssa.Value, seen map[ssa.Value]bool) {
			if seen[v] {
				return
			}
			seen[v] = true
			switch t := v.(type) {
			case *ssa.Phi:
				for _, e := range t.Edges {
					leaves(e, seen)
				}
			case *ssa.Extract:
				call, isCall := t.Tuple.(*ssa.Call)
				if !isCall || call.Call.StaticCallee() == nil || call.Call.StaticCallee().Name() != "String" || !strings.Contains(call.Call.StaticCallee().String(), "encoding.Decoder") {
					ok = false
				}
			case *ssa.Const:
				if s, isStr := engine.ConstString(t); !isStr || s != "" {
					ok = false
				}
			default:
				ok = false
			}
		}
		leaves(ret.Results[0], map[ssa.Value]bool{})
		R.Check(ok, rule, c.name(f)+"|return#"+strconv.Itoa(n)+" decoded", P.Pos(ret.Pos()), "the returned name is the decoder's output", "decodeMailboxName can return a name that did not pass the UTF-7 decoder: unvalidated client bytes reach the mailbox code (LIST compiles them into a regular expression with MustCompile)")
	}
	R.Min(rule, "returns of decodeMailboxName", n, 1)
}
