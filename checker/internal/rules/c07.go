package rules

import (
	"go/token"
	"regexp"
	"sort"
	"strconv"
	"strings"

	"golang.org/x/tools/go/ssa"

	"verifchecker/internal/engine"
)

func init() { register("C07", c07) }

func isStoreCall(cs engine.CallSite, names ...string) bool {
	return isStoreCallCC(cs.Common(), names...)
}

func isStoreCallCC(cc *ssa.CallCommon, names ...string) bool {
	var recvT, name string
	if cc.IsInvoke() {
		if nt := engine.NamedOf(cc.Value.Type()); nt != nil {
			recvT = nt.Obj().Name()
		}
		name = engine.MethodName(cc.Method)
	} else if sc := cc.StaticCallee(); sc != nil && engine.RecvNamed(sc) != nil {
		recvT = engine.RecvNamed(sc).Obj().Name()
		name = engine.ShortName(sc)
		if !strings.HasSuffix(engine.PkgPathOf(sc), "/store") {
			return false
		}
	}
	if recvT != "WriteControlledStore" && recvT != "Store" {
		return false
	}
	for _, n := range names {
		if name == n {
			return true
		}
	}
	return false
}

// hasTxInScope: f (or a lexical parent) has a db.Transaction parameter.
func hasTxInScope(f *ssa.Function) bool {
	for g := f; g != nil; g = g.Parent() {
		for _, p := range g.Params {
			if engine.IsNamed(p.Type(), "db", "Transaction") {
				return true
			}
		}
	}
	return false
}

// txInScopeAtEveryCall: f has the transaction in scope, or f is a helper every call site of which lies in a
// function that has (two frames).
func (c *Ctx) txInScopeAtEveryCall(f *ssa.Function, depth int) bool {
	if hasTxInScope(f) {
		return true
	}
	callers := c.P.CallersOf(topFn(f))
	if depth <= 0 || len(callers) == 0 {
		return false
	}
	for _, cs := range callers {
		if cs.Fn == f || !c.txInScopeAtEveryCall(cs.Fn, depth-1) {
			return false
		}
	}
	return true
}

// callsIn: f, its nested closures or the gluon functions they call statically (3 frames)
// contain a call satisfying pred.
func callsIn(f *ssa.Function, pred func(cs engine.CallSite) bool) bool {
	seen := map[*ssa.Function]bool{}
	var rec func(f *ssa.Function, d int) bool
	rec = func(f *ssa.Function, d int) bool {
		if f == nil || seen[f] || d > 3 {
			return false
		}
		seen[f] = true
		for _, g := range engine.WithClosures(f) {
			for _, cs := range engine.Calls(g) {
				if pred(cs) {
					return true
				}
				if sc := cs.Common().StaticCallee(); sc != nil && len(sc.Blocks) > 0 && strings.HasPrefix(engine.PkgPathOf(sc), "github.com/ProtonMail/gluon") {
					if rec(engine.Unwrap2(sc), d+1) {
						return true
					}
				}
			}
		}
		return false
	}
	return rec(f, 0)
}

func takesTransaction(f *ssa.Function) bool {
	for _, p := range f.Params {
		if engine.IsNamed(p.Type(), "db", "Transaction") {
			return true
		}
	}
	return false
}

var limitRe = regexp.MustCompile(`(?i)\bLIMIT\s+(\S+)`)

func c07(c *Ctx) {
	defer c07reads(c)
	defer c07deletedIsMarked(c)
	defer c.flagCase("R07.8")
	defer c.uncheckedDeleteOnlyFresh("R07.2")
	P, R := c.P, c.R
	R.Explain("R07.1", "ordering: in every function that creates message rows (tx.CreateMessages / tx.CreateMessageAndAddToMailbox) each success return is also preceded by the write of the message literal to the store (Set/SetUnchecked, directly or inside a worker closure) — a listed message always has its bytes; the store write happens inside the transaction closure or before it, never after the commit wrapper returned.")
	R.Explain("R07.2", "store deletions happen outside any transaction and only (a) after the write that deleted the rows succeeded, (b) after the write that created those ids failed, or (c) for the set difference against GetAllMessagesIDsAsMap.")
	R.Explain("R07.3", "start-up clean-up: newUser's success return is dominated by both deleteAllMessagesMarkedDeleted and cleanupStaleStoreData (independently of each other's outcome); the queries feeding clean-up are unbounded (no LIMIT other than LIMIT 1 existence/lookup forms in any run-time statement).")
	R.Explain("R07.4", "see R08.5: *sql.Tx typestate in the transaction wrapper (an erroring or panicking operation leaves no trace).")
	R.Explain("R07.5", "T-NODROP: the error of every store write of message bytes (Set/SetUnchecked) in internal/state and internal/backend is returned to the caller (aborting the surrounding transaction).")

	// ---- R07.1 -----------------------------------------------------------------------
	isRowCreate := func(cs engine.CallSite) bool {
		cc := cs.Common()
		return cc.IsInvoke() && engine.IsNamed(cc.Value.Type(), "db", "Transaction") && (engine.MethodName(cc.Method) == "CreateMessages" || engine.MethodName(cc.Method) == "CreateMessageAndAddToMailbox")
	}
	isStoreWrite := func(cs engine.CallSite) bool { return isStoreCall(cs, "Set", "SetUnchecked") }
	n := 0
	for _, f := range c.funcsInPkg("internal/state", "internal/backend") {
		var creates []ssa.Instruction
		cut := map[ssa.Instruction]bool{}
		for _, cs := range engine.Calls(f) {
			if isRowCreate(cs) {
				creates = append(creates, cs.Instr)
			}
			if isStoreWrite(cs) {
				cut[cs.Instr] = true
			}
			// a call handed a worker closure that writes the store (parallel.DoContext)
			for _, a := range cs.Common().Args {
				if fn := engine.FuncValue(a); fn != nil && len(fn.Blocks) > 0 && fn.Parent() != nil {
					if callsIn(fn, isStoreWrite) {
						cut[cs.Instr] = true
					}
				}
			}
		}
		if len(creates) == 0 {
			continue
		}
		// a helper every success return of which has written the literal counts as the write
		for in := range c.mustCallInstrs(f, func(cc *ssa.CallCommon) bool { return isStoreCallCC(cc, "Set", "SetUnchecked") }, 2) {
			cut[in] = true
		}
		n++
		key := c.name(f) + "|rows-and-literal"
		bad := ""
		for _, ret := range engine.Returns(f) {
			lr := engine.LastResult(ret)
			if lr == nil || !engine.IsNilConst(lr) {
				continue
			}
			// only success returns that come after a row creation
			after := false
			for _, cr := range creates {
				if engine.InstrReaches(cr, ret) {
					after = true
				}
			}
			if !after {
				continue
			}
			// path entry -> ret through a create but avoiding every store write?
			for _, cr := range creates {
				if engine.ReachesAvoiding(f, cr, cut, nil) && engine.ReachesAvoidingFrom(cr.Block(), engine.InstrIndex(cr)+1, ret, cut, nil) {
					bad = P.Pos(ret.Pos())
				}
			}
		}
		R.Check(bad == "" && hasTxInScope(f), "R07.1", key, P.Pos(creates[0].Pos()), "every success path that inserts message rows also writes the literal, inside the transaction",
			"a success path ("+bad+") inserts message rows without writing the message literal to the store in the same transaction closure: after a crash or on the next FETCH the listed message has no bytes")
	}
	R.Min("R07.1", "row-creating functions", n, 4)
	// store writes never after the wrapper returned: every message-creating store write is in a function with tx in scope
	for _, f := range c.funcsInPkg("internal/state", "internal/backend") {
		for _, cs := range engine.Calls(f) {
			if !isStoreWrite(cs) {
				continue
			}
			// re-download of an existing message's bytes (cache miss), not a creation: what is written
			// derives from the connector's GetMessageLiteral
			redownload := false
			for _, a := range cs.Common().Args {
				if engine.AnyBackward(a, engine.FlowOpts{Loads: true, Calls: func(call *ssa.Call) []ssa.Value { return call.Call.Args }}, func(x ssa.Value) bool {
					if call, ok := x.(*ssa.Call); ok && call.Call.IsInvoke() && engine.MethodName(call.Call.Method) == "GetMessageLiteral" {
						return true
					}
					if ex, ok := x.(*ssa.Extract); ok {
						if call, ok := ex.Tuple.(*ssa.Call); ok && call.Call.IsInvoke() && engine.MethodName(call.Call.Method) == "GetMessageLiteral" {
							return true
						}
					}
					return false
				}) {
					redownload = true
				}
			}
			if redownload {
				continue
			}
			R.Check(c.txInScopeAtEveryCall(f, 2), "R07.1", c.name(f)+"|store-write-in-tx", P.Pos(cs.Pos()), "literal is written while the creating transaction is still open", "a message literal is written outside the transaction that creates its row: a failure between the two leaves a row without bytes or bytes without a row")
		}
	}

	// ---- R07.2 -----------------------------------------------------------------------
	d := 0
	for _, f := range c.funcsInPkg("internal/state", "internal/backend") {
		for _, cs := range engine.Calls(f) {
			if !isStoreCall(cs, "Delete", "DeleteUnchecked") {
				continue
			}
			d++
			key := c.name(f) + "|store-delete"
			if hasTxInScope(f) {
				R.Fail("R07.2", key, P.Pos(cs.Pos()), "a cache file is deleted inside a transaction: if the transaction then fails the row survives but its bytes are gone")
				continue
			}
			just := ""
			// (a)/(b): dominated by an edge of the error of a call whose closure deletes rows / creates rows
			for _, b := range f.Blocks {
				iff := engine.IfOf(b)
				if iff == nil {
					continue
				}
				bin, ok := iff.Cond.(*ssa.BinOp)
				if !ok || !(engine.IsNilConst(bin.Y) || engine.IsNilConst(bin.X)) {
					continue
				}
				errV := bin.X
				if engine.IsNilConst(bin.X) {
					errV = bin.Y
				}
				var call *ssa.Call
				engine.Backward(errV, engine.FlowOpts{Loads: true}, func(x ssa.Value) bool {
					if cl, ok := x.(*ssa.Call); ok && call == nil {
						call = cl
					}
					return true
				})
				if call == nil {
					continue
				}
				var closure *ssa.Function
				for _, a := range call.Call.Args {
					if fn := engine.FuncValue(a); fn != nil && len(fn.Blocks) > 0 && takesTransaction(fn) {
						closure = fn // closure literal or named function run as the transaction body
					}
				}
				if closure == nil {
					continue
				}
				nilIx, errIx := 1, 0
				if bin.Op.String() == "==" {
					nilIx, errIx = 0, 1
				}
				delRows := callsIn(closure, func(x engine.CallSite) bool { return isInvokeNamed(x, "DeleteMessages") })
				crtRows := callsIn(closure, func(x engine.CallSite) bool { return isRowCreate(x) })
				if delRows && (engine.EdgeDominates(b, nilIx, cs.Instr.Block()) || b.Succs[nilIx].Dominates(cs.Instr.Block())) {
					just = "after the transaction that deleted the rows succeeded"
				}
				if crtRows && engine.EdgeDominates(b, errIx, cs.Instr.Block()) {
					just = "after the transaction that created these ids failed"
				}
			}
			// (c) set difference against the database's ids
			if just == "" {
				for _, a := range cs.Common().Args {
					for _, s := range valueSources(a) {
						if ok, _ := filterJustified(s, "GetAllMessagesIDsAsMap"); ok {
							just = "set difference against GetAllMessagesIDsAsMap"
						}
						if call, ok := s.(*ssa.Call); ok {
							// the difference computed by a helper of the package with a loop: kept elements are decided by a
							// comma-ok lookup in a map parameter, and the map handed in is the database's id set
							if sc := call.Call.StaticCallee(); sc != nil && engine.BaseName(sc) != "Filter" && len(sc.Blocks) > 0 && sc.Parent() == nil && P.IsOwn(sc) {
								for _, hfn := range engine.WithClosures(sc) {
									for _, hb := range hfn.Blocks {
										for _, in := range hb.Instrs {
											lk, isLk := in.(*ssa.Lookup)
											if !isLk || !lk.CommaOk {
												continue
											}
											var q *ssa.Parameter
											engine.Backward(lk.X, engine.FlowOpts{Loads: true}, func(x ssa.Value) bool {
												if pp, ok := x.(*ssa.Parameter); ok && pp.Parent() == sc {
													q = pp
													return false
												}
												return true
											})
											if q == nil {
												continue
											}
											ix := engine.ParamIndex(sc, q)
											if ix < 0 || ix >= len(call.Call.Args) {
												continue
											}
											for _, o := range P.Origins(call.Call.Args[ix], engine.OriginOpts{MaxDepth: 24}) {
												if _, mn, isInv := invokeName(o.V); isInv && mn == "GetAllMessagesIDsAsMap" {
													just = "set difference against GetAllMessagesIDsAsMap"
												}
											}
										}
									}
								}
							}
							if sc := call.Call.StaticCallee(); sc != nil && engine.BaseName(sc) == "Filter" {
								if mc, ok := call.Call.Args[1].(*ssa.MakeClosure); ok {
									for _, bnd := range mc.Bindings {
										for _, o := range P.Origins(bnd, engine.OriginOpts{MaxDepth: 24}) {
											if _, m, isInv := invokeName(o.V); isInv && m == "GetAllMessagesIDsAsMap" {
												just = "set difference against GetAllMessagesIDsAsMap"
											}
										}
									}
								}
							}
						}
					}
				}
			}
			R.Check(just != "", "R07.2", key, P.Pos(cs.Pos()), "cache files deleted "+just, "cache files are deleted without one of the accepted justifications (rows already deleted by a committed transaction / creation failed / not referenced by the database): an acknowledged message can lose its bytes")
		}
	}
	R.Min("R07.2", "store deletion sites", d, 4)

	// ---- R07.3 -----------------------------------------------------------------------
	if nu := c.fn("R07.3", "internal/backend.newUser"); nu != nil {
		for _, want := range []string{"deleteAllMessagesMarkedDeleted", "cleanupStaleStoreData"} {
			var call ssa.Instruction
			for _, cs := range engine.Calls(nu) {
				if sc := cs.Common().StaticCallee(); sc != nil && engine.ShortName(sc) == want {
					call = cs.Instr
				}
			}
			ok := call != nil
			if ok {
				for _, ret := range engine.Returns(nu) {
					if engine.IsNilConst(engine.LastResult(ret)) && !engine.InstrDominates(call, ret) {
						ok = false
					}
				}
			}
			R.Check(ok, "R07.3", c.name(nu)+"|"+want, P.Pos(nu.Pos()), want+" runs on every successful start-up", "newUser can succeed without running "+want+": left-overs of unfinished operations (files without rows, rows marked deleted) survive the restart")
		}
	}
	res := c.sqlAnalysis()
	lim := 0
	for _, st := range res.stmts {
		if st.mig {
			continue
		}
		for _, m := range limitRe.FindAllStringSubmatch(st.text, -1) {
			lim++
			fn := "?"
			if st.fn != nil {
				fn = c.name(st.fn)
			}
			R.Check(m[1] == "1", "R07.3", "stmt|"+fn+"|LIMIT", st.pos, "LIMIT 1 existence/lookup form", "a run-time query is truncated with LIMIT "+m[1]+": callers that expect all rows (clean-up of messages marked deleted, listings) silently handle only a part: "+st.text)
		}
	}
	R.Stats["R07.3 LIMIT clauses in run-time statements"] = lim

	c.txTypestate("R07.4")

	// ---- R07.9 -----------------------------------------------------------------------
	R.Explain("R07.9", "the statements that erase left-overs work for every batch size: T-SQL (engine of C08: valid against the schema, placeholder count = bound arguments on both sides of the chunk limit, batches bounded by xslices.Chunk) restricted to the statements reachable from the start-up clean-up and from the removal of messages marked for deletion (newUser, user.deleteAllMessagesMarkedDeleted, user.removeState, user.cleanupStaleStoreData).  A delete statement prepared once for a full chunk and then run with the shorter last chunk fails; its transaction is rolled back, and the marked messages and their files stay behind on every later start.")
	{
		var rf []*ssa.Function
		for _, r := range []string{"internal/backend.newUser", "internal/backend.(*user).deleteAllMessagesMarkedDeleted", "internal/backend.(*user).removeState", "internal/backend.(*user).cleanupStaleStoreData"} {
			if f := c.fn("R07.9", r); f != nil {
				rf = append(rf, f)
			}
		}
		reach := P.Reachable(rf, engine.ReachOpts{FollowClosures: true, OwnOnly: true})
		res := c.sqlAnalysis()
		n := c.emitSQL(res, "", map[string]string{"R08.1": "R07.9", "R08.2": "R07.9", "R08.3": "R07.9", "R08.4": "R07.9"}, func(o sqlOb) bool {
			if o.fn == nil {
				return false
			}
			_, ok := reach[o.fn]
			return ok
		})
		R.Min("R07.9", "statement obligations reachable from the clean-up paths", n, 10)
	}

	k := c.errorsPropagated("R07.5", []string{"internal/state", "internal/backend"}, func(cs engine.CallSite) (string, bool) {
		if isStoreCall(cs, "Set", "SetUnchecked") {
			return "store.Set", true
		}
		return "", false
	}, "the transaction would commit a row whose bytes were not stored")
	R.Min("R07.5", "store writes of message bytes", k, 5)
}

// c07reads (R07.6): a failed read inside a write transaction aborts it.
func c07reads(c *Ctx) {
	R := c.R
	R.Explain("R07.6", "T-NODROP for reads inside write transactions: in internal/state and internal/backend the error of every read made through a db.Transaction (Get*/…Exists*/… on the transaction of a write closure) is returned, except on the true edge of an explicit not-found classification (db.IsErrNotFound / errors.Is): a read that failed for any other reason must not be treated as 'nothing there' while the transaction goes on to commit the rest (a partly applied update that is acknowledged as done).")
	// accepted idioms, confirmed by reading (one reason each)
	except := map[string]string{
		"internal/state.(*State).Unsubscribe$1|GetMailboxByName":                   "any failure to find the mailbox falls back to the deleted-subscription table; that lookup's own error is returned, nothing is written on this path",
		"internal/backend.(*user).applyMessagesCreated$1|GetMailboxIDFromRemoteID": "skipped only under update.IgnoreUnknownMailboxIDs, the documented option of MessagesCreated for mailboxes the connector has not announced yet",
	}
	var rows []string
	for k, v := range except {
		rows = append(rows, k+": "+v)
	}
	sort.Strings(rows)
	R.Table("R07.6 accepted swallowed reads", rows...)
	k := c.errorsPropagated("R07.6", []string{"internal/state", "internal/backend"}, func(cs engine.CallSite) (string, bool) {
		cc := cs.Common()
		if cc.IsInvoke() && engine.IsNamed(cc.Value.Type(), "db", "Transaction") && !isWriteMethod(engine.MethodName(cc.Method)) {
			if _, ok := except[c.name(cs.Fn)+"|"+engine.MethodName(cc.Method)]; ok {
				return "", false
			}
			return "tx." + engine.MethodName(cc.Method), true
		}
		return "", false
	}, "the transaction continues as if the row did not exist and commits a partial effect")
	R.Min("R07.6", "reads through a write transaction", k, 40)
}

// c07deletedIsMarked (R07.7): a MessageDeleted update marks the message for the clean-up whenever the message is known.
func c07deletedIsMarked(c *Ctx) {
	P, R := c.P, c.R
	R.Explain("R07.7", "deleted messages are marked: in the transaction of user.applyMessageDeleted every nil-error return passes a call of db.Transaction.MarkMessageAsDeleted* (by internal or remote id), except along the true edge of db.IsErrNotFound (the message is unknown).  The start-up and deletion-pool clean-up only erase marked messages; a known message that is removed from its mailboxes without the mark stays in the index and the store for ever.")
	f := c.fn("R07.7", "internal/backend.(*user).applyMessageDeleted")
	if f == nil {
		return
	}
	n := 0
	for _, g := range engine.WithClosures(f) {
		isTxClosure := false
		for _, p := range g.Params {
			if engine.IsNamed(p.Type(), "db", "Transaction") {
				isTxClosure = true
			}
		}
		if !isTxClosure {
			continue
		}
		cut := c.mustCallInstrs(g, func(cc *ssa.CallCommon) bool {
			return cc.IsInvoke() && strings.HasPrefix(engine.MethodName(cc.Method), "MarkMessageAsDeleted")
		}, 2)
		skip := map[engine.Edge]bool{}
		for _, b := range g.Blocks {
			iff := engine.IfOf(b)
			if iff == nil {
				continue
			}
			cond, neg := engine.StripNot(iff.Cond)
			if call, ok := cond.(*ssa.Call); ok && call.Call.StaticCallee() != nil && engine.BaseName(call.Call.StaticCallee()) == "IsErrNotFound" {
				ix := 0
				if neg {
					ix = 1
				}
				skip[engine.Edge{From: b, Succ: ix}] = true
			}
		}
		// error edges: `if err != nil` true edges - returns below them are failure returns
		errEdges := map[engine.Edge]bool{}
		for _, b := range g.Blocks {
			iff := engine.IfOf(b)
			if iff == nil {
				continue
			}
			if bin, ok := iff.Cond.(*ssa.BinOp); ok && (bin.Op == token.NEQ || bin.Op == token.EQL) && (engine.IsNilConst(bin.X) || engine.IsNilConst(bin.Y)) {
				other := bin.X
				if engine.IsNilConst(bin.X) {
					other = bin.Y
				}
				if other.Type().String() == "error" {
					ix := 0
					if bin.Op == token.EQL {
						ix = 1
					}
					errEdges[engine.Edge{From: b, Succ: ix}] = true
				}
			}
		}
		for _, ret := range engine.Returns(g) {
			lr := engine.LastResult(ret)
			if lr == nil {
				continue
			}
			if !engine.IsNilConst(lr) {
				// a failure return (below an `err != nil` edge), or a forwarded call result that may be nil
				onErr := false
				for e := range errEdges {
					if engine.EdgeDominates(e.From, e.Succ, ret.Block()) {
						onErr = true
					}
				}
				if onErr {
					continue
				}
			}
			n++
			bad := len(cut) == 0 || engine.ReachesAvoiding(g, ret, cut, skip)
			R.Check(!bad, "R07.7", c.name(g)+"|success return#"+strconv.Itoa(n), P.Pos(ret.Pos()), "passes MarkMessageAsDeleted* (or the message is unknown)", "applyMessageDeleted can succeed for a known message without marking it as deleted: the message is never erased from the index and the store")
		}
	}
	R.Min("R07.7", "success returns of the MessageDeleted transaction", n, 1)
}
