package rules

import (
	"go/constant"
	"go/token"
	"go/types"
	"regexp"
	"strconv"
	"strings"

	"golang.org/x/tools/go/ssa"

	"verifchecker/internal/engine"
)

func init() { register("C13", c13) }

var fmtVerbRe = regexp.MustCompile(`%[-+# 0]*[0-9]*(\.[0-9]+)?[a-zA-Z%]`)

// sprintfArgs: the operands of a variadic fmt call, in order (nil if not statically visible).
func sprintfArgs(cc *ssa.CallCommon, first int) []ssa.Value {
	if len(cc.Args) <= first {
		return nil
	}
	sl, ok := cc.Args[first].(*ssa.Slice)
	if !ok {
		return nil
	}
	al, ok := sl.X.(*ssa.Alloc)
	if !ok {
		return nil
	}
	at, ok := al.Type().Underlying().(*types.Pointer).Elem().Underlying().(*types.Array)
	if !ok {
		return nil
	}
	out := make([]ssa.Value, at.Len())
	for _, r := range *al.Referrers() {
		ia, ok := r.(*ssa.IndexAddr)
		if !ok {
			continue
		}
		k, ok := ia.Index.(*ssa.Const)
		if !ok {
			return nil
		}
		for _, st := range engine.StoresTo(ia) {
			out[k.Int64()] = st.Val
		}
	}
	return out
}

func stripIface(v ssa.Value) ssa.Value {
	for {
		switch t := v.(type) {
		case *ssa.MakeInterface:
			v = t.X
		case *ssa.ChangeType:
			v = t.X
		default:
			return v
		}
	}
}

func c13(c *Ctx) {
	c.sectionDispatch()
	c.partStartsAtScanStart()
	c.headerEndsAtFirstEmptyLine()
	c.emptyPartsAreParts()
	c.unconditionalCopiesAreNonFields()
	c.announcedSizeIsSumOfParts("R13.11")
	c.sectionWindow("R13.5")
	P, R := c.P, c.R
	c.singleIDHeader("R13.4")
	R.Explain("R13.1", "literal framing: every format string that announces an IMAP literal (`{%v}\\r\\n%s`) receives len(E) for the count and the same E (same receiver field, not written in between) for the bytes — the announced length equals the bytes that follow.")
	R.Explain("R13.2", "partial slicing: in internal/response every slice expression X[l:h] on a byte sequence is proved in-range against len(X) (l <= len(X), h <= len(X)) from the branch conditions that dominate it, by linear-inequality entailment (Fourier–Motzkin over the dominating comparisons, case split on phis).  Go itself only checks h against cap(X): a bound between len and cap silently returns bytes that follow the section.  l <= h (a panic, not wrong bytes) needs count >= 0, a value-range fact, and is not decided.")
	R.Explain("R13.3", "HEADER.FIELDS / HEADER.FIELDS.NOT partition: both rfc822.Header.Fields and FieldsNot decide each keyed header entry by one lookup of the entry's mapKey in a set built with strings.ToLower from the requested names; Fields appends the entry exactly on the found edge and FieldsNot exactly on the not-found edge; what is appended is the entry's getAll bytes; every write of headerEntry.mapKey stores a strings.ToLower result (both sides normalise identically).")

	// ---- R13.1 ------------------------------------------------------------------------
	n := 0
	for _, f := range c.productFuncs() {
		var stable func(ssa.Value, string) string
		for _, cs := range engine.Calls(f) {
			sc := cs.Common().StaticCallee()
			if sc == nil || engine.PkgPathOf(sc) != "fmt" {
				continue
			}
			fi := -1
			switch engine.ShortName(sc) {
			case "Sprintf", "Errorf":
				fi = 0
			case "Fprintf":
				fi = 1
			default:
				continue
			}
			format, ok := engine.ConstString(cs.Common().Args[fi])
			if !ok || !strings.Contains(format, "}\r\n") {
				continue
			}
			verbs := fmtVerbRe.FindAllStringIndex(format, -1)
			// locate "{%v}\r\n%s"
			for vi, loc := range verbs {
				if loc[0] == 0 || format[loc[0]-1] != '{' || !strings.HasPrefix(format[loc[1]:], "}\r\n") {
					continue
				}
				n++
				key := c.name(f) + "|literal-framing"
				args := sprintfArgs(cs.Common(), fi+1)
				if stable == nil {
					stable = engine.PathVersions(f)
				}
				okk, why := false, ""
				switch {
				case args == nil || vi+1 >= len(args) || vi+1 >= len(verbs):
					why = "the operands of the literal header are not statically visible"
				case loc[1]+3 != verbs[vi+1][0]:
					why = "the literal bytes do not directly follow the {n}CRLF header"
				default:
					cnt, data := stripIface(args[vi]), stripIface(args[vi+1])
					lc, isLen := engine.IsBuiltinCall(cnt, "len")
					if !isLen {
						why = "the announced count is not len(...) of the bytes written"
					} else {
						pa, pb := engine.AccessPath(lc.Call.Args[0]), engine.AccessPath(data)
						va, vb := "", ""
						if pa != "" && pb != "" {
							va, vb = stable(lc.Call.Args[0], pa), stable(data, pb)
						}
						if lc.Call.Args[0] == data || (pa != "" && pa == pb && va != "" && va == vb) {
							okk = true
						} else {
							why = "the announced count is len(" + valName(lc.Call.Args[0]) + ") but the bytes written are " + valName(data)
						}
					}
				}
				R.Check(okk, "R13.1", key, P.Pos(cs.Pos()), "count operand is len() of the very bytes written", why+": the client reads a different number of bytes than announced and the rest of the stream is mis-framed")
			}
		}
	}
	R.Min("R13.1", "literal framing sites", n, 4)

	// ---- R13.2 ------------------------------------------------------------------------
	m := 0
	for _, f := range c.funcsInPkg("internal/response") {
		var stable func(ssa.Value, string) string
		for _, b := range f.Blocks {
			for _, in := range b.Instrs {
				sl, ok := in.(*ssa.Slice)
				if !ok {
					continue
				}
				if _, isArr := sl.X.Type().Underlying().(*types.Pointer); isArr {
					continue // slicing a local array (varargs packing)
				}
				if sl.Low == nil && sl.High == nil {
					continue
				}
				m++
				if stable == nil {
					stable = engine.PathVersions(f)
				}
				key := fmtf("%s|slice %s[%s:%s]", c.name(f), valName(sl.X), optName(sl.Low), optName(sl.High))
				why := proveSliceInLen(f, sl, stable)
				R.Check(why == "", "R13.2", key, P.Pos(sl.Pos()), "both bounds proved <= len from the dominating comparisons", why+": bytes beyond the section (up to the capacity of the underlying message buffer) would be returned, or the fetch panics")
			}
		}
	}
	R.Min("R13.2", "slice expressions in internal/response", m, 1)

	// ---- R13.3 ------------------------------------------------------------------------
	mapKey := c.fieldOf("rfc822", "headerEntry", "mapKey")
	for _, spec := range []struct {
		name      string
		onFound   bool
		otherName string
	}{{"rfc822.(*Header).Fields", true, ""}, {"rfc822.(*Header).FieldsNot", false, ""}} {
		f := c.fn("R13.3", spec.name)
		if f == nil {
			continue
		}
		key := spec.name + "|partition"
		// the two may share one selector function that is told the polarity: analyse it with the
		// constant arguments of this caller
		constParam := map[*ssa.Parameter]bool{}
		hasLookup := false
		for _, b := range f.Blocks {
			for _, in := range b.Instrs {
				if l, ok := in.(*ssa.Lookup); ok && l.CommaOk {
					hasLookup = true
				}
			}
		}
		if !hasLookup {
			for _, cs := range engine.Calls(f) {
				g := cs.Common().StaticCallee()
				if g == nil || len(g.Blocks) == 0 || engine.RelPkg(P.OwnPkgPath(g)) != "rfc822" || cs.Instr.Parent() != f {
					continue
				}
				gl := false
				for _, b := range g.Blocks {
					for _, in := range b.Instrs {
						if l, ok := in.(*ssa.Lookup); ok && l.CommaOk {
							gl = true
						}
					}
				}
				if !gl {
					continue
				}
				for i, a := range cs.Common().Args {
					if k, ok := a.(*ssa.Const); ok && i < len(g.Params) {
						if bv, isBool := engine.ConstBool(k); isBool {
							constParam[g.Params[i]] = bv
						}
					}
				}
				f = g
				break
			}
		}
		// the membership lookup
		var look *ssa.Lookup
		for _, b := range f.Blocks {
			for _, in := range b.Instrs {
				if l, ok := in.(*ssa.Lookup); ok && l.CommaOk {
					if _, isMap := l.X.Type().Underlying().(*types.Map); isMap {
						if look != nil {
							look = nil
							R.Fail("R13.3", key, P.Pos(l.Pos()), "more than one membership lookup decides an entry")
							goto next
						}
						look = l
					}
				}
			}
		}
		if look == nil {
			R.Fail("R13.3", key, P.Pos(f.Pos()), "no single set lookup decides the entries")
			continue
		}
		{
			// key operand: load of entry.mapKey
			kOK := false
			if u, ok := look.Index.(*ssa.UnOp); ok {
				if fa, ok := u.X.(*ssa.FieldAddr); ok && fieldOfAddr(fa) == mapKey {
					kOK = true
				}
			}
			// set keys: every MapUpdate of the same map stores strings.ToLower(range element)
			setOK, updates := true, 0
			// the set may be built here or by a helper of the package that returns it
			type setSrc struct {
				fn *ssa.Function
				m  ssa.Value
			}
			srcs := []setSrc{{f, look.X}}
			if call, ok := look.X.(*ssa.Call); ok {
				if g := call.Call.StaticCallee(); g != nil && len(g.Blocks) > 0 && engine.RelPkg(P.OwnPkgPath(g)) == "rfc822" {
					srcs = nil
					for _, ret := range engine.Returns(g) {
						if len(ret.Results) == 1 {
							srcs = append(srcs, setSrc{g, ret.Results[0]})
						}
					}
				}
			}
			for _, src := range srcs {
				if _, isMake := src.m.(*ssa.MakeMap); !isMake {
					setOK = false // a set of unknown making
				}
				for _, b := range src.fn.Blocks {
					for _, in := range b.Instrs {
						if mu, ok := in.(*ssa.MapUpdate); ok && mu.Map == src.m {
							updates++
							call, ok := mu.Key.(*ssa.Call)
							if !ok || call.Call.StaticCallee() == nil || call.Call.StaticCallee().String() != "strings.ToLower" {
								setOK = false
							}
						}
					}
				}
			}
			// polarity, decided per path through one iteration of the entry loop: the conditions on a path are
			// read as atoms (listed = the lookup's ok, keyed = entry.hasKey(), anything else is free); on every
			// path that tests `listed` for an entry not known to be key-less, the entry's bytes are appended
			// exactly when listed has the wanted value; a path that appends without testing `listed` must not
			// be one on which the entry is known to have a key.
			var okEx ssa.Value
			for _, r := range *look.Referrers() {
				if ex, ok := r.(*ssa.Extract); ok && ex.Index == 1 {
					okEx = ex
				}
			}
			var header *ssa.BasicBlock
			var body map[*ssa.BasicBlock]bool
			for _, h := range f.Blocks {
				if lb := engine.LoopBody(h); lb != nil && lb[look.Block()] && (body == nil || len(lb) < len(body)) {
					header, body = h, lb
				}
			}
			isAppendAll := func(in ssa.Instruction) bool {
				call, ok := in.(*ssa.Call)
				if !ok {
					return false
				}
				if bi, ok := call.Call.Value.(*ssa.Builtin); !ok || bi.Name() != "append" {
					return false
				}
				src, ok := call.Call.Args[1].(*ssa.Call)
				return ok && src.Call.StaticCallee() != nil && engine.ShortName(src.Call.StaticCallee()) == "getAll"
			}
			polOK, polWhy := false, "the lookup result does not decide a branch inside the loop over the entries"
			if okEx != nil && header != nil {
				type tv int // 0 unknown, 1 true, 2 false
				neg := func(t tv) tv {
					switch t {
					case 1:
						return 2
					case 2:
						return 1
					}
					return 0
				}
				// eval: the condition as (atom, polarity) or a constant; atom "" = free
				var eval func(v ssa.Value, from map[*ssa.BasicBlock]*ssa.BasicBlock, at *ssa.BasicBlock, d int) (atom string, pos bool, konst tv)
				eval = func(v ssa.Value, from map[*ssa.BasicBlock]*ssa.BasicBlock, at *ssa.BasicBlock, d int) (string, bool, tv) {
					if d > 6 {
						return "", true, 0
					}
					switch t := v.(type) {
					case *ssa.Const:
						if bv, ok := engine.ConstBool(t); ok {
							if bv {
								return "", true, 1
							}
							return "", true, 2
						}
					case *ssa.Parameter:
						if pv, known := constParam[t]; known {
							if pv {
								return "", true, 1
							}
							return "", true, 2
						}
					case *ssa.Extract:
						if ssa.Value(t) == okEx {
							return "listed", true, 0
						}
					case *ssa.Call:
						if sc := t.Call.StaticCallee(); sc != nil && engine.ShortName(sc) == "hasKey" {
							return "keyed", true, 0
						}
					case *ssa.UnOp:
						if t.Op == token.NOT {
							a, p, k := eval(t.X, from, at, d+1)
							return a, !p, neg(k)
						}
					case *ssa.BinOp:
						if t.Op == token.EQL || t.Op == token.NEQ {
							a1, p1, k1 := eval(t.X, from, at, d+1)
							a2, p2, k2 := eval(t.Y, from, at, d+1)
							if a1 != "" && k2 != 0 {
								a1, p1, k1, a2, p2, k2 = a2, p2, k2, a1, p1, k1
							}
							if a2 != "" && k1 != 0 {
								same := k1 == 1
								if t.Op == token.NEQ {
									same = !same
								}
								if same {
									return a2, p2, 0
								}
								return a2, !p2, 0
							}
							_, _ = p1, a1
						}
					case *ssa.Phi:
						if pred, ok := from[t.Block()]; ok {
							for i, pb := range t.Block().Preds {
								if pb == pred {
									return eval(t.Edges[i], from, pred, d+1)
								}
							}
						}
					}
					return "", true, 0
				}
				type verdict struct{ listed, keyed tv }
				bad := ""
				tested := 0
				var walk func(b *ssa.BasicBlock, from map[*ssa.BasicBlock]*ssa.BasicBlock, asg map[string]tv, appended bool, depth int)
				finish := func(asg map[string]tv, appended bool, where *ssa.BasicBlock) {
					l, k := asg["listed"], asg["keyed"]
					if l != 0 {
						tested++
						if k == 2 {
							return
						}
						want := (l == 1) == spec.onFound
						if appended != want && bad == "" {
							if spec.onFound {
								bad = "Fields must append the entry exactly when its key is found in the requested set"
							} else {
								bad = "FieldsNot must append the entry exactly when its key is not found in the requested set"
							}
						}
						return
					}
					if appended && k == 1 && bad == "" {
						bad = "an entry known to have a key is appended on a path that never consults the requested set"
					}
				}
				walk = func(b *ssa.BasicBlock, from map[*ssa.BasicBlock]*ssa.BasicBlock, asg map[string]tv, appended bool, depth int) {
					if depth > 64 || bad != "" {
						return
					}
					for _, in := range b.Instrs {
						if isAppendAll(in) {
							appended = true
						}
					}
					next := func(s *ssa.BasicBlock, asg2 map[string]tv) {
						if s == header || !body[s] {
							finish(asg2, appended, b)
							return
						}
						if _, seen := from[s]; seen {
							return // an inner cycle: not unrolled
						}
						f2 := map[*ssa.BasicBlock]*ssa.BasicBlock{}
						for k, v := range from {
							f2[k] = v
						}
						f2[s] = b
						walk(s, f2, asg2, appended, depth+1)
					}
					iff := engine.IfOf(b)
					if iff == nil {
						for _, s := range b.Succs {
							next(s, asg)
						}
						return
					}
					atom, pos, k := eval(iff.Cond, from, b, 0)
					for ix, s := range b.Succs {
						val := tv(1)
						if ix == 1 {
							val = 2
						}
						if k != 0 {
							if k != val {
								continue
							}
							next(s, asg)
							continue
						}
						if atom == "" {
							next(s, asg)
							continue
						}
						av := val
						if !pos {
							av = neg(val)
						}
						if cur := asg[atom]; cur != 0 && cur != av {
							continue // contradicts an earlier test on this path
						}
						a2 := map[string]tv{}
						for k2, v2 := range asg {
							a2[k2] = v2
						}
						a2[atom] = av
						next(s, a2)
					}
				}
				for _, s := range header.Succs {
					if body[s] {
						walk(s, map[*ssa.BasicBlock]*ssa.BasicBlock{s: header}, map[string]tv{}, false, 0)
					}
				}
				_ = verdict{}
				switch {
				case bad != "":
					polWhy = bad
				case tested == 0:
					polWhy = "no path through the entry loop tests the lookup result"
				default:
					polOK = true
				}
			}
			why := ""
			switch {
			case !kOK:
				why = "the lookup key is not the entry's mapKey"
			case !setOK || updates == 0:
				why = "the set of requested names is not built with strings.ToLower on every element"
			case !polOK:
				why = polWhy
			}
			R.Check(why == "", "R13.3", key, P.Pos(look.Pos()), "one lookup of entry.mapKey in the lower-cased request set decides the entry with the right polarity", why+": a header field is returned by both or by neither of HEADER.FIELDS / HEADER.FIELDS.NOT")
		}
	next:
	}
	// writers of mapKey
	w := 0
	for _, f := range c.funcsInPkg("rfc822") {
		for _, b := range f.Blocks {
			for _, in := range b.Instrs {
				st, ok := in.(*ssa.Store)
				if !ok {
					continue
				}
				fa, ok := st.Addr.(*ssa.FieldAddr)
				if !ok || fieldOfAddr(fa) != mapKey {
					continue
				}
				w++
				good := false
				if call, ok := st.Val.(*ssa.Call); ok && call.Call.StaticCallee() != nil && call.Call.StaticCallee().String() == "strings.ToLower" {
					good = true
				}
				if k, ok := st.Val.(*ssa.Const); ok && k.Value != nil && k.Value.ExactString() == `""` {
					good = true
				}
				R.Check(good, "R13.3", c.name(f)+"|store mapKey", P.Pos(st.Pos()), "mapKey is a strings.ToLower result", "headerEntry.mapKey is written with a value that is not lower-cased with strings.ToLower: the FIELDS/FIELDS.NOT sets are compared under a different normalisation than the entries")
			}
		}
	}
	// struct-literal initialisation of headerEntry goes through Stores to FieldAddr too (heap alloc); count guard:
	R.Min("R13.3", "writers of headerEntry.mapKey", w, 1)
}

func optName(v ssa.Value) string {
	if v == nil {
		return ""
	}
	return valExpr(v, 0)
}

// valExpr renders small integer expressions for obligation keys (stable across line changes).
func valExpr(v ssa.Value, d int) string {
	if d > 4 {
		return "…"
	}
	switch t := v.(type) {
	case *ssa.BinOp:
		return valExpr(t.X, d+1) + t.Op.String() + valExpr(t.Y, d+1)
	case *ssa.Const:
		return t.Value.ExactString()
	case *ssa.Parameter:
		return t.Name()
	case *ssa.Phi:
		if t.Comment != "" {
			return t.Comment
		}
		return "phi"
	case *ssa.Call:
		if c, ok := engine.IsBuiltinCall(t, "len"); ok {
			return "len(" + valName(c.Call.Args[0]) + ")"
		}
	}
	if p := engine.AccessPath(v); p != "" {
		return p
	}
	return "v"
}

// proveSliceInLen proves Low <= len(X) and High <= len(X) at the slice; "" when proved.
func proveSliceInLen(f *ssa.Function, sl *ssa.Slice, stable func(ssa.Value, string) string) string {
	var goals []struct {
		v    ssa.Value
		what string
	}
	if sl.Low != nil {
		goals = append(goals, struct {
			v    ssa.Value
			what string
		}{sl.Low, "low bound"})
	}
	if sl.High != nil {
		goals = append(goals, struct {
			v    ssa.Value
			what string
		}{sl.High, "high bound"})
	}
	lenAtom := "len(" + (&engine.LinEnv{Fn: f, PathVersion: stable}).AtomName(sl.X) + ")"
	for _, g := range goals {
		if !proveLE(f, sl.Block(), g.v, lenAtom, stable, map[*ssa.Phi]ssa.Value{}, nil, 0) {
			return "cannot prove " + g.what + " " + valExpr(g.v, 0) + " <= " + lenAtom + " from the conditions that dominate the slice"
		}
	}
	return ""
}

// proveLE: facts(at block) [+ extra] ⊨ v <= atom ; phis in v are split per incoming edge.
func proveLE(f *ssa.Function, at *ssa.BasicBlock, v ssa.Value, atom string, stable func(ssa.Value, string) string, subst map[*ssa.Phi]ssa.Value, extra []engine.Constraint, depth int) bool {
	env := &engine.LinEnv{Fn: f, Subst: subst, PathVersion: stable, Phis: map[*ssa.Phi]bool{}}
	lhs := env.Lin(v)
	rhs := engine.NewLin(0)
	rhs.Coef[atom] = engine.One()
	facts := append(env.FactsAt(at), extra...)
	// lengths are non-negative
	facts = append(facts, engine.Constraint{L: engine.NewLin(0).AddScaled(rhs, -1)})
	if engine.Entails(facts, lhs, rhs) {
		return true
	}
	if depth >= 4 {
		return false
	}
	// case split on one unsubstituted phi occurring in the goal
	for phi := range env.Phis {
		all := true
		for i, e := range phi.Edges {
			s2 := map[*ssa.Phi]ssa.Value{}
			for k, x := range subst {
				s2[k] = x
			}
			s2[phi] = e
			env2 := &engine.LinEnv{Fn: f, Subst: s2, PathVersion: stable}
			ex := append(append([]engine.Constraint{}, extra...), env2.FactsOnEdge(phi.Block().Preds[i], phi.Block())...)
			if !proveLE(f, at, v, atom, stable, s2, ex, depth+1) {
				all = false
				break
			}
		}
		if all {
			return true
		}
		return false
	}
	return false
}

// singleIDHeader (R13.4 / R06.7): the server's ID header is inserted once.
func (c *Ctx) singleIDHeader(rule string) {
	P, R := c.P, c.R
	R.Explain(rule, "the internal-ID header is spliced in exactly once: the literal handed to rfc822.SetHeaderValue / SetHeaderValueNoMemCopy (which prepend a header line, they do not replace one) never derives from the result of an earlier SetHeaderValue* call in the same function - otherwise the stored message carries two ID lines, BODY[] is no longer 'the appended message plus one ID line', and a re-delivered identical update no longer compares equal to what is stored.")
	isSet := func(v ssa.Value) bool {
		var call *ssa.Call
		switch t := v.(type) {
		case *ssa.Call:
			call = t
		case *ssa.Extract:
			call, _ = t.Tuple.(*ssa.Call)
		}
		if call == nil {
			return false
		}
		sc := call.Call.StaticCallee()
		return sc != nil && strings.HasPrefix(engine.ShortName(sc), "SetHeaderValue") && engine.RelPkg(P.OwnPkgPath(sc)) == "rfc822"
	}
	n := 0
	for _, f := range c.productFuncs() {
		if engine.RelPkg(P.OwnPkgPath(f)) == "rfc822" {
			continue
		}
		for _, cs := range engine.Calls(f) {
			sc := cs.Common().StaticCallee()
			if sc == nil || !strings.HasPrefix(engine.ShortName(sc), "SetHeaderValue") || engine.RelPkg(P.OwnPkgPath(sc)) != "rfc822" {
				continue
			}
			n++
			twice := engine.AnyBackward(cs.Common().Args[0], engine.FlowOpts{Loads: true}, func(x ssa.Value) bool { return isSet(x) })
			R.Check(!twice, rule, c.name(f)+"|SetHeaderValue-input", P.Pos(cs.Pos()), "the literal given the ID header has not been given one before", "the literal passed to "+engine.ShortName(sc)+" can be the result of an earlier SetHeaderValue call: the stored message gets two ID header lines (byte-exactness and update idempotence are lost)")
		}
	}
	R.Min(rule, "ID header insertions", n, 4)
}

// sectionDispatch (R13.6): BODY[<section>] keywords are served by the right part of the message.
func (c *Ctx) sectionDispatch() {
	P, R := c.P, c.R
	R.Explain("R13.6", "section keyword table: in fetchBodySection each BodySection type returns what RFC 3501 6.4.5 names - MIME: the part's own header (never through the embedded-message handling); HEADER / TEXT: header / body after the embedded message/rfc822 handling; HEADER.FIELDS[.NOT]: Fields / FieldsNot of that header, FieldsNot exactly on the Negate edge; no section: the part's body - and renderSection names the same types MIME/HEADER/TEXT/HEADER.FIELDS[.NOT].  Two keywords sharing one case is reported.")
	f := c.fn("R13.6", "internal/state.fetchBodySection")
	if f == nil {
		return
	}
	type want struct {
		methods  []string
		embedded bool
	}
	spec := map[string]want{
		"BodySectionMIME":         {[]string{"Header"}, false},
		"BodySectionHeader":       {[]string{"Header"}, true},
		"BodySectionText":         {[]string{"Body"}, true},
		"BodySectionHeaderFields": {[]string{"Fields", "FieldsNot"}, true},
	}
	// does v derive from a call of a local closure / helper that re-parses an embedded message (calls rfc822.Parse)?
	throughEmbedded := func(v ssa.Value) bool {
		return engine.AnyBackward(v, engine.FlowOpts{Loads: true, Calls: func(call *ssa.Call) []ssa.Value { return call.Call.Args }}, func(x ssa.Value) bool {
			var call *ssa.Call
			switch t := x.(type) {
			case *ssa.Call:
				call = t
			case *ssa.Extract:
				call, _ = t.Tuple.(*ssa.Call)
			}
			if call == nil {
				return false
			}
			g := engine.FuncValue(call.Call.Value)
			if g == nil {
				g = call.Call.StaticCallee()
			}
			if g == nil || len(g.Blocks) == 0 || !P.IsOwn(g) || engine.RelPkg(P.OwnPkgPath(g)) != "internal/state" {
				return false
			}
			for _, cs := range engine.Calls(g) {
				if sc := cs.Common().StaticCallee(); sc != nil && engine.ShortName(sc) == "Parse" && engine.RelPkg(P.OwnPkgPath(sc)) == "rfc822" {
					return true
				}
			}
			return false
		})
	}
	seenTypes := map[string]bool{}
	for _, b := range f.Blocks {
		for _, in := range b.Instrs {
			ta, ok := in.(*ssa.TypeAssert)
			if !ok || !ta.CommaOk {
				continue
			}
			nt := engine.NamedOf(ta.AssertedType)
			if nt == nil {
				continue
			}
			w, isSpec := spec[nt.Obj().Name()]
			if !isSpec {
				continue
			}
			iff := engine.IfOf(b)
			if iff == nil {
				continue
			}
			seenTypes[nt.Obj().Name()] = true
			key := "fetchBodySection|" + nt.Obj().Name()
			okCase, why := true, ""
			nret := 0
			for _, ret := range engine.Returns(f) {
				if !engine.EdgeDominates(b, 0, ret.Block()) {
					continue
				}
				if lr := engine.LastResult(ret); lr == nil || !engine.IsNilConst(lr) {
					continue
				}
				nret++
				call, isCall := engine.ResultOf(ret, 0).(*ssa.Call)
				if !isCall || call.Call.StaticCallee() == nil || len(call.Call.Args) == 0 {
					okCase, why = false, "the returned bytes are not the result of a Section/Header accessor"
					continue
				}
				m := engine.ShortName(call.Call.StaticCallee())
				found := false
				for _, x := range w.methods {
					if x == m {
						found = true
					}
				}
				if !found {
					okCase, why = false, "returns "+m+"() where "+strings.Join(w.methods, "/")+"() is specified"
				}
				if emb := throughEmbedded(call.Call.Args[0]); emb != w.embedded {
					if w.embedded {
						okCase, why = false, "does not apply the embedded message/rfc822 handling"
					} else {
						okCase, why = false, "goes through the embedded message/rfc822 handling (MIME is the part's own header)"
					}
				}
				if len(w.methods) == 2 {
					// FieldsNot exactly on the Negate-true edge
					onNegate := false
					for _, d := range f.Blocks {
						i2 := engine.IfOf(d)
						if i2 == nil {
							continue
						}
						if u, ok := i2.Cond.(*ssa.UnOp); ok {
							if fa, ok := u.X.(*ssa.FieldAddr); ok && fieldOfAddr(fa).Name() == "Negate" && engine.EdgeDominates(d, 0, ret.Block()) {
								onNegate = true
							}
						}
					}
					if onNegate != (m == "FieldsNot") {
						okCase, why = false, m+"() is returned on the wrong edge of section.Negate"
					}
				}
			}
			if nret == 0 {
				okCase, why = false, "no successful return is specific to this keyword (it shares a case with another keyword or falls through)"
			}
			R.Check(okCase, "R13.6", key, P.Pos(ta.Pos()), "returns "+strings.Join(w.methods, "/")+fmtf(" (embedded handling: %v)", w.embedded), why+": BODY["+strings.TrimPrefix(nt.Obj().Name(), "BodySection")+"] returns other bytes than the named section")
		}
	}
	for name := range spec {
		if !seenTypes[name] {
			R.Fail("R13.6", "fetchBodySection|"+name, P.Pos(f.Pos()), "no case for "+name)
		}
	}
	R.Min("R13.6", "section keyword cases", len(seenTypes), 4)
}

// partStartsAtScanStart (R13.7): the MIME splitter hands out a part's bytes from the position at which
// the scan for that part started, and records that same position as the part's offset.
func (c *Ctx) partStartsAtScanStart() {
	P, R := c.P, c.R
	R.Explain("R13.7", "part bytes start where the scan started: every non-nil slice returned by rfc822.(*ByteScanner).readToBoundary is a slice s.data[start:...] whose start is s.progress read once on entry — the read is outside every loop and no write of s.progress can precede it — because the function skips false delimiter matches by advancing s.progress inside its loop; and ScanAll stores, as Part.Offset, s.progress read immediately before the readToBoundary call whose first result it stores as Part.Data.  A later start loses the bytes before a skipped false match; a disagreeing offset makes the parser cut the part from the wrong place.")
	f := c.fn("R13.7", "rfc822.(*ByteScanner).readToBoundary")
	progress := c.fieldOf("rfc822", "ByteScanner", "progress")
	data := c.fieldOf("rfc822", "ByteScanner", "data")
	n := 0
	if f != nil && progress != nil && data != nil {
		var stores []ssa.Instruction
		for _, b := range f.Blocks {
			for _, in := range b.Instrs {
				if st, ok := in.(*ssa.Store); ok && fieldAddrIs(st.Addr, progress) {
					stores = append(stores, st)
				}
			}
		}
		var leafs func(v ssa.Value, seen map[ssa.Value]bool, out *[]ssa.Value)
		leafs = func(v ssa.Value, seen map[ssa.Value]bool, out *[]ssa.Value) {
			if seen[v] {
				return
			}
			seen[v] = true
			if phi, ok := v.(*ssa.Phi); ok {
				for _, e := range phi.Edges {
					leafs(e, seen, out)
				}
				return
			}
			*out = append(*out, v)
		}
		for _, ret := range engine.Returns(f) {
			var vs []ssa.Value
			leafs(engine.ResultOf(ret, 0), map[ssa.Value]bool{}, &vs)
			for _, v := range vs {
				if engine.IsNilConst(v) {
					continue
				}
				n++
				why := ""
				sl, ok := v.(*ssa.Slice)
				switch {
				case !ok:
					why = "the returned bytes are not a slice expression of s.data"
				default:
					x, okx := sl.X.(*ssa.UnOp)
					if !okx || !fieldAddrIs(x.X, data) {
						why = "the returned slice is not taken from s.data"
						break
					}
					lo, okl := sl.Low.(*ssa.UnOp)
					if sl.Low == nil || !okl || !fieldAddrIs(lo.X, progress) {
						why = "the slice does not start at a read of s.progress"
						break
					}
					if BlockInCycle(lo.Block()) {
						why = "the start position is re-read inside the scanning loop (" + P.Pos(lo.Pos()) + "), after false matches were skipped"
						break
					}
					for _, st := range stores {
						if engine.InstrReaches(st, lo) {
							why = "s.progress can be advanced (" + P.Pos(st.Pos()) + ") before the start position is read"
						}
					}
				}
				R.Check(why == "", "R13.7", c.name(f)+"|returned part starts at scan start|#"+strconv.Itoa(n), P.Pos(ret.Pos()), "s.data[entry progress : ...]", why)
			}
		}
	}
	R.Min("R13.7", "non-nil part returns of readToBoundary", n, 3)

	g := c.fn("R13.7", "rfc822.(*ByteScanner).ScanAll")
	offFld := c.fieldOf("rfc822", "Part", "Offset")
	dataFld := c.fieldOf("rfc822", "Part", "Data")
	m := 0
	if g != nil && f != nil && offFld != nil && dataFld != nil {
		for _, b := range g.Blocks {
			for _, in := range b.Instrs {
				st, ok := in.(*ssa.Store)
				if !ok || !fieldAddrIs(st.Addr, offFld) {
					continue
				}
				m++
				why := ""
				lo, okl := st.Val.(*ssa.UnOp)
				if !okl || !fieldAddrIs(lo.X, progress) {
					why = "Part.Offset is not a read of s.progress"
				} else {
					// the next call after the read must be readToBoundary, with no write of progress between
					var next *ssa.Call
					blk := lo.Block()
					for _, in2 := range blk.Instrs[engine.InstrIndex(lo)+1:] {
						if st2, ok := in2.(*ssa.Store); ok && fieldAddrIs(st2.Addr, progress) {
							why = "s.progress is written between the offset read and the scan"
							break
						}
						if call, ok := in2.(*ssa.Call); ok {
							next = call
							break
						}
					}
					if why == "" && (next == nil || next.Call.StaticCallee() != f) {
						why = "the offset is not read immediately before the readToBoundary call"
					}
					if why == "" {
						// Part.Data stored in the same composite must be result 0 of that call
						okData := false
						for _, in3 := range st.Block().Instrs {
							if st3, ok := in3.(*ssa.Store); ok && fieldAddrIs(st3.Addr, dataFld) {
								if ex, ok := st3.Val.(*ssa.Extract); ok && ex.Index == 0 && ex.Tuple == ssa.Value(next) {
									okData = true
								}
							}
						}
						if !okData {
							why = "Part.Data is not the first result of the readToBoundary call that follows the offset read"
						}
					}
				}
				R.Check(why == "", "R13.7", c.name(g)+"|Part.Offset is the scan start", P.Pos(st.Pos()), "Offset = s.progress before readToBoundary; Data = its result", why)
			}
		}
	}
	R.Min("R13.7", "Part.Offset stores in ScanAll", m, 1)
}

// BlockInCycle reports whether b can reach itself.
func BlockInCycle(b *ssa.BasicBlock) bool {
	for _, s := range b.Succs {
		if engine.BlocksReachableFrom(s)[b] {
			return true
		}
	}
	return false
}

// headerEndsAtFirstEmptyLine (R13.8): the header/body split is found line by line.
func (c *Ctx) headerEndsAtFirstEmptyLine() {
	P, R := c.P, c.R
	R.Explain("R13.8", "the header ends at the first empty line, whatever ends the lines: rfc822.Split (used for the message, every MIME part and embedded messages) looks for its split point only with single-byte searches (bytes.Index / IndexByte for one byte, i.e. the next line break) and returns b[0:k], b[k:] with one k.  A search for a fixed multi-byte terminator (\"\\r\\n\\r\\n\") misses an empty first line and bare-LF or mixed line endings and puts the boundary - hence BODY[HEADER], BODY[TEXT], BODY[n] and BODY[n.MIME] - in the wrong place.  A rewrite that decides the split by a multi-byte pattern search is reported even if it were to handle those cases by other means.")
	f := c.fn("R13.8", "rfc822.Split")
	if f == nil {
		return
	}
	n := 0
	for _, cs := range engine.Calls(f) {
		sc := cs.Common().StaticCallee()
		if sc == nil {
			continue
		}
		pk := engine.PkgPathOf(sc)
		if pk != "bytes" && pk != "strings" {
			continue
		}
		switch sc.Name() {
		case "Index", "LastIndex", "Cut", "Split", "SplitN", "SplitAfter", "SplitAfterN", "Contains", "HasPrefix", "HasSuffix":
		case "IndexByte", "LastIndexByte", "IndexRune":
			n++ // a single-byte search by construction
			continue
		default:
			continue
		}
		if len(cs.Common().Args) < 2 {
			continue
		}
		n++
		pat := cs.Common().Args[1]
		one := false
		if sl, ok := pat.(*ssa.Slice); ok {
			if al, ok := sl.X.(*ssa.Alloc); ok {
				if arr, ok := al.Type().Underlying().(*types.Pointer).Elem().Underlying().(*types.Array); ok && arr.Len() == 1 {
					one = true
				}
			}
		}
		if k, ok := pat.(*ssa.Const); ok && k.Value != nil && k.Value.Kind() == constant.String && len(constant.StringVal(k.Value)) == 1 {
			one = true
		}
		R.Check(one, "R13.8", c.name(f)+"|"+pk+"."+sc.Name()+" pattern", P.Pos(cs.Pos()), "single-byte search (next line break)", "Split searches for a pattern that is not a single byte: the end of the header is taken from a fixed terminator instead of the first empty line (empty first line, bare-LF and mixed line endings are split at the wrong place)")
	}
	R.Stats["R13.8 pattern searches in rfc822.Split"] = n
	// one split index
	for _, ret := range engine.Returns(f) {
		if len(ret.Results) != 2 {
			continue
		}
		a, okA := ret.Results[0].(*ssa.Slice)
		b, okB := ret.Results[1].(*ssa.Slice)
		ok := okA && okB && a.X == b.X && a.High != nil && a.High == b.Low && b.High == nil
		if okA && a.Low != nil {
			if k, isK := a.Low.(*ssa.Const); !isK || k.Int64() != 0 {
				ok = false
			}
		}
		R.Check(ok, "R13.8", c.name(f)+"|partition", P.Pos(ret.Pos()), "returns b[0:k], b[k:]", "Split does not return a partition b[0:k], b[k:] of its input at one index: HEADER followed by TEXT is no longer BODY[]")
	}
}

// emptyPartsAreParts (R13.9): an empty body part keeps its number.
func (c *Ctx) emptyPartsAreParts() {
	P, R := c.P, c.R
	R.Explain("R13.9", "part numbers follow the delimiters: in rfc822.(*ByteScanner).ScanAll whether a scanned part is recorded depends only on the nil test of what readToBoundary returned (nil = input exhausted), never on its length - a part with no bytes between two delimiter lines is still part n, and dropping it renumbers every later sibling so that BODY[n], BODY[n.MIME] and BODY[n.m] answer with another part's bytes.")
	f := c.fn("R13.9", "rfc822.(*ByteScanner).ScanAll")
	if f == nil {
		return
	}
	n := 0
	for _, cs := range engine.Calls(f) {
		sc := cs.Common().StaticCallee()
		if sc == nil || engine.ShortName(sc) != "readToBoundary" {
			continue
		}
		call, ok := cs.Instr.(*ssa.Call)
		if !ok || call.Referrers() == nil {
			continue
		}
		var data ssa.Value
		for _, r := range *call.Referrers() {
			if ex, ok := r.(*ssa.Extract); ok && ex.Index == 0 {
				data = ex
			}
		}
		if data == nil {
			continue
		}
		// branches whose condition depends on data
		for _, b := range f.Blocks {
			iff := engine.IfOf(b)
			if iff == nil {
				continue
			}
			dep, nilTest := false, false
			if bin, ok := iff.Cond.(*ssa.BinOp); ok {
				if (bin.X == data && engine.IsNilConst(bin.Y)) || (bin.Y == data && engine.IsNilConst(bin.X)) {
					dep, nilTest = true, true
				}
			}
			if !dep {
				engine.Backward(iff.Cond, engine.FlowOpts{Calls: func(cl *ssa.Call) []ssa.Value { return cl.Call.Args }}, func(x ssa.Value) bool {
					if x == data {
						dep = true
					}
					if bo, ok := x.(*ssa.BinOp); ok {
						for _, op := range []ssa.Value{bo.X, bo.Y} {
							if cl, ok := op.(*ssa.Call); ok {
								for _, a := range cl.Call.Args {
									if a == data {
										dep = true
									}
								}
							}
							if op == data {
								dep = true
							}
						}
					}
					return true
				})
			}
			if !dep {
				continue
			}
			n++
			R.Check(nilTest, "R13.9", c.name(f)+"|part kept iff non-nil", P.Pos(iff.Cond.Pos()), "the only test on the scanned part is the nil test", "ScanAll decides on something other than `part != nil` (its length, its content) whether a scanned part is recorded: an empty part is dropped and the following parts are renumbered")
		}
	}
	R.Min("R13.9", "tests on the scanned part in ScanAll", n, 1)
}

// unconditionalCopiesAreNonFields (R13.10): only something that is not a header field is copied without being looked up.
func (c *Ctx) unconditionalCopiesAreNonFields() {
	P, R := c.P, c.R
	R.Explain("R13.10", "no loss or duplication between HEADER.FIELDS and HEADER.FIELDS.NOT: in rfc822.Header.Fields / FieldsNot an entry whose bytes are appended without consulting the set of requested names (not on an edge of the map lookup) is one that its own content shows not to be a field - the append is dominated by a test on the entry's bytes (getAll) or on hasKey.  Selecting it by position (`e == h.lastEntry`) copies a real field into both answers when the header has no delimiting blank line.")
	n := 0
	seenFn := map[*ssa.Function]bool{}
	var units []*ssa.Function
	for _, name := range []string{"rfc822.(*Header).Fields", "rfc822.(*Header).FieldsNot"} {
		top := c.fn("R13.10", name)
		if top == nil {
			continue
		}
		for _, g := range c.withPackageHelpers(top, "rfc822", 1) {
			if !seenFn[g] {
				seenFn[g] = true
				units = append(units, g)
			}
		}
	}
	for _, f := range units {
		// map lookups (commaok) and their branches
		lookupIfs := map[*ssa.BasicBlock]bool{}
		for _, b := range f.Blocks {
			iff := engine.IfOf(b)
			if iff == nil {
				continue
			}
			cond, _ := engine.StripNot(iff.Cond)
			if ex, ok := cond.(*ssa.Extract); ok {
				if lk, ok := ex.Tuple.(*ssa.Lookup); ok && lk.CommaOk {
					lookupIfs[b] = true
				}
			}
		}
		contentDep := func(cond ssa.Value) bool {
			return engine.AnyBackward(cond, engine.FlowOpts{Calls: func(cl *ssa.Call) []ssa.Value { return cl.Call.Args }}, func(x ssa.Value) bool {
				if bo, ok := x.(*ssa.BinOp); ok {
					for _, op := range []ssa.Value{bo.X, bo.Y} {
						if engine.AnyBackward(op, engine.FlowOpts{Calls: func(cl *ssa.Call) []ssa.Value { return cl.Call.Args }}, func(y ssa.Value) bool {
							call, ok := y.(*ssa.Call)
							return ok && call.Call.StaticCallee() != nil && (engine.BaseName(call.Call.StaticCallee()) == "getAll" || engine.BaseName(call.Call.StaticCallee()) == "hasKey")
						}) {
							return true
						}
					}
				}
				call, ok := x.(*ssa.Call)
				return ok && call.Call.StaticCallee() != nil && (engine.BaseName(call.Call.StaticCallee()) == "getAll" || engine.BaseName(call.Call.StaticCallee()) == "hasKey")
			})
		}
		for _, cs := range engine.Calls(f) {
			v, isVal := cs.Instr.(ssa.Value)
			if !isVal {
				continue
			}
			app, ok := engine.IsBuiltinCall(v, "append")
			if !ok || len(app.Call.Args) != 2 {
				continue
			}
			src, ok := app.Call.Args[1].(*ssa.Call)
			if !ok || src.Call.StaticCallee() == nil || engine.BaseName(src.Call.StaticCallee()) != "getAll" {
				continue
			}
			viaLookup := false
			for lb := range lookupIfs {
				if engine.EdgeDominates(lb, 0, app.Block()) || engine.EdgeDominates(lb, 1, app.Block()) {
					viaLookup = true
				}
			}
			if viaLookup {
				continue
			}
			n++
			ok2 := false
			for _, b := range f.Blocks {
				iff := engine.IfOf(b)
				if iff == nil || lookupIfs[b] {
					continue
				}
				if (engine.EdgeDominates(b, 0, app.Block()) || engine.EdgeDominates(b, 1, app.Block())) && contentDep(iff.Cond) {
					ok2 = true
				}
			}
			R.Check(ok2, "R13.10", c.name(f)+"|copy without lookup", P.Pos(app.Pos()), "guarded by a test on the entry's own bytes / key", "an entry is copied without looking its name up and without a test on its content: a real header field can end up in both HEADER.FIELDS and HEADER.FIELDS.NOT (or in neither)")
		}
	}
	R.Min("R13.10", "copies made without the name lookup", n, 1)
}
