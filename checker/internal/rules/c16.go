package rules

import (
	"fmt"
	"go/token"
	"go/types"
	"math"
	"strconv"
	"strings"

	"golang.org/x/tools/go/ssa"

	"verifchecker/internal/engine"
)

func init() { register("C16", c16) }

func is32(t types.Type) bool {
	b, ok := t.Underlying().(*types.Basic)
	return ok && (b.Kind() == types.Uint32)
}

func isWideInt(t types.Type) bool {
	b, ok := t.Underlying().(*types.Basic)
	if !ok {
		return false
	}
	switch b.Kind() {
	case types.Int, types.Int64, types.Uint, types.Uint64, types.Uintptr:
		return true
	}
	return false
}

func isNarrowOrSigned32(t types.Type) bool {
	b, ok := t.Underlying().(*types.Basic)
	if !ok {
		return false
	}
	switch b.Kind() {
	case types.Int32, types.Int16, types.Int8, types.Uint16, types.Uint8:
		return true
	}
	return false
}

func c16(c *Ctx) {
	defer c16validateBeforeResult(c)
	P, R := c.P, c.R
	R.Explain("R16.1", "narrowing: rfcparser.ParseNumber / ParseNumberN reject, inside their accumulation loop, any value above a constant <= 2^32-1 (so the later conversion of message-set numbers to the 32-bit SeqID/UID is lossless); every conversion to a 32-bit id type in internal/state has an operand that is a parsed SeqNum, a length/index, a constant or already 32 bits wide.")
	R.Explain("R16.2", "every consumer of resolveSeqInterval checks both ends of every interval against the view (getWithSeqID / existsWithSeqID) before using it: either inside the same loop iteration, dominating the use, or in a universal check loop that returns an error.")
	R.Explain("R16.3", "no conversion of a UID/SeqID (uint32) value, or of a difference of two such values, to a narrower or signed 32-bit type (comparators must not wrap).")
	R.Explain("R16.4", "loops over resolved []SeqInterval / []UIDInterval visit every member: the only exits besides exhaustion are returns (no break that would make the result depend on the order in which the client wrote the set).")

	c.boundedAccumulation("R16.1")
	c.seqNumbersAreNonZero("R16.6")
	c.intervalsAreOrdered("R16.7")
	c.uidSetsSkipMissing("R16.8")
	c.uidDispatchInRange("R16.9")
	c.setsAreOnlyInterpretedByTheResolvers("R16.10")
	c.parserDoesNotComputeWithSeqNums("R16.11")
	c.noWrappingIDSuccessor("R16.12")

	// ---- R16.1b / R16.3 conversions ---------------------------------------------------
	convs, narrow := 0, 0
	for _, f := range c.productFuncs() {
		rel := engine.RelPkg(P.OwnPkgPath(f))
		if rel != "internal/state" && rel != "internal/session" && rel != "imap" && rel != "imap/command" {
			continue
		}
		for _, b := range f.Blocks {
			for _, in := range b.Instrs {
				cv, ok := in.(*ssa.Convert)
				if !ok {
					continue
				}
				src, dst := cv.X.Type(), cv.Type()
				// R16.3
				if is32(src) && isNarrowOrSigned32(dst) && (engine.IsNamed(src, "imap", "UID") || engine.IsNamed(src, "imap", "SeqID")) {
					narrow++
					R.Fail("R16.3", c.name(f)+"|narrow-id", P.Pos(cv.Pos()), "a UID/SeqID value is converted to "+dst.String()+": values above its range wrap (wrong ordering / wrong message)")
				}
				if sub, isSub := cv.X.(*ssa.BinOp); isSub && sub.Op == token.SUB && is32(sub.X.Type()) && (engine.IsNamed(sub.X.Type(), "imap", "UID") || engine.IsNamed(sub.X.Type(), "imap", "SeqID")) {
					if bt, isB := dst.Underlying().(*types.Basic); isB && bt.Info()&types.IsUnsigned == 0 {
						narrow++
						R.Fail("R16.3", c.name(f)+"|signed-difference", P.Pos(cv.Pos()), "the unsigned 32-bit difference of two ids is reinterpreted as a signed value: the comparison is wrong when the ids are more than 2^31 apart")
					}
				}
				// R16.1b
				if rel == "internal/state" && is32(dst) && (engine.IsNamed(dst, "imap", "UID") || engine.IsNamed(dst, "imap", "SeqID")) && isWideInt(src) {
					convs++
					okSrc, why := c.boundedIDSource(cv.X, 2)
					R.Check(okSrc, "R16.1", c.name(f)+"|to-"+engine.NamedOf(dst).Obj().Name(), P.Pos(cv.Pos()),
						"operand is a parsed sequence number, a length/index or a constant",
						"a wide integer is narrowed to a 32-bit id and its origin ("+why+") is not a bounded source")
				}
			}
		}
	}
	R.Check(narrow == 0, "R16.3", "no-narrow-or-signed-id-conversions", "", "no UID/SeqID value is converted to a narrower or signed 32-bit type", "see narrow-id / signed-difference")
	R.Min("R16.1", "conversions to SeqID/UID in internal/state", convs, 6)

	c16consumers(c)
	c16loops(c)
}

// boundedIDSource: all producers are SeqNum-typed values, len()/index arithmetic,
// constants, or values that were 32 bits wide.
func (c *Ctx) boundedIDSource(v ssa.Value, depth int) (bool, string) {
	ok := true
	why := ""
	seen := map[ssa.Value]bool{}
	var walk func(x ssa.Value)
	walk = func(x ssa.Value) {
		if seen[x] || !ok {
			return
		}
		seen[x] = true
		if engine.IsNamed(x.Type(), "imap/command", "SeqNum") {
			return
		}
		if is32(x.Type()) {
			return
		}
		switch t := x.(type) {
		case *ssa.Const:
			return
		case *ssa.Convert:
			walk(t.X)
		case *ssa.ChangeType:
			walk(t.X)
		case *ssa.BinOp:
			walk(t.X)
			walk(t.Y)
		case *ssa.Phi:
			for _, e := range t.Edges {
				walk(e)
			}
		case *ssa.Call:
			if b, isB := t.Call.Value.(*ssa.Builtin); isB && b.Name() == "len" {
				return
			}
			if sc := t.Call.StaticCallee(); sc != nil && (engine.ShortName(sc) == "len" || engine.ShortName(sc) == "Count" || engine.ShortName(sc) == "getMessagesWithFlagCount") {
				return
			}
			// a helper of the package: bounded when every return of it is
			if h := t.Call.StaticCallee(); h != nil && depth > 0 && len(h.Blocks) > 0 && h.Signature.Results().Len() == 1 && c.P.IsOwn(h) {
				all := true
				for _, ret := range engine.Returns(h) {
					if okR, _ := c.boundedIDSource(ret.Results[0], depth-1); !okR {
						all = false
					}
				}
				if all {
					return
				}
			}
			ok, why = false, "result of "+t.Call.Value.String()
		case *ssa.Extract:
			// index result of a search over the list
			if call, isCall := t.Tuple.(*ssa.Call); isCall {
				if sc := call.Call.StaticCallee(); sc != nil && (engine.BaseName(sc) == "binarySearchByUID" || engine.BaseName(sc) == "BinarySearchFunc") {
					return
				}
			}
			if call, isCall := t.Tuple.(*ssa.Call); isCall {
				if h := call.Call.StaticCallee(); h != nil && depth > 0 && len(h.Blocks) > 0 && c.P.IsOwn(h) && t.Index < h.Signature.Results().Len() {
					all := true
					for _, ret := range engine.Returns(h) {
						if t.Index >= len(ret.Results) {
							all = false
							continue
						}
						if okR, _ := c.boundedIDSource(ret.Results[t.Index], depth-1); !okR {
							all = false
						}
					}
					if all {
						return
					}
				}
			}
			ok, why = false, "tuple element "+t.Name()
		case *ssa.Parameter:
			// the index parameter of a parallel.DoContext worker is in [0, n)
			if isParallelWorkerIndex(t) {
				return
			}
			// the parameter of an unexported helper of the package: bounded when every call site passes a bounded source
			if fn := t.Parent(); depth > 0 && fn.Parent() == nil && fn.Object() != nil && !fn.Object().Exported() {
				ix := -1
				for i, p := range fn.Params {
					if p == t {
						ix = i
					}
				}
				callers := c.P.CallersOf(fn)
				all := ix >= 0 && len(callers) > 0
				for _, cs := range callers {
					cc := cs.Common()
					if cc.StaticCallee() != fn || ix >= len(cc.Args) {
						all = false
						break
					}
					if okA, _ := c.boundedIDSource(cc.Args[ix], depth-1); !okA {
						all = false
						break
					}
				}
				if all {
					return
				}
			}
			ok, why = false, "parameter "+t.Name()
		default:
			ok, why = false, x.String()
		}
	}
	walk(v)
	return ok, why
}

func isIntervalSlice(t types.Type, names ...string) bool {
	sl, ok := t.Underlying().(*types.Slice)
	if !ok {
		return false
	}
	for _, n := range names {
		if engine.IsNamed(sl.Elem(), "internal/state", n) {
			return true
		}
	}
	return false
}

// boundCheckFuncs: methods of snapMsgList that compare a SeqID parameter with len(list.msg).
func (c *Ctx) boundCheckFuncs() map[*ssa.Function]bool {
	out := map[*ssa.Function]bool{}
	msgFld := c.fieldOf("internal/state", "snapMsgList", "msg")
	for _, m := range c.methodsOf("internal/state", "snapMsgList") {
		hasSeqParam := false
		for _, p := range m.Params[1:] {
			if engine.IsNamed(p.Type(), "imap", "SeqID") {
				hasSeqParam = true
			}
		}
		if !hasSeqParam || m.Signature.Results().Len() == 0 {
			continue
		}
		last := m.Signature.Results().At(m.Signature.Results().Len() - 1).Type()
		if b, ok := last.Underlying().(*types.Basic); !ok || b.Kind() != types.Bool {
			continue
		}
		// comparison between a parameter-derived value and len(list.msg)
		cmpOK := false
		for _, b := range m.Blocks {
			for _, in := range b.Instrs {
				cmp, ok := in.(*ssa.BinOp)
				if !ok {
					continue
				}
				switch cmp.Op {
				case token.LSS, token.LEQ, token.GTR, token.GEQ:
				default:
					continue
				}
				fromLen := func(v ssa.Value) bool {
					return engine.AnyBackward(v, engine.FlowOpts{}, func(x ssa.Value) bool {
						if call, ok := x.(*ssa.Call); ok {
							if bi, ok := call.Call.Value.(*ssa.Builtin); ok && bi.Name() == "len" {
								if ld, ok := call.Call.Args[0].(*ssa.UnOp); ok && fieldAddrIs(ld.X, msgFld) {
									return true
								}
							}
						}
						return false
					})
				}
				fromParam := func(v ssa.Value) bool {
					found := false
					var walk func(x ssa.Value, d int)
					walk = func(x ssa.Value, d int) {
						if d > 6 || found {
							return
						}
						switch t := x.(type) {
						case *ssa.Parameter:
							if engine.IsNamed(t.Type(), "imap", "SeqID") {
								found = true
							}
						case *ssa.Convert:
							walk(t.X, d+1)
						case *ssa.BinOp:
							walk(t.X, d+1)
							walk(t.Y, d+1)
						}
					}
					walk(v, 0)
					return found
				}
				if (fromLen(cmp.X) && fromParam(cmp.Y)) || (fromLen(cmp.Y) && fromParam(cmp.X)) {
					cmpOK = true
				}
			}
		}
		if cmpOK {
			out[m] = true
		}
	}
	return out
}

func c16consumers(c *Ctx) {
	P, R := c.P, c.R
	checks := c.boundCheckFuncs()
	var rows []string
	for f := range checks {
		rows = append(rows, c.name(f))
	}
	R.Table("view-bound check functions (derived: SeqID parameter compared with len(list.msg), bool result)", rows...)
	R.Min("R16.2", "view-bound check functions", len(checks), 2)
	resolve := c.fn("R16.2", "internal/state.(*snapMsgList).resolveSeqInterval")
	if resolve == nil {
		return
	}
	// forwarding wrappers (return the call's results unchanged)
	isResolve := map[*ssa.Function]bool{resolve: true}
	for changed := true; changed; {
		changed = false
		for _, f := range c.funcsInPkg("internal/state") {
			if isResolve[f] {
				continue
			}
			for _, cs := range engine.Calls(f) {
				if sc := cs.Common().StaticCallee(); sc != nil && isResolve[sc] {
					call, ok := cs.Instr.(*ssa.Call)
					if !ok {
						continue
					}
					for _, ret := range engine.Returns(f) {
						if len(ret.Results) == 2 {
							if ex, ok := ret.Results[0].(*ssa.Extract); ok && ex.Tuple == ssa.Value(call) {
								isResolve[f] = true
								changed = true
							}
						}
					}
				}
			}
		}
	}
	n := 0
	for _, f := range c.funcsInPkg("internal/state") {
		if isResolve[f] {
			continue
		}
		for _, cs := range engine.Calls(f) {
			sc := cs.Common().StaticCallee()
			if sc == nil || !isResolve[sc] {
				continue
			}
			n++
			call := cs.Instr.(*ssa.Call)
			key := c.name(f) + "|resolved-intervals"
			var S ssa.Value
			for _, r := range *call.Referrers() {
				if ex, ok := r.(*ssa.Extract); ok && ex.Index == 0 {
					S = ex
				}
			}
			if S == nil {
				R.Fail("R16.2", key, P.Pos(call.Pos()), "result of resolveSeqInterval is not bound to a value")
				continue
			}
			ok, why := intervalsChecked(f, S, checks)
			R.Check(ok, "R16.2", key, P.Pos(call.Pos()), "both ends of every interval are checked against the view before use",
				"resolved sequence intervals are used without checking them against the view ("+why+"): a sequence number beyond the message count is answered instead of failing with BAD")
		}
	}
	R.Min("R16.2", "consumers of resolveSeqInterval", n, 2)
}

// intervalsChecked implements R16.2 for the slice S in function f.
func intervalsChecked(f *ssa.Function, S ssa.Value, checks map[*ssa.Function]bool) (bool, string) {
	al := sliceAliases(S)
	isS := func(v ssa.Value) bool { return al[v] }
	loops := engine.RangeLoopsOver(f, isS)
	retErr := func(b *ssa.BasicBlock) bool {
		if len(b.Instrs) == 0 {
			return false
		}
		ret, ok := b.Instrs[len(b.Instrs)-1].(*ssa.Return)
		if !ok {
			return false
		}
		lr := engine.LastResult(ret)
		return lr != nil && !engine.IsNilConst(lr)
	}
	// argument fields checked by a call
	checkedFields := func(ck *ssa.Call) (begin, end bool, elem ssa.Value) {
		for _, a := range ck.Call.Args {
			if idx, e, ok := elemField(a, S); ok {
				elem = e
				if idx == 0 {
					begin = true
				} else {
					end = true
				}
			}
		}
		return
	}
	// every other use of S (through any alias, or through the cell a closure captures)
	var uses []ssa.Instruction
	for a := range al {
		for _, r := range *a.Referrers() {
			uses = append(uses, r)
		}
	}
	for _, r := range *S.Referrers() {
		if st, ok := r.(*ssa.Store); ok && st.Val == S {
			if cell, ok := st.Addr.(*ssa.Alloc); ok {
				for _, r2 := range *cell.Referrers() {
					if mc, ok := r2.(*ssa.MakeClosure); ok {
						uses = append(uses, mc)
					}
				}
			}
		}
	}
	// Pattern 1: a universal check loop that fails with an error
	for _, h := range loops {
		body := engine.LoopBody(h)
		beginOK, endOK, errExit := false, false, false
		for b := range body {
			for _, in := range b.Instrs {
				if ck, ok := in.(*ssa.Call); ok {
					if sc := ck.Call.StaticCallee(); sc != nil && checks[sc] {
						bg, en, _ := checkedFields(ck)
						// the failing edge of the check must lead to an error return
						beginOK = beginOK || bg
						endOK = endOK || en
					}
				}
			}
			if retErr(b) {
				errExit = true
			}
			for _, su := range b.Succs {
				if !body[su] && retErr(su) {
					errExit = true
				}
			}
		}
		if !(beginOK && endOK && errExit) {
			continue
		}
		// a failed check must not fall back into the loop: the false edge of each check reaches an error return only
		soundFail := true
		for b := range body {
			for _, in := range b.Instrs {
				ck, ok := in.(*ssa.Call)
				if !ok {
					continue
				}
				if sc := ck.Call.StaticCallee(); sc == nil || !checks[sc] {
					continue
				}
				for _, r := range *ck.Referrers() {
					iff, ok := r.(*ssa.If)
					if !ok {
						continue
					}
					if !retErr(iff.Block().Succs[1]) {
						soundFail = false
					}
				}
			}
		}
		if !soundFail {
			continue
		}
		others := true
		for _, in := range uses {
			if in.Block() == nil || body[in.Block()] {
				continue
			}
			if _, isStore := in.(*ssa.Store); isStore {
				continue
			}
			if call, ok := in.(*ssa.Call); ok {
				if bi, ok := call.Call.Value.(*ssa.Builtin); ok && bi.Name() == "len" {
					continue
				}
			}
			if !h.Dominates(in.Block()) {
				others = false
			}
		}
		if others {
			return true, ""
		}
	}
	// Pattern 2: per-iteration checks dominate every use of an interval end
	if len(loops) == 0 {
		return false, "no loop over the intervals checks them and they are handed on unchecked"
	}
	for _, in := range uses {
		switch t := in.(type) {
		case *ssa.MakeClosure:
			return false, "the intervals are captured by a closure without a preceding universal check"
		case *ssa.Call:
			if bi, ok := t.Call.Value.(*ssa.Builtin); ok && bi.Name() == "len" {
				continue
			}
			return false, "the intervals are passed to " + t.Call.Value.String() + " unchecked"
		case *ssa.Return:
			return false, "the intervals leave the function unchecked"
		}
	}
	for _, h := range loops {
		body := engine.LoopBody(h)
		for b := range body {
			for _, in := range b.Instrs {
				v, isVal := in.(ssa.Value)
				if !isVal {
					continue
				}
				_, elem, ok := elemField(v, S)
				if !ok || v.Referrers() == nil {
					continue
				}
				for _, u := range *v.Referrers() {
					if ucall, isCall := u.(*ssa.Call); isCall {
						if sc := ucall.Call.StaticCallee(); sc != nil && checks[sc] {
							continue
						}
					}
					switch u.(type) {
					case *ssa.BinOp, *ssa.DebugRef:
						continue
					}
					bOK, eOK := false, false
					for b2 := range body {
						for _, in2 := range b2.Instrs {
							ck, ok := in2.(*ssa.Call)
							if !ok {
								continue
							}
							if sc := ck.Call.StaticCallee(); sc == nil || !checks[sc] {
								continue
							}
							if !checkSuccessDominates(ck, u) {
								continue
							}
							bg, en, e2 := checkedFields(ck)
							if e2 != nil && sameElem(e2, elem) {
								bOK = bOK || bg
								eOK = eOK || en
							}
						}
					}
					if !(bOK && eOK) {
						return false, "an interval end is used without both ends having passed a view-bound check"
					}
				}
			}
		}
	}
	return true, ""
}

// elemOf: v is an element of slice S (or an alias of it) loaded inside a range loop.
func elemOf(v ssa.Value, S ssa.Value) bool {
	al := sliceAliases(S)
	ld, ok := v.(*ssa.UnOp)
	if !ok {
		return false
	}
	ia, ok := ld.X.(*ssa.IndexAddr)
	return ok && al[ia.X]
}

// elemField: v reads field #idx of an element of S, either directly (Field of the loaded
// element) or through the spilled loop variable (`*v = elem; … *(&v.f)`).
func elemField(v ssa.Value, S ssa.Value) (idx int, elem ssa.Value, ok bool) {
	switch t := v.(type) {
	case *ssa.Field:
		if elemOf(t.X, S) {
			return t.Field, t.X, true
		}
	case *ssa.UnOp:
		if fa, isFA := t.X.(*ssa.FieldAddr); isFA && t.Op == token.MUL {
			if cell, isAl := fa.X.(*ssa.Alloc); isAl {
				sts := engine.StoresTo(cell)
				if len(sts) > 0 {
					all := true
					for _, st := range sts {
						if !elemOf(st.Val, S) {
							all = false
						}
					}
					if all {
						return fa.Field, cell, true
					}
				}
			}
		}
	}
	return 0, nil, false
}

func sameElem(a, b ssa.Value) bool {
	if a == b {
		return true
	}
	la, ok1 := a.(*ssa.UnOp)
	lb, ok2 := b.(*ssa.UnOp)
	return ok1 && ok2 && la.X == lb.X
}

// checkSuccessDominates: instruction u is only reached when check call ck returned true
// (its bool result, possibly negated, guards an If whose success edge dominates u).
func checkSuccessDominates(ck *ssa.Call, u ssa.Instruction) bool {
	var res ssa.Value = ck
	if tup, ok := ck.Type().(*types.Tuple); ok && tup.Len() > 1 {
		res = nil
		for _, r := range *ck.Referrers() {
			if ex, ok := r.(*ssa.Extract); ok && ex.Index == tup.Len()-1 {
				res = ex
			}
		}
		if res == nil {
			return false
		}
	}
	for _, r := range *res.Referrers() {
		var iff *ssa.If
		neg := false
		switch t := r.(type) {
		case *ssa.If:
			iff = t
		case *ssa.UnOp:
			if t.Op == token.NOT {
				for _, r2 := range *t.Referrers() {
					if i2, ok := r2.(*ssa.If); ok {
						iff, neg = i2, true
					}
				}
			}
		}
		if iff == nil {
			continue
		}
		okIx := 0
		if neg {
			okIx = 1
		}
		if engine.EdgeDominates(iff.Block(), okIx, u.Block()) {
			return true
		}
	}
	return false
}

func c16loops(c *Ctx) {
	P, R := c.P, c.R
	n := 0
	for _, f := range c.funcsInPkg("internal/state") {
		for _, h := range engine.RangeLoopsOver(f, func(s ssa.Value) bool { return isIntervalSlice(s.Type(), "SeqInterval", "UIDInterval") }) {
			n++
			body := engine.LoopBody(h)
			key := c.name(f) + "|interval-loop"
			bad := loopEarlyExit(P, h, body)
			R.Check(bad == "", "R16.4", key, P.Pos(firstPosOf(h)), "the loop over the set's intervals is left only by exhaustion or return",
				"the loop over the message-set intervals can be left early ("+bad+") without returning: members written later in the set are ignored, so the result depends on the order of the set")
		}
	}
	R.Min("R16.4", "loops over resolved intervals", n, 4)
}

// loopEarlyExit: position of an exit from the loop body that is neither exhaustion (through the header)
// nor a return/panic of its own - a `break` or a jump past the loop; "" if there is none.
func loopEarlyExit(P *engine.Prog, h *ssa.BasicBlock, body map[*ssa.BasicBlock]bool) string {
	bad := ""
	for b := range body {
		if b == h {
			continue
		}
		for _, s := range b.Succs {
			if body[s] {
				continue
			}
			isLoopExit := false
			for _, hs := range h.Succs {
				if hs == s && !body[hs] {
					isLoopExit = true
				}
			}
			if isLoopExit || len(s.Instrs) == 0 {
				bad = P.Pos(firstPosOf(b))
				continue
			}
			switch s.Instrs[len(s.Instrs)-1].(type) {
			case *ssa.Return, *ssa.Panic:
			default:
				bad = P.Pos(firstPosOf(b))
			}
		}
	}
	return bad
}

// exhaustiveLoopsOver (shared by R14.6 / R15.5): every loop of f that reads the elements of a slice
// satisfying fromSrc is left only by exhaustion or return.
func (c *Ctx) exhaustiveLoopsOver(rule string, f *ssa.Function, what string, fromSrc func(ssa.Value) bool, explain string) int {
	P, R := c.P, c.R
	n := 0
	for _, h := range f.Blocks {
		body := engine.LoopBody(h)
		if body == nil {
			continue
		}
		reads := false
		for b := range body {
			for _, in := range b.Instrs {
				if ia, ok := in.(*ssa.IndexAddr); ok && engine.AnyBackward(ia.X, engine.FlowOpts{Loads: true}, fromSrc) {
					reads = true
				}
			}
		}
		if !reads {
			continue
		}
		n++
		bad := loopEarlyExit(P, h, body)
		R.Check(bad == "", rule, c.name(f)+"|loop over "+what, P.Pos(firstPosOf(h)), "every element is visited (exits: exhaustion or return)", "the loop over "+what+" can be left early ("+bad+") without returning: "+explain)
	}
	return n
}

func firstPosOf(b *ssa.BasicBlock) token.Pos {
	for _, in := range b.Instrs {
		if in.Pos().IsValid() {
			return in.Pos()
		}
	}
	return token.NoPos
}

// isParallelWorkerIndex: p is the int parameter of a closure handed to parallel.DoContext.
func isParallelWorkerIndex(p *ssa.Parameter) bool {
	fn := p.Parent()
	if fn.Parent() == nil || fn.Signature.Params().Len() != 2 {
		return false
	}
	for _, b := range fn.Parent().Blocks {
		for _, in := range b.Instrs {
			call, ok := in.(*ssa.Call)
			if !ok {
				continue
			}
			sc := call.Call.StaticCallee()
			if sc == nil || engine.BaseName(sc) != "DoContext" {
				continue
			}
			for _, a := range call.Call.Args {
				if mc, ok := a.(*ssa.MakeClosure); ok && mc.Fn == fn {
					return true
				}
			}
		}
	}
	return false
}

// sliceAliases: S itself and the loads of a local cell whose only store is S.
func sliceAliases(S ssa.Value) map[ssa.Value]bool {
	out := map[ssa.Value]bool{S: true}
	for _, r := range *S.Referrers() {
		st, ok := r.(*ssa.Store)
		if !ok || st.Val != S {
			continue
		}
		al, ok := st.Addr.(*ssa.Alloc)
		if !ok || len(engine.StoresTo(al)) != 1 {
			continue
		}
		for _, r2 := range *al.Referrers() {
			if ld, ok := r2.(*ssa.UnOp); ok && ld.Op == token.MUL {
				out[ld] = true
			}
		}
	}
	return out
}

// c16validateBeforeResult (R16.5): no shortcut around the resolution of the set.
func c16validateBeforeResult(c *Ctx) {
	P, R := c.P, c.R
	R.Explain("R16.5", "the shared entry point snapshot.getMessagesInRange hands out messages only after the whole set was resolved: every nil-error return is dominated by the call of resolveSeqInterval / resolveUIDInterval (whose consumers validate each member, R16.2); a fast path in front of it answers OK for sets with an invalid member.")
	f := c.fn("R16.5", "internal/state.(*snapshot).getMessagesInRange")
	if f == nil {
		return
	}
	var res []ssa.Instruction
	for _, cs := range engine.Calls(f) {
		if sc := cs.Common().StaticCallee(); sc != nil && (engine.ShortName(sc) == "resolveSeqInterval" || engine.ShortName(sc) == "resolveUIDInterval" || engine.ShortName(sc) == "getMessagesInSeqRange" || engine.ShortName(sc) == "getMessagesInUIDRange") && cs.Instr.Parent() == f {
			res = append(res, cs.Instr)
		}
	}
	n := 0
	for _, ret := range engine.Returns(f) {
		r0 := engine.ResultOf(ret, 0)
		if engine.IsNilConst(r0) {
			continue // error path: no messages handed out
		}
		n++
		ok := false
		for _, r := range res {
			if engine.InstrDominates(r, ret) {
				ok = true
			}
		}
		R.Check(ok, "R16.5", c.name(f)+"|success return", P.Pos(ret.Pos()), "the set was resolved (and thereby validated) first", "getMessagesInRange can return messages without having resolved the set: a member beyond the view (or malformed) is no longer refused and the command acts on other messages than named")
	}
	R.Min("R16.5", "success returns of getMessagesInRange", n, 1)
}

// boundedAccumulation (R16.1a / R11.8): the number parser bounds the value on every accumulation step.
func (c *Ctx) boundedAccumulation(rule string) {
	P, R := c.P, c.R
	if rule != "R16.1" {
		R.Explain(rule, "rfcparser.ParseNumber / ParseNumberN reject a value above 2^32-1 inside the accumulation loop, on every digit: a check made once after the loop sees a 64-bit accumulator that has already wrapped, so a 20-digit number passes as a small one (literal sizes, sequence numbers, UIDs).")
	}
	for _, name := range []string{"rfcparser.(*Parser).ParseNumber", "rfcparser.(*Parser).ParseNumberN"} {
		f := c.fn(rule, name)
		if f == nil {
			continue
		}
		le, edges := c.accumulatorBound(f)
		ok := edges > 0 && le(math.MaxUint32)
		R.Check(ok, rule, name+"|bounded-accumulation", P.Pos(f.Pos()),
			"the accumulated number is compared with a constant <= 2^32-1 inside the loop and the exceeding edge is an error",
			"the digits are accumulated without an upper bound <= 2^32-1 checked on every step: numbers beyond 32 bits wrap or are truncated by the later conversion to SeqID/UID and select some other message")
	}
}

// seqNumbersAreNonZero (R16.6): the number 0 is reserved for "*" inside the server; the parser never lets a client's 0 through.
func (c *Ctx) seqNumbersAreNonZero(rule string) {
	P, R := c.P, c.R
	R.Explain(rule, "0 is not a sequence number: command.SeqNum(0) is the server's internal encoding of `*`.  Every nil-error return of command.ParseNZNumber carries a value proved >= 1 from the dominating comparisons; every conversion of a non-constant to command.SeqNum in the product takes the first result of ParseNZNumber; the constant 0 is returned by ParseSeqNumber only on the matched-`*` edge.  Otherwise `FETCH 0` would be served as `FETCH *` instead of being refused (RFC 3501 seq-number = nz-number / \"*\").")
	nz := c.fn(rule, "imap/command.ParseNZNumber")
	if nz == nil {
		return
	}
	n := 0
	for _, ret := range engine.Returns(nz) {
		if !engine.IsNilConst(engine.LastResult(ret)) {
			continue
		}
		n++
		v := engine.ResultOf(ret, 0)
		ok := engine.EntailedAt(nz, ret.Block(), v, 1, false, P.IsOwn)
		R.Check(ok, rule, c.name(nz)+"|success value >= 1", P.Pos(ret.Pos()), "value proved >= 1 on the success return", "ParseNZNumber can return a value that is not proved >= 1 (0 would be read as `*`)")
	}
	R.Min(rule, "success returns of ParseNZNumber", n, 1)
	// conversions to SeqNum
	convs := 0
	for _, f := range c.productFuncs() {
		for _, b := range f.Blocks {
			for _, in := range b.Instrs {
				var cv ssa.Value
				var cvX ssa.Value
				switch t := in.(type) {
				case *ssa.Convert:
					cv, cvX = t, t.X
				case *ssa.ChangeType:
					cv, cvX = t, t.X
				default:
					continue
				}
				nt, isNamed := cv.Type().(*types.Named)
				if !isNamed || nt.Obj().Name() != "SeqNum" || nt.Obj().Pkg() == nil || !strings.HasSuffix(nt.Obj().Pkg().Path(), "imap/command") {
					continue
				}
				if _, isConst := cvX.(*ssa.Const); isConst {
					continue
				}
				convs++
				good := false
				if ex, ok := cvX.(*ssa.Extract); ok && ex.Index == 0 {
					if call, ok := ex.Tuple.(*ssa.Call); ok && call.Call.StaticCallee() == nz {
						good = true
					}
				}
				if !good {
					good = engine.EntailedAt(f, b, cvX, 1, false, P.IsOwn)
				}
				R.Check(good, rule, c.name(f)+"|SeqNum conversion", P.Pos(cv.Pos()), "operand is ParseNZNumber's result (or proved >= 1)", "a number that may be 0 is converted to command.SeqNum: a client's 0 becomes the internal `*`")
			}
		}
	}
	R.Min(rule, "non-constant conversions to command.SeqNum", convs, 1)
	// the constant 0 only on the matched-* edge
	psn := c.fn(rule, "imap/command.ParseSeqNumber")
	if psn == nil {
		return
	}
	stars := 0
	for _, ret := range engine.Returns(psn) {
		if !engine.IsNilConst(engine.LastResult(ret)) {
			continue
		}
		k, isConst := engine.ResultOf(ret, 0).(*ssa.Const)
		if !isConst {
			continue
		}
		stars++
		ok := false
		if k.Value != nil && k.Int64() == 0 {
			for _, d := range psn.Blocks {
				iff := engine.IfOf(d)
				if iff == nil {
					continue
				}
				ex, isEx := iff.Cond.(*ssa.Extract)
				if !isEx || ex.Index != 0 {
					continue
				}
				call, isCall := ex.Tuple.(*ssa.Call)
				if !isCall {
					continue
				}
				sc := call.Call.StaticCallee()
				if sc == nil || engine.BaseName(sc) != "Matches" {
					continue
				}
				if engine.EdgeDominates(d, 0, ret.Block()) {
					ok = true
				}
			}
		}
		R.Check(ok, rule, c.name(psn)+"|constant result", P.Pos(ret.Pos()), "the constant `*` encoding is returned only when a `*` token was matched", "ParseSeqNumber returns a constant sequence number on a path that did not match the `*` token")
	}
	R.Min(rule, "constant (`*`) success returns of ParseSeqNumber", stars, 1)
}

// intervalsAreOrdered (R16.7): every SeqInterval / UIDInterval handed to the consumers has begin <= end.
func (c *Ctx) intervalsAreOrdered(rule string) {
	P, R := c.P, c.R
	R.Explain(rule, "ranges in either order, `*` as the last message: wherever internal/state builds a SeqInterval or UIDInterval from two different values, begin <= end is proved at the construction from the branch conditions on every incoming path (case split over the phis: not swapped because begin <= end, swapped because begin > end, or collapsed to one value) by linear-inequality entailment.  The consumers slice the view with [begin-1:end] and iterate begin..end; an unordered interval selects nothing or panics instead of the messages RFC 3501 names for `5:2` or `*:3`.")
	n := 0
	for _, f := range c.funcsInPkg("internal/state") {
		for _, b := range f.Blocks {
			// collect stores to .begin / .end of the same base in this block
			type pair struct {
				begin, end ssa.Value
				pos        ssa.Instruction
				tn         string
			}
			pairs := map[ssa.Value]*pair{}
			var order []ssa.Value
			for _, in := range b.Instrs {
				st, ok := in.(*ssa.Store)
				if !ok {
					continue
				}
				fa, ok := st.Addr.(*ssa.FieldAddr)
				if !ok {
					continue
				}
				pt, ok := fa.X.Type().Underlying().(*types.Pointer)
				if !ok {
					continue
				}
				nt, ok := pt.Elem().(*types.Named)
				if !ok || (nt.Obj().Name() != "SeqInterval" && nt.Obj().Name() != "UIDInterval") {
					continue
				}
				stt, ok := nt.Underlying().(*types.Struct)
				if !ok {
					continue
				}
				p := pairs[fa.X]
				if p == nil {
					p = &pair{tn: nt.Obj().Name()}
					pairs[fa.X] = p
					order = append(order, fa.X)
				}
				switch stt.Field(fa.Field).Name() {
				case "begin":
					p.begin = st.Val
				case "end":
					p.end = st.Val
				}
				p.pos = st
			}
			for _, base := range order {
				p := pairs[base]
				if p.begin == nil || p.end == nil {
					if p.begin != nil || p.end != nil {
						n++
						R.Check(false, rule, c.name(f)+"|"+p.tn+" partly initialised", P.Pos(p.pos.Pos()), "", "only one bound of a "+p.tn+" is set here; the rule cannot relate begin and end")
					}
					continue
				}
				n++
				ok := p.begin == p.end || engine.ProveLEAt(f, b, p.begin, p.end) || orderedByHelper(P, p.begin, p.end)
				R.Check(ok, rule, c.name(f)+"|"+p.tn+" begin<=end", P.Pos(p.pos.Pos()), "begin <= end proved on every path", "begin <= end is not entailed by the branch conditions on every path to this "+p.tn+" (a reversed or `*`-anchored range reaches the consumers unordered)")
			}
		}
	}
	R.Min(rule, "interval constructions", n, 4)
}

// uidSetsSkipMissing (R16.8): a UID that does not exist is skipped, never an error.
func (c *Ctx) uidSetsSkipMissing(rule string) {
	P, R := c.P, c.R
	R.Explain(rule, "UID sets silently skip UIDs that do not exist: the only error snapMsgList.getMessagesInUIDRange can return is the one resolveUIDInterval returned; the lookup of a single UID (getWithUID) and of a UID range (uidRange) cannot make the command fail, and the empty mailbox answers without error before anything is resolved.")
	f := c.fn(rule, "internal/state.(*snapMsgList).getMessagesInUIDRange")
	if f == nil {
		return
	}
	n := 0
	for _, ret := range engine.Returns(f) {
		lr := engine.LastResult(ret)
		if lr == nil || engine.IsNilConst(lr) {
			continue
		}
		n++
		ok := true
		engine.Backward(lr, engine.FlowOpts{}, func(x ssa.Value) bool {
			switch t := x.(type) {
			case *ssa.Phi:
				return true
			case *ssa.Extract:
				if call, isCall := t.Tuple.(*ssa.Call); isCall {
					if sc := call.Call.StaticCallee(); sc != nil && engine.BaseName(sc) == "resolveUIDInterval" {
						return false
					}
				}
				ok = false
				return false
			case *ssa.Const:
				if !t.IsNil() {
					ok = false
				}
				return false
			default:
				ok = false
				return false
			}
		})
		R.Check(ok, rule, c.name(f)+"|error return#"+strconv.Itoa(n), P.Pos(ret.Pos()), "the error is resolveUIDInterval's", "getMessagesInUIDRange returns an error of its own: a UID set naming a UID that does not exist makes the command fail instead of skipping it")
	}
	R.Min(rule, "error returns of getMessagesInUIDRange", n, 1)
}

// isUIDIfs returns the blocks of f that branch on contexts.IsUID(ctx).
func isUIDIfs(f *ssa.Function) []*ssa.BasicBlock {
	var out []*ssa.BasicBlock
	for _, b := range f.Blocks {
		iff := engine.IfOf(b)
		if iff == nil {
			continue
		}
		cond, neg := engine.StripNot(iff.Cond)
		if neg {
			continue
		}
		if call, ok := cond.(*ssa.Call); ok {
			if sc := call.Call.StaticCallee(); sc != nil && engine.BaseName(sc) == "IsUID" && strings.HasSuffix(engine.PkgPathOf(sc), "internal/contexts") {
				out = append(out, b)
			}
		}
	}
	return out
}

// uidDispatchInRange (R16.9): a UID command resolves its set against UIDs, any other against sequence numbers.
func (c *Ctx) uidDispatchInRange(rule string) {
	P, R := c.P, c.R
	R.Explain(rule, "UID commands address UIDs, the others sequence numbers: in snapshot.getMessagesInRange the call of getMessagesInUIDRange is dominated by the true edge of contexts.IsUID(ctx) and the call of getMessagesInSeqRange by its false edge (swapped or unconditional dispatch maps a set onto other messages).")
	f := c.fn(rule, "internal/state.(*snapshot).getMessagesInRange")
	if f == nil {
		return
	}
	ifs := isUIDIfs(f)
	n := 0
	for _, cs := range engine.Calls(f) {
		sc := cs.Common().StaticCallee()
		if sc == nil {
			continue
		}
		want := -1
		switch engine.BaseName(sc) {
		case "getMessagesInUIDRange":
			want = 0
		case "getMessagesInSeqRange":
			want = 1
		default:
			continue
		}
		n++
		ok := false
		for _, b := range ifs {
			if engine.EdgeDominates(b, want, cs.Instr.Block()) {
				ok = true
			}
		}
		R.Check(ok, rule, c.name(f)+"|"+engine.BaseName(sc), P.Pos(cs.Pos()), "on the matching edge of IsUID(ctx)", engine.BaseName(sc)+" is not called exactly on the "+map[int]string{0: "true", 1: "false"}[want]+" edge of contexts.IsUID(ctx)")
	}
	R.Min(rule, "range lookups dispatched in getMessagesInRange", n, 2)
}

// reachingStores computes, with the CFG edge `cut` removed, which stores to addr reach an instruction
// (classic reaching definitions, last store in a block kills).  live=false: the instruction is unreachable.
func reachingStores(f *ssa.Function, addr ssa.Value, cut engine.Edge) func(at ssa.Instruction) ([]*ssa.Store, bool) {
	in := map[*ssa.BasicBlock]map[*ssa.Store]bool{}
	out := map[*ssa.BasicBlock]map[*ssa.Store]bool{}
	live := map[*ssa.BasicBlock]bool{f.Blocks[0]: true}
	for changed := true; changed; {
		changed = false
		for _, b := range f.Blocks {
			if !live[b] {
				continue
			}
			cur := map[*ssa.Store]bool{}
			for k := range in[b] {
				cur[k] = true
			}
			for _, ins := range b.Instrs {
				if st, ok := ins.(*ssa.Store); ok && st.Addr == addr {
					cur = map[*ssa.Store]bool{st: true}
				}
			}
			if len(cur) != len(out[b]) {
				changed = true
			} else {
				for k := range cur {
					if !out[b][k] {
						changed = true
					}
				}
			}
			out[b] = cur
			for i, s := range b.Succs {
				if cut.From == b && cut.Succ == i {
					continue
				}
				if !live[s] {
					live[s] = true
					changed = true
				}
				if in[s] == nil {
					in[s] = map[*ssa.Store]bool{}
				}
				for k := range cur {
					if !in[s][k] {
						in[s][k] = true
						changed = true
					}
				}
			}
		}
	}
	return func(at ssa.Instruction) ([]*ssa.Store, bool) {
		b := at.Block()
		if !live[b] {
			return nil, false
		}
		cur := map[*ssa.Store]bool{}
		for k := range in[b] {
			cur[k] = true
		}
		for _, ins := range b.Instrs {
			if ins == at {
				break
			}
			if st, ok := ins.(*ssa.Store); ok && st.Addr == addr {
				cur = map[*ssa.Store]bool{st: true}
			}
		}
		var res []*ssa.Store
		for k := range cur {
			res = append(res, k)
		}
		return res, true
	}
}

// accumulatorBound finds the loop-carried integer accumulators of f that reach its first result and
// returns a decision procedure "every value fed back into the accumulator inside the loop is proved
// <= bound" (branch conditions dominating the back edge, including those of validating helpers on
// their nil-error edge), together with the number of such back-edge values.
func (c *Ctx) accumulatorBound(f *ssa.Function) (func(bound int64) bool, int) {
	isAccum := map[*ssa.Phi]bool{}
	for _, ret := range engine.Returns(f) {
		if len(ret.Results) == 0 {
			continue
		}
		engine.Backward(ret.Results[0], engine.FlowOpts{}, func(x ssa.Value) bool {
			if p, ok := x.(*ssa.Phi); ok {
				isAccum[p] = true
			}
			return true
		})
	}
	type edge struct {
		pred *ssa.BasicBlock
		succ int
		v    ssa.Value
	}
	var edges []edge
	for _, b := range f.Blocks {
		if !BlockInCycle(b) {
			continue
		}
		reach := engine.BlocksReachableFrom(b)
		for _, in := range b.Instrs {
			phi, ok := in.(*ssa.Phi)
			if !ok {
				break
			}
			bt, isBasic := phi.Type().Underlying().(*types.Basic)
			if !isAccum[phi] || !isBasic || bt.Info()&types.IsInteger == 0 {
				continue
			}
			for i, e := range phi.Edges {
				pred := b.Preds[i]
				if !reach[pred] || e == ssa.Value(phi) {
					continue
				}
				if _, same := e.(*ssa.Phi); same && e.(*ssa.Phi).Block() == b {
					continue
				}
				for si, sb := range pred.Succs {
					if sb == b {
						edges = append(edges, edge{pred, si, e})
					}
				}
			}
		}
	}
	le := func(bound int64) bool {
		for _, e := range edges {
			if !engine.EntailedOnEdge(f, e.pred, e.succ, e.v, bound, true, c.P.IsOwn) {
				return false
			}
		}
		return true
	}
	return le, len(edges)
}

// orderedByHelper: a and b are results #i and #j of one call of a gluon function every (nil-error) return of which
// returns values proved results[i] <= results[j] - the ordering of an interval done by a helper.
func orderedByHelper(P *engine.Prog, a, b ssa.Value) bool {
	ea, ok1 := a.(*ssa.Extract)
	eb, ok2 := b.(*ssa.Extract)
	if !ok1 || !ok2 || ea.Tuple != eb.Tuple {
		return false
	}
	call, ok := ea.Tuple.(*ssa.Call)
	if !ok {
		return false
	}
	h := call.Call.StaticCallee()
	if h == nil || len(h.Blocks) == 0 || !P.IsOwn(h) {
		return false
	}
	n := 0
	for _, ret := range engine.Returns(h) {
		if len(ret.Results) <= ea.Index || len(ret.Results) <= eb.Index {
			return false
		}
		if lr := engine.LastResult(ret); lr != nil && lr.Type().String() == "error" && !engine.IsNilConst(lr) {
			continue
		}
		n++
		x, y := ret.Results[ea.Index], ret.Results[eb.Index]
		if x != y && !engine.ProveLEAt(h, ret.Block(), x, y) {
			return false
		}
	}
	return n > 0
}

// setsAreOnlyInterpretedByTheResolvers (R16.10): nothing but the resolvers looks inside a message set.
func (c *Ctx) setsAreOnlyInterpretedByTheResolvers(rule string) {
	P, R := c.P, c.R
	R.Explain(rule, "one interpretation of a message set: in the server packages (internal/state, internal/session, internal/backend) the bounds of a command.SeqRange (fields Begin / End, or SeqNum.IsAsterisk on them) are read only by the resolver functions snapMsgList.resolveSeqInterval / resolveUIDInterval / resolveSeq / resolveUID (and helpers only they call).  Any other code that inspects a set to take a short cut (`1:*` means everything) has its own idea of what `*` and the internal 0 encoding mean - `*` alone then selects the whole mailbox.")
	allowed := []string{
		"internal/state.(*snapMsgList).resolveSeqInterval", "internal/state.(*snapMsgList).resolveUIDInterval",
		"internal/state.(*snapMsgList).resolveSeq", "internal/state.(*snapMsgList).resolveUID",
	}
	R.Table(rule+" functions allowed to read SeqRange bounds", allowed...)
	n := 0
	for _, f := range c.funcsInPkg("internal/state", "internal/session", "internal/backend") {
		reads := ""
		for _, b := range f.Blocks {
			for _, in := range b.Instrs {
				var x ssa.Value
				var idx int
				switch t := in.(type) {
				case *ssa.FieldAddr:
					x, idx = t.X, t.Field
				case *ssa.Field:
					x, idx = t.X, t.Field
				default:
					continue
				}
				tt := x.Type()
				if p, ok := tt.Underlying().(*types.Pointer); ok {
					tt = p.Elem()
				}
				if engine.IsNamed(tt, "imap/command", "SeqRange") {
					_ = idx
					reads = P.Pos(in.Pos())
				}
			}
		}
		if reads == "" {
			continue
		}
		n++
		top := topFn(f)
		ok := c.isAnchor(top, allowed...) || c.onlyCalledFrom(top, 2, allowed...)
		R.Check(ok, rule, c.name(c.ownerFn(f))+"|reads SeqRange bounds", reads, "a resolver function", "the bounds of a client's message set are inspected outside the resolvers ("+reads+"): a second, private interpretation of the set decides what the command acts on")
	}
	R.Min(rule, "functions reading SeqRange bounds", n, 2)
}

// parserDoesNotComputeWithSeqNums (R16.11): the parser transcribes a message set, it does not interpret it.
func (c *Ctx) parserDoesNotComputeWithSeqNums(rule string) {
	P, R := c.P, c.R
	R.Explain(rule, "a set is parsed to exactly what was written: in imap/command no arithmetic or comparison has an operand of type command.SeqNum outside SeqNum's own methods (IsAsterisk / String).  The value 0 encodes `*`; any folding, merging or ordering of ranges at parse time (`1,2,3` -> `1:3`) computes with that sentinel as if it were a number - `*,1` becomes `*:1` - and changes which messages the set names.")
	n, bad := 0, 0
	for _, f := range c.funcsInPkg("imap/command") {
		if rn := engine.RecvNamed(f); rn != nil && rn.Obj().Name() == "SeqNum" {
			continue
		}
		for _, b := range f.Blocks {
			for _, in := range b.Instrs {
				bo, ok := in.(*ssa.BinOp)
				if !ok {
					continue
				}
				n++
				if engine.IsNamed(bo.X.Type(), "imap/command", "SeqNum") || engine.IsNamed(bo.Y.Type(), "imap/command", "SeqNum") {
					bad++
					R.Check(false, rule, c.name(f)+"|"+bo.Op.String()+" on SeqNum", P.Pos(bo.Pos()), "", "the command parser computes with sequence-set numbers ("+bo.Op.String()+"): ranges are reshaped at parse time and `*` (encoded as 0) is treated as a number")
				}
			}
		}
	}
	R.Check(true, rule, "imap/command|binary operations scanned", "-", fmt.Sprintf("%d binary operations, %d on SeqNum operands", n, bad), "")
}

// noWrappingIDSuccessor (R16.12): the resolvers never add to a 32-bit id.
func (c *Ctx) noWrappingIDSuccessor(rule string) {
	P, R := c.P, c.R
	R.Explain(rule, "the largest number is a number like any other: in internal/state and internal/session (where the numbers of a client's set are turned into messages) no value of type imap.UID / imap.SeqID is incremented in the 32-bit domain - neither by `+` on the id type nor through the Add helper of the type.  4294967295 is a legal bound (`1:4294967295` is what some clients send for `1:*`); its 32-bit successor is 0, so a half-open search `[lo, hi+1)` selects nothing.  Positions are computed in int (conversions judged by R16.1).  The one legitimate successor in the code base - the next UID of a mailbox in the database layer, bounded by the UID limit check - is outside these packages and serves as the positive example of the pattern.")
	isID := func(t types.Type) bool {
		return is32(t) && (engine.IsNamed(t, "imap", "UID") || engine.IsNamed(t, "imap", "SeqID"))
	}
	match := func(in ssa.Instruction) string {
		switch t := in.(type) {
		case *ssa.BinOp:
			if t.Op == token.ADD && isID(t.Type()) {
				return "`+` on " + t.Type().String()
			}
		case *ssa.Call:
			if sc := t.Call.StaticCallee(); sc != nil && engine.ShortName(sc) == "Add" {
				if rn := engine.RecvNamed(sc); rn != nil && isID(rn) {
					return rn.Obj().Name() + ".Add"
				}
			}
		}
		return ""
	}
	scanned, elsewhere := 0, 0
	for _, f := range c.productFuncs() {
		rel := engine.RelPkg(P.OwnPkgPath(f))
		inScope := rel == "internal/state" || rel == "internal/session"
		if rn := engine.RecvNamed(f); rn != nil && isID(rn) {
			continue // the helper itself
		}
		for _, b := range f.Blocks {
			for _, in := range b.Instrs {
				w := match(in)
				if inScope {
					scanned++
				}
				if w == "" {
					continue
				}
				if !inScope {
					elsewhere++
					continue
				}
				R.Check(false, rule, c.name(f)+"|"+w, P.Pos(in.Pos()), "", "a 32-bit id is incremented ("+w+") where message sets are resolved: for the bound 4294967295 the successor wraps to 0 and the range selects the wrong messages")
			}
		}
	}
	R.Check(true, rule, "internal/state, internal/session|instructions scanned", "-", fmt.Sprintf("%d instructions scanned, no 32-bit id successor", scanned), "")
	R.Min(rule, "32-bit id successors elsewhere in the tree (positive example of the pattern)", elsewhere, 1)
}
