package rules

import (
	"go/types"
	"regexp"
	"strings"

	"golang.org/x/tools/go/ssa"

	"verifchecker/internal/engine"
)

func init() { register("C04", c04) }

var msgTableRe = regexp.MustCompile("(?i)mailbox_message_[0-9]+")

// commonThrough: library helpers whose result carries their first operand.
func commonThrough(c *ssa.Call) []ssa.Value {
	sc := c.Call.StaticCallee()
	if sc == nil {
		return nil
	}
	switch engine.BaseName(sc) {
	case "Map", "Filter", "Clone", "Chunk":
		if sc.Pkg != nil && strings.Contains(sc.Pkg.Pkg.Path(), "xslices") || (sc.Origin() != nil && sc.Origin().Pkg != nil && strings.Contains(sc.Origin().Pkg.Pkg.Path(), "xslices")) {
			// Map: element values come from the mapper's result, which derives from the slice
			if engine.BaseName(sc) == "Map" && len(c.Call.Args) == 2 {
				return []ssa.Value{c.Call.Args[0]}
			}
			return []ssa.Value{c.Call.Args[0]}
		}
	}
	return nil
}

func invokeName(v ssa.Value) (iface, method string, ok bool) {
	call, isCall := v.(*ssa.Call)
	if !isCall || !call.Call.IsInvoke() {
		return "", "", false
	}
	nt := engine.NamedOf(call.Call.Value.Type())
	if nt == nil {
		return "", engine.MethodName(call.Call.Method), true
	}
	return nt.Obj().Name(), engine.MethodName(call.Call.Method), true
}

func c04(c *Ctx) {
	defer c.requestOrderIsKept("R04.7")
	P, R := c.P, c.R
	R.Explain("R04.1", "schema: the per-mailbox message table template declares uid INTEGER PRIMARY KEY AUTOINCREMENT and mailboxes_v2.id likewise (checked on the tables SQLite builds from the extracted DDL): UIDs and table names are never reused, also after deleting the highest row.")
	R.Explain("R04.2", "no extracted statement writes the uid column of a message table, uses REPLACE on it, or writes sqlite_sequence; DROP TABLE of a message table occurs only in DeleteMailboxWithRemoteID.")
	R.Explain("R04.3", "UIDNEXT comes from the persisted high-water mark: every value reaching response.ItemUIDNext originates from db GetMailboxUID, whose statement reads sqlite_sequence (no MAX/COUNT over live rows).")
	R.Explain("R04.4", "T-SOURCE: every uidValidity argument of CreateMailbox / GetOrCreateMailbox(Alt) / CreateMailboxIfNotExists / SetMailboxUIDValidity originates from UIDValidityGenerator.Generate() (or UserInterface.GenerateUIDValidity, which forwards to it).")
	R.Explain("R04.5", "EpochUIDValidityGenerator.lastUID is touched only through sync/atomic and written only by a CompareAndSwap reached on the false edge of lastGenerated >= candidate (strictly increasing under concurrency).")
	R.Explain("R04.6", "T-SOURCE: the UIDs announced in APPENDUID / COPYUID (destination set) originate from the rows returned by the inserting statements (AddMessagesToMailbox / CreateMessageAndAddToMailbox), never from the predicted next UID.")

	res := c.sqlAnalysis()
	db := res.db
	// ---- R04.1 ---------------------------------------------------------------------
	for _, tbl := range []struct{ table, col string }{{"mailbox_message_1", "uid"}, {"mailboxes_v2", "id"}} {
		sqlText := db.TableSQL(tbl.table)
		okCol := false
		for _, col := range db.Columns(tbl.table) {
			if col.Name == tbl.col && col.PK == 1 && strings.EqualFold(col.Type, "integer") {
				okCol = true
			}
		}
		auto := regexp.MustCompile("(?i)`?" + tbl.col + "`?\\s+integer\\s+not\\s+null\\s+primary\\s+key\\s+autoincrement").MatchString(sqlText)
		R.Check(okCol && auto, "R04.1", "schema|"+tbl.table+"."+tbl.col, "", tbl.table+"."+tbl.col+" is INTEGER PRIMARY KEY AUTOINCREMENT",
			tbl.table+"."+tbl.col+" is not declared INTEGER PRIMARY KEY AUTOINCREMENT (got: "+sqlText+"): without AUTOINCREMENT SQLite reuses the highest rowid after it is deleted, so a UID/mailbox table name could denote a different message later")
	}
	// ---- R04.2 ---------------------------------------------------------------------
	n := 0
	for _, st := range res.stmts {
		if st.mig {
			continue
		}
		up := strings.ToUpper(st.text)
		key := "stmt|" + c.name(st.fn)
		if strings.Contains(up, "SQLITE_SEQUENCE") && !strings.HasPrefix(strings.TrimSpace(up), "SELECT") {
			R.Fail("R04.2", key+"|writes-sqlite_sequence", st.pos, "statement writes sqlite_sequence (the persisted UID high-water mark): "+st.text)
			continue
		}
		if !msgTableRe.MatchString(st.text) {
			continue
		}
		n++
		trim := strings.TrimSpace(up)
		bad := ""
		switch {
		case strings.HasPrefix(trim, "REPLACE") || strings.HasPrefix(trim, "INSERT OR REPLACE"):
			bad = "REPLACE on a message table can re-assign a UID"
		case strings.HasPrefix(trim, "INSERT"):
			// column list of the insert
			if i := strings.Index(up, "("); i >= 0 {
				if j := strings.Index(up[i:], ")"); j >= 0 {
					cols := up[i : i+j]
					if regexp.MustCompile("`UID`|\\bUID\\b").MatchString(cols) {
						bad = "INSERT names the uid column explicitly (UIDs must be assigned by AUTOINCREMENT)"
					}
				}
			}
		case strings.HasPrefix(trim, "UPDATE"):
			if i := strings.Index(up, " SET "); i >= 0 {
				set := up[i:]
				if w := strings.Index(set, " WHERE "); w >= 0 {
					set = set[:w]
				}
				if regexp.MustCompile("`UID`\\s*=|\\bUID\\b\\s*=").MatchString(set) {
					bad = "UPDATE assigns the uid column"
				}
			}
		case strings.HasPrefix(trim, "DROP"):
			if st.fn == nil || engine.ShortName(st.fn) != "DeleteMailboxWithRemoteID" {
				bad = "message table dropped outside DeleteMailboxWithRemoteID"
			}
		}
		R.Check(bad == "", "R04.2", key, st.pos, "statement does not assign or recycle UIDs", bad+": "+st.text)
	}
	R.Min("R04.2", "run-time statements on message tables", n, 10)

	// ---- R04.3 ---------------------------------------------------------------------
	sinks := 0
	for _, f := range c.productFuncs() {
		for _, cs := range engine.Calls(f) {
			sc := cs.Common().StaticCallee()
			if sc == nil || engine.ShortName(sc) != "ItemUIDNext" || sc.Pkg == nil || engine.RelPkg(sc.Pkg.Pkg.Path()) != "internal/response" {
				continue
			}
			sinks++
			okAll, bad := true, ""
			origins := P.Origins(cs.Common().Args[0], engine.OriginOpts{Through: commonThrough, FollowInvoke: func(call *ssa.Call) bool {
				return !engine.IsNamed(call.Call.Value.Type(), "db", "ReadOnly") && !engine.IsNamed(call.Call.Value.Type(), "db", "Transaction")
			}})
			for _, o := range origins {
				_, m, isInv := invokeName(o.V)
				if isInv && m == "GetMailboxUID" {
					continue
				}
				if o.Kind == "const" {
					if cst, ok := o.V.(*ssa.Const); ok && cst.Value == nil {
						continue
					}
				}
				okAll = false
				bad = o.V.String() + " (" + o.Kind + ") in " + parentName(c, o.V)
			}
			R.Check(okAll && len(origins) > 0, "R04.3", c.name(f)+"|UIDNEXT-source", P.Pos(cs.Pos()), "UIDNEXT value originates from db.GetMailboxUID only",
				"the UIDNEXT value announced here can originate from "+bad+" instead of the persisted UID counter: after the highest UID is expunged UIDNEXT would decrease / a UID could be predicted twice")
		}
	}
	R.Min("R04.3", "UIDNEXT announcement sites", sinks, 3)
	for _, st := range res.stmts {
		if st.fn != nil && engine.ShortName(st.fn) == "GetMailboxUID" {
			up := strings.ToUpper(st.text)
			ok := strings.Contains(up, "SQLITE_SEQUENCE") && !strings.Contains(up, "MAX(") && !strings.Contains(up, "COUNT(") && !msgTableRe.MatchString(st.text)
			R.Check(ok, "R04.3", "GetMailboxUID|statement", st.pos, "GetMailboxUID reads the AUTOINCREMENT high-water mark", "GetMailboxUID derives the next UID from live rows: "+st.text)
		}
	}

	// ---- R04.4 ---------------------------------------------------------------------
	vs := 0
	for _, f := range c.productFuncs() {
		rel := engine.RelPkg(P.OwnPkgPath(f))
		if strings.HasPrefix(rel, "internal/db_impl") || strings.HasPrefix(rel, "connector") {
			continue
		}
		for _, cs := range engine.Calls(f) {
			cc := cs.Common()
			if !cc.IsInvoke() || !(engine.IsNamed(cc.Value.Type(), "db", "Transaction")) {
				continue
			}
			sig := cc.Method.Type().(*types.Signature)
			pi := -1
			for i := 0; i < sig.Params().Len(); i++ {
				if sig.Params().At(i).Name() == "uidValidity" {
					pi = i
				}
			}
			if pi < 0 || pi >= len(cc.Args) {
				continue
			}
			vs++
			okAll, bad := true, ""
			origins := P.Origins(cc.Args[pi], engine.OriginOpts{Through: commonThrough})
			for _, o := range origins {
				_, m, isInv := invokeName(o.V)
				if isInv && (m == "Generate" || m == "GenerateUIDValidity") && o.Idx <= 0 {
					continue
				}
				okAll = false
				bad = o.V.String() + " (" + o.Kind + ") in " + parentName(c, o.V)
			}
			R.Check(okAll && len(origins) > 0, "R04.4", c.name(f)+"|"+engine.MethodName(cc.Method)+"|uidValidity", P.Pos(cs.Pos()),
				"UIDVALIDITY written here comes from the generator", "the UIDVALIDITY written by "+engine.MethodName(cc.Method)+" can originate from "+bad+" instead of UIDValidityGenerator.Generate(): a re-created or re-validated mailbox could get a value that is not greater than every earlier one")
		}
	}
	R.Min("R04.4", "UIDVALIDITY write sites", vs, 6)
	// GenerateUIDValidity implementations forward to Generate
	for _, f := range c.productFuncs() {
		if engine.ShortName(f) == "GenerateUIDValidity" && len(f.Blocks) > 0 {
			ok := false
			for _, ret := range engine.Returns(f) {
				for _, o := range P.Origins(engine.ResultOf(ret, 0), engine.OriginOpts{}) {
					if _, m, isInv := invokeName(o.V); isInv && m == "Generate" {
						ok = true
					}
				}
			}
			R.Check(ok, "R04.4", c.name(f)+"|forwards-to-Generate", P.Pos(f.Pos()), "GenerateUIDValidity returns UIDValidityGenerator.Generate()", "GenerateUIDValidity does not return the generator's value")
		}
	}

	c04epoch(c)

	// ---- R04.6 ---------------------------------------------------------------------
	us := 0
	for _, f := range c.productFuncs() {
		for _, cs := range engine.Calls(f) {
			sc := cs.Common().StaticCallee()
			if sc == nil || sc.Pkg == nil || engine.RelPkg(sc.Pkg.Pkg.Path()) != "internal/response" {
				continue
			}
			var arg ssa.Value
			switch engine.ShortName(sc) {
			case "ItemAppendUID":
				arg = cs.Common().Args[1]
			case "ItemCopyUID":
				arg = cs.Common().Args[2]
			default:
				continue
			}
			us++
			okAll, bad := true, ""
			origins := P.Origins(arg, engine.OriginOpts{Through: commonThrough, FollowInvoke: func(call *ssa.Call) bool {
				t := call.Call.Value.Type()
				return !engine.IsNamed(t, "db", "ReadOnly") && !engine.IsNamed(t, "db", "Transaction") && !engine.IsNamed(t, "connector", "Connector")
			}})
			for _, o := range origins {
				_, m, isInv := invokeName(o.V)
				if isInv && (m == "AddMessagesToMailbox" || m == "CreateMessageAndAddToMailbox") {
					continue
				}
				if o.Kind == "const" {
					continue // zero values on error paths
				}
				okAll = false
				bad = o.V.String() + " (" + o.Kind + ") in " + parentName(c, o.V)
			}
			R.Check(okAll && len(origins) > 0, "R04.6", c.name(f)+"|"+engine.ShortName(sc), P.Pos(cs.Pos()), "announced UIDs come from the rows the insert returned",
				"the UID announced in "+engine.ShortName(sc)+" can originate from "+bad+" rather than from the inserted rows: the message may later be found under a different UID")
		}
	}
	R.Min("R04.6", "APPENDUID/COPYUID sites", us, 3)
}

func parentName(c *Ctx, v ssa.Value) string {
	if v.Parent() == nil {
		return "?"
	}
	return c.name(v.Parent())
}

func c04epoch(c *Ctx) {
	P, R := c.P, c.R
	fld := c.fieldOf("imap", "EpochUIDValidityGenerator", "lastUID")
	if fld == nil {
		R.Fail("R04.5", "anchor:EpochUIDValidityGenerator.lastUID", "", "field not found")
		return
	}
	uses := 0
	for _, f := range c.productFuncs() {
		for _, b := range f.Blocks {
			for _, in := range b.Instrs {
				fa, ok := in.(*ssa.FieldAddr)
				if !ok || !fieldAddrIs(fa, fld) {
					continue
				}
				for _, r := range *fa.Referrers() {
					uses++
					call, isCall := r.(*ssa.Call)
					atomicOK := false
					if isCall {
						if sc := call.Call.StaticCallee(); sc != nil && sc.Pkg != nil && sc.Pkg.Pkg.Path() == "sync/atomic" {
							atomicOK = true
							if strings.HasPrefix(engine.ShortName(sc), "Store") || strings.HasPrefix(engine.ShortName(sc), "Add") || strings.HasPrefix(engine.ShortName(sc), "Swap") {
								R.Fail("R04.5", c.name(f)+"|unconditional-write", P.Pos(call.Pos()), "lastUID is written by "+engine.ShortName(sc)+" without the compare-and-swap that makes generated values strictly increasing")
							}
							if strings.HasPrefix(engine.ShortName(sc), "CompareAndSwap") {
								// dominated by the false edge of old >= new
								old, nw := call.Call.Args[1], call.Call.Args[2]
								ok := false
								for _, b2 := range f.Blocks {
									iff := engine.IfOf(b2)
									if iff == nil {
										continue
									}
									cmp, isCmp := iff.Cond.(*ssa.BinOp)
									if !isCmp {
										continue
									}
									ix := -1
									switch {
									case cmp.Op.String() == ">=" && cmp.X == old && sameOrPhi(cmp.Y, nw):
										ix = 1
									case cmp.Op.String() == "<" && cmp.X == old && sameOrPhi(cmp.Y, nw):
										ix = 0
									case cmp.Op.String() == "<=" && sameOrPhi(cmp.X, nw) && cmp.Y == old:
										ix = 1
									case cmp.Op.String() == ">" && sameOrPhi(cmp.X, nw) && cmp.Y == old:
										ix = 0
									}
									if ix >= 0 && engine.EdgeDominates(b2, ix, call.Block()) {
										ok = true
									}
								}
								R.Check(ok, "R04.5", c.name(f)+"|cas-guarded", P.Pos(call.Pos()), "CompareAndSwap(old,new) only when new > old", "the CompareAndSwap that publishes a new UIDVALIDITY is not guarded by new > last generated: two mailboxes created in the same second could get equal or decreasing values")
							}
						}
					}
					if !atomicOK {
						R.Fail("R04.5", c.name(f)+"|non-atomic-access", P.Pos(r.Pos()), "EpochUIDValidityGenerator.lastUID is accessed without sync/atomic")
					}
				}
			}
		}
	}
	R.Min("R04.5", "accesses of lastUID", uses, 2)
}

func sameOrPhi(a, b ssa.Value) bool {
	if a == b {
		return true
	}
	if ph, ok := a.(*ssa.Phi); ok {
		for _, e := range ph.Edges {
			if e == b {
				return true
			}
		}
	}
	if ph, ok := b.(*ssa.Phi); ok {
		for _, e := range ph.Edges {
			if e == a {
				return true
			}
		}
	}
	return false
}

// requestOrderIsKept (R04.7): the lists of a COPY / MOVE / APPEND are not reordered behind the caller's back.
func (c *Ctx) requestOrderIsKept(rule string) {
	P, R := c.P, c.R
	R.Explain(rule, "the UIDs announced are the UIDs the messages get: Mailbox.Copy / Move pair the ascending source UIDs with the ascending destination UIDs, which is right only while the destination UIDs are handed out in the order of the list that was passed down.  In internal/state and internal/backend no function permutes a slice it received as a parameter in place - sort.Slice/Sort/Stable, slices.Sort*/Reverse, xslices.Partition/Reverse, rand.Shuffle applied to a value whose producers lead back to a slice parameter (sub-slices included; a clone or a freshly built slice is fine).  An in-place partition of the request list (to split off the messages the destination already has) inserts the rest in another order, and COPYUID names the wrong destination UIDs.")
	permuter := func(sc *ssa.Function) bool {
		if sc == nil {
			return false
		}
		if o := sc.Origin(); o != nil {
			sc = o
		}
		switch engine.PkgPathOf(sc) {
		case "sort", "slices", "golang.org/x/exp/slices", "github.com/bradenaw/juniper/xslices", "math/rand":
		default:
			return false
		}
		switch sc.Name() {
		case "Sort", "SortFunc", "SortStableFunc", "Slice", "SliceStable", "Stable", "Reverse", "Partition", "Shuffle":
			return true
		}
		return false
	}
	seenAll, judged := 0, 0
	for _, f := range c.productFuncs() {
		rel := engine.RelPkg(P.OwnPkgPath(f))
		for _, cs := range engine.Calls(f) {
			if cs.Instr.Parent() != f || !permuter(cs.Common().StaticCallee()) || len(cs.Common().Args) == 0 {
				continue
			}
			seenAll++
			if rel != "internal/state" && rel != "internal/backend" {
				continue
			}
			judged++
			arg := cs.Common().Args[0]
			if mi, ok := arg.(*ssa.MakeInterface); ok {
				arg = mi.X
			}
			var par *ssa.Parameter
			engine.Backward(arg, engine.FlowOpts{Loads: true}, func(x ssa.Value) bool {
				if p, ok := x.(*ssa.Parameter); ok {
					if _, isSlice := p.Type().Underlying().(*types.Slice); isSlice {
						par = p
					}
					return false
				}
				return true
			})
			why := ""
			if par != nil {
				why = "parameter " + par.Name() + " of " + c.name(par.Parent())
			}
			pn := cs.Common().StaticCallee()
			if o := pn.Origin(); o != nil {
				pn = o
			}
			R.Check(par == nil, rule, c.name(f)+"|"+pn.Name()+" on own data only", P.Pos(cs.Pos()), "the permuted slice is built locally", "a slice the function was handed ("+why+") is permuted in place: the caller's list - and the order in which its messages are inserted and given UIDs - changes behind the caller's back, so the UIDs announced in COPYUID / APPENDUID are paired with the wrong messages")
		}
	}
	R.Check(true, rule, "internal/state, internal/backend|in-place permutations judged", "-", fmtf("%d of %d permuting calls in the tree lie in these packages", judged, seenAll), "")
	R.Min(rule, "in-place permuting calls found in the tree (positive examples of the pattern)", seenAll, 3)
}
