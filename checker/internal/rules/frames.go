package rules

import (
	"bufio"
	"bytes"
	"os"
	"os/exec"
	"regexp"
	"strconv"
	"strings"
)

var stextRe = regexp.MustCompile(`^(\S+) STEXT.* args=0x([0-9a-f]+) locals=0x([0-9a-f]+)`)

// frameSizes compiles the given packages of the repository with -gcflags=-S (no code is
// run) and returns, per fully qualified function symbol, args+locals+16 bytes.
func (c *Ctx) frameSizes(pkgs ...string) (map[string]int, error) {
	args := []string{"build", "-gcflags=-S"}
	for _, p := range pkgs {
		args = append(args, "./"+p)
	}
	cmd := exec.Command("go", args...)
	cmd.Dir = c.P.Cfg.Dir
	cmd.Env = append(os.Environ(), "GOFLAGS=-mod=mod", "GOPROXY=off", "GOSUMDB=off", "GOTOOLCHAIN=local", "GOWORK=off")
	var buf bytes.Buffer
	cmd.Stderr = &buf
	cmd.Stdout = &buf
	if err := cmd.Run(); err != nil {
		return nil, err
	}
	out := map[string]int{}
	sc := bufio.NewScanner(&buf)
	sc.Buffer(make([]byte, 1<<20), 1<<24)
	for sc.Scan() {
		m := stextRe.FindStringSubmatch(sc.Text())
		if m == nil {
			continue
		}
		a, _ := strconv.ParseInt(m[2], 16, 64)
		l, _ := strconv.ParseInt(m[3], 16, 64)
		out[m[1]] = int(a + l + 16)
	}
	return out, nil
}

// symbolOf maps our function name to the linker symbol.
func symbolOf(name string) string {
	// "rfc822.(*Section).load" -> "github.com/ProtonMail/gluon/rfc822.(*Section).load"
	return "github.com/ProtonMail/gluon/" + strings.TrimPrefix(name, "gluon.")
}
