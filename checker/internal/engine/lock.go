package engine

import (
	"go/token"
	"go/types"
	"sort"
	"strings"

	"golang.org/x/tools/go/ssa"
)

// LockOp describes a Lock/RLock/Unlock/RUnlock call.
type LockOp struct {
	Instr    ssa.Instruction
	Path     string // canonical access path of the lock ("user.statesLock", "q.cond.L")
	Acquire  bool
	Read     bool
	Deferred bool
}

// AccessPath gives a structural name to a value: parameters by name, fields by name,
// loads transparent.  Unknown roots yield "" (no path).
func AccessPath(v ssa.Value) string {
	switch t := v.(type) {
	case *ssa.Parameter:
		return t.Name()
	case *ssa.FreeVar:
		return t.Name()
	case *ssa.FieldAddr:
		base := AccessPath(t.X)
		if base == "" {
			return ""
		}
		st, ok := t.X.Type().Underlying().(*types.Pointer).Elem().Underlying().(*types.Struct)
		if !ok {
			return ""
		}
		return base + "." + st.Field(t.Field).Name()
	case *ssa.Field:
		base := AccessPath(t.X)
		if base == "" {
			return ""
		}
		st, ok := t.X.Type().Underlying().(*types.Struct)
		if !ok {
			return ""
		}
		return base + "." + st.Field(t.Field).Name()
	case *ssa.UnOp:
		if t.Op == token.MUL {
			if al, ok := t.X.(*ssa.Alloc); ok {
				// spilled receiver / captured parameter: single store of a parameter
				if sts := StoresTo(al); len(sts) == 1 {
					return AccessPath(sts[0].Val)
				}
				return ""
			}
			return AccessPath(t.X)
		}
	case *ssa.IndexAddr:
		// element of a slice/array reached through a stable path: x[3] (constant index) or x[*]
		base := AccessPath(t.X)
		if base == "" {
			return ""
		}
		if k, ok := t.Index.(*ssa.Const); ok && k.Value != nil {
			return base + "[" + k.Value.ExactString() + "]"
		}
		return base + "[*]"
	case *ssa.Slice:
		return AccessPath(t.X)
	case *ssa.Alloc:
		if sts := StoresTo(t); len(sts) == 1 {
			return AccessPath(sts[0].Val)
		}
	case *ssa.ChangeType:
		return AccessPath(t.X)
	case *ssa.MakeInterface:
		return AccessPath(t.X)
	}
	return ""
}

// LockOps lists the lock operations of fn.
func LockOps(fn *ssa.Function) []LockOp {
	var out []LockOp
	for _, b := range fn.Blocks {
		for _, in := range b.Instrs {
			ci, ok := in.(ssa.CallInstruction)
			if !ok {
				continue
			}
			cc := ci.Common()
			var name string
			var recv ssa.Value
			if cc.IsInvoke() {
				name, recv = cc.Method.Name(), cc.Value
				if nt := NamedOf(cc.Value.Type()); nt == nil || nt.Obj().Name() != "Locker" {
					continue
				}
			} else {
				sc := cc.StaticCallee()
				if sc == nil || sc.Pkg == nil || sc.Pkg.Pkg.Path() != "sync" || len(cc.Args) == 0 {
					continue
				}
				rn := RecvNamed(sc)
				if rn == nil || (rn.Obj().Name() != "Mutex" && rn.Obj().Name() != "RWMutex") {
					continue
				}
				name, recv = sc.Name(), cc.Args[0]
			}
			op := LockOp{Instr: in, Path: AccessPath(recv)}
			switch name {
			case "Lock":
				op.Acquire = true
			case "RLock":
				op.Acquire, op.Read = true, true
			case "Unlock":
			case "RUnlock":
				op.Read = true
			default:
				continue
			}
			if _, isDefer := in.(*ssa.Defer); isDefer {
				op.Deferred = true
			}
			out = append(out, op)
		}
	}
	return out
}

// HeldAt computes, for every instruction of fn, the set of lock paths that are held on
// every path reaching it (must analysis).  Deferred unlocks release at function exit only.
// A deferred closure that unlocks is treated like a deferred unlock.
func HeldAt(fn *ssa.Function) func(in ssa.Instruction) map[string]bool {
	ops := map[ssa.Instruction]LockOp{}
	for _, o := range LockOps(fn) {
		ops[o.Instr] = o
	}
	type set map[string]bool
	all := set{}
	for _, o := range ops {
		if o.Path != "" {
			all[o.Path] = true
		}
	}
	copySet := func(s set) set {
		n := set{}
		for k := range s {
			n[k] = true
		}
		return n
	}
	in := map[*ssa.BasicBlock]set{}
	out := map[*ssa.BasicBlock]set{}
	for _, b := range fn.Blocks {
		out[b] = copySet(all) // top
	}
	transfer := func(b *ssa.BasicBlock, s set) set {
		s = copySet(s)
		for _, ins := range b.Instrs {
			if o, ok := ops[ins]; ok && o.Path != "" && !o.Deferred {
				if o.Acquire {
					s[o.Path] = true
				} else {
					delete(s, o.Path)
				}
			}
		}
		return s
	}
	changed := true
	for iter := 0; changed && iter < 50; iter++ {
		changed = false
		for _, b := range fn.Blocks {
			var s set
			if b == fn.Blocks[0] {
				s = set{}
			} else {
				first := true
				for _, p := range b.Preds {
					if first {
						s = copySet(out[p])
						first = false
					} else {
						for k := range s {
							if !out[p][k] {
								delete(s, k)
							}
						}
					}
				}
				if s == nil {
					s = set{}
				}
			}
			in[b] = s
			o := transfer(b, s)
			if len(o) != len(out[b]) {
				changed = true
			} else {
				for k := range o {
					if !out[b][k] {
						changed = true
					}
				}
			}
			out[b] = o
		}
	}
	return func(target ssa.Instruction) map[string]bool {
		b := target.Block()
		if b == nil {
			return nil
		}
		s := copySet(in[b])
		for _, ins := range b.Instrs {
			if ins == target {
				break
			}
			if o, ok := ops[ins]; ok && o.Path != "" && !o.Deferred {
				if o.Acquire {
					s[o.Path] = true
				} else {
					delete(s, o.Path)
				}
			}
		}
		return s
	}
}

// HeldString renders a held set.
func HeldString(m map[string]bool) string {
	var k []string
	for x := range m {
		k = append(k, x)
	}
	sort.Strings(k)
	return strings.Join(k, ",")
}
