package engine

import (
	"go/types"

	"golang.org/x/tools/go/ssa"
)

// Fact is a branch condition known to have the given truth value at some program point.
// Conditions found inside a predicate helper carry Bind: the helper's parameters mapped to
// the values the caller passed.
type Fact struct {
	Cond  ssa.Value
	Truth bool
	Bind  map[*ssa.Parameter]ssa.Value
}

// Resolve maps a value of a helper back to the caller's value when it is one of the helper's
// parameters (following Bind transitively).
func (f Fact) Resolve(v ssa.Value) ssa.Value {
	for i := 0; i < 4; i++ {
		p, ok := v.(*ssa.Parameter)
		if !ok || f.Bind == nil {
			return v
		}
		a, ok := f.Bind[p]
		if !ok {
			return v
		}
		v = a
	}
	return v
}

// FactsDominating lists the conditions that must hold when block blk of fn executes: every If
// edge that dominates blk, with `!` stripped and - when the condition is a call of one of the
// program's own boolean predicates - the conditions that the predicate's result implies
// (`return a && b` being true implies a and b; two frames).
func FactsDominating(fn *ssa.Function, blk *ssa.BasicBlock, isOwn func(*ssa.Function) bool) []Fact {
	var out []Fact
	for _, d := range fn.Blocks {
		iff := IfOf(d)
		if iff == nil {
			continue
		}
		for i := 0; i < 2; i++ {
			if EdgeDominates(d, i, blk) {
				out = append(out, impliedFacts(iff.Cond, i == 0, nil, isOwn, 0)...)
			}
		}
	}
	return out
}

func impliedFacts(cond ssa.Value, truth bool, bind map[*ssa.Parameter]ssa.Value, isOwn func(*ssa.Function) bool, depth int) []Fact {
	for {
		inner, neg := StripNot(cond)
		if !neg {
			break
		}
		cond, truth = inner, !truth
	}
	out := []Fact{{Cond: cond, Truth: truth, Bind: bind}}
	if depth >= 2 {
		return out
	}
	switch t := cond.(type) {
	case *ssa.Phi:
		out = append(out, phiImplied(t, truth, bind, isOwn, depth)...)
	case *ssa.Call:
		g := t.Call.StaticCallee()
		if g == nil || len(g.Blocks) == 0 || !isOwn(g) {
			return out
		}
		if g.Signature.Results().Len() != 1 {
			return out
		}
		if b, ok := g.Signature.Results().At(0).Type().Underlying().(*types.Basic); !ok || b.Kind() != types.Bool {
			return out
		}
		nb := map[*ssa.Parameter]ssa.Value{}
		for i, p := range g.Params {
			if i < len(t.Call.Args) {
				a := t.Call.Args[i]
				if bind != nil {
					if ap, ok := a.(*ssa.Parameter); ok {
						if v, ok := bind[ap]; ok {
							a = v
						}
					}
				}
				nb[p] = a
			}
		}
		// the returns that can produce `truth`
		var cands []*ssa.Return
		for _, r := range Returns(g) {
			if k, ok := ResultOf(r, 0).(*ssa.Const); ok {
				if bv, isB := ConstBool(k); isB && bv != truth {
					continue
				}
			}
			cands = append(cands, r)
		}
		if len(cands) != 1 {
			return out
		}
		r := cands[0]
		for _, d := range g.Blocks {
			iff := IfOf(d)
			if iff == nil {
				continue
			}
			for i := 0; i < 2; i++ {
				if EdgeDominates(d, i, r.Block()) {
					out = append(out, impliedFacts(iff.Cond, i == 0, nb, isOwn, depth+1)...)
				}
			}
		}
		if _, isConst := ResultOf(r, 0).(*ssa.Const); !isConst {
			out = append(out, impliedFacts(ResultOf(r, 0), truth, nb, isOwn, depth+1)...)
		}
	}
	return out
}

// phiImplied: a boolean phi produced by && / ||: if only one incoming value can equal truth,
// the conditions on that edge hold.
func phiImplied(ph *ssa.Phi, truth bool, bind map[*ssa.Parameter]ssa.Value, isOwn func(*ssa.Function) bool, depth int) []Fact {
	cand := -1
	for i, e := range ph.Edges {
		if k, ok := e.(*ssa.Const); ok {
			if bv, isB := ConstBool(k); isB && bv != truth {
				continue
			}
		}
		if cand >= 0 {
			return nil
		}
		cand = i
	}
	if cand < 0 {
		return nil
	}
	var out []Fact
	pred := ph.Block().Preds[cand]
	fn := ph.Parent()
	for _, d := range fn.Blocks {
		iff := IfOf(d)
		if iff == nil {
			continue
		}
		for i := 0; i < 2; i++ {
			if EdgeDominates(d, i, pred) || (d == pred && len(d.Succs) == 2 && d.Succs[i] == ph.Block() && d.Succs[1-i] != ph.Block()) {
				out = append(out, impliedFacts(iff.Cond, i == 0, bind, isOwn, depth+1)...)
			}
		}
	}
	if _, isConst := ph.Edges[cand].(*ssa.Const); !isConst {
		out = append(out, impliedFacts(ph.Edges[cand], truth, bind, isOwn, depth+1)...)
	}
	return out
}
