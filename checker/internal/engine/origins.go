package engine

import (
	"go/token"
	"go/types"

	"golang.org/x/tools/go/ssa"
)

// Origin is a leaf of the backward value-flow walk.
type Origin struct {
	V    ssa.Value // the leaf value (call, const, parameter without callers, field load …)
	Idx  int       // for multi-result calls: which result (-1 otherwise)
	Kind string    // const | call | invoke | param | field | global | other
}

// env binds the parameters of a frame to argument values of the caller frame.
type env struct {
	fn     *ssa.Function
	call   *ssa.CallCommon
	callee *ssa.Function
	parent *env
}

// OriginOpts tunes the walk.
type OriginOpts struct {
	// FollowFields: a load of struct field f continues at every store to f in own code.
	FollowFields bool
	// Stop: treat the value as a leaf (e.g. an allowed source) without looking further.
	Stop func(v ssa.Value) bool
	// Through: for a call that is not followed into (library helper), the operands whose
	// value the result carries (e.g. xslices.Map(s, f) -> s).
	Through func(c *ssa.Call) []ssa.Value
	// FollowInvoke: resolve this interface-method call through the call graph and continue
	// in the implementations (default: an invoke is a leaf).
	FollowInvoke func(c *ssa.Call) bool
	MaxDepth     int
}

type originWalker struct {
	p           *Prog
	o           OriginOpts
	out         []Origin
	seen        map[seenKey]bool
	fieldStores map[*types.Var][]ssa.Value
}

type seenKey struct {
	v ssa.Value
	e *env
	i int
}

// Origins returns the leaves from which v may be computed (value flow only: through phis,
// conversions, local cells, closures' free variables, own function calls with their
// parameters bound to the call's arguments, callers for unbound parameters).
func (p *Prog) Origins(v ssa.Value, o OriginOpts) []Origin {
	if o.MaxDepth == 0 {
		o.MaxDepth = 40
	}
	w := &originWalker{p: p, o: o, seen: map[seenKey]bool{}}
	w.walk(v, -1, nil, 0)
	return w.out
}

func (w *originWalker) leaf(v ssa.Value, idx int, kind string) {
	w.out = append(w.out, Origin{V: v, Idx: idx, Kind: kind})
}

func (w *originWalker) fieldStoreValues(f *types.Var) []ssa.Value {
	if w.fieldStores == nil {
		w.fieldStores = map[*types.Var][]ssa.Value{}
		for _, fn := range w.p.Funcs {
			for _, b := range fn.Blocks {
				for _, in := range b.Instrs {
					if st, ok := in.(*ssa.Store); ok {
						if fa, ok := st.Addr.(*ssa.FieldAddr); ok {
							if fv := fieldVar(fa); fv != nil {
								w.fieldStores[fv] = append(w.fieldStores[fv], st.Val)
							}
						}
					}
				}
			}
		}
	}
	return w.fieldStores[f]
}

func fieldVar(fa *ssa.FieldAddr) *types.Var {
	pt, ok := fa.X.Type().Underlying().(*types.Pointer)
	if !ok {
		return nil
	}
	st, ok := pt.Elem().Underlying().(*types.Struct)
	if !ok || fa.Field >= st.NumFields() {
		return nil
	}
	return st.Field(fa.Field)
}

// walk follows value v; idx selects a tuple component when v is a multi-result call.
func (w *originWalker) walk(v ssa.Value, idx int, e *env, depth int) {
	if v == nil {
		return
	}
	k := seenKey{v, e, idx}
	if w.seen[k] {
		return
	}
	w.seen[k] = true
	if depth > w.o.MaxDepth {
		w.leaf(v, idx, "other")
		return
	}
	if w.o.Stop != nil && w.o.Stop(v) {
		w.leaf(v, idx, "stop")
		return
	}
	switch t := v.(type) {
	case *ssa.Const:
		w.leaf(v, idx, "const")
	case *ssa.Phi:
		for _, x := range t.Edges {
			w.walk(x, idx, e, depth+1)
		}
	case *ssa.Extract:
		w.walk(t.Tuple, t.Index, e, depth+1)
	case *ssa.ChangeType:
		w.walk(t.X, idx, e, depth+1)
	case *ssa.ChangeInterface:
		w.walk(t.X, idx, e, depth+1)
	case *ssa.Convert:
		w.walk(t.X, idx, e, depth+1)
	case *ssa.MakeInterface:
		w.walk(t.X, idx, e, depth+1)
	case *ssa.TypeAssert:
		w.walk(t.X, -1, e, depth+1)
	case *ssa.UnOp:
		if t.Op != token.MUL {
			w.leaf(v, idx, "other")
			return
		}
		switch a := t.X.(type) {
		case *ssa.Alloc:
			// flow-sensitive when the reaching store is evident: nearest store in the same block
			// or up the chain of unique predecessors
			if st := nearestStore(t, a); st != nil {
				w.walk(st.Val, idx, e, depth+1)
				return
			}
			sts := StoresTo(a)
			if len(sts) == 0 {
				w.leaf(v, idx, "other")
			}
			for _, st := range sts {
				w.walk(st.Val, idx, e, depth+1)
			}
		case *ssa.FreeVar:
			bs := FreeVarBinding(a)
			if len(bs) == 0 {
				w.leaf(v, idx, "other")
			}
			for _, b := range bs {
				if al, ok := b.(*ssa.Alloc); ok {
					for _, st := range StoresTo(al) {
						w.walk(st.Val, idx, e, depth+1)
					}
				} else {
					w.walk(b, idx, e, depth+1)
				}
			}
		case *ssa.IndexAddr:
			// element of a slice/array: derives from the container
			w.walk(a.X, -1, e, depth+1)
		case *ssa.FieldAddr:
			if ia, ok := a.X.(*ssa.IndexAddr); ok {
				// field of an element of a slice (rows returned by a query)
				w.walk(ia.X, -1, e, depth+1)
				return
			}
			if al, ok := a.X.(*ssa.Alloc); ok {
				// field of a local struct: values stored into that field, or the same field of
				// a struct value stored into the cell as a whole
				found := false
				for _, r := range *al.Referrers() {
					switch u := r.(type) {
					case *ssa.FieldAddr:
						if u.Field == a.Field {
							for _, st := range StoresTo(u) {
								found = true
								w.walk(st.Val, idx, e, depth+1)
							}
						}
					case *ssa.Store:
						if u.Addr == ssa.Value(al) {
							found = true
							w.walkField(u.Val, a.Field, e, depth+1)
						}
					}
				}
				if found {
					return
				}
			}
			fv := fieldVar(a)
			if w.o.FollowFields && fv != nil {
				vals := w.fieldStoreValues(fv)
				if len(vals) == 0 {
					w.leaf(v, idx, "field")
				}
				for _, x := range vals {
					w.walk(x, idx, nil, depth+1)
				}
			} else {
				w.leaf(v, idx, "field")
			}
		case *ssa.Global:
			w.leaf(v, idx, "global")
		default:
			w.leaf(v, idx, "other")
		}
	case *ssa.FreeVar:
		for _, b := range FreeVarBinding(t) {
			w.walk(b, idx, e, depth+1)
		}
	case *ssa.Alloc:
		// a variable cell (captured by reference): whatever is stored into it
		sts := StoresTo(t)
		if len(sts) == 0 {
			w.leaf(v, idx, "other")
		}
		for _, st := range sts {
			w.walk(st.Val, idx, e, depth+1)
		}
	case *ssa.Parameter:
		w.param(t, idx, e, depth)
	case *ssa.Call:
		w.call(t, idx, e, depth)
	case *ssa.Field:
		// component of a struct value: field-sensitive where the struct's construction is visible
		w.walkField(t.X, t.Field, e, depth+1)
	default:
		w.leaf(v, idx, "other")
	}
}

func (w *originWalker) param(pa *ssa.Parameter, idx int, e *env, depth int) {
	fn := pa.Parent()
	pi := ParamIndex(fn, pa)
	// bound in the current environment chain?
	for x := e; x != nil; x = x.parent {
		if x.callee == fn {
			if arg := ArgForParam(x.call, fn, pi); arg != nil {
				w.walk(arg, idx, x.parent, depth+1)
				return
			}
		}
	}
	callers := w.p.CallersOf(fn)
	if len(callers) == 0 {
		w.leaf(pa, idx, "param")
		return
	}
	for _, cs := range callers {
		if arg := ArgForParam(cs.Common(), fn, pi); arg != nil {
			w.walk(arg, idx, nil, depth+1)
		}
	}
}

func (w *originWalker) call(c *ssa.Call, idx int, e *env, depth int) {
	cc := &c.Call
	if w.o.Through != nil {
		if ops := w.o.Through(c); len(ops) > 0 {
			for _, x := range ops {
				w.walk(x, -1, e, depth+1)
			}
			return
		}
	}
	if cc.IsInvoke() {
		if w.o.FollowInvoke != nil && w.o.FollowInvoke(c) {
			fns := w.p.Callees(CallSite{Fn: c.Parent(), Instr: c})
			n := 0
			for _, f := range fns {
				if w.p.IsOwn(f) && len(f.Blocks) > 0 {
					n++
					w.into(c, f, idx, e, depth)
				}
			}
			if n > 0 {
				return
			}
		}
		w.leaf(c, idx, "invoke")
		return
	}
	var callee *ssa.Function
	switch f := cc.Value.(type) {
	case *ssa.Function:
		callee = f
	case *ssa.MakeClosure:
		callee = f.Fn.(*ssa.Function)
	case *ssa.Builtin:
		w.leaf(c, idx, "call")
		return
	default:
		// dynamic call of a function value: resolve the value (parameter bound to a closure …)
		fns := w.funcValues(cc.Value, e, depth)
		if len(fns) == 0 {
			w.leaf(c, idx, "call")
			return
		}
		for _, f := range fns {
			w.into(c, f, idx, e, depth)
		}
		return
	}
	w.into(c, callee, idx, e, depth)
}

func (w *originWalker) into(c *ssa.Call, callee *ssa.Function, idx int, e *env, depth int) {
	callee = Unwrap2(callee)
	if !w.p.IsOwn(callee) || len(callee.Blocks) == 0 {
		w.leaf(c, idx, "call")
		return
	}
	ne := &env{fn: c.Parent(), call: &c.Call, callee: callee, parent: e}
	any := false
	for _, r := range Returns(callee) {
		i := idx
		if i < 0 {
			i = 0
		}
		if i < len(r.Results) {
			any = true
			if zeroWithError(r, i) {
				continue // `return <zero>, err`: the value of a failed call, which callers do not use
			}
			w.walk(ResultOf(r, i), -1, ne, depth+1)
		}
	}
	if !any {
		w.leaf(c, idx, "call")
	}
}

// funcValues resolves a function-typed value to the functions it may denote.
func (w *originWalker) funcValues(v ssa.Value, e *env, depth int) []*ssa.Function {
	var out []*ssa.Function
	seen := map[ssa.Value]bool{}
	var rec func(x ssa.Value, e *env, d int)
	rec = func(x ssa.Value, e *env, d int) {
		if x == nil || seen[x] || d > 8 {
			return
		}
		seen[x] = true
		switch t := x.(type) {
		case *ssa.Function:
			out = append(out, t)
		case *ssa.MakeClosure:
			out = append(out, t.Fn.(*ssa.Function))
		case *ssa.Phi:
			for _, ed := range t.Edges {
				rec(ed, e, d+1)
			}
		case *ssa.ChangeType:
			rec(t.X, e, d+1)
		case *ssa.Parameter:
			fn := t.Parent()
			pi := ParamIndex(fn, t)
			for xe := e; xe != nil; xe = xe.parent {
				if xe.callee == fn {
					rec(ArgForParam(xe.call, fn, pi), xe.parent, d+1)
					return
				}
			}
		case *ssa.FreeVar:
			for _, b := range FreeVarBinding(t) {
				rec(b, e, d+1)
			}
		case *ssa.UnOp:
			switch a := t.X.(type) {
			case *ssa.Alloc:
				for _, st := range StoresTo(a) {
					rec(st.Val, e, d+1)
				}
			case *ssa.FreeVar:
				for _, b := range FreeVarBinding(a) {
					if al, ok := b.(*ssa.Alloc); ok {
						for _, st := range StoresTo(al) {
							rec(st.Val, e, d+1)
						}
					}
				}
			}
		}
	}
	rec(v, e, 0)
	return out
}

// nearestStore finds the store to cell that certainly reaches load ld: the last store
// before it in its block, or in the chain of unique predecessors (no merge in between).
func nearestStore(ld *ssa.UnOp, cell *ssa.Alloc) *ssa.Store {
	b := ld.Block()
	if b == nil {
		return nil
	}
	idx := InstrIndex(ld)
	for hops := 0; hops < 12 && b != nil; hops++ {
		for j := idx - 1; j >= 0; j-- {
			switch t := b.Instrs[j].(type) {
			case *ssa.Store:
				if t.Addr == ssa.Value(cell) {
					return t
				}
			case *ssa.Call:
				// a call that received a closure capturing the cell may have written it
				for _, a := range t.Call.Args {
					if mc, ok := a.(*ssa.MakeClosure); ok {
						for _, bnd := range mc.Bindings {
							if bnd == ssa.Value(cell) {
								return nil
							}
						}
					}
				}
			}
		}
		if len(b.Preds) != 1 {
			return nil
		}
		b = b.Preds[0]
		idx = len(b.Instrs)
	}
	return nil
}

// walkField follows field #fi of the struct value v to the values stored into that field.
func (w *originWalker) walkField(v ssa.Value, fi int, e *env, depth int) {
	if v == nil || depth > w.o.MaxDepth {
		w.leaf(v, -1, "other")
		return
	}
	k := seenKey{v, e, 1000 + fi}
	if w.seen[k] {
		return
	}
	w.seen[k] = true
	switch t := v.(type) {
	case *ssa.UnOp:
		if t.Op == token.MUL {
			if al, ok := t.X.(*ssa.Alloc); ok {
				found := false
				for _, r := range *al.Referrers() {
					switch u := r.(type) {
					case *ssa.FieldAddr:
						if u.Field == fi {
							for _, st := range StoresTo(u) {
								found = true
								w.walk(st.Val, -1, e, depth+1)
							}
						}
					case *ssa.Store:
						if u.Addr == ssa.Value(al) {
							found = true
							w.walkField(u.Val, fi, e, depth+1)
						}
					}
				}
				if found {
					return
				}
			}
		}
	case *ssa.Phi:
		for _, x := range t.Edges {
			w.walkField(x, fi, e, depth+1)
		}
		return
	case *ssa.Parameter:
		fn := t.Parent()
		pi := ParamIndex(fn, t)
		for x := e; x != nil; x = x.parent {
			if x.callee == fn {
				if arg := ArgForParam(x.call, fn, pi); arg != nil {
					w.walkField(arg, fi, x.parent, depth+1)
					return
				}
			}
		}
		callers := w.p.CallersOf(fn)
		if len(callers) > 0 {
			for _, cs := range callers {
				if arg := ArgForParam(cs.Common(), fn, pi); arg != nil {
					w.walkField(arg, fi, nil, depth+1)
				}
			}
			return
		}
	case *ssa.Extract:
		if call, ok := t.Tuple.(*ssa.Call); ok {
			if callee := call.Call.StaticCallee(); callee != nil && w.p.IsOwn(Unwrap2(callee)) && len(Unwrap2(callee).Blocks) > 0 {
				callee = Unwrap2(callee)
				ne := &env{fn: call.Parent(), call: &call.Call, callee: callee, parent: e}
				for _, r := range Returns(callee) {
					if t.Index < len(r.Results) {
						w.walkField(ResultOf(r, t.Index), fi, ne, depth+1)
					}
				}
				return
			}
		}
	case *ssa.Call:
		if callee := t.Call.StaticCallee(); callee != nil && w.p.IsOwn(Unwrap2(callee)) && len(Unwrap2(callee).Blocks) > 0 {
			callee = Unwrap2(callee)
			ne := &env{fn: t.Parent(), call: &t.Call, callee: callee, parent: e}
			for _, r := range Returns(callee) {
				if len(r.Results) > 0 {
					w.walkField(ResultOf(r, 0), fi, ne, depth+1)
				}
			}
			return
		}
	}
	// construction not visible: fall back to the whole value
	w.walk(v, -1, e, depth+1)
}

// zeroWithError recognises the idiom `return <zero value>, …, err` with a non-nil error: the
// i-th result of such a return is not a value the caller works with.
func zeroWithError(r *ssa.Return, i int) bool {
	n := len(r.Results)
	if n < 2 || i >= n-1 {
		return false
	}
	last := ResultOf(r, n-1)
	if last == nil || IsNilConst(last) {
		return false
	}
	if nt, ok := last.Type().(*types.Named); !ok || nt.Obj().Name() != "error" || nt.Obj().Pkg() != nil {
		return false
	}
	k, ok := ResultOf(r, i).(*ssa.Const)
	if !ok {
		return false
	}
	return k.Value == nil || isBasicZero(k)
}
