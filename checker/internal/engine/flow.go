package engine

import (
	"go/token"

	"golang.org/x/tools/go/ssa"
)

// IsBuiltinCall reports whether v is a call of the named builtin.
func IsBuiltinCall(v ssa.Value, name string) (*ssa.Call, bool) {
	c, ok := v.(*ssa.Call)
	if !ok {
		return nil, false
	}
	b, ok := c.Call.Value.(*ssa.Builtin)
	if !ok || b.Name() != name {
		return nil, false
	}
	return c, true
}

// StoresTo lists the values stored through addr (an Alloc or address value) within the
// functions that can see it (the allocating function and its closures).
func StoresTo(addr ssa.Value) []*ssa.Store {
	var out []*ssa.Store
	seen := map[ssa.Value]bool{}
	var rec func(a ssa.Value)
	rec = func(a ssa.Value) {
		if seen[a] {
			return
		}
		seen[a] = true
		refs := a.Referrers()
		if refs == nil {
			return
		}
		for _, r := range *refs {
			switch t := r.(type) {
			case *ssa.Store:
				if t.Addr == a {
					out = append(out, t)
				}
			case *ssa.MakeClosure:
				// the cell is captured: stores through the corresponding free variable
				fn := t.Fn.(*ssa.Function)
				for i, b := range t.Bindings {
					if b == a && i < len(fn.FreeVars) {
						rec(fn.FreeVars[i])
					}
				}
			}
		}
	}
	rec(addr)
	return out
}

// ElemStores returns the values stored into the elements of array/slice backing `arr`
// (an Alloc of array type), through IndexAddr.
func ElemStores(arr ssa.Value) []ssa.Value {
	var out []ssa.Value
	refs := arr.Referrers()
	if refs == nil {
		return nil
	}
	for _, r := range *refs {
		if ia, ok := r.(*ssa.IndexAddr); ok {
			for _, s := range StoresTo(ia) {
				out = append(out, s.Val)
			}
		}
	}
	return out
}

// FreeVarBinding resolves a free variable of a closure to the value bound at (each)
// MakeClosure site in the parent.
func FreeVarBinding(fv *ssa.FreeVar) []ssa.Value {
	fn := fv.Parent()
	par := fn.Parent()
	if par == nil {
		return nil
	}
	idx := -1
	for i, x := range fn.FreeVars {
		if x == fv {
			idx = i
		}
	}
	if idx < 0 {
		return nil
	}
	var out []ssa.Value
	for _, f := range WithClosures(par) {
		for _, b := range f.Blocks {
			for _, in := range b.Instrs {
				if mc, ok := in.(*ssa.MakeClosure); ok && mc.Fn == fn && idx < len(mc.Bindings) {
					out = append(out, mc.Bindings[idx])
				}
			}
		}
	}
	return out
}

// FlowOpts selects which producer edges Backward follows.
type FlowOpts struct {
	AppendBase  bool                          // append(s, xs...) -> s
	AppendElems bool                          // append(s, xs...) -> xs (and the elements packed into a varargs array)
	Loads       bool                          // *alloc -> values stored into alloc (local cells, captured variables)
	Calls       func(c *ssa.Call) []ssa.Value // optional: how to look through a call (return the values it forwards)
}

// Backward walks the producers of v (Phi, conversions, slices, and the edges enabled in
// o) and calls visit on every value reached (including v).  If visit returns false the
// walk does not continue through that value.
func Backward(v ssa.Value, o FlowOpts, visit func(ssa.Value) bool) {
	seen := map[ssa.Value]bool{}
	var walk func(ssa.Value)
	walk = func(x ssa.Value) {
		if x == nil || seen[x] {
			return
		}
		seen[x] = true
		if !visit(x) {
			return
		}
		switch t := x.(type) {
		case *ssa.Phi:
			for _, e := range t.Edges {
				walk(e)
			}
		case *ssa.ChangeType:
			walk(t.X)
		case *ssa.ChangeInterface:
			walk(t.X)
		case *ssa.MakeInterface:
			walk(t.X)
		case *ssa.Convert:
			walk(t.X)
		case *ssa.Slice:
			walk(t.X)
			if o.AppendElems {
				if a, ok := t.X.(*ssa.Alloc); ok {
					for _, e := range ElemStores(a) {
						walk(e)
					}
				}
			}
		case *ssa.Extract:
			walk(t.Tuple)
		case *ssa.UnOp:
			if t.Op == token.MUL && o.Loads {
				switch a := t.X.(type) {
				case *ssa.Alloc:
					for _, s := range StoresTo(a) {
						walk(s.Val)
					}
				case *ssa.FreeVar:
					for _, b := range FreeVarBinding(a) {
						if al, ok := b.(*ssa.Alloc); ok {
							for _, s := range StoresTo(al) {
								walk(s.Val)
							}
						} else {
							walk(b)
						}
					}
				}
			}
		case *ssa.FreeVar:
			if o.Loads {
				for _, b := range FreeVarBinding(t) {
					walk(b)
				}
			}
		case *ssa.Call:
			if _, ok := IsBuiltinCall(t, "append"); ok {
				if o.AppendBase && len(t.Call.Args) > 0 {
					walk(t.Call.Args[0])
				}
				if o.AppendElems && len(t.Call.Args) > 1 {
					walk(t.Call.Args[1])
				}
			} else if o.Calls != nil {
				for _, y := range o.Calls(t) {
					walk(y)
				}
			}
		}
	}
	walk(v)
}

// AnyBackward reports whether pred holds for some value in the backward walk.
func AnyBackward(v ssa.Value, o FlowOpts, pred func(ssa.Value) bool) bool {
	found := false
	Backward(v, o, func(x ssa.Value) bool {
		if pred(x) {
			found = true
		}
		return !found
	})
	return found
}
