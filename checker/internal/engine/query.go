package engine

import (
	"go/constant"
	"go/token"
	"go/types"
	"sort"
	"strings"

	"golang.org/x/tools/go/callgraph"
	"golang.org/x/tools/go/ssa"
)

// CallSite is one call instruction inside a function.
type CallSite struct {
	Fn    *ssa.Function // enclosing function
	Instr ssa.CallInstruction
}

func (c CallSite) Common() *ssa.CallCommon { return c.Instr.Common() }
func (c CallSite) Pos() token.Pos {
	if p := c.Instr.Pos(); p.IsValid() {
		return p
	}
	return c.Instr.Common().Pos()
}

// Calls lists every call/go/defer instruction of fn (not of nested closures).
func Calls(fn *ssa.Function) []CallSite {
	var out []CallSite
	for _, b := range fn.Blocks {
		for _, in := range b.Instrs {
			if ci, ok := in.(ssa.CallInstruction); ok {
				out = append(out, CallSite{fn, ci})
			}
		}
	}
	return out
}

// Closures lists the anonymous functions created (directly) in fn.
func Closures(fn *ssa.Function) []*ssa.Function { return fn.AnonFuncs }

// WithClosures returns fn and all functions nested in it, transitively.
func WithClosures(fn *ssa.Function) []*ssa.Function {
	out := []*ssa.Function{fn}
	for _, a := range fn.AnonFuncs {
		out = append(out, WithClosures(a)...)
	}
	return out
}

// Callees resolves a call site: static callee if any, else the VTA call-graph edges.
func (p *Prog) Callees(cs CallSite) []*ssa.Function {
	if f := cs.Common().StaticCallee(); f != nil {
		return []*ssa.Function{Unwrap2(f)}
	}
	n := p.CallGraph().Nodes[cs.Fn]
	if n == nil {
		return nil
	}
	var out []*ssa.Function
	seen := map[*ssa.Function]bool{}
	for _, e := range n.Out {
		if e.Site == cs.Instr {
			f := Unwrap2(e.Callee.Func)
			if !seen[f] {
				seen[f] = true
				out = append(out, f)
			}
		}
	}
	sort.Slice(out, func(i, j int) bool { return out[i].String() < out[j].String() })
	return out
}

// CallersOf lists the call sites (in gluon's own code) that may call fn.
func (p *Prog) CallersOf(fn *ssa.Function) []CallSite {
	n := p.CallGraph().Nodes[fn]
	if n == nil {
		return nil
	}
	var out []CallSite
	seen := map[ssa.CallInstruction]bool{}
	for _, e := range n.In {
		if e.Site == nil || seen[e.Site] {
			continue
		}
		if !p.IsOwn(e.Caller.Func) {
			continue
		}
		seen[e.Site] = true
		out = append(out, CallSite{e.Caller.Func, e.Site})
	}
	sort.Slice(out, func(i, j int) bool { return out[i].Pos() < out[j].Pos() })
	return out
}

// ReachOpts configures Reachable.
type ReachOpts struct {
	// FollowClosures treats "creates closure" as an edge (the closure may be called
	// later by a callee); default true behaviour is selected by the caller.
	FollowClosures bool
	// Stop prevents expansion of the given function.
	Stop func(*ssa.Function) bool
	// OwnOnly restricts the result (and expansion) to gluon's own functions.
	OwnOnly bool
}

// Reachable computes the functions reachable from roots in the call graph and, for
// each, one predecessor (for path printing).
func (p *Prog) Reachable(roots []*ssa.Function, o ReachOpts) map[*ssa.Function]*ssa.Function {
	cg := p.CallGraph()
	pred := map[*ssa.Function]*ssa.Function{}
	var work []*ssa.Function
	for _, r := range roots {
		if r == nil {
			continue
		}
		if _, ok := pred[r]; !ok {
			pred[r] = nil
			work = append(work, r)
		}
	}
	for len(work) > 0 {
		f := work[0]
		work = work[1:]
		if o.Stop != nil && o.Stop(f) {
			continue
		}
		var next []*ssa.Function
		if n := cg.Nodes[f]; n != nil {
			for _, e := range n.Out {
				next = append(next, Unwrap2(e.Callee.Func))
			}
		}
		if o.FollowClosures {
			next = append(next, f.AnonFuncs...)
		}
		sort.Slice(next, func(i, j int) bool { return next[i].String() < next[j].String() })
		for _, c := range next {
			if o.OwnOnly && !p.IsOwn(c) {
				continue
			}
			if _, ok := pred[c]; !ok {
				pred[c] = f
				work = append(work, c)
			}
		}
	}
	return pred
}

// PathTo renders the predecessor chain root -> … -> fn.
func (p *Prog) PathTo(pred map[*ssa.Function]*ssa.Function, fn *ssa.Function) string {
	var names []string
	for f := fn; f != nil; f = pred[f] {
		names = append(names, p.FuncName(f))
		if len(names) > 40 {
			break
		}
	}
	for i, j := 0, len(names)-1; i < j; i, j = i+1, j-1 {
		names[i], names[j] = names[j], names[i]
	}
	return strings.Join(names, " -> ")
}

// ConstBool returns the value of v if it is a boolean constant.
func ConstBool(v ssa.Value) (val, ok bool) {
	c, isC := v.(*ssa.Const)
	if !isC || c.Value == nil || c.Value.Kind() != constant.Bool {
		return false, false
	}
	return constant.BoolVal(c.Value), true
}

// ConstString returns the value of v if it is a string constant.
func ConstString(v ssa.Value) (string, bool) {
	c, isC := v.(*ssa.Const)
	if !isC || c.Value == nil || c.Value.Kind() != constant.String {
		return "", false
	}
	return constant.StringVal(c.Value), true
}

// ParamIndex returns the index of v in fn.Params, or -1.
func ParamIndex(fn *ssa.Function, v ssa.Value) int {
	for i, pa := range fn.Params {
		if pa == v {
			return i
		}
	}
	return -1
}

// ArgForParam returns the argument expression a call passes for parameter index i of
// the callee (accounts for the receiver being Args[0] in static method calls and being
// absent from Args in interface-method ("invoke") calls).
func ArgForParam(cc *ssa.CallCommon, callee *ssa.Function, i int) ssa.Value {
	if cc.IsInvoke() {
		// callee.Params[0] is the receiver
		if i == 0 {
			return cc.Value
		}
		if i-1 < len(cc.Args) {
			return cc.Args[i-1]
		}
		return nil
	}
	if i < len(cc.Args) {
		return cc.Args[i]
	}
	return nil
}

// EdgeDominates reports whether taking successor succIdx of the If ending block `from`
// is necessary to reach block `to`.
func EdgeDominates(from *ssa.BasicBlock, succIdx int, to *ssa.BasicBlock) bool {
	if succIdx >= len(from.Succs) {
		return false
	}
	s := from.Succs[succIdx]
	if len(from.Succs) == 2 && from.Succs[0] == from.Succs[1] {
		return false
	}
	if !s.Dominates(to) {
		return false
	}
	// every predecessor of s other than `from` must itself be dominated by s (back edges)
	for _, pr := range s.Preds {
		if pr == from {
			continue
		}
		if !s.Dominates(pr) {
			return false
		}
	}
	return true
}

// IsNamed reports whether t (after pointer stripping) is the named type pkgSuffix.name.
func IsNamed(t types.Type, pkgRel, name string) bool {
	if pt, ok := t.(*types.Pointer); ok {
		t = pt.Elem()
	}
	nt, ok := t.(*types.Named)
	if !ok {
		return false
	}
	o := nt.Obj()
	if o.Name() != name || o.Pkg() == nil {
		return false
	}
	return RelPkg(o.Pkg().Path()) == pkgRel
}

// NamedOf returns the named type behind t (pointer stripped) or nil.
func NamedOf(t types.Type) *types.Named {
	if pt, ok := t.(*types.Pointer); ok {
		t = pt.Elem()
	}
	nt, _ := t.(*types.Named)
	return nt
}

// RecvNamed returns the receiver's named type of a method, or nil.
func RecvNamed(fn *ssa.Function) *types.Named {
	if fn == nil || fn.Signature.Recv() == nil {
		return nil
	}
	return NamedOf(fn.Signature.Recv().Type())
}

// CalleeIs reports whether fn is the function/method `name` of package pkgRel (module
// relative; full path for foreign packages), optionally with receiver type recv ("" for
// a package-level function).
func CalleeIs(fn *ssa.Function, pkgPath, recv, name string) bool {
	if fn == nil || BaseName(fn) != name {
		return false
	}
	if o := fn.Origin(); o != nil {
		fn = o
	}
	var pp string
	if fn.Pkg != nil {
		pp = fn.Pkg.Pkg.Path()
	} else if fn.Object() != nil && fn.Object().Pkg() != nil {
		pp = fn.Object().Pkg().Path()
	}
	if pp != pkgPath && RelPkg(pp) != pkgPath {
		return false
	}
	rn := RecvNamed(fn)
	if recv == "" {
		return rn == nil
	}
	return rn != nil && rn.Obj().Name() == recv
}

// InEdgesOwn is a helper for callers over the raw graph.
func InEdgesOwn(n *callgraph.Node) []*callgraph.Edge {
	if n == nil {
		return nil
	}
	return n.In
}

// Unwrap strips ChangeType / ChangeInterface / MakeInterface / Convert-free wrappers.
func Unwrap(v ssa.Value) ssa.Value {
	for {
		switch x := v.(type) {
		case *ssa.ChangeType:
			v = x.X
		case *ssa.ChangeInterface:
			v = x.X
		case *ssa.MakeInterface:
			v = x.X
		default:
			return v
		}
	}
}

// BaseName is fn.Name() without the type-argument suffix of an instantiation.
func BaseName(fn *ssa.Function) string {
	if s, ok := canonShort[fn]; ok {
		return s
	}
	if fn == nil {
		return ""
	}
	n := fn.Name()
	if i := strings.Index(n, "["); i >= 0 {
		n = n[:i]
	}
	return n
}

// Unwrap2 resolves a synthetic method wrapper (pointer-receiver wrapper of a value
// method, promoted-method wrapper, bound-method thunk) to the declared method it calls.
func Unwrap2(f *ssa.Function) *ssa.Function {
	for i := 0; i < 4 && f != nil && f.Synthetic != "" && f.Syntax() == nil && len(f.Blocks) > 0; i++ {
		var target *ssa.Function
		n := 0
		for _, b := range f.Blocks {
			for _, in := range b.Instrs {
				if ci, ok := in.(ssa.CallInstruction); ok {
					if sc := ci.Common().StaticCallee(); sc != nil && BaseNameRaw(sc) == strings.TrimSuffix(strings.TrimSuffix(BaseNameRaw(f), "$bound"), "$thunk") {
						target = sc
						n++
					}
				}
			}
		}
		if n != 1 {
			return f
		}
		f = target
	}
	return f
}

// PkgPathOf returns the import path of the package declaring fn (for instantiations and
// closures: of their origin / parent).
func PkgPathOf(fn *ssa.Function) string {
	for f := fn; f != nil; {
		if f.Pkg != nil {
			return f.Pkg.Pkg.Path()
		}
		if o := f.Origin(); o != nil && o != f {
			f = o
			continue
		}
		f = f.Parent()
	}
	if fn != nil && fn.Object() != nil && fn.Object().Pkg() != nil {
		return fn.Object().Pkg().Path()
	}
	return ""
}

// FuncValue returns the function a value denotes when it is a function literal: a
// closure (MakeClosure) or a literal without free variables (plain *ssa.Function).
func FuncValue(v ssa.Value) *ssa.Function {
	switch t := v.(type) {
	case *ssa.MakeClosure:
		return t.Fn.(*ssa.Function)
	case *ssa.Function:
		return t
	case *ssa.ChangeType:
		return FuncValue(t.X)
	}
	return nil
}

// WithClosuresAndHandedOut returns fn, its closures, and every declared function whose value fn (or a
// closure) hands to a call as an argument - `go f()` bodies written as named methods instead of
// function literals (method values are unwrapped) - together with their closures.
func WithClosuresAndHandedOut(fn *ssa.Function) []*ssa.Function {
	out := WithClosures(fn)
	seen := map[*ssa.Function]bool{}
	for _, f := range out {
		seen[f] = true
	}
	for _, f := range WithClosures(fn) {
		for _, b := range f.Blocks {
			for _, in := range b.Instrs {
				ci, ok := in.(ssa.CallInstruction)
				if !ok {
					continue
				}
				vals := append([]ssa.Value{}, ci.Common().Args...)
				if _, isGo := in.(*ssa.Go); isGo {
					vals = append(vals, ci.Common().Value)
				}
				for _, a := range vals {
					g := FuncValue(a)
					if g == nil {
						continue
					}
					g = Unwrap2(g)
					if g == nil || seen[g] || len(g.Blocks) == 0 || g.Parent() != nil {
						continue
					}
					for _, h := range WithClosures(g) {
						if !seen[h] {
							seen[h] = true
							out = append(out, h)
						}
					}
				}
			}
		}
	}
	return out
}
