package engine

import (
	"encoding/json"
	"go/types"
	"os"
	"sort"
	"strings"

	"golang.org/x/tools/go/ssa"
)

// Renames.  The rules name gluon's own functions (anchors, callee names, obligation keys).  A
// behaviour-preserving rename of such a function must not change any verdict, so names are
// canonicalised: /verif/reference_funcs.json lists every top-level function and method of the tree the
// rules were confirmed on (package, receiver, name, parameter and result types).  A function of the
// analysed tree whose name is not in that list, and whose (package, receiver, signature) matches exactly
// one listed function that is missing from the analysed tree, is that function under a new name; FuncName
// and ShortName report the reference name for it.

// RefFunc is one entry of the reference table.
type RefFunc struct {
	Name  string `json:"name"` // FuncName
	Pkg   string `json:"pkg"`
	Recv  string `json:"recv"`
	Short string `json:"short"`
	Sig   string `json:"sig"`
}

var canonShort = map[*ssa.Function]string{}

// ShortName is fn.Name() without type arguments, or the reference name if fn was renamed.
// methodAlias maps the current name of a renamed method to its reference name (see ApplyReference).
var methodAlias = map[string]string{}

// MethodName is the name of an interface method as the rules know it: the reference name if the method (with its
// implementations) was renamed, else its own name.
func MethodName(m *types.Func) string {
	if m == nil {
		return ""
	}
	if a, ok := methodAlias[m.Name()]; ok && a != "" {
		return a
	}
	return m.Name()
}

func ShortName(fn *ssa.Function) string {
	if fn == nil {
		return ""
	}
	if s, ok := canonShort[fn]; ok {
		return s
	}
	n := fn.Name()
	if i := strings.Index(n, "["); i >= 0 {
		n = n[:i]
	}
	return n
}

func sigText(sig *types.Signature) string {
	tuple := func(t *types.Tuple) string {
		var parts []string
		for i := 0; i < t.Len(); i++ {
			parts = append(parts, types.TypeString(t.At(i).Type(), nil))
		}
		return "(" + strings.Join(parts, ", ") + ")"
	}
	v := ""
	if sig.Variadic() {
		v = " variadic"
	}
	return tuple(sig.Params()) + " " + tuple(sig.Results()) + v
}

func (p *Prog) refFuncOf(f *ssa.Function) RefFunc {
	recv := ""
	if rn := RecvNamed(f); rn != nil {
		recv = rn.Obj().Name()
	}
	return RefFunc{Name: p.rawFuncName(f), Pkg: RelPkg(p.OwnPkgPath(f)), Recv: recv, Short: BaseNameRaw(f), Sig: sigText(f.Signature)}
}

// BaseNameRaw: fn.Name() without type arguments (no canonicalisation).
func BaseNameRaw(fn *ssa.Function) string {
	n := fn.Name()
	if i := strings.Index(n, "["); i >= 0 {
		n = n[:i]
	}
	return n
}

// topLevelOwn lists the declared (non-synthetic, non-closure, non-instantiated) functions of gluon.
func (p *Prog) topLevelOwn() []*ssa.Function {
	var out []*ssa.Function
	for _, f := range p.Funcs {
		if f.Parent() != nil || f.Synthetic != "" || f.Syntax() == nil || len(f.TypeArgs()) > 0 {
			continue
		}
		if p.OwnPkgPath(f) == "" {
			continue
		}
		out = append(out, f)
	}
	return out
}

// DumpRefFuncs writes the reference table of the loaded tree.
func (p *Prog) DumpRefFuncs(path string) error {
	var rows []RefFunc
	seen := map[string]bool{}
	for _, f := range p.topLevelOwn() {
		r := p.refFuncOf(f)
		if seen[r.Name] {
			continue
		}
		seen[r.Name] = true
		rows = append(rows, r)
	}
	sort.Slice(rows, func(i, j int) bool { return rows[i].Name < rows[j].Name })
	b, err := json.MarshalIndent(rows, "", " ")
	if err != nil {
		return err
	}
	return os.WriteFile(path, b, 0o644)
}

// ApplyReference canonicalises the names of renamed functions against the reference table; returns the
// rename pairs found ("new -> reference").
func (p *Prog) ApplyReference(path string) []string {
	canonShort = map[*ssa.Function]string{}
	methodAlias = map[string]string{}
	p.canonFull = map[*ssa.Function]string{}
	p.byName = nil
	b, err := os.ReadFile(path)
	if err != nil {
		return nil
	}
	var ref []RefFunc
	if json.Unmarshal(b, &ref) != nil {
		return nil
	}
	refByName := map[string]RefFunc{}
	for _, r := range ref {
		refByName[r.Name] = r
	}
	cur := map[string]*ssa.Function{}
	for _, f := range p.topLevelOwn() {
		cur[p.rawFuncName(f)] = f
	}
	type key struct{ pkg, recv, sig string }
	missing := map[key][]RefFunc{}
	for _, r := range ref {
		if _, ok := cur[r.Name]; !ok {
			k := key{r.Pkg, r.Recv, r.Sig}
			missing[k] = append(missing[k], r)
		}
	}
	added := map[key][]*ssa.Function{}
	for n, f := range cur {
		if _, ok := refByName[n]; !ok {
			r := p.refFuncOf(f)
			k := key{r.Pkg, r.Recv, r.Sig}
			added[k] = append(added[k], f)
		}
	}
	var pairs []string
	for k, ms := range missing {
		as := added[k]
		if len(ms) != 1 || len(as) != 1 {
			continue
		}
		f := as[0]
		canonShort[f] = ms[0].Short
		// a renamed method: calls through an interface (which carry only the method's name) are read under the
		// reference name as well, unless two renamed methods share the new name but not the old one
		if f.Signature.Recv() != nil && f.Name() != ms[0].Short {
			if prev, seen := methodAlias[f.Name()]; seen && prev != ms[0].Short {
				methodAlias[f.Name()] = ""
			} else {
				methodAlias[f.Name()] = ms[0].Short
			}
		}
		p.canonFull[f] = ms[0].Name
		pairs = append(pairs, p.rawFuncName(f)+" -> "+ms[0].Name)
	}
	// instances and wrappers of renamed generic functions / methods keep their origin's canonical short name
	for _, f := range p.Funcs {
		if o := f.Origin(); o != nil && o != f {
			if s, ok := canonShort[o]; ok {
				canonShort[f] = s
			}
		}
	}
	sort.Strings(pairs)
	return pairs
}
