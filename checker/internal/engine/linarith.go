package engine

import (
	"fmt"
	"go/constant"
	"go/token"
	"go/types"
	"math/big"
	"sort"
	"strings"

	"golang.org/x/tools/go/ssa"
)

// A small relational (polyhedral) domain for integer bounds: facts are the branch
// conditions that dominate a program point, goals are linear inequalities; entailment
// is decided by Fourier–Motzkin elimination over the rationals (sound: if the rational
// relaxation of facts ∧ ¬goal is infeasible, so is the integer one).

// Lin is c + Σ coef[atom]*atom.
type Lin struct {
	C    *big.Rat
	Coef map[string]*big.Rat
}

func NewLin(c int64) Lin { return Lin{C: big.NewRat(c, 1), Coef: map[string]*big.Rat{}} }

func (a Lin) clone() Lin {
	n := Lin{C: new(big.Rat).Set(a.C), Coef: map[string]*big.Rat{}}
	for k, v := range a.Coef {
		n.Coef[k] = new(big.Rat).Set(v)
	}
	return n
}

func (a Lin) AddScaled(b Lin, k int64) Lin {
	n := a.clone()
	kr := big.NewRat(k, 1)
	n.C.Add(n.C, new(big.Rat).Mul(b.C, kr))
	for at, v := range b.Coef {
		if n.Coef[at] == nil {
			n.Coef[at] = new(big.Rat)
		}
		n.Coef[at].Add(n.Coef[at], new(big.Rat).Mul(v, kr))
		if n.Coef[at].Sign() == 0 {
			delete(n.Coef, at)
		}
	}
	return n
}

func (a Lin) String() string {
	var ks []string
	for k := range a.Coef {
		ks = append(ks, k)
	}
	sort.Strings(ks)
	s := a.C.RatString()
	for _, k := range ks {
		s += fmt.Sprintf(" + %s*%s", a.Coef[k].RatString(), k)
	}
	return s
}

// Constraint: L <= 0.
type Constraint struct{ L Lin }

// LinEnv turns SSA values into linear terms.  Atoms are named by AtomName.
type LinEnv struct {
	Fn *ssa.Function
	// Subst replaces a phi by one of its incoming values (case split).
	Subst map[*ssa.Phi]ssa.Value
	// PathVersion names the definition of access path `path` that the load `at` observes
	// ("" = unknown): two loads with the same non-empty version read the same value.
	PathVersion func(at ssa.Value, path string) string
	// Phis met while linearising (not substituted).
	Phis map[*ssa.Phi]bool
}

func (e *LinEnv) atom(v ssa.Value) Lin {
	n := NewLin(0)
	n.Coef[e.AtomName(v)] = big.NewRat(1, 1)
	return n
}

// AtomName: structural name for loads of stable paths and len() of them, else the SSA name.
func (e *LinEnv) AtomName(v ssa.Value) string {
	if c, ok := IsBuiltinCall(v, "len"); ok {
		return "len(" + e.AtomName(c.Call.Args[0]) + ")"
	}
	if u, ok := v.(*ssa.UnOp); ok && u.Op == token.MUL {
		if p := AccessPath(u); p != "" && e.PathVersion != nil {
			if ver := e.PathVersion(u, p); ver != "" {
				return p + "#" + ver
			}
		}
	}
	if p, ok := v.(*ssa.Parameter); ok {
		return p.Name()
	}
	return v.Name() + "@" + fmt.Sprint(v.Pos())
}

func isIntType(t types.Type) bool {
	b, ok := t.Underlying().(*types.Basic)
	return ok && b.Info()&types.IsInteger != 0
}

// Lin linearises v.
func (e *LinEnv) Lin(v ssa.Value) Lin { return e.lin(v, 0) }

func (e *LinEnv) lin(v ssa.Value, d int) Lin {
	if d > 30 {
		return e.atom(v)
	}
	switch t := v.(type) {
	case *ssa.Const:
		if t.Value != nil && t.Value.Kind() == constant.Int {
			if i, ok := constant.Int64Val(t.Value); ok {
				return NewLin(i)
			}
		}
	case *ssa.BinOp:
		if !isIntType(t.Type()) {
			break
		}
		switch t.Op {
		case token.ADD:
			return e.lin(t.X, d+1).AddScaled(e.lin(t.Y, d+1), 1)
		case token.SUB:
			return e.lin(t.X, d+1).AddScaled(e.lin(t.Y, d+1), -1)
		case token.MUL:
			if c, ok := t.X.(*ssa.Const); ok && c.Value != nil {
				if k, ok := constant.Int64Val(c.Value); ok {
					return NewLin(0).AddScaled(e.lin(t.Y, d+1), k)
				}
			}
			if c, ok := t.Y.(*ssa.Const); ok && c.Value != nil {
				if k, ok := constant.Int64Val(c.Value); ok {
					return NewLin(0).AddScaled(e.lin(t.X, d+1), k)
				}
			}
		}
	case *ssa.Phi:
		if s, ok := e.Subst[t]; ok {
			return e.lin(s, d+1)
		}
		if e.Phis != nil {
			e.Phis[t] = true
		}
	case *ssa.UnOp:
		if t.Op == token.MUL {
			// single-store local cell
			if al, ok := t.X.(*ssa.Alloc); ok {
				if sts := StoresTo(al); len(sts) == 1 {
					return e.lin(sts[0].Val, d+1)
				}
			}
		}
	case *ssa.Convert:
		// same-width or widening conversion between integer types keeps the value only
		// when the source range fits; we keep int<->int of identical size and widening.
		if isIntType(t.Type()) && isIntType(t.X.Type()) {
			sz := types.SizesFor("gc", "amd64")
			from, to := t.X.Type().Underlying().(*types.Basic), t.Type().Underlying().(*types.Basic)
			fu, tu := from.Info()&types.IsUnsigned != 0, to.Info()&types.IsUnsigned != 0
			if fu == tu && sz.Sizeof(to) >= sz.Sizeof(from) {
				return e.lin(t.X, d+1)
			}
		}
	case *ssa.ChangeType:
		return e.lin(t.X, d+1)
	}
	return e.atom(v)
}

// CondConstraints converts the comparison cond (taken when `truth`) into constraints.
func (e *LinEnv) CondConstraints(cond ssa.Value, truth bool) []Constraint {
	for {
		inner, neg := StripNot(cond)
		if !neg {
			break
		}
		cond, truth = inner, !truth
	}
	b, ok := cond.(*ssa.BinOp)
	if !ok || !isIntType(b.X.Type()) {
		return nil
	}
	op := b.Op
	if !truth {
		switch op {
		case token.LSS:
			op = token.GEQ
		case token.LEQ:
			op = token.GTR
		case token.GTR:
			op = token.LEQ
		case token.GEQ:
			op = token.LSS
		case token.EQL:
			op = token.NEQ
		case token.NEQ:
			op = token.EQL
		default:
			return nil
		}
	}
	x, y := e.Lin(b.X), e.Lin(b.Y)
	le := func(a, b Lin, strict bool) Constraint { // a <= b  (a < b  => a+1 <= b)
		l := a.AddScaled(b, -1)
		if strict {
			l = l.AddScaled(NewLin(1), 1)
		}
		return Constraint{l}
	}
	switch op {
	case token.LSS:
		return []Constraint{le(x, y, true)}
	case token.LEQ:
		return []Constraint{le(x, y, false)}
	case token.GTR:
		return []Constraint{le(y, x, true)}
	case token.GEQ:
		return []Constraint{le(y, x, false)}
	case token.EQL:
		return []Constraint{le(x, y, false), le(y, x, false)}
	case token.NEQ:
		// len(x) != 0 (a length is never negative): len(x) >= 1
		for _, p := range [][2]ssa.Value{{b.X, b.Y}, {b.Y, b.X}} {
			if _, isLen := IsBuiltinCall(p[0], "len"); isLen {
				if k, ok := p[1].(*ssa.Const); ok && k.Value != nil && k.Value.ExactString() == "0" {
					return []Constraint{le(NewLin(1), e.Lin(p[0]), false)}
				}
			}
		}
	}
	return nil
}

// FactsAt: constraints from every branch edge that dominates block b (position: start of b),
// plus non-negativity of len() atoms and unsigned values is added by the caller.
func (e *LinEnv) FactsAt(b *ssa.BasicBlock) []Constraint {
	var out []Constraint
	for _, d := range e.Fn.Blocks {
		iff := IfOf(d)
		if iff == nil {
			continue
		}
		for si := 0; si < 2; si++ {
			if EdgeDominates(d, si, b) {
				out = append(out, e.CondConstraints(iff.Cond, si == 0)...)
			}
		}
	}
	return out
}

// FactsOnEdge: facts holding when control goes pred -> succ.
func (e *LinEnv) FactsOnEdge(pred, succ *ssa.BasicBlock) []Constraint {
	out := e.FactsAt(pred)
	if iff := IfOf(pred); iff != nil {
		for si, s := range pred.Succs {
			if s == succ && pred.Succs[1-si] != succ {
				out = append(out, e.CondConstraints(iff.Cond, si == 0)...)
			}
		}
	}
	return out
}

// Infeasible decides whether the conjunction of constraints (each L<=0) has no rational solution.
func Infeasible(cs []Constraint) bool {
	cur := make([]Lin, 0, len(cs))
	for _, c := range cs {
		cur = append(cur, c.L)
	}
	for iter := 0; iter < 64; iter++ {
		// constant contradictions
		var vars = map[string]bool{}
		for _, l := range cur {
			if len(l.Coef) == 0 && l.C.Sign() > 0 {
				return true
			}
			for k := range l.Coef {
				vars[k] = true
			}
		}
		if len(vars) == 0 {
			return false
		}
		// pick the variable with the fewest pos*neg products
		best, bestCost := "", -1
		for v := range vars {
			p, n := 0, 0
			for _, l := range cur {
				if c := l.Coef[v]; c != nil {
					if c.Sign() > 0 {
						p++
					} else {
						n++
					}
				}
			}
			if cost := p * n; bestCost < 0 || cost < bestCost || (cost == bestCost && v < best) {
				best, bestCost = v, cost
			}
		}
		var pos, neg, rest []Lin
		for _, l := range cur {
			c := l.Coef[best]
			switch {
			case c == nil:
				rest = append(rest, l)
			case c.Sign() > 0:
				pos = append(pos, l)
			default:
				neg = append(neg, l)
			}
		}
		for _, p := range pos {
			for _, n := range neg {
				// p: a*v + P <= 0 (a>0) ; n: -b*v + N <= 0 (b>0)  =>  b*P + a*N <= 0
				a := p.Coef[best]
				b := new(big.Rat).Neg(n.Coef[best])
				comb := Lin{C: new(big.Rat), Coef: map[string]*big.Rat{}}
				add := func(src Lin, k *big.Rat) {
					comb.C.Add(comb.C, new(big.Rat).Mul(src.C, k))
					for at, v := range src.Coef {
						if at == best {
							continue
						}
						if comb.Coef[at] == nil {
							comb.Coef[at] = new(big.Rat)
						}
						comb.Coef[at].Add(comb.Coef[at], new(big.Rat).Mul(v, k))
					}
				}
				add(p, b)
				add(n, a)
				for at, v := range comb.Coef {
					if v.Sign() == 0 {
						delete(comb.Coef, at)
					}
				}
				rest = append(rest, comb)
			}
		}
		if len(rest) > 4000 {
			return false
		}
		cur = rest
	}
	return false
}

// Entails: facts ⊨ a <= b.
func Entails(facts []Constraint, a, b Lin) bool {
	// ¬(a <= b)  ≡  a >= b+1  ≡  b + 1 - a <= 0
	neg := b.AddScaled(NewLin(1), 1).AddScaled(a, -1)
	return Infeasible(append(append([]Constraint{}, facts...), Constraint{neg}))
}

// One is the rational 1.
func One() *big.Rat { return big.NewRat(1, 1) }

// PathVersions computes, for the loads of receiver/parameter access paths in fn, which
// definition each load observes: "entry" when no store to the path (and no call that is
// handed the root pointer) can reach it, "store@<pos>" when exactly one store reaches it
// and dominates it; "" otherwise.
func PathVersions(fn *ssa.Function) func(at ssa.Value, path string) string {
	type def struct {
		in      ssa.Instruction
		unknown bool
	}
	defs := map[string][]def{}
	root := func(p string) string {
		for i := 0; i < len(p); i++ {
			if p[i] == '.' || p[i] == '[' {
				return p[:i]
			}
		}
		return p
	}
	var escapes []def // calls that receive a root pointer: may write any path below it
	escRoot := map[ssa.Instruction]string{}
	for _, b := range fn.Blocks {
		for _, in := range b.Instrs {
			switch t := in.(type) {
			case *ssa.Store:
				if p := AccessPath(t.Addr); p != "" {
					defs[p] = append(defs[p], def{in: in})
				}
			case ssa.CallInstruction:
				cc := t.Common()
				if _, isBuiltin := cc.Value.(*ssa.Builtin); isBuiltin {
					continue
				}
				args := cc.Args
				if cc.IsInvoke() {
					args = append([]ssa.Value{cc.Value}, args...)
				}
				for _, a := range args {
					_, isPtr := a.Type().Underlying().(*types.Pointer)
					_, isSlice := a.Type().Underlying().(*types.Slice)
					if !isPtr && !isSlice {
						continue
					}
					if p := AccessPath(a); p != "" {
						escapes = append(escapes, def{in: in, unknown: true})
						escRoot[in] = root(p)
					}
				}
			}
		}
	}
	return func(at ssa.Value, path string) string {
		load, ok := at.(ssa.Instruction)
		if !ok {
			return ""
		}
		if strings.Contains(path, "[*]") {
			return "" // an element at a computed index: never a stable quantity
		}
		var reaching []def
		for _, d := range defs[path] {
			if InstrReaches(d.in, load) {
				reaching = append(reaching, d)
			}
		}
		// a store through a computed index of the same container may hit this element
		if i := strings.LastIndex(path, "["); i >= 0 {
			for _, d := range defs[path[:i]+"[*]"] {
				if InstrReaches(d.in, load) {
					return ""
				}
			}
		}
		for _, d := range escapes {
			if escRoot[d.in] == root(path) && InstrReaches(d.in, load) {
				return ""
			}
		}
		switch len(reaching) {
		case 0:
			return "entry"
		case 1:
			if InstrDominates(reaching[0].in, load) {
				return fmt.Sprintf("store%d.%d", reaching[0].in.Block().Index, InstrIndex(reaching[0].in))
			}
		}
		return ""
	}
}

// renameAtoms returns a copy of c with atom names mapped through m (unmapped names are
// prefixed so that they cannot collide with the caller's atoms).
func renameAtoms(c Constraint, m map[string]string, prefix string) Constraint {
	n := Lin{C: new(big.Rat).Set(c.L.C), Coef: map[string]*big.Rat{}}
	for k, v := range c.L.Coef {
		nk, ok := m[k]
		if !ok {
			nk = prefix + k
		}
		if n.Coef[nk] == nil {
			n.Coef[nk] = new(big.Rat)
		}
		n.Coef[nk].Add(n.Coef[nk], v)
	}
	return Constraint{n}
}

// FactSets returns the alternative fact sets that hold at block `at` of f: the branch
// conditions dominating it, extended - for every call `err := g(args…)` of a gluon function
// whose nil-error edge dominates `at` - with the conditions that dominate each nil-error
// return of g (parameters renamed to the caller's arguments).  A goal holds at `at` if it is
// entailed by every returned set.
func FactSets(f *ssa.Function, at *ssa.BasicBlock, isOwn func(*ssa.Function) bool) [][]Constraint {
	env := &LinEnv{Fn: f, PathVersion: PathVersions(f)}
	return factSets(f, env.FactsAt(at), func(d *ssa.BasicBlock, idx int) bool { return EdgeDominates(d, idx, at) }, isOwn)
}

// FactSetsOnEdge is FactSets for the program point "on the edge pred -> pred.Succs[succ]".
func FactSetsOnEdge(f *ssa.Function, pred *ssa.BasicBlock, succ int, isOwn func(*ssa.Function) bool) [][]Constraint {
	env := &LinEnv{Fn: f}
	distinct := len(pred.Succs) == 2 && pred.Succs[0] != pred.Succs[1]
	return factSets(f, env.FactsOnEdge(pred, pred.Succs[succ]), func(d *ssa.BasicBlock, idx int) bool {
		return EdgeDominates(d, idx, pred) || (d == pred && idx == succ && distinct)
	}, isOwn)
}

func factSets(f *ssa.Function, base []Constraint, domEdge func(d *ssa.BasicBlock, idx int) bool, isOwn func(*ssa.Function) bool) [][]Constraint {
	env := &LinEnv{Fn: f, PathVersion: PathVersions(f)}
	sets := [][]Constraint{base}
	for _, d := range f.Blocks {
		iff := IfOf(d)
		if iff == nil {
			continue
		}
		cmp, ok := iff.Cond.(*ssa.BinOp)
		if !ok || (cmp.Op != token.EQL && cmp.Op != token.NEQ) {
			continue
		}
		var errV ssa.Value
		switch {
		case IsNilConst(cmp.Y):
			errV = cmp.X
		case IsNilConst(cmp.X):
			errV = cmp.Y
		default:
			continue
		}
		nilEdge := 1
		if cmp.Op == token.EQL {
			nilEdge = 0
		}
		if !domEdge(d, nilEdge) {
			continue
		}
		var call *ssa.Call
		switch t := errV.(type) {
		case *ssa.Call:
			call = t
		case *ssa.Extract:
			call, _ = t.Tuple.(*ssa.Call)
		}
		if call == nil {
			continue
		}
		g := call.Call.StaticCallee()
		if g == nil || len(g.Blocks) == 0 || !isOwn(g) {
			continue
		}
		// parameter name -> caller atom
		genv := &LinEnv{Fn: g}
		m := map[string]string{}
		for i, p := range g.Params {
			if i < len(call.Call.Args) {
				m[genv.AtomName(p)] = env.AtomName(call.Call.Args[i])
			}
		}
		var alts [][]Constraint
		for _, r := range Returns(g) {
			lr := LastResult(r)
			if lr == nil || !IsNilConst(lr) {
				continue
			}
			var fs []Constraint
			for _, c := range genv.FactsAt(r.Block()) {
				fs = append(fs, renameAtoms(c, m, g.Name()+"·"))
			}
			// the caller's view of the results: extract #i of the call equals the value g returns here
			if refs := call.Referrers(); refs != nil {
				for _, u := range *refs {
					ex, ok := u.(*ssa.Extract)
					if !ok || ex.Index >= len(r.Results) || !isIntType(ex.Type()) {
						continue
					}
					rv := renameAtoms(Constraint{L: genv.Lin(r.Results[ex.Index])}, m, g.Name()+"·").L
					x := env.atom(ex)
					fs = append(fs, Constraint{L: rv.AddScaled(x, -1)}, Constraint{L: x.AddScaled(rv, -1)})
				}
			}
			alts = append(alts, fs)
		}
		if len(alts) == 0 {
			continue
		}
		var next [][]Constraint
		for _, s := range sets {
			for _, a := range alts {
				next = append(next, append(append([]Constraint{}, s...), a...))
			}
		}
		if len(next) <= 64 {
			sets = next
		}
	}
	return sets
}

// EntailedAt: v <= hi (useHi) / v >= lo (useLo) holds in every fact set at `at`.
func EntailedAt(f *ssa.Function, at *ssa.BasicBlock, v ssa.Value, bound int64, upper bool, isOwn func(*ssa.Function) bool) bool {
	env := &LinEnv{Fn: f, PathVersion: PathVersions(f)}
	lv := env.Lin(v)
	for _, facts := range FactSets(f, at, isOwn) {
		ok := false
		if upper {
			ok = Entails(facts, lv, NewLin(bound))
		} else {
			ok = Entails(facts, NewLin(bound), lv)
		}
		if !ok {
			return false
		}
	}
	return true
}

// ProveLEAt decides a <= b at the start of block `at`, splitting on the incoming edges of the phis
// that a and b are made of (all phis of one block take the same edge).  Facts: the branch conditions
// dominating `at`, and for every split the conditions holding on the chosen incoming edge.
func ProveLEAt(f *ssa.Function, at *ssa.BasicBlock, a, b ssa.Value) bool {
	var rec func(subst map[*ssa.Phi]ssa.Value, edges [][2]*ssa.BasicBlock, depth int) bool
	rec = func(subst map[*ssa.Phi]ssa.Value, edges [][2]*ssa.BasicBlock, depth int) bool {
		resolve := func(v ssa.Value) ssa.Value {
			for i := 0; i < 8; i++ {
				p, ok := v.(*ssa.Phi)
				if !ok {
					return v
				}
				n, ok := subst[p]
				if !ok {
					return v
				}
				v = n
			}
			return v
		}
		env := &LinEnv{Fn: f, Subst: subst, Phis: map[*ssa.Phi]bool{}}
		la, lb := env.Lin(a), env.Lin(b)
		facts := env.FactsAt(at)
		for _, e := range edges {
			facts = append(facts, env.FactsOnEdge(e[0], e[1])...)
		}
		if Entails(facts, la, lb) {
			return true
		}
		if depth >= 4 {
			return false
		}
		var split *ssa.Phi
		for _, v := range []ssa.Value{resolve(a), resolve(b)} {
			if p, ok := v.(*ssa.Phi); ok {
				split = p
				break
			}
		}
		if split == nil {
			for p := range env.Phis {
				if _, done := subst[p]; !done {
					split = p
					break
				}
			}
		}
		if split == nil {
			return false
		}
		pb := split.Block()
		for i, pred := range pb.Preds {
			s2 := map[*ssa.Phi]ssa.Value{}
			for k, v := range subst {
				s2[k] = v
			}
			for _, in := range pb.Instrs {
				q, ok := in.(*ssa.Phi)
				if !ok {
					break
				}
				s2[q] = q.Edges[i]
			}
			e2 := append(append([][2]*ssa.BasicBlock{}, edges...), [2]*ssa.BasicBlock{pred, pb})
			if !rec(s2, e2, depth+1) {
				return false
			}
		}
		return true
	}
	return rec(map[*ssa.Phi]ssa.Value{}, nil, 0)
}

// EntailedOnEdge: like EntailedAt, for the program point on the edge pred -> pred.Succs[succ].
func EntailedOnEdge(f *ssa.Function, pred *ssa.BasicBlock, succ int, v ssa.Value, bound int64, upper bool, isOwn func(*ssa.Function) bool) bool {
	env := &LinEnv{Fn: f}
	lv := env.Lin(v)
	for _, facts := range FactSetsOnEdge(f, pred, succ, isOwn) {
		ok := false
		if upper {
			ok = Entails(facts, lv, NewLin(bound))
		} else {
			ok = Entails(facts, NewLin(bound), lv)
		}
		if !ok {
			return false
		}
	}
	return true
}
