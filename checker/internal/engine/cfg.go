package engine

import (
	"go/token"
	"go/types"

	"golang.org/x/tools/go/ssa"
)

// Edge is a CFG edge identified by (block, successor index).
type Edge struct {
	From *ssa.BasicBlock
	Succ int
}

// InstrIndex returns the index of instr in its block, -1 if absent.
func InstrIndex(in ssa.Instruction) int {
	for i, x := range in.Block().Instrs {
		if x == in {
			return i
		}
	}
	return -1
}

// ReachesAvoiding reports whether some path from the entry of fn reaches the target
// instruction without first executing an instruction in cut and without taking an edge
// in cutEdges.  (Panics/recover blocks are ignored: fn.Recover is not an entry.)
func ReachesAvoiding(fn *ssa.Function, target ssa.Instruction, cut map[ssa.Instruction]bool, cutEdges map[Edge]bool) bool {
	return ReachesAvoidingFrom(fn.Blocks[0], 0, target, cut, cutEdges)
}

// ReachesAvoidingFrom is ReachesAvoiding starting at instruction index startIdx of block start.
func ReachesAvoidingFrom(start *ssa.BasicBlock, startIdx int, target ssa.Instruction, cut map[ssa.Instruction]bool, cutEdges map[Edge]bool) bool {
	type st struct {
		b   *ssa.BasicBlock
		idx int
	}
	seen := map[*ssa.BasicBlock]bool{}
	work := []st{{start, startIdx}}
	first := true
	for len(work) > 0 {
		s := work[0]
		work = work[1:]
		if !first || s.idx == 0 {
			if seen[s.b] {
				continue
			}
			seen[s.b] = true
		}
		first = false
		blocked := false
		for i := s.idx; i < len(s.b.Instrs); i++ {
			in := s.b.Instrs[i]
			if in == target {
				return true
			}
			if cut[in] {
				blocked = true
				break
			}
		}
		if blocked {
			continue
		}
		for i, su := range s.b.Succs {
			if cutEdges[Edge{s.b, i}] {
				continue
			}
			work = append(work, st{su, 0})
		}
	}
	return false
}

// Returns lists the Return instructions of fn.
func Returns(fn *ssa.Function) []*ssa.Return {
	var out []*ssa.Return
	for _, b := range fn.Blocks {
		if len(b.Instrs) == 0 || b == fn.Recover {
			// the recover block of a function with defers only re-reads the result cells
			continue
		}
		if r, ok := b.Instrs[len(b.Instrs)-1].(*ssa.Return); ok {
			out = append(out, r)
		}
	}
	return out
}

// IsNilConst reports whether v is the nil constant.
func IsNilConst(v ssa.Value) bool {
	c, ok := v.(*ssa.Const)
	return ok && c.Value == nil && !isBasicZero(c)
}

func isBasicZero(c *ssa.Const) bool {
	// a nil Value on a basic (non-pointer-like) type is the zero value of a type param etc.
	switch c.Type().Underlying().(type) {
	case *types.Basic:
		return c.Type().Underlying().(*types.Basic).Kind() != types.UntypedNil
	}
	return false
}

// IfOf returns the If terminating block b, or nil.
func IfOf(b *ssa.BasicBlock) *ssa.If {
	if len(b.Instrs) == 0 {
		return nil
	}
	i, _ := b.Instrs[len(b.Instrs)-1].(*ssa.If)
	return i
}

// CondEdges describes which successor of an If is taken when `v` is true, looking
// through negation: returns (v, trueSucc) such that block.Succs[trueSucc] is taken when
// v holds.
func StripNot(cond ssa.Value) (ssa.Value, bool) {
	neg := false
	for {
		u, ok := cond.(*ssa.UnOp)
		if !ok || u.Op != token.NOT {
			return cond, neg
		}
		neg = !neg
		cond = u.X
	}
}

// BlocksReachableFrom returns the set of blocks reachable from b (inclusive).
func BlocksReachableFrom(b *ssa.BasicBlock) map[*ssa.BasicBlock]bool {
	seen := map[*ssa.BasicBlock]bool{b: true}
	work := []*ssa.BasicBlock{b}
	for len(work) > 0 {
		x := work[0]
		work = work[1:]
		for _, s := range x.Succs {
			if !seen[s] {
				seen[s] = true
				work = append(work, s)
			}
		}
	}
	return seen
}

// InstrReaches reports whether instruction a can be followed (on some path) by b.
func InstrReaches(a, b ssa.Instruction) bool {
	if a.Block() == b.Block() && InstrIndex(a) < InstrIndex(b) {
		return true
	}
	for _, s := range a.Block().Succs {
		if BlocksReachableFrom(s)[b.Block()] {
			return true
		}
	}
	return false
}

// InstrDominates reports whether a is executed on every path to b.
func InstrDominates(a, b ssa.Instruction) bool {
	if a.Block() == b.Block() {
		return InstrIndex(a) < InstrIndex(b)
	}
	return a.Block().Dominates(b.Block())
}

// ResultOf returns the i-th returned value of ret, looking through the result spill that
// go/ssa introduces in functions with defers (`*res = v; rundefers; t = *res; return t`).
func ResultOf(ret *ssa.Return, i int) ssa.Value {
	if i >= len(ret.Results) {
		return nil
	}
	v := ret.Results[i]
	ld, ok := v.(*ssa.UnOp)
	if !ok || ld.Op != token.MUL {
		return v
	}
	al, ok := ld.X.(*ssa.Alloc)
	if !ok {
		return v
	}
	// last store to the cell before the load, walking up through unique predecessors
	b := ld.Block()
	idx := InstrIndex(ld)
	for hops := 0; hops < 8 && b != nil; hops++ {
		for j := idx - 1; j >= 0; j-- {
			if st, ok := b.Instrs[j].(*ssa.Store); ok && st.Addr == ssa.Value(al) {
				return st.Val
			}
		}
		if len(b.Preds) != 1 {
			break
		}
		b = b.Preds[0]
		idx = len(b.Instrs)
	}
	return v
}

// LastResult is ResultOf for the final (error) result.
func LastResult(ret *ssa.Return) ssa.Value {
	if len(ret.Results) == 0 {
		return nil
	}
	return ResultOf(ret, len(ret.Results)-1)
}

// LoopBody returns the natural loop of header h (nil if h is not a loop header).
func LoopBody(h *ssa.BasicBlock) map[*ssa.BasicBlock]bool {
	body := map[*ssa.BasicBlock]bool{}
	var work []*ssa.BasicBlock
	for _, p := range h.Preds {
		if h.Dominates(p) {
			work = append(work, p)
		}
	}
	if len(work) == 0 {
		return nil
	}
	body[h] = true
	for len(work) > 0 {
		b := work[0]
		work = work[1:]
		if body[b] {
			continue
		}
		body[b] = true
		work = append(work, b.Preds...)
	}
	return body
}

// RangeLoopsOver finds the `for … range S` loops of fn whose ranged value satisfies pred:
// returns the loop headers.  (Pattern: header compares idx+1 < len(S).)
func RangeLoopsOver(fn *ssa.Function, pred func(s ssa.Value) bool) []*ssa.BasicBlock {
	var out []*ssa.BasicBlock
	for _, b := range fn.Blocks {
		iff := IfOf(b)
		if iff == nil {
			continue
		}
		cmp, ok := iff.Cond.(*ssa.BinOp)
		if !ok || cmp.Op != token.LSS {
			continue
		}
		call, ok := cmp.Y.(*ssa.Call)
		if !ok {
			continue
		}
		bi, ok := call.Call.Value.(*ssa.Builtin)
		if !ok || bi.Name() != "len" {
			continue
		}
		if LoopBody(b) == nil {
			continue
		}
		if pred(call.Call.Args[0]) {
			out = append(out, b)
		}
	}
	return out
}
