// Package engine loads /repo (type-checked syntax + SSA + call graph) and offers the
// queries the rules are written in.  Nothing in here executes gluon code.
package engine

import (
	"fmt"
	"go/ast"
	"go/token"
	"go/types"
	"os"
	"sort"
	"strings"

	"golang.org/x/tools/go/callgraph"
	"golang.org/x/tools/go/callgraph/cha"
	"golang.org/x/tools/go/callgraph/vta"
	"golang.org/x/tools/go/packages"
	"golang.org/x/tools/go/ssa"
	"golang.org/x/tools/go/ssa/ssautil"
)

const ModPath = "github.com/ProtonMail/gluon"

// Config selects the build configuration that is analysed.
type Config struct {
	Dir   string   // repository root
	Tags  []string // extra build tags
	Env   []string // extra environment (GOARCH=386 …)
	Tests bool
}

// Prog is the resolved program.
type Prog struct {
	Cfg   Config
	Fset  *token.FileSet
	Pkgs  []*packages.Package          // gluon's own packages, sorted by path
	ByPkg map[string]*packages.Package // import path -> package (gluon's own)
	SSA   *ssa.Program
	// Funcs are all SSA functions (incl. anonymous and instantiations) whose
	// source lives in gluon's own packages.
	Funcs []*ssa.Function

	cg        *callgraph.Graph
	chaG      *callgraph.Graph
	allFns    map[*ssa.Function]bool
	fileOf    map[*token.File]*ast.File
	astFunc   map[*ssa.Function]ast.Node
	byName    map[string]*ssa.Function
	canonFull map[*ssa.Function]string
}

// Load loads and type-checks the whole module and builds SSA.  Any type error, or a
// suspiciously small package count, is an infrastructure error.
func Load(cfg Config) (*Prog, error) {
	os.Unsetenv("GOWORK")
	env := append(os.Environ(),
		"GOFLAGS=-mod=mod", "GOPROXY=off", "GOSUMDB=off", "GOTOOLCHAIN=local", "GOWORK=off", "CGO_ENABLED=1")
	env = append(env, cfg.Env...)
	pcfg := &packages.Config{
		Mode:  packages.LoadAllSyntax,
		Dir:   cfg.Dir,
		Env:   env,
		Tests: cfg.Tests,
	}
	if len(cfg.Tags) > 0 {
		pcfg.BuildFlags = []string{"-tags=" + strings.Join(cfg.Tags, ",")}
	}
	initial, err := packages.Load(pcfg, "./...")
	if err != nil {
		return nil, fmt.Errorf("packages.Load: %w", err)
	}
	var errs []string
	packages.Visit(initial, nil, func(p *packages.Package) {
		for _, e := range p.Errors {
			errs = append(errs, fmt.Sprintf("%s: %s", p.PkgPath, e))
		}
	})
	if len(errs) > 0 {
		sort.Strings(errs)
		if len(errs) > 20 {
			errs = errs[:20]
		}
		return nil, fmt.Errorf("load errors (tree does not type-check):\n  %s", strings.Join(errs, "\n  "))
	}
	p := &Prog{Cfg: cfg, ByPkg: map[string]*packages.Package{}}
	for _, pkg := range initial {
		if pkg.PkgPath == ModPath || strings.HasPrefix(pkg.PkgPath, ModPath+"/") {
			if strings.HasSuffix(pkg.PkgPath, ".test") || strings.Contains(pkg.ID, "[") {
				continue
			}
			p.Pkgs = append(p.Pkgs, pkg)
			p.ByPkg[pkg.PkgPath] = pkg
		}
	}
	sort.Slice(p.Pkgs, func(i, j int) bool { return p.Pkgs[i].PkgPath < p.Pkgs[j].PkgPath })
	if len(p.Pkgs) < 40 {
		return nil, fmt.Errorf("only %d gluon packages loaded (expected >= 40)", len(p.Pkgs))
	}
	p.Fset = initial[0].Fset

	prog, _ := ssautil.AllPackages(initial, ssa.InstantiateGenerics)
	prog.Build()
	p.SSA = prog
	p.allFns = ssautil.AllFunctions(prog)
	for fn := range p.allFns {
		if p.IsOwn(fn) {
			p.Funcs = append(p.Funcs, fn)
		}
	}
	sort.Slice(p.Funcs, func(i, j int) bool {
		a, b := p.Funcs[i], p.Funcs[j]
		if a.Pos() != b.Pos() {
			return a.Pos() < b.Pos()
		}
		return a.String() < b.String()
	})
	return p, nil
}

// OwnPkgPath reports the package path of fn if it belongs to gluon, "" otherwise.
func (p *Prog) OwnPkgPath(fn *ssa.Function) string {
	for f := fn; f != nil; f = f.Parent() {
		if f.Pkg != nil {
			pp := f.Pkg.Pkg.Path()
			if pp == ModPath || strings.HasPrefix(pp, ModPath+"/") {
				return pp
			}
			return ""
		}
		if o := f.Origin(); o != nil && o != f {
			return p.OwnPkgPath(o)
		}
	}
	return ""
}

func (p *Prog) IsOwn(fn *ssa.Function) bool {
	if fn == nil || fn.Synthetic != "" && fn.Syntax() == nil && fn.Origin() == nil {
		return false
	}
	return p.OwnPkgPath(fn) != ""
}

// RelPkg strips the module prefix.
func RelPkg(path string) string {
	if path == ModPath {
		return "."
	}
	return strings.TrimPrefix(path, ModPath+"/")
}

// Pkg returns the gluon package with the given path relative to the module root.
func (p *Prog) Pkg(rel string) *packages.Package {
	if rel == "." || rel == "" {
		return p.ByPkg[ModPath]
	}
	return p.ByPkg[ModPath+"/"+rel]
}

// SSAPkg returns the ssa package for a relative path.
func (p *Prog) SSAPkg(rel string) *ssa.Package {
	pk := p.Pkg(rel)
	if pk == nil {
		return nil
	}
	return p.SSA.Package(pk.Types)
}

// CallGraph returns the VTA call graph (seeded with CHA), built lazily.
func (p *Prog) CallGraph() *callgraph.Graph {
	if p.cg == nil {
		p.chaG = cha.CallGraph(p.SSA)
		p.cg = vta.CallGraph(p.allFns, p.chaG)
	}
	return p.cg
}

// CHA returns the class-hierarchy call graph.
func (p *Prog) CHA() *callgraph.Graph {
	if p.chaG == nil {
		p.chaG = cha.CallGraph(p.SSA)
	}
	return p.chaG
}

// Pos renders a position relative to the repository root.
func (p *Prog) Pos(pos token.Pos) string {
	if !pos.IsValid() {
		return "?"
	}
	ps := p.Fset.Position(pos)
	f := ps.Filename
	if strings.HasPrefix(f, p.Cfg.Dir+"/") {
		f = strings.TrimPrefix(f, p.Cfg.Dir+"/")
	}
	return fmt.Sprintf("%s:%d", f, ps.Line)
}

// FuncName is a stable, position-free name: "internal/state.(*State).flushResponses",
// closures as "…$1".
func (p *Prog) FuncName(fn *ssa.Function) string {
	if fn == nil {
		return "<nil>"
	}
	// a renamed function (or a closure of one) is reported under its reference name
	if len(p.canonFull) > 0 {
		top := fn
		for top.Parent() != nil {
			top = top.Parent()
		}
		if canon, ok := p.canonFull[top]; ok {
			raw := p.rawFuncName(fn)
			rawTop := p.rawFuncName(top)
			if strings.HasPrefix(raw, rawTop) {
				return canon + raw[len(rawTop):]
			}
		}
	}
	return p.rawFuncName(fn)
}

// rawFuncName is the name as declared in the analysed tree.
func (p *Prog) rawFuncName(fn *ssa.Function) string {
	if fn == nil {
		return "<nil>"
	}
	s := fn.String()
	s = strings.ReplaceAll(s, ModPath+"/", "")
	s = strings.ReplaceAll(s, ModPath+".", "gluon.")
	// "(*internal/state.State).m" -> "internal/state.(*State).m"
	if strings.HasPrefix(s, "(") {
		if end := strings.Index(s, ")"); end > 0 {
			inner := s[1:end]
			star := ""
			if strings.HasPrefix(inner, "*") {
				star = "*"
				inner = inner[1:]
			}
			// split at the last '.' that precedes any '[' (type arguments)
			cut := inner
			if br := strings.Index(cut, "["); br >= 0 {
				cut = cut[:br]
			}
			if dot := strings.LastIndex(cut, "."); dot >= 0 {
				s = inner[:dot] + ".(" + star + inner[dot+1:] + ")" + s[end+1:]
			}
		}
	}
	return s
}

// Func looks a function or method up by its FuncName.  Returns nil if absent.
func (p *Prog) Func(name string) *ssa.Function {
	p.indexFuncs()
	return p.byName[name]
}

var _ = types.Universe

func (p *Prog) indexFuncs() {
	if p.byName != nil {
		return
	}
	p.byName = map[string]*ssa.Function{}
	for _, fn := range p.Funcs {
		n := p.FuncName(fn)
		if _, dup := p.byName[n]; !dup {
			p.byName[n] = fn
		}
	}
}

// CheckTrustedBase re-checks the facts the call-graph soundness argument rests on:
// gluon's own non-test packages do not import unsafe, and reflect only where listed.
func (p *Prog) CheckTrustedBase() error {
	allowReflect := map[string]bool{"watcher": true}
	for _, pkg := range p.Pkgs {
		rel := RelPkg(pkg.PkgPath)
		if strings.HasPrefix(rel, "benchmarks") || strings.HasPrefix(rel, "tests") || strings.HasPrefix(rel, "demo") || strings.HasPrefix(rel, "tools") || strings.Contains(rel, "/mock") {
			continue
		}
		for imp := range pkg.Imports {
			if imp == "unsafe" {
				return fmt.Errorf("package %s imports unsafe: call-graph soundness argument no longer holds", rel)
			}
			if imp == "reflect" && !allowReflect[rel] {
				return fmt.Errorf("package %s imports reflect: call-graph soundness argument must be re-examined", rel)
			}
		}
	}
	return nil
}
